#!/usr/bin/env python3
"""Writes /verif/MANIFEST.json from the table below and the rules registered in the checker."""
import json, subprocess, os, sys
V = os.path.dirname(os.path.dirname(os.path.abspath(__file__)))
ENV = "GOFLAGS=-mod=mod GOPROXY=off GOSUMDB=off GOTOOLCHAIN=local GOWORK=off"
claimed = json.load(open(os.path.join(V, "tools", "claims.json")))
props = [json.loads(l) for l in open(os.path.join(V, "properties.jsonl"))]
checks, na = [], []
for p in props:
    pid = p["id"]
    c = claimed.get(pid)
    if not c or c.get("not_applicable"):
        na.append({"property_id": pid, "reason": (c or {}).get("not_applicable", "no static rule implemented yet for this property")})
        continue
    checks.append({
        "property_id": pid,
        "quick_cmd": f"./bin/desynclint -property {pid} -tier quick",
        "thorough_cmd": f"./bin/desynclint -property {pid} -tier thorough",
        "evidence_file": f"evidence/{pid}.json",
        "replay_cmd_template": "./bin/desynclint -explain {path}",
        "engine": "desynclint",
        "level_claimed": {"category": "other", "text": c["text"], "design_ref": c.get("design_ref", "DESIGN.md §3 " + pid)},
        "level_note": c["note"],
        "technique": c["technique"],
    })
m = {
    "version": 1,
    "setup_cmd": f"cd checker && env {ENV} go build -o ../bin/desynclint . && cd /repo && env {ENV} go build ./... ",
    "hooks": {
        "guard": "verif",
        "enable": "none needed: static analysis reads the source of /repo as it is; no file of /repo uses the tag",
        "baseline_off_cmd": f"cd /repo && env {ENV} go test -json -vet=off -count=1 -timeout 25m ./...",
        "source_commits": [],
        "add_only": True,
    },
    "engines": [{
        "name": "desynclint",
        "path": "checker/",
        "serves_properties": [c["property_id"] for c in checks],
        "kind_free_text": "repository-specific static analyser over go/packages + go/ssa (x/tools v0.29.0): path-sensitive explorer with finite abstract domains, cut-set dominance, lock-set, taint, table-agreement and who-may-construct rules; nothing of /repo is executed",
    }],
    "checks": checks,
    "not_applicable": na,
    "notes": "All checks are static analyses of /repo's current working tree (no test run, no harness). Exit 0 = every structural necessary condition held; exit 1 + VIOLATION line = a rule instance is violated; exit 2 + UNDECIDED = the tree does not type-check or the analyser failed. Genuine defects found on the pinned tree were repaired by 'fix:' commits or are listed in known-findings.txt.",
}
json.dump(m, open(os.path.join(V, "MANIFEST.json"), "w"), indent=1)
print("checks", len(checks), "not_applicable", len(na))
