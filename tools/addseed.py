#!/usr/bin/env python3
"""addseed.py <id> <property> <detected_by> <how: blind|after> <round> <breaks> <needs> [note]  - adds a row to tools/seeds.json"""
import json,os,sys
V=os.path.dirname(os.path.dirname(os.path.abspath(__file__)))
p=os.path.join(V,'tools','seeds.json')
T=json.load(open(p))
a=sys.argv[1:]
T[a[0]]={'property':a[1],'breaks':a[5],'needs':a[6],'detected_by':a[2],'how':a[3],'note':a[7] if len(a)>7 else '','round':int(a[4])}
json.dump(T,open(p,'w'),indent=1)
