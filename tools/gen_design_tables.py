#!/usr/bin/env python3
"""Regenerates the machine-derived tables of DESIGN.md §7 (between the BEGIN/END markers)."""
import json, subprocess, os, re, glob
V=os.path.dirname(os.path.dirname(os.path.abspath(__file__)))
rules=subprocess.run([os.path.join(V,'bin','desynclint'),'-rules'],capture_output=True,text=True).stdout.strip().split('\n')
out=[]
out.append('### 7.1 Rules as implemented (`bin/desynclint -rules`)\n')
out.append('| property | rule | floor | rule applied |')
out.append('|---|---|---|---|')
for l in rules:
    p,r,f,d=l.split('\t')
    out.append(f'| {p} | `{r}` | {f.replace("floor=","")} | {d} |')
out.append('')
# seeds
seeds=json.load(open(os.path.join(V,'tools','seeds.json')))
out.append('### 7.2 Seeded changes (independent sub-agents) and the check that reports each\n')
out.append('Each change was confirmed in a scratch worktree (`tools/confirm_seed.sh`: builds, the 249 baseline tests pass with it, the demonstration fails with it and passes without it) and is kept under `seeded/<id>/`.  "first" = reported by the rule as written from this design before the change was looked at; "added" = missed or not yet covered when the change arrived, rule added or strengthened afterwards (what was added is in the note).\n')
out.append('| seed | breaks | reported by | first/added | note |')
out.append('|---|---|---|---|---|')
for sid in sorted(seeds):
    s=seeds[sid]
    det=s.get('detected_by') or '-'
    how=s.get('how','')
    if s.get('expect')=='miss': det='**not reported** (documented limit)'
    out.append(f"| {sid} | {s['breaks']} | `{det}` | {how} | {s.get('note','')} |")
out.append('')
# mutants
m=json.load(open(os.path.join(V,'selftest','mutants.json')))
byp={}
for x in m:
    byp.setdefault(x['property'],[0,0])
    byp[x['property']][0 if x['kind']=='break' else 1]+=1
out.append('### 7.3 Variant catalogue of the self-test\n')
out.append('| property | breaking variants | equivalent variants | reverted fixes | seeded |')
out.append('|---|---|---|---|---|')
idx=json.load(open(os.path.join(V,'regress','INDEX.json')))
for p in sorted(byp):
    reg=sum(1 for k,v in idx.items() if p in v['properties'])
    sd=sum(1 for k,v in seeds.items() if v['property']==p)
    out.append(f'| {p} | {byp[p][0]} | {byp[p][1]} | {reg} | {sd} |')
out.append('')
text='\n'.join(out)
d=open(os.path.join(V,'DESIGN.md')).read()
b,e='<!-- BEGIN GENERATED TABLES -->','<!-- END GENERATED TABLES -->'
if b in d:
    d=d[:d.index(b)+len(b)]+'\n'+text+'\n'+d[d.index(e):]
else:
    d+='\n'+b+'\n'+text+'\n'+e+'\n'
open(os.path.join(V,'DESIGN.md'),'w').write(d)
print('tables written')
