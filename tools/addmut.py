#!/usr/bin/env python3
"""addmut.py: append mutants given as python literal list on stdin to selftest/mutants.json (replacing same ids)."""
import json,sys,ast,os
V=os.path.dirname(os.path.dirname(os.path.abspath(__file__)))
p=os.path.join(V,'selftest','mutants.json')
cur=json.load(open(p))
new=ast.literal_eval(sys.stdin.read())
ids={m['id'] for m in new}
cur=[m for m in cur if m['id'] not in ids]+new
json.dump(cur,open(p,'w'),indent=1)
print(len(cur),'mutants')
