#!/usr/bin/env python3
"""Writes seeded/<id>/meta.json for confirmed seeds from the table below (the 'needs' texts summarise the agent reports)."""
import json,os,sys
V=os.path.dirname(os.path.dirname(os.path.abspath(__file__)))
T=json.load(open(os.path.join(V,'tools','seeds.json')))
for sid,info in T.items():
    d=os.path.join(V,'seeded',sid)
    if not os.path.isdir(d): 
        print('missing',sid); continue
    log=open(os.path.join(d,'confirm.log')).read() if os.path.exists(os.path.join(d,'confirm.log')) else ''
    meta={
     'property':info['property'],
     'breaks':info['breaks'],
     'needs_to_manifest':info['needs'],
     'source':'written by an independent sub-agent that was given only the property text and a scratch worktree',
     'confirmed':'tools/confirm_seed.sh: (1) clean worktree + demo test passes, (2) change applied: go build ok, demo test fails, (3) full existing suite with the change: all 249 baseline tests pass',
     'confirm_log':log.strip().split('\n'),
     'detected_by':info.get('detected_by',''),
     'expect':info.get('expect',''),
     'detection_note':info.get('note',''),
    }
    json.dump(meta,open(os.path.join(d,'meta.json'),'w'),indent=1)
print('ok')
