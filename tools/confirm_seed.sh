#!/bin/bash
# confirm_seed.sh <worktree> <A|B> <property> <seed-id>
# Confirms an agent-written change in its scratch worktree: builds, the existing suite passes with
# it, the demonstration fails with it and passes without it.  Then runs the property's check
# against the changed worktree and records everything under /verif/seeded/<seed-id>/.
set -u
WT=$1; V=$2; PROP=$3; ID=$4
export GOFLAGS=-mod=mod GOPROXY=off GOSUMDB=off GOTOOLCHAIN=local GOWORK=off
OUT=$WT/OUT
LOG=$(mktemp)
cd $WT || exit 9
git checkout -q -- . ; find . -name zz_seed_demo_test.go -delete
DEMO=$OUT/${V}_demo_test.go.txt
DIR=$(head -5 $DEMO | grep -o 'dir: *[^ ]*' | head -1 | sed 's/dir: *//')
[ -z "$DIR" ] && DIR=.
TESTS=$(grep -o '^func Test[A-Za-z0-9_]*' $DEMO | sed 's/func //' | paste -sd'|')
echo "seed $ID property $PROP variant $V dir=$DIR tests=$TESTS" | tee -a $LOG
# 1. clean + demo passes
cp $DEMO $DIR/zz_seed_demo_test.go
( cd $DIR && timeout 600 go test -vet=off -count=1 -timeout 300s -run "^($TESTS)\$" . ) > /tmp/seedrun.$$ 2>&1; CLEAN=$?
echo "clean+demo exit=$CLEAN" | tee -a $LOG
# 2. apply change
git apply $OUT/$V.diff || { echo "APPLY FAILED" | tee -a $LOG; exit 8; }
go build ./... > /tmp/seedbuild.$$ 2>&1; BUILD=$?
echo "build exit=$BUILD" | tee -a $LOG
( cd $DIR && timeout 900 go test -vet=off -count=1 -timeout 600s -run "^($TESTS)\$" . ) > /tmp/seedrun2.$$ 2>&1; CHANGED=$?
echo "changed+demo exit=$CHANGED" | tee -a $LOG
tail -5 /tmp/seedrun2.$$ >> $LOG
# 3. suite with change, without demo
rm -f $DIR/zz_seed_demo_test.go
go test -json -vet=off -count=1 -timeout 25m ./... > /tmp/seedsuite.$$ 2>&1
SUITE=$(python3 - /tmp/seedsuite.$$ <<'PY'
import json,sys
res={}
for l in open(sys.argv[1]):
    try: e=json.loads(l)
    except: continue
    if e.get('Test') and e.get('Action') in('pass','fail','skip'): res[e['Package']+'::'+e['Test']]=e['Action']
base=json.load(open('/root/.vp/BASELINE.json'))['stable_pass']
missing=[t for t in base if res.get(t)!='pass']
print("suite_pass=%d baseline_missing=%d %s"%(sum(1 for v in res.values() if v=='pass'),len(missing),missing[:3]))
PY
)
echo "$SUITE" | tee -a $LOG
# 4. the check against the changed worktree
${LINT:-/verif/bin/desynclint} -property $PROP -repo $WT -no-evidence > /tmp/seedcheck.$$ 2>&1; CHECK=$?
echo "check exit=$CHECK" | tee -a $LOG
grep -E "violation rule=|UNDECIDED" /tmp/seedcheck.$$ | head -5 | cut -c1-400 | tee -a $LOG
git checkout -q -- .
if [ $CLEAN -eq 0 ] && [ $BUILD -eq 0 ] && [ $CHANGED -ne 0 ] && echo "$SUITE" | grep -q "baseline_missing=0"; then
  D=/verif/seeded/$ID; mkdir -p $D
  cp $OUT/$V.diff $D/patch.diff; cp $DEMO $D/demo_test.go.txt; cp $LOG $D/confirm.log
  echo "CONFIRMED -> $D (check exit=$CHECK)"
else
  echo "NOT CONFIRMED"; cat $LOG
fi
rm -f /tmp/seedrun.$$ /tmp/seedrun2.$$ /tmp/seedsuite.$$ /tmp/seedcheck.$$ /tmp/seedbuild.$$ $LOG
