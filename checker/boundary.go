package main

// E-BOUND: interval boundaries.  A comparison of two integer expressions that are linear in
// memory locations and parameters splits the integers into a lower and an upper part:
//
//	x op y   <=>   D <= t   (lower part)   |   D >= t+1   (upper part)
//
// with D the non-constant part of x-y.  Which of < and <= is written, on which side the
// constant sits and whether the condition is negated does not matter; the partition point t
// does.  Off-by-one slips at range ends (inclusive vs exclusive end, > vs >=) change t and
// nothing else, and no test of the suite probes the exact boundary.

import (
	"fmt"
	"go/constant"
	"go/token"
	"os"
	"sort"
	"strings"

	"golang.org/x/tools/go/ssa"
)

type partition struct {
	atoms map[string]int // D, canonical sign
	t     int64
	pos   token.Pos
	upper bool // the comparison operator holds exactly on the upper part
	truth bool // cmpOf's truth: the If's true edge is taken when the operator holds == truth
	cmpv  *ssa.BinOp
}

func partitionOf(cond ssa.Value) (partition, bool) {
	cm, truth, ok := cmpOf(cond)
	if !ok {
		return partition{}, false
	}
	lx, ly := linearB(cm.x, 0), linearB(cm.y, 0)
	if !lx.ok || !ly.ok {
		return partition{}, false
	}
	d := lx.add(ly, -1)
	var t int64
	upper := false
	switch cm.op {
	case token.LSS, token.GEQ: // D+k < 0  <=> D <= -k-1
		t = -d.k - 1
		upper = cm.op == token.GEQ
	case token.LEQ, token.GTR: // D+k <= 0 <=> D <= -k
		t = -d.k
		upper = cm.op == token.GTR
	default:
		return partition{}, false
	}
	atoms := map[string]int{}
	for a, n := range d.atoms {
		if n != 0 {
			atoms[a] += n
		}
	}
	for a, n := range atoms {
		if n == 0 {
			delete(atoms, a)
		}
	}
	if len(atoms) == 0 {
		return partition{}, false
	}
	// canonical sign: the smallest atom name has a positive coefficient
	var names []string
	for a := range atoms {
		names = append(names, a)
	}
	sort.Strings(names)
	if atoms[names[0]] < 0 {
		for a := range atoms {
			atoms[a] = -atoms[a]
		}
		t = -t - 1
		upper = !upper
	}
	bo, _ := stripNot(cond).(*ssa.BinOp)
	return partition{atoms: atoms, t: t, upper: upper, truth: truth, cmpv: bo}, true
}

func (p partition) String() string {
	var names []string
	for a := range p.atoms {
		names = append(names, a)
	}
	sort.Strings(names)
	var parts []string
	for _, a := range names {
		parts = append(parts, fmt.Sprintf("%+d*%s", p.atoms[a], a))
	}
	return fmt.Sprintf("{%s <= %d | >= %d}", strings.Join(parts, " "), p.t, p.t+1)
}

// sameAtoms reports whether p is over exactly the wanted atoms (up to overall sign) and returns
// the partition point expressed for the wanted sign.
func (p partition) over(want map[string]int) (int64, bool) {
	if len(p.atoms) != len(want) {
		return 0, false
	}
	same, neg := true, true
	for a, n := range want {
		if p.atoms[a] != n {
			same = false
		}
		if p.atoms[a] != -n {
			neg = false
		}
	}
	switch {
	case same:
		return p.t, true
	case neg:
		return -p.t - 1, true
	}
	return 0, false
}

// partitionsIn lists the partitions of all integer comparisons of fn (conditions of Ifs and
// comparison values returned from closures, e.g. sort.Search predicates).
func partitionsIn(fns []*ssa.Function) []partition {
	var out []partition
	for _, fn := range fns {
		instrs(fn, func(_ *ssa.BasicBlock, _ int, ins ssa.Instruction) {
			b, ok := ins.(*ssa.BinOp)
			if !ok {
				return
			}
			switch b.Op {
			case token.LSS, token.LEQ, token.GTR, token.GEQ:
				if p, ok := partitionOf(b); ok {
					p.pos = b.Pos()
					out = append(out, p)
				}
			case token.EQL, token.NEQ:
				// "x/K == c" is the range c*K <= x <= c*K+K-1: two partition points
				if atoms, lo, hi, ok := quotientRange(b); ok {
					out = append(out, partition{atoms: atoms, t: lo - 1, pos: b.Pos(), upper: true, truth: true, cmpv: b},
						partition{atoms: atoms, t: hi, pos: b.Pos(), upper: false, truth: true, cmpv: b})
				}
			}
		})
	}
	return out
}

// boundaryRule checks, for each wanted difference D, that at least min comparisons over D exist in
// the functions and that every one of them has the wanted partition point.
type boundarySpec struct {
	name  string
	atoms map[string]int
	t     int64
	min   int
	why   string
}

func (c *Ctx) boundaryRule(key string, fns []*ssa.Function, specs []boundarySpec) {
	c.boundaryRuleSets(key, fns, specs, nil)
}

// boundaryRuleSets: sets[name], when present, lists the partition points the comparisons over the
// spec's atoms must have (each at least once, and no other); the spec's t is then ignored.
func (c *Ctx) boundaryRuleSets(key string, fns []*ssa.Function, specs []boundarySpec, sets map[string][]int64) {
	ps := partitionsIn(fns)
	for _, sp := range specs {
		n := 0
		seenT := map[int64]bool{}
		for _, p := range ps {
			t, ok := p.over(sp.atoms)
			if !ok {
				continue
			}
			n++
			good := t == sp.t
			want := fmt.Sprint(sp.t)
			set := sets[sp.name]
			if len(set) > 0 {
				good = false
				want = fmt.Sprint(set)
				for _, x := range set {
					if x == t {
						good = true
					}
				}
			}
			seenT[t] = true
			c.verdict(good, fmt.Sprintf("%s:%s@%d", key, sp.name, t), p.pos, fmt.Sprintf("partition %s as required (%s)", p, sp.why),
				fmt.Sprintf("the comparison splits at %s; required is the split at %s (%s): the boundary case is decided the wrong way (off by one)", p, want, sp.why))
		}
		for _, x := range sets[sp.name] {
			if !seenT[x] {
				c.bad(fmt.Sprintf("%s:%s@%d", key, sp.name, x), token.NoPos, "no comparison splits at %d (%s)", x, sp.why)
			}
		}
		if n < sp.min {
			c.bad(fmt.Sprintf("%s:%s", key, sp.name), token.NoPos, "found %d comparison(s) of this shape, expected at least %d: the range computation is not recognised (%s)", n, sp.min, sp.why)
		}
	}
}

// linearB is linearLoc that also looks through single-assignment local cells (a variable that is
// stored exactly once, e.g. "end := start+length-1" captured by a closure, or a spilled parameter).
func linearB(v ssa.Value, depth int) linform {
	switch x := v.(type) {
	case *ssa.Const:
		if x.Value != nil && x.Value.Kind() == constant.Int {
			if !constFitsInt64(x) {
				return linform{atoms: map[string]int{"const:" + x.Value.ExactString(): 1}, ok: true}
			}
			return linform{atoms: map[string]int{}, k: constInt64(x), ok: true}
		}
	case *ssa.BinOp:
		if depth < 10 && (x.Op == token.ADD || x.Op == token.SUB) {
			a, b := linearB(x.X, depth+1), linearB(x.Y, depth+1)
			if x.Op == token.ADD {
				return a.add(b, 1)
			}
			return a.add(b, -1)
		}
	case *ssa.Convert:
		return linearB(x.X, depth+1)
	case *ssa.ChangeType:
		return linearB(x.X, depth+1)
	case *ssa.Parameter:
		if as := boundArgs(x); len(as) == 1 && depth < 10 {
			return linearB(as[0], depth+1)
		}
	case *ssa.UnOp:
		if x.Op == token.MUL && depth < 10 {
			var cell *ssa.Alloc
			switch a := x.X.(type) {
			case *ssa.Alloc:
				cell = a
			case *ssa.FreeVar:
				if cs := captured(a); len(cs) == 1 {
					cell, _ = cs[0].(*ssa.Alloc)
				}
			}
			if cell != nil {
				if sts := storesTo(cell); len(sts) == 1 {
					return linearB(sts[0].Val, depth+1)
				}
			}
		}
	}
	return linform{atoms: map[string]int{batom(v, depth): 1}, ok: true}
}

// dumpPartitions (debug aid, DESYNCLINT_DUMP_PARTITIONS=<fnKey,...>) prints the partitions of the named functions.
func (c *Ctx) dumpPartitions() {
	want := os.Getenv("DESYNCLINT_DUMP_PARTITIONS")
	if want == "" {
		return
	}
	for _, k := range strings.Split(want, ",") {
		fn := c.byKey[k]
		if fn == nil {
			fmt.Fprintf(os.Stderr, "no function %s\n", k)
			continue
		}
		for _, p := range partitionsIn(withClosures(fn)) {
			fmt.Fprintf(os.Stderr, "partition %s %s at %s\n", k, p, c.pos(p.pos))
		}
	}
}

// batom names a non-linear leaf of a boundary expression by its role, not by variable names:
// parameters by index, fields by declaring type and field name ("[i]" prefixed when the struct is
// an element of an indexed slice), len() of such things, phis by the forms of their edges.
func batom(v ssa.Value, depth int) string {
	switch x := v.(type) {
	case *ssa.Parameter:
		if as := boundArgs(x); len(as) == 1 && depth < 8 {
			return batom(as[0], depth+1)
		}
		for i, p := range x.Parent().Params {
			if p == x {
				return fmt.Sprintf("param#%d", i)
			}
		}
	case *ssa.UnOp:
		if x.Op == token.MUL {
			if fa, ok := x.X.(*ssa.FieldAddr); ok {
				return bfield(fa.X, fieldOf(fa))
			}
		}
	case *ssa.Field:
		return bfield(x.X, fieldOf(x))
	case *ssa.Call:
		if callee(x) == "builtin:len" {
			return "len(" + batom(x.Call.Args[0], depth+1) + ")"
		}
		// a new helper that computes the value ("m := c.limit()"): the forms of what it returns
		if h := directCallee(x); h != nil && newHelpers[h] && h.Blocks != nil && h.Signature.Results().Len() == 1 && depth < 6 {
			var parts []string
			for _, r := range returnsOf(h) {
				for _, l := range phiEdgesFlat(r.Results[0], 0) {
					parts = append(parts, linearB(l, depth+3).String())
				}
			}
			sort.Strings(parts)
			if len(parts) == 1 {
				return parts[0]
			}
			if len(parts) > 1 {
				return "phi(" + strings.Join(parts, "|") + ")"
			}
		}
		return "call:" + callee(x)
	case *ssa.Extract:
		if c, ok := x.Tuple.(*ssa.Call); ok {
			return fmt.Sprintf("call:%s#%d", callee(c), x.Index)
		}
	case *ssa.Phi:
		if depth < 6 {
			var parts []string
			for _, e := range x.Edges {
				if e == v {
					continue
				}
				parts = append(parts, linearB(e, depth+3).String())
			}
			sort.Strings(parts)
			return "phi(" + strings.Join(parts, "|") + ")"
		}
	case *ssa.Convert:
		return batom(x.X, depth+1)
	case *ssa.ChangeType:
		return batom(x.X, depth+1)
	case *ssa.Slice:
		return batom(x.X, depth+1) + "[:]"
	case *ssa.BinOp:
		// a product, quotient, remainder, shift or mask: named by its operands, so that two
		// occurrences of the same computation are the same atom and different ones are not
		if depth < 5 {
			switch x.Op {
			case token.MUL, token.QUO, token.REM, token.SHL, token.SHR, token.AND, token.OR, token.XOR, token.AND_NOT:
				return "(" + linearB(x.X, depth+3).String() + x.Op.String() + linearB(x.Y, depth+3).String() + ")"
			}
		}
	}
	return fmt.Sprintf("?%T", v)
}

// phiEdgesFlat lists the values a returned value can be, looking through phis.
func phiEdgesFlat(v ssa.Value, depth int) []ssa.Value {
	if phi, ok := v.(*ssa.Phi); ok && depth < 4 {
		var out []ssa.Value
		for _, e := range phi.Edges {
			if e != v {
				out = append(out, phiEdgesFlat(e, depth+1)...)
			}
		}
		return out
	}
	return []ssa.Value{v}
}

// bfield: "Type.field", with "[i]" in front when the struct is reached through an index
// expression (an element of a slice or array), looking through embedded structs.
func bfield(base ssa.Value, name string) string {
	for {
		switch b := base.(type) {
		case *ssa.FieldAddr:
			base = b.X
			continue
		case *ssa.Field:
			base = b.X
			continue
		case *ssa.UnOp:
			if b.Op == token.MUL {
				base = b.X
				continue
			}
		case *ssa.IndexAddr:
			return "[i]" + name
		case *ssa.Index:
			return "[i]" + name
		}
		break
	}
	return name
}

// provenLower: the best constant lower bound of expr that the branches dominating instruction at
// establish.  Every dominating comparison contributes, whichever way it is written (40 <= len(b),
// !(len(b) < 40), len(b)-40 >= 0 ...); for an instruction inside a new helper with a single call
// site the caller's branches that dominate the call count as well.
func provenLower(at ssa.Instruction, expr ssa.Value) (int64, bool) {
	return provenLowerWith(at, expr, nil)
}

// provenLowerWith is provenLower with known values for some atoms (the parameters of a shared new
// helper at the one call site that is being looked at): a guard D >= t+1 gives
// expr >= t+1 + (expr - D) whenever the remainder expr - D consists of known atoms only.
func provenLowerWith(at ssa.Instruction, expr ssa.Value, known map[string]int64) (int64, bool) {
	return provenLowerLin(at, linearB(expr, 0), known)
}

// provenLowerLin: the same for an expression given as a linear form over the atoms of at's function.
func provenLowerLin(at ssa.Instruction, e linform, known map[string]int64) (int64, bool) {
	if !e.ok {
		return 0, false
	}
	if len(nonZero(e.atoms)) == 0 {
		return e.k, true
	}
	best, found := int64(0), false
	note := func(v int64) {
		if !found || v > best {
			best, found = v, true
		}
	}
	scan := func(fn *ssa.Function, at ssa.Instruction) {
		for _, b := range fn.Blocks {
			iff := lastIf(b)
			if iff == nil {
				continue
			}
			p, ok := partitionOf(iff.Cond)
			if !ok {
				continue
			}
			for _, taken := range []bool{true, false} {
				to := b.Succs[1]
				if taken {
					to = b.Succs[0]
				}
				if !(len(to.Preds) == 1 && (to == at.Block() || to.Dominates(at.Block()))) {
					continue
				}
				upperHere := (p.upper == p.truth) == taken
				// e's atoms equal to +D or -D ?
				same, neg := len(nonZero(e.atoms)) == len(p.atoms), len(nonZero(e.atoms)) == len(p.atoms)
				for a, n := range p.atoms {
					if e.atoms[a] != n {
						same = false
					}
					if e.atoms[a] != -n {
						neg = false
					}
				}
				switch {
				case same && upperHere: // D >= t+1
					note(p.t + 1 + e.k)
				case neg && !upperHere: // D <= t  =>  -D >= -t
					note(-p.t + e.k)
				default:
					if len(known) == 0 {
						continue
					}
					// remainder of known atoms: expr = (+-D) + R
					sign := 1
					if !upperHere {
						sign = -1
					}
					rem := e.k
					okRem := true
					seenAtoms := map[string]bool{}
					for a, n := range e.atoms {
						seenAtoms[a] = true
						r := n - sign*p.atoms[a]
						if r == 0 {
							continue
						}
						v, isKnown := known[a]
						if !isKnown {
							okRem = false
							break
						}
						rem += int64(r) * v
					}
					for a, n := range p.atoms {
						if seenAtoms[a] || n == 0 {
							continue
						}
						v, isKnown := known[a]
						if !isKnown {
							okRem = false
							break
						}
						rem += int64(-sign*n) * v
					}
					if !okRem {
						continue
					}
					if upperHere {
						note(p.t + 1 + rem)
					} else {
						note(-p.t + rem)
					}
				}
			}
		}
	}
	fn := at.Parent()
	scan(fn, at)
	for depth := 0; depth < 3 && newHelpers[fn] && len(helperSites[fn]) == 1; depth++ {
		cs := helperSites[fn][0]
		fn = cs.Parent()
		scan(fn, cs)
	}
	return best, found
}

// provenUpper is the mirror image of provenLower: the best constant upper bound of expr at at.
func provenUpper(at ssa.Instruction, expr ssa.Value) (int64, bool) {
	return provenUpperForm(at, linearB(expr, 0))
}

// provenUpperForm is provenUpper for a linear form (e.g. the difference index - len(x)).
func provenUpperForm(at ssa.Instruction, e linform) (int64, bool) {
	if !e.ok {
		return 0, false
	}
	if len(nonZero(e.atoms)) == 0 {
		return e.k, true
	}
	best, found := int64(0), false
	note := func(v int64) {
		if !found || v < best {
			best, found = v, true
		}
	}
	scan := func(fn *ssa.Function, at ssa.Instruction) {
		for _, b := range fn.Blocks {
			iff := lastIf(b)
			if iff == nil {
				continue
			}
			p, ok := partitionOf(iff.Cond)
			if !ok {
				continue
			}
			for _, taken := range []bool{true, false} {
				to := b.Succs[1]
				if taken {
					to = b.Succs[0]
				}
				if !(len(to.Preds) == 1 && (to == at.Block() || to.Dominates(at.Block()))) {
					continue
				}
				upperHere := (p.upper == p.truth) == taken
				same, neg := len(nonZero(e.atoms)) == len(p.atoms), len(nonZero(e.atoms)) == len(p.atoms)
				for a, n := range p.atoms {
					if e.atoms[a] != n {
						same = false
					}
					if e.atoms[a] != -n {
						neg = false
					}
				}
				switch {
				case same && !upperHere: // D <= t
					note(p.t + e.k)
				case neg && upperHere: // D >= t+1  =>  -D <= -(t+1)
					note(-(p.t + 1) + e.k)
				}
			}
		}
	}
	fn := at.Parent()
	scan(fn, at)
	for depth := 0; depth < 3 && newHelpers[fn] && len(helperSites[fn]) == 1; depth++ {
		cs := helperSites[fn][0]
		fn = cs.Parent()
		scan(fn, cs)
	}
	return best, found
}

// boundaryRuleFn is boundaryRule with a matcher instead of a fixed atom table: match receives the
// difference D (canonical sign) and answers with the sign (+1/-1) under which it is the wanted
// quantity, or 0.
func (c *Ctx) boundaryRuleFn(key, name string, fns []*ssa.Function, match func(atoms map[string]int) int, t int64, min int, why string) {
	n := 0
	for _, p := range partitionsIn(fns) {
		sign := match(p.atoms)
		if os.Getenv("DESYNCLINT_DEBUG_PART") != "" {
			fmt.Fprintf(os.Stderr, "partition %s/%s: %s atoms=%v sign=%d\n", key, name, p, p.atoms, sign)
		}
		if sign == 0 {
			continue
		}
		pt := p.t
		if sign < 0 {
			pt = -p.t - 1
		}
		n++
		c.verdict(pt == t, fmt.Sprintf("%s:%s@%d", key, name, pt), p.pos, fmt.Sprintf("partition %s as required (%s)", p, why),
			fmt.Sprintf("the comparison splits at %s; required is the split at %d (%s): the boundary case is decided the wrong way (off by one)", p, t, why))
	}
	if n < min {
		c.bad(fmt.Sprintf("%s:%s", key, name), token.NoPos, "found %d comparison(s) of this shape, expected at least %d: the range computation is not recognised (%s)", n, min, why)
	}
}

// altForms lists the linear forms a value can take, expanding phis, sums and the results of new
// helpers (each return is one alternative).
func altForms(v ssa.Value, depth int) []linform {
	if depth > 5 {
		return []linform{linearB(v, 0)}
	}
	switch x := v.(type) {
	case *ssa.Phi:
		var out []linform
		for _, e := range x.Edges {
			if e != v {
				out = append(out, altForms(e, depth+1)...)
			}
		}
		return out
	case *ssa.BinOp:
		if x.Op == token.ADD || x.Op == token.SUB {
			var out []linform
			sign := 1
			if x.Op == token.SUB {
				sign = -1
			}
			for _, a := range altForms(x.X, depth+1) {
				for _, b := range altForms(x.Y, depth+1) {
					out = append(out, a.add(b, sign))
				}
			}
			return out
		}
	case *ssa.Convert:
		return altForms(x.X, depth)
	case *ssa.ChangeType:
		return altForms(x.X, depth)
	case *ssa.Extract:
		if call, ok := x.Tuple.(*ssa.Call); ok {
			if rs := helperResults(call, x.Index); rs != nil {
				var out []linform
				for _, r := range rs {
					out = append(out, altForms(r, depth+1)...)
				}
				return out
			}
		}
	case *ssa.Call:
		if rs := helperResults(x, 0); rs != nil {
			var out []linform
			for _, r := range rs {
				out = append(out, altForms(r, depth+1)...)
			}
			return out
		}
	case *ssa.UnOp:
		if x.Op == token.MUL {
			if al, ok := x.X.(*ssa.Alloc); ok {
				if sts := storesTo(al); len(sts) >= 1 && len(sts) <= 4 {
					var out []linform
					for _, st := range sts {
						out = append(out, altForms(st.Val, depth+1)...)
					}
					return out
				}
			}
		}
	}
	return []linform{linearB(v, 0)}
}

// quotientRange recognises "x/K == c" (or !=) with positive constants K and c over a single
// integer atom x with coefficient 1: the values of x for which the quotient equals c are exactly
// c*K .. c*K+K-1 (Go's division truncates toward zero, so this holds for c >= 1).
func quotientRange(b *ssa.BinOp) (atoms map[string]int, lo, hi int64, ok bool) {
	for _, pr := range [][2]ssa.Value{{b.X, b.Y}, {b.Y, b.X}} {
		q, isQ := pr[0].(*ssa.BinOp)
		c, isC := pr[1].(*ssa.Const)
		if !isQ || q.Op != token.QUO || !isC || c.Value == nil || c.Value.Kind() != constant.Int {
			continue
		}
		k, isK := q.Y.(*ssa.Const)
		if !isK || k.Value == nil || k.Value.Kind() != constant.Int || constInt64(k) <= 0 || constInt64(c) < 1 {
			continue
		}
		lf := linearB(q.X, 0)
		nz := nonZero(lf.atoms)
		if !lf.ok || len(nz) != 1 || lf.atoms[nz[0]] != 1 || lf.k != 0 {
			continue
		}
		lo = constInt64(c) * constInt64(k)
		return map[string]int{nz[0]: 1}, lo, lo + constInt64(k) - 1, true
	}
	return nil, 0, 0, false
}
