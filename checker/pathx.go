package main

// E-PATH: a small path-sensitive explorer over go/ssa.  It enumerates the paths of a function
// from a start point to its exits (each block at most MaxVisits times per path), keeps an
// abstract environment of tiny finite domains (nil-ness, bool, error class, small ints) for
// SSA values and memory cells, prunes branches whose condition is decided, and records
// events through rule-specific hooks.  No solver is involved.

import (
	"fmt"
	"go/constant"
	"go/token"
	"go/types"
	"strings"

	"golang.org/x/tools/go/ssa"
)

// explorerBoost is added to every rule's per-path block visit bound (set by the thorough tier).
var explorerBoost = 0

type Nilness int

const (
	NUnk Nilness = iota
	NNil
	NNon
)

type Boolv int

const (
	BUnk Boolv = iota
	BTrue
	BFalse
)

// error classes
const (
	ClsNil      = "nil"
	ClsMissing  = "ChunkMissing"
	ClsInvalid  = "ChunkInvalid"
	ClsNoObject = "NoSuchObject"
	ClsIntr     = "Interrupted"
	ClsOther    = "other"
)

type Val struct {
	N     Nilness
	B     Boolv
	Class string // "" unknown
	Int   *int64
	Not   string // integers the value is known to differ from (";a;b;"), learnt from != outcomes
	Lo    *int64 // a lower bound of an integer whose exact value is not known (a loop counter)
	Sym   string // provenance label set by rules (e.g. "upstream#1")
}

func (v Val) String() string {
	n := map[Nilness]string{NUnk: "?", NNil: "nil", NNon: "nonnil"}[v.N]
	s := n
	if v.Class != "" {
		s += "/" + v.Class
	}
	if v.B != BUnk {
		s += map[Boolv]string{BTrue: " true", BFalse: " false"}[v.B]
	}
	if v.Int != nil {
		s += fmt.Sprintf(" int=%d", *v.Int)
	}
	if v.Sym != "" {
		s += " <" + v.Sym + ">"
	}
	return s
}

func intVal(i int64) Val { return Val{Int: &i, N: NNon} }

// lower returns the best known lower bound of an integer value.
func (v Val) lower() (int64, bool) {
	if v.Int != nil {
		return *v.Int, true
	}
	if v.Lo != nil {
		return *v.Lo, true
	}
	return 0, false
}

type Event struct {
	Kind string
	Arg  string
	Pos  token.Pos
	Ins  ssa.Instruction
}

type tkey struct {
	t ssa.Value
	i int
}

type contFn func(st *State, results []Val)

type State struct {
	V        map[any]Val
	Alias    map[ssa.Value]ssa.Value // free variable -> captured cell; parameter -> argument
	Args     map[ssa.Value]ssa.Value // parameter of an inlined callee -> the argument value of this call (identity, any type)
	Sel      map[*ssa.Phi]ssa.Value  // interface-typed phi -> the incoming value it took on this path (identity)
	Volatile map[any]bool            // cells that may be written behind the explorer's back
	Fresh    map[ssa.Value]bool      // allocations executed on this path (unwritten fields hold zero values)
	Visit    map[*ssa.BasicBlock]int
	Trail    []string
	Events   []Event
	Flags    map[string]int
	Cont     []contFn
	Defers   []*ssa.Defer
}

func NewState() *State {
	return &State{V: map[any]Val{}, Alias: map[ssa.Value]ssa.Value{}, Args: map[ssa.Value]ssa.Value{}, Sel: map[*ssa.Phi]ssa.Value{}, Volatile: map[any]bool{}, Fresh: map[ssa.Value]bool{}, Visit: map[*ssa.BasicBlock]int{}, Flags: map[string]int{}}
}

func (s *State) Clone() *State {
	c := &State{V: make(map[any]Val, len(s.V)), Alias: make(map[ssa.Value]ssa.Value, len(s.Alias)), Args: make(map[ssa.Value]ssa.Value, len(s.Args)), Sel: make(map[*ssa.Phi]ssa.Value, len(s.Sel)), Volatile: make(map[any]bool, len(s.Volatile)),
		Fresh: make(map[ssa.Value]bool, len(s.Fresh)), Visit: make(map[*ssa.BasicBlock]int, len(s.Visit)), Flags: make(map[string]int, len(s.Flags))}
	for k, v := range s.Fresh {
		c.Fresh[k] = v
	}
	for k, v := range s.V {
		c.V[k] = v
	}
	for k, v := range s.Alias {
		c.Alias[k] = v
	}
	for k, v := range s.Args {
		c.Args[k] = v
	}
	for k, v := range s.Sel {
		c.Sel[k] = v
	}
	for k, v := range s.Volatile {
		c.Volatile[k] = v
	}
	for k, v := range s.Visit {
		c.Visit[k] = v
	}
	for k, v := range s.Flags {
		c.Flags[k] = v
	}
	c.Cont = append([]contFn{}, s.Cont...)
	c.Defers = append([]*ssa.Defer(nil), s.Defers...)
	c.Trail = append([]string(nil), s.Trail...)
	c.Events = append([]Event(nil), s.Events...)
	return c
}

func (s *State) Emit(kind, arg string, ins ssa.Instruction) {
	p := token.NoPos
	if ins != nil {
		p = ins.Pos()
	}
	s.Events = append(s.Events, Event{kind, arg, p, ins})
}

func (s *State) Word() string {
	var out []string
	for _, e := range s.Events {
		if e.Arg != "" {
			out = append(out, e.Kind+"("+e.Arg+")")
		} else {
			out = append(out, e.Kind)
		}
	}
	return strings.Join(out, " ")
}

func (s *State) Has(kind string) bool {
	for _, e := range s.Events {
		if e.Kind == kind {
			return true
		}
	}
	return false
}

func (s *State) Count(kind string) int {
	n := 0
	for _, e := range s.Events {
		if e.Kind == kind {
			n++
		}
	}
	return n
}

// Hooks customise the exploration for a rule.
type Hooks struct {
	// Call is invoked for every call that is neither forked nor inlined.  It may record
	// events and return abstract values for the results (by result index).
	Call func(st *State, call *ssa.Call) map[int]Val
	// Fork lets a rule split the exploration over several abstract outcomes of a call
	// (e.g. the error classes of a store call).
	Fork func(st *State, call *ssa.Call) []map[int]Val
	// Inline returns the function to explore in place of the call (nil: don't) and whether
	// the alternative "the call does nothing" must be explored too (sync.Once.Do).
	Inline func(st *State, call *ssa.Call) (fn *ssa.Function, maySkip bool)
	// Instr is invoked for every other instruction (stores, sends, defers, go ...).
	Instr func(st *State, ins ssa.Instruction)
	// Branch is invoked when an If edge is taken.
	Branch func(st *State, iff *ssa.If, taken bool)
	// Return is invoked at every return of the start function.
	Return func(st *State, ret *ssa.Return, results []Val)
	// Panic is invoked at explicit panics.
	Panic func(st *State, p *ssa.Panic)
	// Deferred is invoked at RunDefers for every defer statement executed on the path (in
	// reverse order), so that rules see deferred calls where they take effect.
	Deferred func(st *State, d *ssa.Defer)
	// Stop cuts a path short (checked at every block entry).
	Stop func(st *State) bool
	// NoAutoInline switches off the exploration of new helper functions in place.
	NoAutoInline bool
	MaxVisits    int
	MaxPaths     int
	Paths        int
	Truncated    bool
}

func classOfType(t types.Type) string {
	n := namedOf(t)
	if n == nil || n.Obj().Pkg() == nil || n.Obj().Pkg().Path() != libPath {
		return ClsOther
	}
	switch n.Obj().Name() {
	case "ChunkMissing":
		return ClsMissing
	case "ChunkInvalid":
		return ClsInvalid
	case "NoSuchObject":
		return ClsNoObject
	case "Interrupted":
		return ClsIntr
	}
	return ClsOther
}

// classIs answers whether an error of class cls has the concrete type t.  The classes name the
// library's own error types; everything else is "other": an unclassified error may or may not be
// of a given unclassified type (a failed request is not necessarily a minio.ErrorResponse).
func classIs(cls string, t types.Type) Boolv {
	if cls == ClsNil {
		return BFalse
	}
	ct := classOfType(t)
	if cls == ClsOther && ct == ClsOther {
		return BUnk
	}
	return b2(cls == ct)
}

func isPointerLike(t types.Type) bool {
	switch t.Underlying().(type) {
	case *types.Pointer, *types.Slice, *types.Map, *types.Chan, *types.Signature, *types.Interface:
		return true
	}
	return false
}

// Resolve maps a free variable of an inlined closure to the cell it captures and a
// parameter of an inlined function to the argument.
func (s *State) Resolve(v ssa.Value) ssa.Value {
	for i := 0; i < 16; i++ {
		a, ok := s.Alias[v]
		if !ok {
			return v
		}
		v = a
	}
	return v
}

// ArgOf follows parameters of inlined callees back to the argument values of the calls being
// explored (context-sensitive; conversions are looked through).
func (s *State) ArgOf(v ssa.Value) ssa.Value {
	for i := 0; i < 16; i++ {
		switch x := v.(type) {
		case *ssa.ChangeType:
			v = x.X
			continue
		case *ssa.MakeInterface:
			v = x.X
			continue
		}
		a, ok := s.Args[v]
		if !ok {
			return v
		}
		v = a
	}
	return v
}

// cell returns the key under which the memory cell addressed by addr is tracked.
func (s *State) cell(addr ssa.Value) any {
	addr = s.Resolve(addr)
	switch x := addr.(type) {
	case *ssa.Alloc, *ssa.Global, *ssa.FreeVar, *ssa.Parameter:
		return addr
	case *ssa.FieldAddr:
		return fmt.Sprintf("%v.f%d", s.baseKey(x.X), x.Field)
	case *ssa.IndexAddr:
		return fmt.Sprintf("%v[*]", s.baseKey(x.X))
	}
	return addr
}

func (s *State) baseKey(v ssa.Value) string {
	v = s.Resolve(v)
	if u, ok := v.(*ssa.UnOp); ok && u.Op == token.MUL {
		return fmt.Sprintf("load(%v)", s.cellString(u.X))
	}
	if f, ok := v.(*ssa.FieldAddr); ok {
		return fmt.Sprintf("%v.f%d", s.baseKey(f.X), f.Field)
	}
	return fmt.Sprintf("%p", v)
}

func (s *State) cellString(addr ssa.Value) string {
	k := s.cell(addr)
	if str, ok := k.(string); ok {
		return str
	}
	return fmt.Sprintf("%p", k)
}

func (s *State) Eval(v ssa.Value) Val {
	v = s.Resolve(v)
	if x, ok := s.V[v]; ok {
		return x
	}
	switch x := v.(type) {
	case *ssa.Const:
		if x.Value == nil {
			if isPointerLike(x.Type()) {
				return Val{N: NNil, Class: ClsNil}
			}
			return Val{}
		}
		switch x.Value.Kind() {
		case constant.Bool:
			if constant.BoolVal(x.Value) {
				return Val{B: BTrue}
			}
			return Val{B: BFalse}
		case constant.Int:
			if i, ok := constant.Int64Val(x.Value); ok {
				return intVal(i)
			}
			if u, ok := constant.Uint64Val(x.Value); ok {
				return intVal(int64(u)) // bit pattern: exact for (in)equality; ordered comparisons skip negatives of unsigned type
			}
		}
		return Val{N: NNon}
	case *ssa.MakeInterface:
		return Val{N: NNon, Class: classOfType(x.X.Type())}
	case *ssa.ChangeInterface:
		return s.Eval(x.X)
	case *ssa.ChangeType:
		return s.Eval(x.X)
	case *ssa.Convert:
		return s.Eval(x.X)
	case *ssa.UnOp:
		switch x.Op {
		case token.MUL:
			return s.load(x.X)
		case token.NOT:
			switch s.Eval(x.X).B {
			case BTrue:
				return Val{B: BFalse}
			case BFalse:
				return Val{B: BTrue}
			}
		}
	case *ssa.Alloc, *ssa.MakeClosure, *ssa.MakeMap, *ssa.MakeChan, *ssa.MakeSlice, *ssa.Function:
		return Val{N: NNon}
	case *ssa.BinOp:
		if b := s.decide(x); b != BUnk {
			return Val{B: b}
		}
		// a counter that only grows: x + c keeps a lower bound (never an exact value, so loop
		// conditions stay undecided and every exit of a loop is still explored)
		if (x.Op == token.ADD || x.Op == token.SUB) && isIntegerType(x.Type()) && !isUnsigned(x.Type()) {
			a, b := s.Eval(x.X), s.Eval(x.Y)
			const lim = 1 << 30
			if lo, ok := a.lower(); ok && b.Int != nil && lo > -lim && lo < lim && *b.Int > -lim && *b.Int < lim {
				r := lo + *b.Int
				if x.Op == token.SUB {
					r = lo - *b.Int
				}
				return Val{Lo: &r}
			}
			if lo, ok := b.lower(); ok && x.Op == token.ADD && a.Int != nil && lo > -lim && lo < lim && *a.Int > -lim && *a.Int < lim {
				r := lo + *a.Int
				return Val{Lo: &r}
			}
		}
	case *ssa.Extract:
		if tv, ok := s.V[tkey{x.Tuple, x.Index}]; ok {
			return tv
		}
	case *ssa.Call:
		name := callee(x)
		switch {
		case strings.HasPrefix(name, "github.com/pkg/errors.Wrap"), name == "github.com/pkg/errors.WithStack", name == "github.com/pkg/errors.WithMessage":
			a := s.Eval(x.Call.Args[0])
			if a.N == NNon && a.Class != "" {
				// wrapping hides the concrete type from a type switch; errors.As still sees it
				cls := a.Class
				if strings.HasPrefix(a.Sym, "wrapped:") {
					cls = strings.TrimPrefix(a.Sym, "wrapped:")
				}
				return Val{N: NNon, Class: ClsOther, Sym: "wrapped:" + cls}
			}
			return Val{N: a.N, Class: a.Class}
		case name == "fmt.Errorf", name == "errors.New", name == "github.com/pkg/errors.New", name == "github.com/pkg/errors.Errorf":
			return Val{N: NNon, Class: ClsOther}
		}
	}
	return Val{}
}

// load evaluates *addr at the current point of the path.
func (s *State) load(addr ssa.Value) Val {
	k := s.cell(addr)
	if s.Volatile[k] {
		return Val{}
	}
	if fa, ok := s.Resolve(addr).(*ssa.FieldAddr); ok {
		if base := s.rootAlloc(fa.X); base != nil && s.Volatile[base] {
			return Val{}
		}
	}
	if c, ok := s.V[k]; ok {
		return c
	}
	// sentinel errors of other packages (io.EOF, io.ErrUnexpectedEOF, context.Canceled ...) are
	// package-level variables that are never nil
	if g, ok := s.Resolve(addr).(*ssa.Global); ok && g.Pkg != nil && !strings.HasPrefix(g.Pkg.Pkg.Path(), libPath) {
		if p, ok := g.Type().Underlying().(*types.Pointer); ok && isErrorType(p.Elem()) {
			return Val{N: NNon, Class: ClsOther}
		}
	}
	// zero value of a fresh local cell
	if a, ok := s.Resolve(addr).(*ssa.Alloc); ok {
		if p, ok := a.Type().Underlying().(*types.Pointer); ok {
			return zeroVal(p.Elem())
		}
	}
	// an unwritten field of an object allocated on this path that has not escaped
	if fa, ok := s.Resolve(addr).(*ssa.FieldAddr); ok {
		if base := s.rootAlloc(fa.X); base != nil && s.Fresh[base] && !s.Volatile[base] {
			if p, ok := fa.Type().Underlying().(*types.Pointer); ok {
				return zeroVal(p.Elem())
			}
		}
	}
	return Val{}
}

// rootAlloc returns the allocation an address expression is based on (through field
// selections and loads of non-reassigned pointers held in SSA values), or nil.
func (s *State) rootAlloc(v ssa.Value) *ssa.Alloc {
	for i := 0; i < 8; i++ {
		v = s.Resolve(v)
		switch x := v.(type) {
		case *ssa.Alloc:
			return x
		case *ssa.FieldAddr:
			v = x.X
		default:
			return nil
		}
	}
	return nil
}

func zeroVal(t types.Type) Val {
	if isPointerLike(t) {
		return Val{N: NNil, Class: ClsNil}
	}
	if b, ok := t.Underlying().(*types.Basic); ok {
		switch {
		case b.Info()&types.IsBoolean != 0:
			return Val{B: BFalse}
		case b.Info()&types.IsInteger != 0:
			return intVal(0)
		}
	}
	return Val{}
}

// Explore walks all paths from instruction idx of block b to the exits of fn.
func Explore(fn *ssa.Function, b *ssa.BasicBlock, idx int, pred *ssa.BasicBlock, st *State, h *Hooks) {
	max := h.MaxVisits
	if max == 0 {
		max = 2
	}
	max += explorerBoost // thorough tier: one more loop iteration per path
	if h.MaxPaths == 0 {
		h.MaxPaths = 200000
	}
	if h.Paths > h.MaxPaths {
		h.Truncated = true
		return
	}
	if idx == 0 {
		if st.Visit[b] >= max {
			return
		}
		if h.Stop != nil && h.Stop(st) {
			return
		}
		st.Visit[b]++
		st.Trail = append(st.Trail, fmt.Sprintf("%s:%d", fn.Name(), b.Index))
		// SSA values defined in this block are recomputed on every entry: forget what was
		// learnt about them in a previous iteration (but evaluate the phis first, they read
		// the values of the previous iteration)
		phis := map[*ssa.Phi]Val{}
		for _, ins := range b.Instrs {
			phi, ok := ins.(*ssa.Phi)
			if !ok {
				break
			}
			for i, p := range b.Preds {
				if p == pred {
					phis[phi] = st.Eval(phi.Edges[i])
					if types.IsInterface(phi.Type()) {
						if st.Sel == nil {
							st.Sel = map[*ssa.Phi]ssa.Value{}
						}
						st.Sel[phi] = phi.Edges[i]
					}
				}
			}
		}
		for _, ins := range b.Instrs {
			if v, ok := ins.(ssa.Value); ok {
				delete(st.V, v)
				if _, isCall := v.(*ssa.Call); isCall {
					for k := range st.V {
						if tk, ok := k.(tkey); ok && tk.t == v {
							delete(st.V, k)
						}
					}
				}
				if _, isAlloc := v.(*ssa.Alloc); isAlloc {
					delete(st.Volatile, v)
				}
			}
		}
		if st.Visit[b] > 1 || st.Flags["assumed-dominators"] == 1 {
			for _, ins := range b.Instrs {
				if v, ok := ins.(ssa.Value); ok {
					ptr := fmt.Sprintf("%p", v)
					for k := range st.V {
						if ks, ok := k.(string); ok && strings.HasPrefix(ks, "k:") && strings.Contains(ks, ptr) {
							delete(st.V, k)
						}
					}
				}
			}
		}
		for phi, v := range phis {
			st.V[phi] = v
		}
	}
	for i := idx; i < len(b.Instrs); i++ {
		switch x := b.Instrs[i].(type) {
		case *ssa.Store:
			st.V[st.cell(x.Addr)] = st.Eval(x.Val)
			if a, ok := st.Resolve(x.Addr).(*ssa.Alloc); ok {
				// the whole object is overwritten: its fields are whatever the stored value holds
				if _, isStruct := x.Val.Type().Underlying().(*types.Struct); isStruct {
					if _, isConst := x.Val.(*ssa.Const); !isConst {
						delete(st.Fresh, a)
					}
				}
			}
			if h.Instr != nil {
				h.Instr(st, x)
			}
		case *ssa.UnOp:
			if x.Op == token.MUL {
				st.V[x] = st.load(x.X) // loads are evaluated when executed
			}
			if h.Instr != nil {
				h.Instr(st, x)
			}
		case *ssa.TypeAssert:
			// v, ok := err.(T) evaluated ahead of its use ("_, missing := err.(ChunkMissing)" hoisted
			// before a switch): record ok now, from what is known about the error's class here
			if x.CommaOk && !types.IsInterface(x.AssertedType) {
				delete(st.V, tkey{x, 1})
				if subj := st.Eval(x.X); subj.Class != "" {
					if bv := classIs(subj.Class, x.AssertedType); bv != BUnk {
						st.V[tkey{x, 1}] = Val{B: bv}
					}
				}
			}
			if h.Instr != nil {
				h.Instr(st, x)
			}
		case *ssa.Extract:
			if tv, ok := st.V[tkey{x.Tuple, x.Index}]; ok {
				st.V[x] = tv
			}
		case *ssa.Alloc:
			st.Fresh[x] = true
			delete(st.Volatile, x)
		case *ssa.Defer:
			if len(st.Cont) == 0 {
				st.Defers = append(st.Defers, x)
			}
			if h.Instr != nil {
				h.Instr(st, x)
			}
		case *ssa.RunDefers:
			if len(st.Cont) == 0 && h.Deferred != nil {
				for k := len(st.Defers) - 1; k >= 0; k-- {
					h.Deferred(st, st.Defers[k])
				}
			}
		case *ssa.Call:
			if h.Fork != nil {
				if outs := h.Fork(st, x); outs != nil {
					markEscapes(st, x)
					for _, o := range outs {
						s2 := st.Clone()
						bindResults(s2, x, o)
						// record the chosen outcome: a result labelled "tag:label" leaves an event
						// "outcome:tag"(label) so that rules can read the sequence of outcomes
						for idx := 0; idx < 4; idx++ {
							if v, ok := o[idx]; ok && strings.Contains(v.Sym, ":") {
								k := strings.Index(v.Sym, ":")
								s2.Emit("outcome:"+v.Sym[:k], v.Sym[k+1:], x)
							}
						}
						Explore(fn, b, i+1, pred, s2, h)
					}
					return
				}
			}
			inline := h.Inline
			if h.NoAutoInline == false {
				// new helper functions (extracted by a refactoring) are always explored in place
				if cal := directCallee(x); cal != nil && newHelpers[cal] && cal.Blocks != nil {
					inline = func(*State, *ssa.Call) (*ssa.Function, bool) { return cal, false }
				} else if cal == nil && !x.Call.IsInvoke() && len(st.Cont) > 0 {
					// inside an inlined helper: a call of a function-typed parameter runs the closure (or
					// function) the caller passed in - "withRetry(func() error { ... })"
					switch fv := st.ArgOf(x.Call.Value).(type) {
					case *ssa.MakeClosure:
						if f, ok := fv.Fn.(*ssa.Function); ok && f.Blocks != nil {
							mc := fv
							inline = func(s *State, _ *ssa.Call) (*ssa.Function, bool) {
								for k, free := range f.FreeVars {
									if k < len(mc.Bindings) {
										s.Alias[free] = s.Resolve(mc.Bindings[k])
									}
								}
								return f, false
							}
						}
					case *ssa.Function:
						if fv.Blocks != nil && (newHelpers[fv] || fv.Parent() != nil) {
							f := fv
							inline = func(*State, *ssa.Call) (*ssa.Function, bool) { return f, false }
						}
					}
				}
			}
			if inline != nil {
				if cal, maySkip := inline(st, x); cal != nil && len(st.Cont) < 6 {
					if maySkip {
						Explore(fn, b, i+1, pred, st.Clone(), h)
					}
					s3 := st.Clone()
					bindCallee(s3, x, cal)
					callerFn, callerB, callerI, callerPred, callSite := fn, b, i+1, pred, x
					// the callee gets a fresh visit budget; the caller's is restored on return
					saved := s3.Visit
					s3.Visit = map[*ssa.BasicBlock]int{}
					s3.Cont = append(s3.Cont, func(st2 *State, results []Val) {
						res := map[int]Val{}
						for k, r := range results {
							res[k] = r
						}
						st2.Visit = map[*ssa.BasicBlock]int{}
						for k, v := range saved {
							st2.Visit[k] = v
						}
						bindResults(st2, callSite, res)
						Explore(callerFn, callerB, callerI, callerPred, st2, h)
					})
					Explore(cal, cal.Blocks[0], 0, nil, s3, h)
					return
				}
			}
			markEscapes(st, x)
			// errors.As evaluated ahead of its use (in a helper that returns its verdict, or hoisted
			// into a variable): record the verdict now, from what is known about the error's class
			if name := callee(x); name == "github.com/pkg/errors.As" || name == "errors.As" {
				if bv := st.decide(x); bv != BUnk {
					st.V[x] = Val{B: bv}
				} else {
					delete(st.V, x)
				}
			}
			if h.Call != nil {
				if res := h.Call(st, x); res != nil {
					bindResults(st, x, res)
				}
			}
		case *ssa.If:
			t, f := b.Succs[0], b.Succs[1]
			switch st.decideCond(x.Cond) {
			case BTrue:
				if h.Branch != nil {
					h.Branch(st, x, true)
				}
				Explore(fn, t, 0, b, st, h)
			case BFalse:
				if h.Branch != nil {
					h.Branch(st, x, false)
				}
				Explore(fn, f, 0, b, st, h)
			default:
				s1 := st.Clone()
				s1.assume(x.Cond, true)
				if h.Branch != nil {
					h.Branch(s1, x, true)
				}
				Explore(fn, t, 0, b, s1, h)
				s2 := st
				s2.assume(x.Cond, false)
				if h.Branch != nil {
					h.Branch(s2, x, false)
				}
				Explore(fn, f, 0, b, s2, h)
			}
			return
		case *ssa.Jump:
			Explore(fn, b.Succs[0], 0, b, st, h)
			return
		case *ssa.Panic:
			if len(st.Cont) == 0 {
				h.Paths++
				if h.Panic != nil {
					h.Panic(st, x)
				}
			}
			return
		case *ssa.Return:
			var res []Val
			for _, r := range x.Results {
				res = append(res, st.Eval(r))
			}
			if n := len(st.Cont); n > 0 {
				k := st.Cont[n-1]
				st.Cont = st.Cont[:n-1]
				k(st, res)
				return
			}
			h.Paths++
			if h.Return != nil {
				h.Return(st, x, res)
			}
			return
		default:
			if h.Instr != nil {
				h.Instr(st, b.Instrs[i])
			}
		}
	}
}

// bindCallee binds the parameters and free variables of an inlined callee.
func bindCallee(st *State, call *ssa.Call, cal *ssa.Function) {
	cc := call.Common()
	bindFree := func(mc *ssa.MakeClosure) {
		for k, fv := range cal.FreeVars {
			if k < len(mc.Bindings) {
				st.Alias[fv] = st.Resolve(mc.Bindings[k])
			}
		}
	}
	direct := cc.StaticCallee() == cal
	if mc, ok := cc.Value.(*ssa.MakeClosure); ok && mc.Fn == cal {
		bindFree(mc)
		direct = true
	}
	if !direct && cc.StaticCallee() == nil && !cc.IsInvoke() && directCallee(call) == cal {
		// called through a local function variable with a single definition
		direct = true
		if mc := makeClosureOf(cc.Value, 0); mc != nil && mc.Fn == cal {
			bindFree(mc)
		}
	}
	if !direct {
		// a closure handed to errgroup.Go, sync.Once.Do, filepath.Walk ...: its parameters
		// (if any) are supplied by code that is not followed
		for _, a := range cc.Args {
			if mc, ok := a.(*ssa.MakeClosure); ok && mc.Fn == cal {
				bindFree(mc)
			}
		}
		return
	}
	for k, p := range cal.Params {
		if k < len(cc.Args) {
			// arguments are immutable SSA values: remember their abstract value now
			st.V[p] = st.Eval(cc.Args[k])
			st.Args[p] = st.ArgOf(cc.Args[k])
			if _, isPtr := p.Type().Underlying().(*types.Pointer); isPtr {
				// keep the identity of the pointed-to object so that field cells coincide
				delete(st.V, p)
				st.Alias[p] = st.Resolve(cc.Args[k])
			}
		}
	}
}

// markEscapes makes cells volatile whose address is handed to code the explorer does not follow.
func markEscapes(st *State, call ssa.CallInstruction) {
	for _, a := range call.Common().Args {
		a = st.Resolve(a)
		switch x := a.(type) {
		case *ssa.Alloc:
			st.Volatile[st.cell(x)] = true
		case *ssa.MakeClosure:
			markClosureWrites(st, x, 0)
		}
	}
	if mc, ok := call.Common().Value.(*ssa.MakeClosure); ok {
		if _, isGo := call.(*ssa.Go); isGo {
			markClosureWrites(st, mc, 0)
		}
	}
}

func markClosureWrites(st *State, mc *ssa.MakeClosure, depth int) {
	fn, ok := mc.Fn.(*ssa.Function)
	if !ok || depth > 3 {
		return
	}
	for k, fv := range fn.FreeVars {
		if k >= len(mc.Bindings) {
			break
		}
		written := false
		for _, r := range *fv.Referrers() {
			switch r := r.(type) {
			case *ssa.Store:
				if r.Addr == fv {
					written = true
				}
			case *ssa.MakeClosure:
				written = true // conservatively
			case ssa.CallInstruction:
				written = true
			}
		}
		if written {
			st.Volatile[st.cell(mc.Bindings[k])] = true
		}
	}
}

func bindResults(st *State, call *ssa.Call, res map[int]Val) {
	if res == nil {
		return
	}
	if call.Call.Signature().Results().Len() == 1 {
		if v, ok := res[0]; ok {
			st.V[call] = v
		}
		return
	}
	for i, v := range res {
		st.V[tkey{call, i}] = v
	}
}

func b2(b bool) Boolv {
	if b {
		return BTrue
	}
	return BFalse
}

func isNilConst(v ssa.Value) bool {
	c, ok := v.(*ssa.Const)
	return ok && c.Value == nil && isPointerLike(c.Type())
}

func (st *State) decideCond(cond ssa.Value) Boolv {
	if v := st.Eval(cond); v.B != BUnk {
		return v.B
	}
	if b := st.decide(cond); b != BUnk {
		return b
	}
	// a structurally identical pure comparison was decided earlier on this path
	if key, neg, ok := st.cmpKey(cond); ok {
		if v, ok := st.V[key]; ok && v.B != BUnk {
			if neg {
				return b2(v.B != BTrue)
			}
			return v.B
		}
	}
	return BUnk
}

// canon names a pure expression by its structure, so that the separate instructions go/ssa
// emits for repeated sub-expressions (no CSE) are recognised as the same value.
func (st *State) canon(v ssa.Value, depth int) string {
	v = st.Resolve(v)
	switch x := v.(type) {
	case *ssa.Const:
		if x.Value == nil {
			return "nil"
		}
		return "c" + x.Value.ExactString()
	case *ssa.BinOp:
		if depth < 5 {
			return "(" + st.canon(x.X, depth+1) + x.Op.String() + st.canon(x.Y, depth+1) + ")"
		}
	case *ssa.Convert:
		if depth < 5 {
			return "conv(" + st.canon(x.X, depth+1) + ")"
		}
	case *ssa.ChangeType:
		return st.canon(x.X, depth)
	case *ssa.Call:
		if callee(x) == "builtin:len" && depth < 5 {
			return "len(" + st.canon(x.Call.Args[0], depth+1) + ")"
		}
	}
	return fmt.Sprintf("%p", v)
}

// cmpKey normalises a comparison to (== | <) with an optional negation.
func (st *State) cmpKey(cond ssa.Value) (key string, neg bool, ok bool) {
	c, isBin := cond.(*ssa.BinOp)
	if !isBin {
		return "", false, false
	}
	x, y := st.canon(c.X, 0), st.canon(c.Y, 0)
	switch c.Op {
	case token.EQL, token.NEQ:
		if x > y {
			x, y = y, x
		}
		return "k:" + x + "==" + y, c.Op == token.NEQ, true
	case token.LSS:
		return "k:" + x + "<" + y, false, true
	case token.GEQ:
		return "k:" + x + "<" + y, true, true
	case token.GTR:
		return "k:" + y + "<" + x, false, true
	case token.LEQ:
		return "k:" + y + "<" + x, true, true
	}
	return "", false, false
}

// decide evaluates a branch condition without looking at what was assumed for it.
func (st *State) decide(cond ssa.Value) Boolv {
	switch c := cond.(type) {
	case *ssa.BinOp:
		if c.Op == token.EQL || c.Op == token.NEQ {
			if isNilConst(c.Y) || isNilConst(c.X) {
				subj := c.X
				if isNilConst(c.X) {
					subj = c.Y
				}
				switch st.Eval(subj).N {
				case NNil:
					return b2(c.Op == token.EQL)
				case NNon:
					return b2(c.Op == token.NEQ)
				}
				return BUnk
			}
			x, y := st.Eval(c.X), st.Eval(c.Y)
			if x.Int != nil && y.Int != nil {
				return b2((*x.Int == *y.Int) == (c.Op == token.EQL))
			}
			// identity with a sentinel: a value a rule labelled "is:io.EOF" compared with the load of
			// that package-level variable (or of another one)
			for _, pr := range [][2]ssa.Value{{c.X, c.Y}, {c.Y, c.X}} {
				if lbl := st.Eval(pr[0]).Sym; strings.HasPrefix(lbl, "is:") {
					if g := globalLoaded(st.Resolve(pr[1])); g != "" {
						return b2((g == strings.TrimPrefix(lbl, "is:")) == (c.Op == token.EQL))
					}
				}
			}
			if x.Int != nil && y.Int == nil && strings.Contains(y.Not, fmt.Sprintf(";%d;", *x.Int)) ||
				y.Int != nil && x.Int == nil && strings.Contains(x.Not, fmt.Sprintf(";%d;", *y.Int)) {
				return b2(c.Op == token.NEQ)
			}
			if x.B != BUnk && y.B != BUnk {
				return b2((x.B == y.B) == (c.Op == token.EQL))
			}
		}
		if c.Op == token.LSS || c.Op == token.LEQ || c.Op == token.GTR || c.Op == token.GEQ {
			x, y := st.Eval(c.X), st.Eval(c.Y)
			if x.Int != nil && y.Int != nil && !(isUnsigned(c.X.Type()) && (*x.Int < 0 || *y.Int < 0)) {
				switch c.Op {
				case token.LSS:
					return b2(*x.Int < *y.Int)
				case token.LEQ:
					return b2(*x.Int <= *y.Int)
				case token.GTR:
					return b2(*x.Int > *y.Int)
				case token.GEQ:
					return b2(*x.Int >= *y.Int)
				}
			}
			// lower bound against a constant
			if !isUnsigned(c.X.Type()) {
				op, lo, k, have := c.Op, int64(0), int64(0), false
				if x.Int == nil && x.Lo != nil && y.Int != nil {
					lo, k, have = *x.Lo, *y.Int, true
				} else if y.Int == nil && y.Lo != nil && x.Int != nil {
					lo, k, have, op = *y.Lo, *x.Int, true, mirrorOp(c.Op)
				}
				if have {
					switch op { // value op k, value >= lo
					case token.GEQ:
						if lo >= k {
							return BTrue
						}
					case token.GTR:
						if lo > k {
							return BTrue
						}
					case token.LSS:
						if lo >= k {
							return BFalse
						}
					case token.LEQ:
						if lo > k {
							return BFalse
						}
					}
				}
			}
		}
	case *ssa.UnOp:
		if c.Op == token.NOT {
			switch st.decideCond(c.X) {
			case BTrue:
				return BFalse
			case BFalse:
				return BTrue
			}
		}
	case *ssa.Extract:
		// comma-ok of a type assertion on a classified error
		if ta, ok := c.Tuple.(*ssa.TypeAssert); ok && ta.CommaOk && c.Index == 1 {
			subj := st.Eval(ta.X)
			if subj.Class != "" && !types.IsInterface(ta.AssertedType) {
				return classIs(subj.Class, ta.AssertedType)
			}
		}
	case *ssa.Call:
		name := callee(c)
		if name == "github.com/pkg/errors.As" || name == "errors.As" {
			subj := st.Eval(c.Call.Args[0])
			if subj.Class != "" {
				target := c.Call.Args[1]
				tt := target.Type()
				if mi, ok := target.(*ssa.MakeInterface); ok {
					tt = mi.X.Type()
				}
				if p, ok := tt.Underlying().(*types.Pointer); ok {
					cls := subj.Class
					if strings.HasPrefix(subj.Sym, "wrapped:") {
						cls = strings.TrimPrefix(subj.Sym, "wrapped:")
					}
					return classIs(cls, p.Elem())
				}
			}
		}
	}
	return BUnk
}

// assume refines the state with the outcome of an undecided condition.
func (st *State) assume(cond ssa.Value, outcome bool) {
	// (a label a rule attached to the condition's value survives the assumption)
	st.V[cond] = Val{B: b2(outcome), Sym: st.V[cond].Sym}
	if key, neg, ok := st.cmpKey(cond); ok {
		st.V[key] = Val{B: b2(outcome != neg)}
	}
	switch c := cond.(type) {
	case *ssa.BinOp:
		if (c.Op == token.EQL || c.Op == token.NEQ) && (isNilConst(c.X) || isNilConst(c.Y)) {
			subj := c.X
			if isNilConst(c.X) {
				subj = c.Y
			}
			isNil := outcome == (c.Op == token.EQL)
			old := st.Eval(subj)
			if isNil {
				old.N, old.Class = NNil, ClsNil
			} else {
				old.N = NNon
				if old.Class == ClsNil {
					old.Class = ""
				}
			}
			st.refine(subj, old)
			return
		}
		if c.Op == token.EQL || c.Op == token.NEQ {
			equal := outcome == (c.Op == token.EQL)
			x, y := st.Eval(c.X), st.Eval(c.Y)
			if equal {
				if y.Int != nil && x.Int == nil {
					x.Int = y.Int
					st.refine(c.X, x)
				} else if x.Int != nil && y.Int == nil {
					y.Int = x.Int
					st.refine(c.Y, y)
				}
				if y.B != BUnk && x.B == BUnk {
					x.B = y.B
					st.refine(c.X, x)
				}
			} else {
				if y.B != BUnk && x.B == BUnk {
					x.B = b2(y.B != BTrue)
					st.refine(c.X, x)
				}
				// "typ != K": remembered with the value (and its cell), so that a later comparison of
				// the same variable with K - in another function, through another load - is decided
				if y.Int != nil && x.Int == nil && isIntegerType(c.X.Type()) {
					if x.Not == "" {
						x.Not = ";"
					}
					x.Not += fmt.Sprintf("%d;", *y.Int)
					st.refine(c.X, x)
				} else if x.Int != nil && y.Int == nil && isIntegerType(c.Y.Type()) {
					if y.Not == "" {
						y.Not = ";"
					}
					y.Not += fmt.Sprintf("%d;", *x.Int)
					st.refine(c.Y, y)
				}
			}
		}
	case *ssa.UnOp:
		if c.Op == token.NOT {
			st.assume(c.X, !outcome)
		}
		if c.Op == token.MUL {
			// a bool variable loaded from a cell
			k := st.cell(c.X)
			if !st.Volatile[k] {
				st.V[k] = Val{B: b2(outcome)}
			}
		}
	case *ssa.Extract:
		if ta, ok := c.Tuple.(*ssa.TypeAssert); ok && ta.CommaOk && c.Index == 1 && outcome && !types.IsInterface(ta.AssertedType) {
			old := st.Eval(ta.X)
			old.N, old.Class = NNon, classOfType(ta.AssertedType)
			st.refine(ta.X, old)
		}
	}
}

// refine attaches what was learnt to the value and, if it was loaded from a cell, to the cell.
func (st *State) refine(v ssa.Value, val Val) {
	v = st.Resolve(v)
	st.V[v] = val
	// what is learnt about a parameter of an inlined callee holds for the argument it was bound to
	if p, isParam := v.(*ssa.Parameter); isParam {
		if a, ok := st.Args[p]; ok && a != v {
			st.refine(a, val)
		}
	}
	if u, ok := v.(*ssa.UnOp); ok && u.Op == token.MUL {
		k := st.cell(u.X)
		if !st.Volatile[k] {
			st.V[k] = val
		}
	}
}

// ---------------------------------------------------------------------------------------
// helpers shared by path rules

// selectCaseEdge returns the block entered when case k of sel fires.
func selectCaseEdge(sel *ssa.Select, k int) (from, to *ssa.BasicBlock) {
	for _, ref := range *sel.Referrers() {
		ex, ok := ref.(*ssa.Extract)
		if !ok || ex.Index != 0 {
			continue
		}
		for _, r2 := range *ex.Referrers() {
			bo, ok := r2.(*ssa.BinOp)
			if !ok || bo.Op != token.EQL {
				continue
			}
			cst, ok := bo.Y.(*ssa.Const)
			if !ok || constInt64(cst) != int64(k) {
				continue
			}
			for _, r3 := range *bo.Referrers() {
				if iff, ok := r3.(*ssa.If); ok {
					return iff.Block(), iff.Block().Succs[0]
				}
			}
		}
	}
	return nil, nil
}

// isCtxDone reports whether v is the result of a call of (context.Context).Done.
func isCtxDone(v ssa.Value) bool {
	c, ok := v.(*ssa.Call)
	return ok && callee(c) == "(context.Context).Done"
}

// sameReceiverCallee returns the callee of call when it is a method declared on the same
// receiver type as fn (a helper extracted from fn), so that path rules follow it.
func (c *Ctx) sameReceiverCallee(fn *ssa.Function, call *ssa.Call) *ssa.Function {
	cal := c.staticFn(call)
	if cal == nil || cal == fn || cal.Parent() != nil || len(cal.Blocks) > 60 {
		return nil
	}
	top := fn
	for top.Parent() != nil {
		top = top.Parent()
	}
	r1, r2 := top.Signature.Recv(), cal.Signature.Recv()
	if r1 == nil || r2 == nil {
		return nil
	}
	if namedOf(r1.Type()) == nil || namedOf(r1.Type()) != namedOf(r2.Type()) {
		return nil
	}
	return cal
}

// ExploreInside starts an exploration at a point that may lie inside a new helper function: the
// paths then continue, when the helper returns, after each of its call sites (and so on outward),
// so that a rule anchored at a site sees the rest of the caller as if the helper were inlined.
func ExploreInside(b *ssa.BasicBlock, idx int, pred *ssa.BasicBlock, st *State, h *Hooks) {
	fn := b.Parent()
	withReturnTo(fn, st, 0, func(s *State) {
		Explore(fn, b, idx, pred, s, h)
	}, h)
}

func withReturnTo(fn *ssa.Function, st *State, depth int, k func(*State), h *Hooks) {
	if !newHelpers[fn] || len(helperSites[fn]) == 0 || depth > 3 {
		k(st)
		return
	}
	for _, cs := range helperSites[fn] {
		call, ok := cs.(*ssa.Call)
		if !ok {
			continue // go/defer of a helper: its result goes nowhere
		}
		caller := call.Parent()
		cb := call.Block()
		ci := -1
		for i, ins := range cb.Instrs {
			if ins == ssa.Instruction(call) {
				ci = i
			}
		}
		if ci < 0 {
			continue
		}
		withReturnTo(caller, st.Clone(), depth+1, func(s *State) {
			s.Cont = append(s.Cont, func(st2 *State, results []Val) {
				res := map[int]Val{}
				for k, r := range results {
					res[k] = r
				}
				st2.Visit = map[*ssa.BasicBlock]int{}
				bindResults(st2, call, res)
				Explore(caller, cb, ci+1, nil, st2, h)
			})
			k(s)
		}, h)
	}
}

// makeClosureOf finds the MakeClosure a function value was defined by (through single-assignment
// locals and captured variables).
func makeClosureOf(v ssa.Value, d int) *ssa.MakeClosure {
	if d > 6 {
		return nil
	}
	switch x := v.(type) {
	case *ssa.MakeClosure:
		return x
	case *ssa.ChangeType:
		return makeClosureOf(x.X, d+1)
	case *ssa.UnOp:
		if x.Op != token.MUL {
			return nil
		}
		var cell *ssa.Alloc
		switch a := x.X.(type) {
		case *ssa.Alloc:
			cell = a
		case *ssa.FreeVar:
			if cs := captured(a); len(cs) == 1 {
				cell, _ = cs[0].(*ssa.Alloc)
			}
		}
		if cell == nil {
			return nil
		}
		if sts := storesTo(cell); len(sts) == 1 {
			return makeClosureOf(sts[0].Val, d+1)
		}
	case *ssa.FreeVar:
		if cs := captured(x); len(cs) == 1 {
			return makeClosureOf(cs[0], d+1)
		}
	}
	return nil
}

func isUnsigned(t types.Type) bool {
	b, ok := t.Underlying().(*types.Basic)
	return ok && b.Info()&types.IsUnsigned != 0
}

func isIntegerType(t types.Type) bool {
	b, ok := t.Underlying().(*types.Basic)
	return ok && b.Info()&types.IsInteger != 0
}

// globalLoaded names the package-level variable a value was loaded from ("io.EOF"), or "".
func globalLoaded(v ssa.Value) string {
	u, ok := v.(*ssa.UnOp)
	if !ok || u.Op != token.MUL {
		return ""
	}
	g, ok := u.X.(*ssa.Global)
	if !ok || g.Pkg == nil {
		return ""
	}
	return g.Pkg.Pkg.Name() + "." + g.Name()
}

// assumeDominating records, for an exploration that starts in the middle of a function at block
// b, the outcomes of the branches every path into b has taken last: a dominator d that ends in
// an If contributes its condition when b cannot be reached from the other successor without
// passing d again.  The operands of such a condition are defined in blocks that dominate d, so
// none of them is re-evaluated between the last visit of d and the arrival in b.
func (st *State) assumeDominating(b *ssa.BasicBlock) {
	for d := b.Idom(); d != nil; d = d.Idom() {
		iff := lastIf(d)
		if iff == nil || len(d.Succs) != 2 || d.Succs[0] == d.Succs[1] {
			continue
		}
		if readsMemory(iff.Cond, 0) {
			continue // what a load saw may have been overwritten since
		}
		st.Flags["assumed-dominators"] = 1
		cut := map[edge]bool{{d, d.Succs[0]}: true, {d, d.Succs[1]}: true}
		r0 := d.Succs[0] == b || reachableFrom(d.Succs[0], cut)[b]
		r1 := d.Succs[1] == b || reachableFrom(d.Succs[1], cut)[b]
		switch {
		case r0 && !r1:
			st.assume(iff.Cond, true)
		case r1 && !r0:
			st.assume(iff.Cond, false)
		}
	}
}

// readsMemory: the expression contains a load (its value is not fixed by SSA alone).
func readsMemory(v ssa.Value, depth int) bool {
	if depth > 5 {
		return true
	}
	switch x := v.(type) {
	case *ssa.UnOp:
		if x.Op == token.MUL || x.Op == token.ARROW {
			return true
		}
		return readsMemory(x.X, depth+1)
	case *ssa.BinOp:
		return readsMemory(x.X, depth+1) || readsMemory(x.Y, depth+1)
	case *ssa.Convert:
		return readsMemory(x.X, depth+1)
	case *ssa.ChangeType:
		return readsMemory(x.X, depth+1)
	case *ssa.Extract:
		return false
	}
	return false
}
