package main

import (
	"fmt"
	"go/ast"
	"go/token"
	"go/types"
	"sort"
	"strings"

	"golang.org/x/tools/go/ssa"
)

func init() {
	register(&property{
		ID: "C05",
		Explanation: "Equality of the unpacked tree with the source tree is value-level and NOT decided. Decided: " +
			"C05.digest-flag: wherever an index's FeatureFlags are assembled (IndexFromFile, ChunkStream, runTar) the SHA512/256 bit comes only from a constant selected on the Digest.Algorithm()==SHA512_256 edge; constants OR-ed in unconditionally and foreign flag words (e.g. a catar entry's flags) are masked with &^ CaFormatSHA512256. " +
			"C05.codec-agree: encoder and decoder agree on the field sequence of all 15 element types; every element type tar() builds has an encoder case; ArchiveDecoder.Next handles (or deliberately skips) every type the format decoder can return. " +
			"C05.mode-tables: StatModeToFilemode and FilemodeToStatMode are mutual inverses on their file-type pairs and the set-uid/set-gid/sticky bits (pairs extracted from the SSA of both). " +
			"C05.deterministic-order: no element is encoded inside a range over a map; the xattr keys collected from the map are sorted before they are encoded; the disk reader walks with filepath.Walk (lexical order). " +
			"C05.field-mapping: tar() fills Entry{UID,GID,Mode,MTime}, Symlink.Target, Device{Major,Minor}, Payload.Data from the like-named File fields; ArchiveDecoder.Next fills every Node* field from the like-named element field; LocalFS.Next and TarReader.Next fill File from the stat/tar header and clean the path. " +
			"C05.restore-matrix: every LocalFS.Create* sets owner (unless NoSameOwner), xattrs, mode (unless NoSamePermissions) and times on the joined path, and never changes the owner after the mode (chown clears set-id bits). C05.restore-times: known findings (directory times set before children exist; epoch sentinel). " +
			"C05.names-opaque: tar(), the fs readers, ArchiveDecoder.Next, UnTar/UnTarIndex and LocalFS.Create* look at entry names and paths only through path.Dir/Base/Join/Clean and equality - no prefix/suffix/substring/relative-path/pattern test or byte indexing (names are arbitrary byte strings). " +
			"C05.ordered-reassembly: in UnTarIndex the chunk data channels are handed to the assembler by the single feeder that ranges over index.Chunks in order.",
		NotDecided: "equality of the unpacked tree; xattr/device semantics of the OS; gnu-tar and mtree writers; symlink times.",
		Rules: []rule{
			{"C05.tar-index-needs-tar", "tar -i stores its index only when desync.Tar succeeded; a failed Tar never ends in success (shared with C06)", 1, func(c *Ctx) { c.tarIndexNeedsTar() }},
			{"C05.digest-flag", "the SHA512/256 index flag is derived from the digest in use only", 3, c05DigestFlag},
			{"C05.wrapper-order", "a wrapping writer (tar, bufio) is flushed/closed before the writer underneath it is closed", 1, func(c *Ctx) { c.wrapperOrder() }},
			{"C05.string-terminator", "readString takes exactly the one terminating byte off a string element", 1, c05StringTerminator},
			{"C05.codec-agree", "encoder/decoder field tables agree; element types exhaustive", 17, c05Codec},
			{"C05.mode-tables", "mode <-> st_mode conversions are mutual inverses", 1, c05ModeTables},
			{"C05.deterministic-order", "map iteration order never reaches the archive; keys are sorted", 3, c05Deterministic},
			{"C05.field-mapping", "metadata fields are carried like-named through File -> element -> Node", 20, c05FieldMapping},
			{"C05.restore-matrix", "owner, xattrs, mode and times are restored by every Create*; owner before mode", 10, c05RestoreMatrix},
			{"C05.restore-times", "modification times are restored (two recorded findings)", 2, c05RestoreTimes},
			{"C05.ordered-reassembly", "untar -i reassembles the chunk stream in index order", 2, c05Ordered},
			{"C05.names-opaque", "the traversal looks at names only through Dir/Base/Join and equality", 2, c05NamesOpaque},
			{"C05.side-goroutine-errors", "the error of the Tar goroutine is consulted before the command reports success", 2, func(c *Ctx) {
				c.sideGoroutineErrors(func(k string) bool { return strings.HasPrefix(k, "cmd.") })
			}},
			{"C05.flag-defaults", "owner and permissions are restored unless the user opts out", 2, func(c *Ctx) {
				c.flagDefaults(map[string]flagSpec{"no-same-owner": {"false", ".NoSameOwner", 1}, "no-same-permissions": {"false", ".NoSamePermissions", 1}})
			}},
			{"C05.exact-reads", "fixed-size fields are read completely (no direct Read in the decoding primitives; byte counts used)", 1, func(c *Ctx) { c.exactReads() }},
			{"C05.errors-not-dropped", "no error of the operations this property depends on is dropped", 1, func(c *Ctx) { c.errorsNotDropped("C05") }},
			{"C05.outputs-truncated", "output files are created truncating (shared with C13/C04)", 10, func(c *Ctx) { c.outputsTruncated() }},
		},
	})
}

// flagLeaves walks the expression assembled into FeatureFlags.
type flagLeaf struct {
	v      ssa.Value
	masked bool            // under &^ <mask containing the bit>
	via    *ssa.BasicBlock // predecessor block when reached through a phi edge
	phi    *ssa.Phi
}

func flagLeaves(v ssa.Value, bit uint64, masked bool, via *ssa.BasicBlock, phi *ssa.Phi, seen map[ssa.Value]bool, out *[]flagLeaf) {
	if v == nil || seen[v] {
		return
	}
	seen[v] = true
	switch x := v.(type) {
	case *ssa.BinOp:
		switch x.Op {
		case token.OR, token.XOR, token.ADD:
			flagLeaves(x.X, bit, masked, via, phi, seen, out)
			flagLeaves(x.Y, bit, masked, via, phi, seen, out)
			return
		case token.AND_NOT:
			m := masked
			if k, ok := x.Y.(*ssa.Const); ok && k.Value != nil && k.Uint64()&bit != 0 {
				m = true
			}
			flagLeaves(x.X, bit, m, via, phi, seen, out)
			return
		case token.AND:
			m := masked
			for _, o := range []ssa.Value{x.X, x.Y} {
				if k, ok := o.(*ssa.Const); ok && k.Value != nil && k.Uint64()&bit == 0 {
					m = true
				}
			}
			flagLeaves(x.X, bit, m, via, phi, seen, out)
			flagLeaves(x.Y, bit, m, via, phi, seen, out)
			return
		}
	case *ssa.Phi:
		for i, e := range x.Edges {
			flagLeaves(e, bit, masked, x.Block().Preds[i], x, seen, out)
		}
		return
	case *ssa.Convert:
		flagLeaves(x.X, bit, masked, via, phi, seen, out)
		return
	case *ssa.UnOp:
		if x.Op == token.MUL {
			if al, ok := x.X.(*ssa.Alloc); ok {
				for _, s := range storesTo(al) {
					flagLeaves(s.Val, bit, masked, via, phi, seen, out)
				}
				return
			}
		}
	}
	*out = append(*out, flagLeaf{v, masked, via, phi})
}

func c05DigestFlag(c *Ctx) {
	bitStr := c.constVal("CaFormatSHA512256")
	var bit uint64
	fmt.Sscan(bitStr, &bit)
	if bit == 0 {
		c.bad("CaFormatSHA512256", token.NoPos, "constant CaFormatSHA512256 not found")
		return
	}
	n := 0
	for _, fn := range c.subjects() {
		k := fnKey(fn)
		if k == "Index.WriteTo" || strings.HasPrefix(k, "FormatDecoder.") || strings.HasPrefix(k, "FormatEncoder.") {
			continue
		}
		instrs(fn, func(_ *ssa.BasicBlock, _ int, ins ssa.Instruction) {
			st, ok := ins.(*ssa.Store)
			if !ok {
				return
			}
			fa, ok := st.Addr.(*ssa.FieldAddr)
			if !ok || fieldOf(fa) != "FormatIndex.FeatureFlags" {
				return
			}
			n++
			key := k + ":index-flags"
			var leavesOut []flagLeaf
			flagLeaves(st.Val, bit, false, nil, nil, map[ssa.Value]bool{}, &leavesOut)
			var bad []string
			for _, l := range leavesOut {
				switch x := l.v.(type) {
				case *ssa.Const:
					if x.Value == nil || x.Uint64()&bit == 0 || l.masked {
						continue
					}
					// a constant carrying the bit: only as a phi alternative chosen by the algorithm test
					if l.phi == nil || l.via == nil {
						bad = append(bad, "the SHA512/256 bit is OR-ed in as an unconditional constant: under --digest sha256 the index is flagged SHA512/256 and cannot be read back")
						continue
					}
					term := l.via.Instrs[len(l.via.Instrs)-1]
					okG, _ := guarded(fn, term, func(iff *ssa.If) (bool, bool) {
						eqOnTrue, ok := equalEdge(iff, originHas("call:(desync.HashAlgorithm).Algorithm#0"), func(v ssa.Value) bool {
							kk, ok := v.(*ssa.Const)
							return ok && kk.Value != nil && constInt64(kk) == 15 // crypto.SHA512_256
						})
						if !ok {
							return false, false
						}
						return eqOnTrue, !eqOnTrue
					})
					if !okG {
						bad = append(bad, "the SHA512/256 bit is chosen on a path that did not find Digest.Algorithm() == crypto.SHA512_256")
					}
				default:
					// non-constant flags: the index's own flags are fine, foreign flag words must be masked
					if hasOrigin(l.v, func(o string) bool { return o == "field:FormatIndex.FeatureFlags" }) {
						continue
					}
					if !l.masked {
						bad = append(bad, fmt.Sprintf("a foreign flag word (%v) is OR-ed into the index flags without masking CaFormatSHA512256: it can carry a digest bit that disagrees with the digest in use", origins(l.v)))
					}
				}
			}
			if len(bad) > 0 {
				c.bad(key, st.Pos(), "%s", bad[0])
			} else {
				c.ok(key, st.Pos(), "%d flag source(s); the digest bit only via the Digest.Algorithm() test", len(leavesOut))
			}
		})
	}
	if n < 3 {
		c.bad("index-flags", token.NoPos, "expected at least three producers of index feature flags, found %d", n)
	}
}

func c05Codec(c *Ctx) {
	c.codecAgree(allElementTypes)
	t := c.codec()
	// every element type built in tar() has an encoder case
	if fn := c.mustFn("tar"); fn != nil {
		built := map[string]bool{}
		for _, l := range elementLiterals(fn) {
			if l.typ != "FormatHeader" && l.typ != "FormatGoodbyeItem" {
				built[l.typ] = true
			}
		}
		var missing []string
		for typ := range built {
			if _, ok := t.enc[typ]; !ok {
				missing = append(missing, typ)
			}
		}
		sort.Strings(missing)
		c.verdict(len(missing) == 0 && len(built) >= 7, "tar:encodable", fn.Pos(), fmt.Sprintf("all %d element types built by tar() have an encoder case", len(built)), fmt.Sprintf("element types without encoder case: %v", missing))
	}
	// ArchiveDecoder.Next has a case (type assertion) for every type FormatDecoder.Next can return
	if fn := c.mustFn("ArchiveDecoder.Next"); fn != nil {
		handled := map[string]bool{}
		instrs(fn, func(_ *ssa.BasicBlock, _ int, ins ssa.Instruction) {
			if ta, ok := ins.(*ssa.TypeAssert); ok {
				handled[strings.TrimPrefix(typeName(ta.AssertedType), "desync.")] = true
			}
		})
		var missing []string
		for typ := range t.dec {
			if typ == "FormatIndex" || typ == "FormatTable" {
				continue
			}
			if !handled[typ] {
				missing = append(missing, typ)
			}
		}
		sort.Strings(missing)
		c.verdict(len(missing) == 0, "ArchiveDecoder.Next:exhaustive", fn.Pos(), fmt.Sprintf("%d decodable archive element types are all handled", len(t.dec)-2), fmt.Sprintf("decodable element types not handled by the archive decoder: %v", missing))
	}
}

// modePairs extracts (tested constant -> OR-ed constant) pairs from a mode conversion function.
func modePairs(top *ssa.Function) map[string]bool {
	out := map[string]bool{}
	for _, fn := range fnsDeep(top) {
		modePairsIn(fn, fn != top, out)
	}
	return out
}

func modePairsIn(fn *ssa.Function, helper bool, out map[string]bool) {
	instrs(fn, func(b *ssa.BasicBlock, _ int, ins ssa.Instruction) {
		var k *ssa.Const
		switch x := ins.(type) {
		case *ssa.BinOp:
			if x.Op != token.OR {
				return
			}
			k, _ = x.Y.(*ssa.Const)
		case *ssa.Return:
			// a helper that returns the pattern of the matching case ("case os.ModeDir: return S_IFDIR")
			if !helper || len(x.Results) != 1 {
				return
			}
			k, _ = x.Results[0].(*ssa.Const)
		default:
			return
		}
		if k == nil || k.Value == nil {
			return
		}
		if len(b.Preds) != 1 {
			return
		}
		iff := lastIf(b.Preds[0])
		if iff == nil {
			return
		}
		cm, truth, okc := cmpOf(iff.Cond)
		if !okc {
			return
		}
		onTrue := b.Preds[0].Succs[0] == b
		var in string
		switch cm.op {
		case token.EQL:
			if kk, ok := cm.y.(*ssa.Const); ok && kk.Value != nil && (onTrue == truth) {
				in = kk.Value.ExactString()
			}
		case token.NEQ:
			// (mode & K) != 0
			if z, ok := cm.y.(*ssa.Const); ok && z.Value != nil && constInt64(z) == 0 && (onTrue == truth) {
				if and, ok := cm.x.(*ssa.BinOp); ok && and.Op == token.AND {
					if kk, ok := and.Y.(*ssa.Const); ok && kk.Value != nil {
						in = kk.Value.ExactString()
					}
				}
			}
		}
		if in != "" {
			out[in+"->"+k.Value.ExactString()] = true
		}
	})
}

// tableField recognises a field of an element of a package-level table ("t.stat" with t ranging
// over a global slice or array of structs): the global, the element value and the field index.
func tableField(v ssa.Value) (g *ssa.Global, elem ssa.Value, field int, ok bool) {
	for {
		switch x := v.(type) {
		case *ssa.Convert:
			v = x.X
			continue
		case *ssa.ChangeType:
			v = x.X
			continue
		}
		break
	}
	var ia *ssa.IndexAddr
	var arr ssa.Value
	switch x := v.(type) {
	case *ssa.Field:
		if ix, isIx := x.X.(*ssa.Index); isIx {
			if ld, isLd := ix.X.(*ssa.UnOp); isLd && ld.Op == token.MUL {
				if g, ok := ld.X.(*ssa.Global); ok {
					return g, ix, x.Field, true
				}
			}
		}
		ld, isLd := x.X.(*ssa.UnOp)
		if !isLd || ld.Op != token.MUL {
			return nil, nil, 0, false
		}
		ia, _ = ld.X.(*ssa.IndexAddr)
		elem, field = ld, x.Field
	case *ssa.UnOp:
		if x.Op != token.MUL {
			return nil, nil, 0, false
		}
		fa, isFA := x.X.(*ssa.FieldAddr)
		if !isFA {
			return nil, nil, 0, false
		}
		ia, _ = fa.X.(*ssa.IndexAddr)
		elem, field = fa.X, fa.Field
		// the range variable: a local copy of the row
		if al, isAl := fa.X.(*ssa.Alloc); isAl {
			if sts := storesTo(al); len(sts) == 1 {
				if ld, isLd := sts[0].Val.(*ssa.UnOp); isLd && ld.Op == token.MUL {
					ia, _ = ld.X.(*ssa.IndexAddr)
				}
				// range over an array: the row is indexed out of a copy of the whole table
				if ix, isIx := sts[0].Val.(*ssa.Index); isIx {
					arr = ix.X
				}
			}
		}
	}
	if ia == nil && arr == nil {
		return nil, nil, 0, false
	}
	base := arr
	if ia != nil {
		base = ia.X
	}
	if ld, isLd := base.(*ssa.UnOp); isLd && ld.Op == token.MUL {
		base = ld.X
	}
	g, ok = base.(*ssa.Global)
	return g, elem, field, ok
}

// tableRows returns the constant rows of a package-level table of structs from its composite
// literal, or nil if an entry is not constant or the table is written outside its initialiser.
func (c *Ctx) tableRows(g *ssa.Global) [][]string {
	for _, fn := range c.libFuncs() {
		if fn.Name() == "init" {
			continue
		}
		written := false
		instrs(fn, func(_ *ssa.BasicBlock, _ int, ins ssa.Instruction) {
			if st, ok := ins.(*ssa.Store); ok && hasOrigin(st.Addr, func(o string) bool { return o == "global:"+g.Name() }) {
				written = true
			}
		})
		if written {
			return nil
		}
	}
	var rows [][]string
	for _, f := range c.Lib.Syntax {
		for _, d := range f.Decls {
			gd, ok := d.(*ast.GenDecl)
			if !ok || gd.Tok != token.VAR {
				continue
			}
			for _, sp := range gd.Specs {
				vs := sp.(*ast.ValueSpec)
				for i, nm := range vs.Names {
					if nm.Name != g.Name() || i >= len(vs.Values) {
						continue
					}
					lit, ok := vs.Values[i].(*ast.CompositeLit)
					if !ok {
						return nil
					}
					for _, el := range lit.Elts {
						rl, ok := el.(*ast.CompositeLit)
						if !ok {
							return nil
						}
						var row []string
						for _, fe := range rl.Elts {
							if _, isKV := fe.(*ast.KeyValueExpr); isKV {
								return nil // keyed rows: field order not positional
							}
							tv, ok := c.Lib.TypesInfo.Types[fe]
							if !ok || tv.Value == nil {
								return nil
							}
							row = append(row, tv.Value.ExactString())
						}
						rows = append(rows, row)
					}
				}
			}
		}
	}
	return rows
}

// tableModePairs: the table-driven form of the conversions - a loop over a constant table whose
// rows pair an st_mode pattern with a FileMode pattern; the branch on field i of the row uses
// field j of the same row in its body.
func (c *Ctx) tableModePairs(fn *ssa.Function) map[string]bool {
	out := map[string]bool{}
	for _, b := range fn.Blocks {
		iff := lastIf(b)
		if iff == nil {
			continue
		}
		cm, truth, ok := cmpOf(iff.Cond)
		if !ok {
			continue
		}
		var g *ssa.Global
		var elem ssa.Value
		var fi int
		found := false
		switch cm.op {
		case token.EQL:
			for _, side := range []ssa.Value{cm.x, cm.y} {
				if g0, e0, f0, ok := tableField(side); ok {
					g, elem, fi, found = g0, e0, f0, true
				}
			}
		case token.NEQ:
			if z, ok := cm.y.(*ssa.Const); ok && z.Value != nil && constInt64(z) == 0 {
				if and, ok := cm.x.(*ssa.BinOp); ok && and.Op == token.AND {
					for _, side := range []ssa.Value{and.X, and.Y} {
						if g0, e0, f0, ok := tableField(side); ok {
							g, elem, fi, found = g0, e0, f0, true
						}
					}
				}
			}
		}
		if !found {
			continue
		}
		body := b.Succs[1]
		if truth {
			body = b.Succs[0]
		}
		fj := -1
		for _, ins := range body.Instrs {
			if v, ok := ins.(ssa.Value); ok {
				if g1, e1, f1, ok := tableField(v); ok && g1 == g && e1 == elem && f1 != fi {
					fj = f1
				}
			}
		}
		if fj < 0 {
			continue
		}
		for _, row := range c.tableRows(g) {
			if fi < len(row) && fj < len(row) {
				out[row[fi]+"->"+row[fj]] = true
			}
		}
	}
	return out
}

// importedConst looks a constant of an imported package up ("os", "ModeType").
func (c *Ctx) importedConst(pkgPath, name string) (string, bool) {
	for _, imp := range c.Lib.Types.Imports() {
		if imp.Path() == pkgPath {
			if k, ok := imp.Scope().Lookup(name).(*types.Const); ok {
				return k.Val().ExactString(), true
			}
		}
	}
	return "", false
}

// typeMasks: the masks under which fn compares its parameter with file-type patterns: "mode & K"
// gives K, any other derivation of the compared value gives "?".
func typeMasks(top *ssa.Function) map[string]bool {
	out := map[string]bool{}
	var blocks []*ssa.BasicBlock
	for _, fn := range fnsDeep(top) {
		blocks = append(blocks, fn.Blocks...)
	}
	for _, b := range blocks {
		iff := lastIf(b)
		if iff == nil {
			continue
		}
		cm, _, ok := cmpOf(iff.Cond)
		if !ok || cm.op != token.EQL {
			continue
		}
		if k, isK := cm.y.(*ssa.Const); !isK || k.Value == nil {
			if _, _, _, isTab := tableField(cm.y); !isTab {
				continue
			}
		}
		v := stripConv(cm.x)
		if bo, isBin := v.(*ssa.BinOp); isBin && bo.Op == token.AND {
			if k, isK := bo.Y.(*ssa.Const); isK && k.Value != nil {
				out[k.Value.ExactString()] = true
				continue
			}
			if k, isK := bo.X.(*ssa.Const); isK && k.Value != nil {
				out[k.Value.ExactString()] = true
				continue
			}
		}
		out["?"+v.String()] = true
	}
	return out
}

func c05ModeTables(c *Ctx) {
	a, b := c.mustFn("StatModeToFilemode"), c.mustFn("FilemodeToStatMode")
	if a == nil || b == nil {
		return
	}
	// the file type is what is left under the type mask - S_IFMT on the st_mode side, os.ModeType on
	// the FileMode side; a wider mask lets set-uid/set-gid/sticky (which live outside ModePerm in a
	// FileMode) turn a directory into "none of the known types", i.e. a regular file
	for _, side := range []struct {
		fn        *ssa.Function
		pkg, name string
	}{{a, "syscall", "S_IFMT"}, {b, "os", "ModeType"}} {
		want, ok := c.importedConst(side.pkg, side.name)
		masks := typeMasks(side.fn)
		okM := ok && len(masks) == 1 && masks[want]
		var got []string
		for m := range masks {
			got = append(got, m)
		}
		sort.Strings(got)
		c.verdict(okM, fnKey(side.fn)+":type-mask", side.fn.Pos(), fmt.Sprintf("file types are compared under %s.%s", side.pkg, side.name),
			fmt.Sprintf("file types are not compared under the mask %s.%s (%s) but under %v: bits outside the type field change which case matches", side.pkg, side.name, want, got))
	}
	pa, pb := modePairs(a), modePairs(b)
	for p := range c.tableModePairs(a) {
		pa[p] = true
	}
	for p := range c.tableModePairs(b) {
		pb[p] = true
	}
	var bad []string
	for p := range pa {
		parts := strings.Split(p, "->")
		if !pb[parts[1]+"->"+parts[0]] {
			bad = append(bad, fmt.Sprintf("st_mode %s -> FileMode %s has no inverse", parts[0], parts[1]))
		}
	}
	for p := range pb {
		parts := strings.Split(p, "->")
		if !pa[parts[1]+"->"+parts[0]] {
			bad = append(bad, fmt.Sprintf("FileMode %s -> st_mode %s has no inverse", parts[0], parts[1]))
		}
	}
	sort.Strings(bad)
	if len(pa) < 9 || len(pb) < 9 {
		bad = append(bad, fmt.Sprintf("expected 6 file types + 3 special bits in each direction, found %d / %d", len(pa), len(pb)))
	}
	c.report("mode-tables:inverse", a, bad, fmt.Sprintf("%d/%d pairs, each with its inverse (file types and set-uid/set-gid/sticky)", len(pa), len(pb)))
}

func c05Deterministic(c *Ctx) {
	fn := c.mustFn("tar")
	if fn == nil {
		return
	}
	// map ranges
	nRanges := 0
	instrs(fn, func(_ *ssa.BasicBlock, _ int, ins ssa.Instruction) {
		rg, ok := ins.(*ssa.Range)
		if !ok {
			return
		}
		if !strings.HasPrefix(rg.X.Type().Underlying().String(), "map[") {
			return
		}
		nRanges++
		// the loop: blocks reachable from the range block that can reach it again
		loop := map[*ssa.BasicBlock]bool{}
		for _, b := range fn.Blocks {
			if reachableFrom(rg.Block(), nil)[b] && reachableFrom(b, nil)[rg.Block()] {
				loop[b] = true
			}
		}
		// find the Next instruction's block = loop header
		enc := false
		for b := range loop {
			for _, x := range b.Instrs {
				if call, ok := x.(*ssa.Call); ok && (strings.HasSuffix(callee(call), "FormatEncoder).Encode") || callee(call) == "desync.tar") {
					enc = true
				}
			}
		}
		// the Range instruction sits before the loop; identify loop via its Next users
		for _, r := range *rg.Referrers() {
			if nx, ok := r.(*ssa.Next); ok {
				hb := nx.Block()
				for _, b := range fn.Blocks {
					if reachableFrom(hb, nil)[b] && reachableFrom(b, nil)[hb] {
						for _, x := range b.Instrs {
							if call, ok := x.(*ssa.Call); ok && (strings.HasSuffix(callee(call), "FormatEncoder).Encode") || callee(call) == "desync.tar") {
								enc = true
							}
						}
					}
				}
			}
		}
		c.verdict(!enc, "tar:no-encode-in-map-range", rg.Pos(), "nothing is encoded while ranging over a map", "an element is encoded inside a range over a map: the archive bytes depend on Go's random map iteration order")
	})
	// sort before the xattr encode loop
	sorts := calls(fn, named("sort.Strings", "sort.Slice", "sort.SliceStable", "slices.Sort"))
	okSort := false
	for _, e := range encodeSites(fn) {
		if typeName(e.typ) == "desync.FormatXAttr" {
			for _, s := range sorts {
				if instrDominates(s.(ssa.Instruction), e.at) && hasOrigin(s.Common().Args[0], func(o string) bool { return o == "call:builtin:append#0" || o == "makeslice" }) {
					okSort = true
				}
			}
		}
	}
	if nRanges == 0 {
		c.info("tar:no-encode-in-map-range", fn.Pos(), "tar() does not range over a map")
	}
	c.verdict(okSort, "tar:xattr-keys-sorted", fn.Pos(), "the xattr keys are sorted before the xattr elements are encoded", "xattr elements are encoded without sorting the keys taken from the map: packing the same tree twice gives different bytes")
	// the disk reader walks in lexical order
	walkOK := false
	for _, f := range c.subjects() {
		if strings.HasPrefix(fnKey(f), "LocalFS.") && len(calls(f, named("path/filepath.Walk", "path/filepath.WalkDir"))) > 0 {
			walkOK = true
		}
	}
	c.verdict(walkOK, "LocalFS:walk", token.NoPos, "the disk reader enumerates with filepath.Walk (lexical order)", "the disk reader does not enumerate with filepath.Walk: child order is not defined")
}

// fieldSources checks, for stores to fields of dstType in fn, that the stored value is computed from srcField.
func (c *Ctx) fieldSources(fn *ssa.Function, dstType string, want map[string][]string) {
	found := map[string]bool{}
	sourced := map[string]bool{}
	overrides := map[string][]*ssa.Store{}
	instrs(fn, func(_ *ssa.BasicBlock, _ int, ins ssa.Instruction) {
		st, ok := ins.(*ssa.Store)
		if !ok {
			return
		}
		fa, ok := st.Addr.(*ssa.FieldAddr)
		if !ok {
			return
		}
		f := fieldOf(fa)
		if !strings.HasPrefix(f, dstType+".") {
			return
		}
		name := strings.TrimPrefix(f, dstType+".")
		srcs, ok := want[name]
		if !ok {
			return
		}
		found[name] = true
		okV := false
		for _, src := range srcs {
			parts := strings.SplitN(src, ".", 2)
			if strings.HasPrefix(src, "call:") {
				if hasOriginDeep(st.Val, strings.TrimPrefix(src, "call:")) || hasOrigin(st.Val, func(o string) bool { return strings.Contains(o, strings.TrimPrefix(src, "call:")) }) {
					okV = true
				}
				continue
			}
			for _, x := range fieldsIn(st.Val, parts[0], map[ssa.Value]bool{}, 0) {
				if x == parts[1] {
					okV = true
				}
			}
			// through a local variable
			for _, l := range leaves(st.Val) {
				for _, x := range fieldsIn(l, parts[0], map[ssa.Value]bool{}, 0) {
					if x == parts[1] {
						okV = true
					}
				}
			}
		}
		if !okV {
			// an override chosen by an option ("if fs.opts.NoTime { f.ModTime = time.Unix(0, 0) }"):
			// the store lies behind a test of an options field and another store fills the field
			// from the wanted source (checked below: found / sourced)
			isOverride := false
			for _, ob := range fn.Blocks {
				if iff := lastIf(ob); iff != nil && onlyOrigins(stripNot(iff.Cond), func(o string) bool { return strings.HasPrefix(o, "field:") && strings.Contains(o, "Options.") }) {
					// control-dependent on one outcome of the option test
					for _, sc := range ob.Succs {
						if !reachable(fn, map[edge]bool{{ob, sc}: true})[st.Block()] {
							isOverride = true
						}
					}
				}
			}
			if isOverride {
				overrides[name] = append(overrides[name], st)
				return
			}
		} else {
			sourced[name] = true
		}
		c.verdict(okV, fmt.Sprintf("%s:%s.%s", fnKey(fn), dstType, name), st.Pos(), fmt.Sprintf("%s.%s <- %v", dstType, name, srcs), fmt.Sprintf("%s.%s is not filled from %v (origins %v): the attribute is lost or crossed on the way", dstType, name, srcs, origins(st.Val)))
	})
	for name, sts := range overrides {
		if !sourced[name] {
			c.bad(fmt.Sprintf("%s:%s.%s", fnKey(fn), dstType, name), sts[0].Pos(), "%s.%s is only ever set by an option override, never from %v", dstType, name, want[name])
		}
	}
	for name := range want {
		if !found[name] {
			c.bad(fmt.Sprintf("%s:%s.%s", fnKey(fn), dstType, name), fn.Pos(), "%s.%s is never set in %s", dstType, name, fnKey(fn))
		}
	}
}

// fieldBases returns, for the loads of field typ.name that v is computed from, the base objects.
func fieldBases(v ssa.Value, full string, seen map[ssa.Value]bool, depth int) []ssa.Value {
	if v == nil || seen[v] || depth > 8 {
		return nil
	}
	seen[v] = true
	var out []ssa.Value
	switch x := v.(type) {
	case *ssa.Field:
		if fieldOf(x) == full {
			out = append(out, x.X)
		}
	case *ssa.UnOp:
		if fa, ok := x.X.(*ssa.FieldAddr); ok && x.Op == token.MUL {
			if fieldOf(fa) == full {
				out = append(out, fa.X)
			}
		} else {
			out = append(out, fieldBases(x.X, full, seen, depth+1)...)
		}
	case *ssa.Convert:
		out = append(out, fieldBases(x.X, full, seen, depth+1)...)
	case *ssa.ChangeType:
		out = append(out, fieldBases(x.X, full, seen, depth+1)...)
	case *ssa.BinOp:
		out = append(out, fieldBases(x.X, full, seen, depth+1)...)
		out = append(out, fieldBases(x.Y, full, seen, depth+1)...)
	case *ssa.Call:
		for _, a := range x.Call.Args {
			out = append(out, fieldBases(a, full, seen, depth+1)...)
		}
	}
	return out
}

func c05FieldMapping(c *Ctx) {
	if fn := c.mustFn("tar"); fn != nil {
		// the File whose attributes are encoded is the entry being packed (parameter f)
		var fParam *ssa.Parameter
		for _, p := range fn.Params {
			if typeName(p.Type()) == "desync.File" {
				fParam = p
			}
		}
		n := 0
		instrs(fn, func(_ *ssa.BasicBlock, _ int, ins ssa.Instruction) {
			st, ok := ins.(*ssa.Store)
			if !ok {
				return
			}
			fa, ok := st.Addr.(*ssa.FieldAddr)
			if !ok || !strings.HasPrefix(fieldOf(fa), "Format") || strings.HasPrefix(fieldOf(fa), "FormatHeader") || strings.HasPrefix(fieldOf(fa), "FormatGoodbye") {
				return
			}
			for _, fld := range []string{"File.Uid", "File.Gid", "File.Mode", "File.ModTime", "File.LinkTarget", "File.DevMajor", "File.DevMinor", "File.Data"} {
				for _, base := range fieldBases(st.Val, fld, map[ssa.Value]bool{}, 0) {
					n++
					if fParam == nil || !isParam(base, fParam) {
						c.bad("tar:"+fieldOf(fa)+":same-file", st.Pos(), "%s is filled from %s of a different File object than the entry being packed", fieldOf(fa), fld)
					}
				}
			}
		})
		if n > 0 {
			c.ok("tar:attributes-of-the-packed-entry", fn.Pos(), "%d attribute reads, all from the entry being packed", n)
		}
		c.fieldSources(fn, "FormatEntry", map[string][]string{"UID": {"File.Uid"}, "GID": {"File.Gid"}, "Mode": {"File.Mode"}, "MTime": {"File.ModTime"}})
		c.fieldSources(fn, "FormatSymlink", map[string][]string{"Target": {"File.LinkTarget"}})
		c.fieldSources(fn, "FormatDevice", map[string][]string{"Major": {"File.DevMajor"}, "Minor": {"File.DevMinor"}})
		c.fieldSources(fn, "FormatPayload", map[string][]string{"Data": {"File.Data"}})
	}
	if fn := c.mustFn("ArchiveDecoder.Next"); fn != nil {
		common := func(extra map[string][]string) map[string][]string {
			m := map[string][]string{"UID": {"FormatEntry.UID"}, "GID": {"FormatEntry.GID"}, "Mode": {"FormatEntry.Mode"}, "MTime": {"FormatEntry.MTime"}}
			for k, v := range extra {
				m[k] = v
			}
			return m
		}
		c.fieldSources(fn, "NodeDirectory", common(nil))
		c.fieldSources(fn, "NodeFile", common(map[string][]string{"Data": {"FormatPayload.Data"}, "Size": {"FormatPayload.Size", "FormatHeader.Size"}}))
		c.fieldSources(fn, "NodeSymlink", common(map[string][]string{"Target": {"FormatSymlink.Target"}}))
		c.fieldSources(fn, "NodeDevice", common(map[string][]string{"Major": {"FormatDevice.Major"}, "Minor": {"FormatDevice.Minor"}}))
	}
	if fn := c.mustFn("LocalFS.Next"); fn != nil {
		c.fieldSources(fn, "File", map[string][]string{
			"Uid": {"Stat_t.Uid"}, "Gid": {"Stat_t.Gid"}, "DevMajor": {"Stat_t.Rdev"}, "DevMinor": {"Stat_t.Rdev"},
			"Mode": {"call:FileInfo).Mode"}, "ModTime": {"call:FileInfo).ModTime"}, "Size": {"call:FileInfo).Size"},
			"LinkTarget": {"call:os.Readlink"}, "Path": {"call:path.Clean"}, "Name": {"call:FileInfo).Name"},
		})
	}
	if fn := c.mustFn("TarReader.Next"); fn != nil {
		c.fieldSources(fn, "File", map[string][]string{"Path": {"call:path.Clean"}, "Uid": {"Header.Uid"}, "Gid": {"Header.Gid"}, "LinkTarget": {"Header.Linkname"}})
	}
}

func c05RestoreMatrix(c *Ctx) {
	// which effects each Create* reaches (directly or through Set*Permissions)
	type eff struct{ owner, xattr, mode, times bool }
	effects := func(fn *ssa.Function) (e eff, fns []*ssa.Function) {
		fns = []*ssa.Function{fn}
		for _, call := range calls(fn, func(n string) bool { return strings.Contains(n, "LocalFS).Set") }) {
			if cal := c.staticFn(call); cal != nil {
				fns = append(fns, cal)
			}
		}
		for _, f := range fns {
			for _, call := range calls(f, func(string) bool { return true }) {
				names := []string{callee(call)}
				// a primitive handed to a new helper that calls it ("applyOwner(dst, os.Lchown, ...)")
				if h := directCallee(call); h != nil && newHelpers[h] {
					for k, a := range call.Common().Args {
						fv, isFn := a.(*ssa.Function)
						if !isFn || k >= len(h.Params) || fv.Object() == nil {
							continue
						}
						called := false
						instrs(h, func(_ *ssa.BasicBlock, _ int, ins ssa.Instruction) {
							if ci, ok := ins.(ssa.CallInstruction); ok && ci.Common().Value == ssa.Value(h.Params[k]) {
								called = true
							}
						})
						if called {
							names = append(names, short(fv.Object().(*types.Func).FullName()))
						}
					}
				}
				for _, name := range names {
					switch name {
					case "os.Chown", "os.Lchown":
						e.owner = true
					case "github.com/pkg/xattr.LSet", "github.com/pkg/xattr.Set":
						e.xattr = true
					case "syscall.Chmod", "os.Chmod":
						e.mode = true
					case "os.Chtimes":
						e.times = true
					}
				}
			}
		}
		return
	}
	for _, key := range []string{"LocalFS.CreateDir", "LocalFS.CreateFile", "LocalFS.CreateSymlink", "LocalFS.CreateDevice"} {
		fn := c.mustFn(key)
		if fn == nil {
			continue
		}
		e, fns := effects(fn)
		wantMode := key != "LocalFS.CreateSymlink" // symlink permissions do not matter on Linux
		okE := e.owner && e.xattr && (e.mode || !wantMode)
		c.verdict(okE, key+":restores", fn.Pos(), fmt.Sprintf("owner=%v xattrs=%v mode=%v times=%v", e.owner, e.xattr, e.mode, e.times),
			fmt.Sprintf("%s does not restore all of owner/xattrs/mode (owner=%v xattrs=%v mode=%v)", key, e.owner, e.xattr, e.mode))
		// option guards and ordering
		for _, f := range fns {
			for _, call := range calls(f, named("os.Chown", "os.Lchown")) {
				okG, _ := guarded(f, call.(ssa.Instruction), func(iff *ssa.If) (bool, bool) {
					if onlyOrigins(stripNot(iff.Cond), func(o string) bool { return o == "field:LocalFSOptions.NoSameOwner" }) {
						_, truth, _ := cmpOf(iff.Cond)
						return !truth, truth
					}
					return false, false
				})
				c.verdict(okG, fnKey(f)+":owner-option", call.Pos(), "owner restored unless NoSameOwner", "the owner is changed regardless of the NoSameOwner option")
				// chown must not follow chmod: it clears set-uid/set-gid
				for _, m := range calls(f, named("syscall.Chmod", "os.Chmod")) {
					c.verdict(!reachesInstr(m.(ssa.Instruction), call.(ssa.Instruction)), fnKey(f)+":owner-before-mode", call.Pos(), "the owner is set before the mode", "the owner is changed after the mode was set: chown(2) clears the set-uid/set-gid bits that chmod just restored")
				}
			}
			for _, call := range calls(f, named("syscall.Chmod", "os.Chmod")) {
				okG, _ := guarded(f, call.(ssa.Instruction), func(iff *ssa.If) (bool, bool) {
					if onlyOrigins(stripNot(iff.Cond), func(o string) bool { return o == "field:LocalFSOptions.NoSamePermissions" }) {
						_, truth, _ := cmpOf(iff.Cond)
						return !truth, truth
					}
					return false, false
				})
				modeOK := hasOriginDeep(call.Common().Args[1], "FilemodeToStatMode") || hasOrigin(call.Common().Args[1], func(o string) bool { return strings.Contains(o, "FilemodeToStatMode") })
				c.verdict(okG && modeOK, fnKey(f)+":mode-option", call.Pos(), "mode = FilemodeToStatMode(n.Mode) unless NoSamePermissions", "the mode is not restored from n.Mode through FilemodeToStatMode (or not under the NoSamePermissions option)")
			}
		}
	}
}

// c05RestoreTimes reports the two recorded findings (they stay violations of the rule and are
// matched against known-findings.txt by rule + construct).
func c05RestoreTimes(c *Ctx) {
	// (1) CreateDir applies the times when the directory is entered; children come later
	if fn := c.mustFn("LocalFS.CreateDir"); fn != nil {
		times := calls(fn, named("os.Chtimes"))
		if len(times) == 0 {
			c.bad("LocalFS.CreateDir:no-times", fn.Pos(), "directory times are never restored")
		} else {
			// UnTar calls CreateDir when it meets the directory's entry (before its children)
			atEntry := false
			if u := c.fn("UnTar"); u != nil {
				for _, call := range calls(u, suffixed("FilesystemWriter).CreateDir")) {
					_ = call
					atEntry = true
				}
			}
			exit := false
			for _, f := range c.subjects() {
				if strings.Contains(fnKey(f), "LeaveDir") || strings.Contains(fnKey(f), "FinishDir") || strings.Contains(fnKey(f), "CloseDir") {
					exit = true
				}
			}
			if atEntry && !exit {
				c.bad("LocalFS.CreateDir:set-before-children", times[0].Pos(), "os.Chtimes on a directory is issued when the directory is created; its children are written afterwards and bump the time")
			} else {
				c.ok("LocalFS.CreateDir:set-before-children", times[0].Pos(), "directory times are applied after the children")
			}
		}
	}
	// (2) the epoch sentinel: Chtimes skipped when MTime == time.Unix(0,0).  Every successful
	// return of the three functions either applied the times or took the edge on which the
	// mtime was found *equal* to the epoch (the recorded finding); a success path that skips
	// Chtimes for any other reason - a test of the seconds only, a wider range, an unrelated
	// condition - loses modification times the finding does not describe.
	sentinel := false
	var pos token.Pos
	isEpoch := func(v ssa.Value) bool {
		for _, l := range leaves(v) {
			cl, _ := callOf(l)
			if cl == nil || callee(cl) != "time.Unix" {
				return false
			}
			k0, ok0 := cl.Call.Args[0].(*ssa.Const)
			k1, ok1 := cl.Call.Args[1].(*ssa.Const)
			if !(ok0 && ok1 && constInt64(k0) == 0 && constInt64(k1) == 0) {
				return false
			}
		}
		return len(leaves(v)) > 0
	}
	for _, key := range []string{"LocalFS.CreateDir", "LocalFS.CreateFile", "LocalFS.CreateDevice"} {
		fn := c.fn(key)
		if fn == nil || len(calls(fn, named("os.Chtimes"))) == 0 {
			continue
		}
		var other []string
		paths := 0
		h := &Hooks{
			Call: func(st *State, call *ssa.Call) map[int]Val {
				if callee(call) == "os.Chtimes" {
					st.Emit("chtimes", "", call)
				}
				return nil
			},
			Branch: func(st *State, iff *ssa.If, taken bool) {
				switch b := iff.Cond.(type) {
				case *ssa.BinOp:
					if (b.Op == token.EQL || b.Op == token.NEQ) && (isEpoch(b.X) || isEpoch(b.Y)) && (b.Op == token.EQL) == taken {
						st.Flags["epoch"] = 1
						pos = b.Pos()
					}
				case *ssa.Call:
					if callee(b) == "(time.Time).Equal" && taken {
						for _, a := range b.Call.Args {
							if isEpoch(a) {
								st.Flags["epoch"] = 1
								pos = b.Pos()
							}
						}
					}
				}
			},
			Return: func(st *State, ret *ssa.Return, results []Val) {
				if len(results) == 0 || results[len(results)-1].N == NNon {
					return
				}
				paths++
				if st.Count("chtimes") > 0 {
					return
				}
				if st.Flags["epoch"] == 1 {
					sentinel = true
					return
				}
				other = append(other, fmt.Sprintf("return at %s (trail %s)", c.pos(ret.Pos()), strings.Join(st.Trail, ">")))
			},
		}
		Explore(fn, fn.Blocks[0], 0, nil, NewState(), h)
		c.paths += h.Paths
		if len(other) > 0 {
			c.bad(key+":times-always-restored", fn.Pos(), "a successful path leaves the entry without os.Chtimes although its mtime was not found equal to the Unix epoch: %s - modification times other than the exact sentinel value are not restored", other[0])
		} else {
			c.ok(key+":times-always-restored", fn.Pos(), "%d non-failing path(s): each applies os.Chtimes or took the mtime == epoch edge", paths)
		}
	}
	if sentinel {
		c.bad("LocalFS:epoch-sentinel", pos, "os.Chtimes is skipped when n.MTime equals the Unix epoch: an entry whose modification time really is the epoch gets the extraction time")
	} else {
		c.ok("LocalFS:epoch-sentinel", token.NoPos, "times are restored for every mtime value")
	}
}

func c05Ordered(c *Ctx) {
	fn := c.mustFn("UnTarIndex")
	if fn == nil {
		return
	}
	// senders on the 'assemble' channel
	var senders []*ssa.Function
	for _, f := range withClosures(fn) {
		instrs(f, func(_ *ssa.BasicBlock, _ int, ins ssa.Instruction) {
			if sel, ok := ins.(*ssa.Select); ok {
				for _, s := range sel.States {
					if s.Send != nil && strings.Contains(s.Chan.Type().String(), "chan chan") {
						senders = append(senders, f)
					}
				}
			}
			if snd, ok := ins.(*ssa.Send); ok && strings.Contains(snd.Chan.Type().String(), "chan chan") {
				senders = append(senders, f)
			}
		})
	}
	okOne := len(senders) == 1
	c.verdict(okOne, "UnTarIndex:single-feeder", fn.Pos(), "exactly one goroutine hands data channels to the assembler", fmt.Sprintf("%d senders on the assembler channel: chunk order is not defined", len(senders)))
	if okOne {
		f := senders[0]
		hdr, _, _ := loopOverLen(f, func(os []string) bool { return len(os) == 1 && contains(os, "field:Index.Chunks") })
		// started once
		starts := 0
		for _, g := range calls(fn, named(egGo)) {
			for _, a := range g.Common().Args {
				for _, w := range closuresOfValue(a) {
					n := 0
					if w == f {
						n = 1
					} else {
						// the goroutine runs the feeder through a local function value
						instrs(w, func(b *ssa.BasicBlock, _ int, ins ssa.Instruction) {
							if call, ok := ins.(ssa.CallInstruction); ok && !call.Common().IsInvoke() {
								for _, t := range closuresOfValue(call.Common().Value) {
									if t == f {
										n++
										if inLoop(b) {
											n += 10
										}
									}
								}
							}
						})
					}
					starts += n
					if n > 0 && inLoop(g.Block()) {
						starts += 10
					}
				}
			}
		}
		c.verdict(hdr != nil && starts == 1, "UnTarIndex:in-index-order", f.Pos(), "the feeder ranges over index.Chunks in order and runs once", "the feeder does not range over the whole of index.Chunks in order, or is started more than once")
	}
}

// c05NamesOpaque: entry names range over every byte string without '/' and NUL, so the
// traversal code may look at a name or path only through path.Dir/Base/Join/Clean and
// (in)equality.  A prefix, suffix, substring, pattern or relative-path test over a name
// treats some legal names differently from others (e.g. a sibling called "..data").
var namePredicateExceptions = map[string]string{
	"ArchiveDecoder.Next|strings.IndexRune": "splits an xattr element at its NUL separator; the operand is FormatXAttr.NameAndValue, not an entry name",
}

func c05NamesOpaque(c *Ctx) {
	var scope []*ssa.Function
	add := func(f *ssa.Function) {
		if f != nil {
			scope = append(scope, withClosures(f)...)
		}
	}
	add(c.mustFn("tar"))
	add(c.mustFn("ArchiveDecoder.Next"))
	add(c.mustFn("UnTar"))
	add(c.mustFn("UnTarIndex"))
	add(c.mustFn("TarReader.Next"))
	add(c.mustFn("LocalFS.Next"))
	for _, fn := range c.subjects() {
		k := fnKey(fn)
		if strings.HasPrefix(k, "fsBufReader.") || strings.HasPrefix(k, "LocalFS.Create") || strings.HasPrefix(k, "LocalFS.initForReading") {
			scope = append(scope, fn)
		}
	}
	opaque, sites := 0, 0
	seen := map[*ssa.Function]bool{}
	for _, fn := range scope {
		if seen[fn] {
			continue
		}
		seen[fn] = true
		instrs(fn, func(_ *ssa.BasicBlock, _ int, ins ssa.Instruction) {
			switch x := ins.(type) {
			case ssa.CallInstruction:
				name := callee(x)
				switch {
				case name == "path.Dir" || name == "path.Base" || name == "path.Clean" || name == "path.Join" ||
					name == "path/filepath.Dir" || name == "path/filepath.Base" || name == "path/filepath.Join" || name == "path/filepath.Clean":
					opaque++
				case (strings.HasPrefix(name, "strings.") && name != "strings.Join") || name == "path/filepath.Rel" || strings.HasSuffix(name, ".Match") ||
					name == "path/filepath.HasPrefix" || name == "path/filepath.Split" || name == "path.Split" || name == "path/filepath.Ext" || name == "path.Ext" ||
					strings.HasPrefix(name, "bytes.Has") || strings.HasPrefix(name, "bytes.Contains") || strings.HasPrefix(name, "(*regexp.Regexp)"):
					sites++
					key := fmt.Sprintf("%s:%s", fnKey(fn), name)
					if why, ok := namePredicateExceptions[fnKey(fn)+"|"+name]; ok {
						c.info(key, ins.Pos(), "exception: %s", why)
						return
					}
					// not a name: every operand is the name-and-value blob of an xattr element (which
					// is split at its NUL separator, however that is written) or a constant
					notName, strArgs := true, 0
					for _, a := range x.Common().Args {
						if b, isBasic := a.Type().Underlying().(*types.Basic); !isBasic || b.Info()&types.IsString == 0 {
							continue
						}
						strArgs++
						if !onlyOrigins(a, func(o string) bool { return o == "field:FormatXAttr.NameAndValue" || strings.HasPrefix(o, "const:") }) {
							notName = false
						}
					}
					if notName && strArgs > 0 && hasOrigin(x.Common().Args[0], func(o string) bool { return o == "field:FormatXAttr.NameAndValue" }) {
						c.info(key, ins.Pos(), "operand is FormatXAttr.NameAndValue, not an entry name")
						return
					}
					c.bad(key, ins.Pos(), "%s inspects the characters of a name or path inside the archive traversal: names are arbitrary byte strings (anything but '/' and NUL), so a prefix/suffix/substring/relative-path test treats some legal names differently from their siblings; compare path.Dir/path.Base results for equality instead", name)
				}
			case *ssa.Lookup:
				if b, ok := x.X.Type().Underlying().(*types.Basic); ok && b.Info()&types.IsString != 0 {
					sites++
					c.bad(fmt.Sprintf("%s:string-index", fnKey(fn)), ins.Pos(), "a byte of a name/path string is inspected inside the archive traversal; names are opaque")
				}
			}
		})
	}
	c.ok("traversal:names-opaque", 0, "%d traversal functions; %d path.Dir/Base/Join/Clean uses; %d character-level tests (all frozen exceptions)", len(seen), opaque, sites)
}

// c05StringTerminator: the encoder writes a string element as the bytes of the string plus one
// NUL; readString must take off exactly that one byte.  Trimming "all trailing NULs" (or none)
// changes values that themselves end in NUL bytes (xattr values are arbitrary bytes) and turns an
// empty value into a malformed element.  Every successful return of readString is the buffer
// read, cut at len-1.
func c05StringTerminator(c *Ctx) {
	fn := c.mustFn("FormatDecoder.readString")
	if fn == nil {
		return
	}
	n := 0
	for _, r := range returnsDeep(fn, 0) {
		if len(r.Results) != 2 || !isNilConst(unspill(r, r.Results[1])) {
			continue
		}
		n++
		okT, why := false, ""
		v := unspill(r, r.Results[0])
		if ls := leaves(v); len(ls) == 1 {
			v = ls[0]
		}
		switch sl := v.(type) {
		case *ssa.Slice:
			src := hasOrigin(sl.X, func(o string) bool {
				return strings.Contains(o, "reader).ReadN#0") || strings.Contains(o, "FormatDecoder).readBytes#0")
			})
			lowOK := sl.Low == nil
			if k, isK := sl.Low.(*ssa.Const); sl.Low != nil && isK && constInt64(k) == 0 {
				lowOK = true
			}
			highOK := false
			if sl.High != nil {
				lf := linearB(sl.High, 0)
				nAtoms, lenAtom := 0, false
				for a, coef := range lf.atoms {
					if coef == 0 {
						continue
					}
					nAtoms++
					if coef == 1 && strings.HasPrefix(a, "len(") {
						lenAtom = true
					}
				}
				highOK = lf.ok && lf.k == -1 && nAtoms == 1 && lenAtom
			}
			okT = src && lowOK && highOK
			if !okT {
				why = fmt.Sprintf("the result is a slice of the buffer but not b[:len(b)-1] (from ReadN: %v, low ok: %v, high ok: %v)", src, lowOK, highOK)
			}
		default:
			why = "the result is not the buffer cut at len-1 but " + v.String()
		}
		c.verdict(okT, "FormatDecoder.readString:strips-one-byte", r.Pos(), "the string is the element's bytes without exactly the final byte",
			why+": a string element is its bytes plus one NUL; values that end in NUL bytes (xattr values) come back shorter, or elements with an empty value are rejected")
	}
	if n == 0 {
		c.bad("FormatDecoder.readString:strips-one-byte", fn.Pos(), "readString has no successful return")
	}
}
