package main

// Write primitives: a store operation that reports success must have completed the back end's own
// write (put, copy, close, rename, delete).  Path rule over each implementation: every primitive of
// the operation is forked into a success and a failure outcome; on a path that returns a nil
// error, every required primitive was called and its last outcome was success.  Retry loops are
// fine (fail, then succeed); a loop that can run zero times, a shadowed error variable or an early
// nil return are not.

import (
	"fmt"
	"go/token"
	"go/types"
	"strings"

	"golang.org/x/tools/go/ssa"
)

type writeSpec struct {
	fn    string
	prims []string // callee-name fragments; each must have succeeded last on a nil return
	props []string
}

var writeSpecs = []writeSpec{
	{"S3Store.StoreChunk", []string{".Client).PutObject"}, []string{"C06", "C14"}},
	{"S3Store.RemoveChunk", []string{".Client).RemoveObject"}, []string{"C16"}},
	{"S3IndexStore.StoreIndex", []string{".Client).PutObject"}, []string{"C04"}},
	{"SFTPStoreBase.StoreObject", []string{"sftp.Client).Create", "io.Copy", "sftp.File).Close", "sftp.Client).PosixRename"}, []string{"C06", "C04", "C08"}},
	{"SFTPStore.StoreChunk", []string{"SFTPStoreBase).StoreObject"}, []string{"C06"}},
	{"SFTPStore.RemoveChunk", []string{"sftp.Client).Remove"}, []string{"C16"}},
	{"SFTPIndexStore.StoreIndex", []string{"SFTPStoreBase).StoreObject"}, []string{"C04"}},
	{"GCStore.StoreChunk", []string{"io.Copy", "storage.Writer).Close"}, []string{"C06"}},
	{"GCStore.RemoveChunk", []string{"storage.ObjectHandle).Delete"}, []string{"C16"}},
	{"GCIndexStore.StoreIndex", []string{"Index).WriteTo", "storage.Writer).Close"}, []string{"C04"}},
	{"LocalStore.RemoveChunk", []string{"os.Remove"}, []string{"C16"}},
	{"LocalIndexStore.StoreIndex", []string{"Index).WriteTo"}, []string{"C04"}},
	{"RemoteHTTPBase.StoreObject", []string{"RemoteHTTPBase).IssueRetryableHttpRequest"}, []string{"C06", "C04"}},
	{"RemoteHTTP.StoreChunk", []string{"RemoteHTTPBase).StoreObject"}, []string{"C06"}},
	{"RemoteHTTPIndex.StoreIndex", []string{"RemoteHTTPBase).StoreObject"}, []string{"C04"}},
	{"SwapWriteStore.StoreChunk", []string{"WriteStore).StoreChunk"}, []string{"C06"}},
	{"WriteDedupQueue.StoreChunk", []string{"WriteStore).StoreChunk"}, []string{"C06", "C12"}},
}

func (c *Ctx) writePrimitives(prop string) {
	n := 0
	for _, sp := range writeSpecs {
		use := false
		for _, p := range sp.props {
			if p == prop {
				use = true
			}
		}
		if !use {
			continue
		}
		fn := c.mustFn(sp.fn)
		if fn == nil {
			continue
		}
		n++
		primOf := func(name string) int {
			for i, p := range sp.prims {
				if strings.Contains(name, p) {
					return i
				}
			}
			return -1
		}
		var bad []string
		nilPaths := 0
		seen := map[int]bool{}
		h := &Hooks{MaxVisits: 3, MaxPaths: 200000}
		h.Fork = func(st *State, call *ssa.Call) []map[int]Val {
			i := primOf(callee(call))
			if i < 0 {
				return nil
			}
			ei := errResultIndex(call)
			if ei < 0 {
				return nil
			}
			seen[i] = true
			tag := fmt.Sprintf("prim%d", i)
			okRes := map[int]Val{ei: {N: NNil, Class: ClsNil, Sym: tag + ":ok"}}
			res := call.Call.Signature().Results()
			for k := 0; k < res.Len(); k++ {
				if k != ei && isPointerLike(res.At(k).Type()) {
					okRes[k] = Val{N: NNon}
				}
			}
			return []map[int]Val{okRes, {ei: {N: NNon, Class: ClsOther, Sym: tag + ":failed"}}}
		}
		h.Return = func(st *State, ret *ssa.Return, results []Val) {
			for i, r := range ret.Results {
				if isErrorType(r.Type()) && results[i].N != NNil {
					return // a failure (or an unknown error) is reported
				}
			}
			nilPaths++
			last := map[string]string{}
			for _, e := range st.Events {
				if strings.HasPrefix(e.Kind, "outcome:prim") {
					last[strings.TrimPrefix(e.Kind, "outcome:")] = e.Arg
				}
			}
			for i, p := range sp.prims {
				switch last[fmt.Sprintf("prim%d", i)] {
				case "ok":
				case "failed":
					bad = append(bad, fmt.Sprintf("nil is returned at %s although the last %s failed (trail %s)", c.pos(ret.Pos()), p, strings.Join(st.Trail, ">")))
				default:
					bad = append(bad, fmt.Sprintf("nil is returned at %s without any call of %s (trail %s)", c.pos(ret.Pos()), p, strings.Join(st.Trail, ">")))
				}
			}
		}
		Explore(fn, fn.Blocks[0], 0, nil, NewState(), h)
		c.paths += h.Paths
		key := sp.fn + ":write-completes"
		switch {
		case h.Truncated:
			c.bad(key, fn.Pos(), "path exploration truncated")
		case len(seen) < len(sp.prims):
			c.bad(key, fn.Pos(), "the operation no longer calls all of its write primitives %v (found %d of %d): the rule lost its subject", sp.prims, len(seen), len(sp.prims))
		case len(bad) > 0:
			c.bad(key, fn.Pos(), "success is reported for a write that did not complete: %s", bad[0])
		case nilPaths == 0:
			c.bad(key, fn.Pos(), "no success path found")
		default:
			c.ok(key, fn.Pos(), "%d success path(s), each after the successful completion of %v", nilPaths, sp.prims)
		}
	}
	if n == 0 {
		c.info("write-primitives", 0, "no write operation of this property in the table")
	}
}

// missingUnwrapped: routers, caches and failover groups recognise "this store does not have the
// chunk" by the concrete error type (err.(ChunkMissing), err.(NoSuchObject)).  Wherever such a
// value is constructed, it must reach the function's return unwrapped - errors.Wrap around it
// turns a miss into a store failure: the router stops instead of asking the next store, the
// failover group switches members, the cache is never filled.
func (c *Ctx) missingUnwrapped() {
	n := 0
	for _, fn := range c.libFuncs() {
		if fn.Signature.Results().Len() == 0 || fn.Blocks == nil {
			continue
		}
		builds := false
		instrs(fn, func(_ *ssa.BasicBlock, _ int, ins ssa.Instruction) {
			if mi, ok := ins.(*ssa.MakeInterface); ok && ins.Parent() == fn {
				if cls := classOfType(mi.X.Type()); cls == ClsMissing || cls == ClsNoObject {
					builds = true
				}
			}
		})
		if !builds || errResultOfFunc(fn) < 0 {
			continue
		}
		n++
		var bad []string
		h := &Hooks{MaxVisits: 2, MaxPaths: 50000, NoAutoInline: false}
		h.Return = func(st *State, ret *ssa.Return, results []Val) {
			for i, r := range ret.Results {
				if isErrorType(r.Type()) && (results[i].Sym == "wrapped:"+ClsMissing || results[i].Sym == "wrapped:"+ClsNoObject) {
					bad = append(bad, fmt.Sprintf("return at %s yields the miss wrapped in another error (trail %s)", c.pos(ret.Pos()), strings.Join(st.Trail, ">")))
				}
			}
		}
		Explore(fn, fn.Blocks[0], 0, nil, NewState(), h)
		c.paths += h.Paths
		key := fnKey(fn) + ":missing-unwrapped"
		switch {
		case h.Truncated:
			c.bad(key, fn.Pos(), "path exploration truncated")
		case len(bad) > 0:
			c.bad(key, fn.Pos(), "a ChunkMissing/NoSuchObject built here is wrapped before it is returned: callers that test the concrete type (router, cache, failover, repair) take the miss for a store failure: %s", bad[0])
		default:
			c.ok(key, fn.Pos(), "the miss built here is returned as its concrete type on all %d path(s)", h.Paths)
		}
	}
	if n == 0 {
		c.bad("missing-unwrapped", 0, "no function builds ChunkMissing or NoSuchObject")
	}
}

func errResultOfFunc(fn *ssa.Function) int {
	res := fn.Signature.Results()
	for i := res.Len() - 1; i >= 0; i-- {
		if isErrorType(res.At(i).Type()) {
			return i
		}
	}
	return -1
}

// outputsTruncated: a file that is created for output replaces what was there: every os.OpenFile
// with O_CREATE and write access carries O_TRUNC, O_APPEND or O_EXCL (os.Create does by
// definition).  Without it, writing a shorter archive, index or blob over a longer file keeps the
// old tail: the bytes on disk are not what the operation produced although it reported success.
var openWithoutTruncOK = map[string]string{
	"NewSparseFile": "the copy-on-read cache file is reused across restarts on purpose; its size is fixed by Truncate(idx.Length()) and the validity of its content is tracked by the state file (C10.null-skip-needs-truncate)",
}

func (c *Ctx) outputsTruncated() {
	n := 0
	for _, fn := range c.Funcs {
		for _, b := range fn.Blocks {
			for _, ins := range b.Instrs {
				call, ok := ins.(*ssa.Call)
				if !ok {
					continue
				}
				switch callee(call) {
				case "os.Create":
					n++
					c.ok(fnKey(fn)+":os.Create", ins.Pos(), "os.Create truncates")
				case "os.OpenFile":
					n++
					key := fnKey(fn) + ":os.OpenFile"
					k, isK := call.Call.Args[1].(*ssa.Const)
					if !isK || k.Value == nil {
						c.bad(key, ins.Pos(), "open flags are not a constant: not recognised")
						continue
					}
					fl := constInt64(k)
					const oWRONLY, oRDWR, oCREATE, oEXCL, oTRUNC, oAPPEND = 0x1, 0x2, 0x40, 0x80, 0x200, 0x400
					switch {
					case fl&oCREATE == 0 || fl&(oWRONLY|oRDWR) == 0:
						c.ok(key, ins.Pos(), "opens an existing file or read-only (flags %#x)", fl)
					case fl&(oTRUNC|oAPPEND|oEXCL) != 0:
						c.ok(key, ins.Pos(), "creates with O_TRUNC/O_APPEND/O_EXCL (flags %#x)", fl)
					default:
						top := fnKey(topOf(fn))
						if why, ok := openWithoutTruncOK[top]; ok {
							c.info(key, ins.Pos(), "exception: %s", why)
							continue
						}
						c.bad(key, ins.Pos(), "an output file is created for writing without O_TRUNC (flags %#x): written over a longer existing file, the old tail stays behind the new content and the operation still reports success", fl)
					}
				}
			}
		}
	}
	if n < 6 {
		c.bad("outputs-truncated", 0, "only %d file-creating calls found", n)
	}
}

// storeOptionsFromConfig: whether a store is compressed, verified, how often it retries - all of
// that lives in the per-location options of the config file.  Every store constructed in
// cmd/desync must be given options that come from cfg.GetStoreOptionsFor(location) (as they are,
// modified field by field, or merged with the command-line options); options built from scratch
// silently open an uncompressed store as a compressed one.
func (c *Ctx) storeOptionsFromConfig() {
	var derives func(v ssa.Value, depth int) bool
	derives = func(v ssa.Value, depth int) bool {
		if depth > 6 {
			return false
		}
		// the result of a new helper: what it returns on its successful returns (leaves() would mix
		// in the zero value it hands back next to an error)
		if hc, hidx := callOf(v); hc != nil {
			if h := directCallee(hc); h != nil && newHelpers[h] && h.Blocks != nil {
				all, some := true, false
				for _, r := range returnsOf(h) {
					if nr := len(r.Results); nr >= 2 && isErrorType(r.Results[nr-1].Type()) && constructedNonNil(unspill(r, r.Results[nr-1]), r.Block(), 0) {
						continue
					}
					if hidx >= len(r.Results) || !derives(unspill(r, r.Results[hidx]), depth+1) {
						all = false
					}
					some = true
				}
				return all && some
			}
		}
		// the parameter of a new helper: what its call sites pass
		if prm, isP := v.(*ssa.Parameter); isP {
			if as := boundArgs(prm); len(as) > 0 {
				for _, a := range as {
					if !derives(a, depth+1) {
						return false
					}
				}
				return true
			}
		}
		ls := leaves(v)
		if len(ls) == 0 {
			return false
		}
		for _, l := range ls {
			ok := false
			if call, _ := callOf(l); call != nil {
				name := callee(call)
				switch {
				case strings.HasSuffix(name, "Config).GetStoreOptionsFor"):
					ok = true
				case strings.HasSuffix(name, ").MergedWith"):
					for _, a := range call.Call.Args {
						if derives(a, depth+1) {
							ok = true
						}
					}
				default:
					// a new helper that returns the options
					if h := directCallee(call); h != nil && newHelpers[h] && h.Blocks != nil {
						all := true
						for _, r := range returnsOf(h) {
							// (a return that hands back an error next to zero options is not a source of options)
							if nr := len(r.Results); nr >= 2 && isErrorType(r.Results[nr-1].Type()) && constructedNonNil(unspill(r, r.Results[nr-1]), r.Block(), 0) {
								continue
							}
							if len(r.Results) == 0 || !derives(unspill(r, r.Results[0]), depth+1) {
								all = false
							}
						}
						ok = all
					}
				}
			}
			if u, isLoad := l.(*ssa.UnOp); isLoad && u.Op == token.MUL {
				if al, isAl := u.X.(*ssa.Alloc); isAl {
					sts := storesTo(al)
					ok = len(sts) > 0
					for _, st := range sts {
						if !derives(st.Val, depth+1) {
							ok = false
						}
					}
				}
			}
			if p, isParam := l.(*ssa.Parameter); isParam {
				as := boundArgs(p)
				ok = len(as) > 0
				for _, a := range as {
					if !derives(a, depth+1) {
						ok = false
					}
				}
			}
			if !ok {
				return false
			}
		}
		return true
	}
	n := 0
	for _, fn := range c.Funcs {
		if topOf(fn).Pkg != c.CmdSSA {
			continue
		}
		for _, b := range fn.Blocks {
			for _, ins := range b.Instrs {
				call, ok := ins.(*ssa.Call)
				if !ok {
					continue
				}
				cal := call.Call.StaticCallee()
				if cal == nil || cal.Pkg != c.LibSSA {
					continue
				}
				for k, a := range call.Call.Args {
					if typeName(a.Type()) != "desync.StoreOptions" {
						continue
					}
					_ = k
					n++
					key := fmt.Sprintf("%s:%s", fnKey(fn), cal.Name())
					c.verdict(derives(a, 0), key, ins.Pos(), "the store's options come from cfg.GetStoreOptionsFor",
						"the store is constructed with options that do not come from cfg.GetStoreOptionsFor(location): the per-location settings of the config file (uncompressed, skip-verify, retries, credentials) are ignored for it")
				}
			}
		}
	}
	if n < 6 {
		c.bad("store-options", 0, "only %d store constructions with options found in cmd/desync", n)
	}
}

// messageBodyFresh: a chunk built from a protocol message keeps the message body as its stored
// form (it is passed on unconverted by a chunk server in front of an ssh store), so the body must
// be the message's own allocation: what Protocol.ReadMessage returns as Body derives only from
// reader.ReadN (a fresh buffer per call), never from a buffer kept in the session.
func (c *Ctx) messageBodyFresh() {
	fn := c.mustFn("Protocol.ReadMessage")
	if fn == nil {
		return
	}
	n := 0
	for _, r := range returnsOf(fn) {
		if len(r.Results) != 2 {
			continue
		}
		// the Message value: follow to the stores into its Body field, or a struct literal
		for _, body := range messageBodies(unspill(r, r.Results[0])) {
			n++
			fresh := true
			why := ""
			var ls []ssa.Value
			for _, l := range leaves(body) {
				if inner := stripSlices(l); inner != l {
					ls = append(ls, leaves(inner)...) // b[8:] of the buffer is still the buffer
				} else {
					ls = append(ls, l)
				}
			}
			for _, l := range ls {
				if k, isK := l.(*ssa.Const); isK && k.Value == nil {
					continue
				}
				if call, idx := callOf(l); call != nil && idx == 0 && callee(call) == "(desync.reader).ReadN" {
					continue
				}
				if _, isMk := l.(*ssa.MakeSlice); isMk {
					continue
				}
				fresh = false
				why = strings.Join(origins(l), ",")
			}
			c.verdict(fresh, "Protocol.ReadMessage:body-fresh", r.Pos(), "the returned body is the buffer ReadN allocated for this message",
				"the returned message body is not this message's own buffer ("+why+"): a chunk built from it aliases memory the next message on the session overwrites")
		}
	}
	if n == 0 {
		c.bad("Protocol.ReadMessage:body-fresh", fn.Pos(), "no returned message body found")
	}
}

// messageBodies finds the values stored into the Body field of the Message value v.
func messageBodies(v ssa.Value) []ssa.Value {
	var out []ssa.Value
	for _, l := range leaves(v) {
		switch x := l.(type) {
		case *ssa.UnOp: // load of a local Message
			if al, ok := x.X.(*ssa.Alloc); ok && x.Op == token.MUL && al.Referrers() != nil {
				for _, r := range *al.Referrers() {
					if fa, ok := r.(*ssa.FieldAddr); ok && fieldOf(fa) == "Message.Body" && fa.Referrers() != nil {
						for _, r2 := range *fa.Referrers() {
							if st, ok := r2.(*ssa.Store); ok && st.Addr == ssa.Value(fa) {
								out = append(out, st.Val)
							}
						}
					}
				}
			}
		}
	}
	return out
}

// noStdoutInLibrary: archives and blobs are written to standard output ("desync tar - dir",
// "cat"), so the library must never print there itself: no fmt.Print*, no use of os.Stdout
// outside the one store whose purpose is to write an index to the console.
func (c *Ctx) noStdoutInLibrary() {
	allowed := map[string]string{"ConsoleIndexStore.StoreIndex": "writes the index to the console by design"}
	n := 0
	for _, fn := range c.libFuncsAll() {
		key := fnKey(topOf(fn))
		for _, b := range fn.Blocks {
			for _, ins := range b.Instrs {
				what := ""
				if ci, ok := ins.(ssa.CallInstruction); ok {
					switch callee(ci) {
					case "fmt.Print", "fmt.Printf", "fmt.Println", "builtin:print", "builtin:println":
						what = callee(ci)
					}
				}
				if u, ok := ins.(*ssa.UnOp); ok && u.Op == token.MUL {
					if g, ok := u.X.(*ssa.Global); ok && g.Pkg != nil && g.Pkg.Pkg.Path() == "os" && g.Name() == "Stdout" {
						what = "os.Stdout"
					}
				}
				if what == "" {
					continue
				}
				n++
				if why, ok := allowed[key]; ok {
					c.info(key+":"+what, ins.Pos(), "exception: %s", why)
					continue
				}
				c.bad(key+":"+what, ins.Pos(), "the library writes to standard output (%s): when the archive or blob itself goes to stdout the message lands in the middle of it", what)
			}
		}
	}
	c.ok("library:stdout", 0, "%d use(s) of standard output in the library, all in the console index store", n)
}

// retriedReaderFresh: a stateful reader (a pipe, a bytes/strings reader, a buffer, a file) that is
// handed to a consuming call inside a retry cycle must be created inside that cycle: created
// before it, the first attempt drains it and every retry uploads an empty or truncated body while
// the call itself succeeds.
func (c *Ctx) retriedReaderFresh() {
	makers := map[string]bool{"io.Pipe": true, "bytes.NewReader": true, "bytes.NewBuffer": true, "bytes.NewBufferString": true, "strings.NewReader": true, "os.Open": true, "bufio.NewReader": true}
	n, cyc := 0, 0
	for _, fn := range c.libFuncsAll() {
		for _, b := range fn.Blocks {
			inCycle := false
			for _, s := range b.Succs {
				if s == b || reachableFrom(s, nil)[b] {
					inCycle = true
				}
			}
			if !inCycle {
				continue
			}
			cycleBlocks := map[*ssa.BasicBlock]bool{}
			for _, x := range fn.Blocks {
				if reachableFrom(b, nil)[x] && reachableFrom(x, nil)[b] {
					cycleBlocks[x] = true
				}
			}
			for _, ins := range b.Instrs {
				call, ok := ins.(*ssa.Call)
				if !ok {
					continue
				}
				name := callee(call)
				// consumers: uploads and copies
				if !(strings.HasSuffix(name, ".Client).PutObject") || strings.HasSuffix(name, ").StoreObject") || name == "io.Copy" || name == "io.CopyN" || strings.HasSuffix(name, "http.NewRequest") || strings.HasSuffix(name, "http.NewRequestWithContext")) {
					continue
				}
				cyc++
				for _, a := range call.Call.Args {
					if !types.IsInterface(a.Type()) && !strings.Contains(a.Type().String(), "Reader") && !strings.Contains(a.Type().String(), "Buffer") {
						continue
					}
					for _, l := range leaves(a) {
						// a reader the function was handed: consumed once, it cannot be sent again
						if p, isParam := l.(*ssa.Parameter); isParam && p.Parent() == fn && types.IsInterface(p.Type()) && (name == "io.Copy" || name == "io.CopyN") && a == call.Call.Args[1] {
							n++
							key := fmt.Sprintf("%s:param-%s->%s", fnKey(fn), p.Name(), name)
							c.bad(key, call.Pos(), "the reader parameter %s is copied from inside a retry cycle: the first attempt consumes it (partly), a repeated attempt uploads only what is left and still succeeds", p.Name())
							continue
						}
						mk, idx := callOf(l)
						if mk == nil || !makers[callee(mk)] {
							continue
						}
						// the source side of io.Copy only (the first result of io.Pipe is the reader)
						if callee(mk) == "io.Pipe" && idx != 0 {
							continue
						}
						n++
						key := fmt.Sprintf("%s:%s->%s", fnKey(fn), callee(mk), name)
						c.verdict(cycleBlocks[mk.Block()], key, call.Pos(), "the reader is created inside the retry cycle",
							fmt.Sprintf("the reader created by %s at %s outside the retry cycle is consumed by %s inside it: the first attempt drains it, a retry sends an empty or truncated body and still succeeds", callee(mk), c.pos(mk.Pos()), name))
					}
				}
			}
		}
	}
	c.ok("retried-readers", 0, "%d consuming call(s) inside a cycle, %d reader argument(s) created by a stateful constructor, all inside the cycle", cyc, n)
}

// nullChunkConsistent: the zero-run shortcuts (parallel chunking, assembly, seekable reads, the
// copy-on-read file) use NullChunk.ID as "the id of NullChunk.Data" and len(NullChunk.Data) as
// the unit they advance by.  NewNullChunk must therefore hash exactly the bytes it stores, and
// those are a buffer of its own, make([]byte, size).
func (c *Ctx) nullChunkConsistent() {
	fn := c.mustFn("NewNullChunk")
	if fn == nil {
		return
	}
	var data, hashed ssa.Value
	instrs(fn, func(_ *ssa.BasicBlock, _ int, ins ssa.Instruction) {
		st, ok := ins.(*ssa.Store)
		if !ok {
			return
		}
		fa, ok := st.Addr.(*ssa.FieldAddr)
		if !ok {
			return
		}
		switch fieldOf(fa) {
		case "NullChunk.Data":
			data = st.Val
		case "NullChunk.ID":
			for _, l := range leaves(st.Val) {
				if call, _ := callOf(l); call != nil && callee(call) == "(desync.HashAlgorithm).Sum" {
					hashed = call.Call.Args[len(call.Call.Args)-1]
				}
			}
		}
	})
	if data == nil || hashed == nil {
		c.bad("NewNullChunk:fields", fn.Pos(), "NewNullChunk does not set Data and ID = Digest.Sum(..)")
		return
	}
	same := stripConv(data) == stripConv(hashed)
	c.verdict(same, "NewNullChunk:id-of-data", fn.Pos(), "the ID is the digest of exactly the stored Data", "the ID is computed over something else than the stored Data (a sub-slice or another buffer): shortcuts that advance by len(Data) emit chunks whose recorded ID does not match their bytes")
	own := false
	if mk, ok := stripConv(data).(*ssa.MakeSlice); ok {
		own = hasOrigin(mk.Len, func(o string) bool { return strings.HasPrefix(o, "param:") })
	}
	c.verdict(own, "NewNullChunk:own-buffer", fn.Pos(), "Data is a buffer of its own, sized by the parameter", "Data is not a fresh make([]byte, size): a shared buffer has the length of the largest size ever asked for")
}

// valueErrorTypes: minio reports API failures as minio.ErrorResponse *values* (Error has a value
// receiver, ToErrorResponse and the client return the struct itself).  Both T and *T implement
// error, so a type assertion to *ErrorResponse or an errors.As with a **ErrorResponse target
// compiles, passes vet and never matches: "no such key" is then no longer turned into
// ChunkMissing and every router, cache and failover group takes a miss for a failure.
func (c *Ctx) valueErrorTypes() {
	isValueType := func(t types.Type) bool {
		return typeName(t) == "github.com/minio/minio-go/v6.ErrorResponse" || strings.HasSuffix(t.String(), "minio-go/v6.ErrorResponse") && !strings.HasPrefix(t.String(), "*")
	}
	isPtrTo := func(t types.Type) (types.Type, bool) {
		p, ok := t.Underlying().(*types.Pointer)
		if !ok {
			return nil, false
		}
		return p.Elem(), true
	}
	good, n := 0, 0
	for _, fn := range c.libFuncsAll() {
		for _, b := range fn.Blocks {
			for _, ins := range b.Instrs {
				switch x := ins.(type) {
				case *ssa.TypeAssert:
					if isValueType(x.AssertedType) {
						n++
						good++
						c.ok(fnKey(fn)+":minio-error-assert", ins.Pos(), "asserts the value type minio.ErrorResponse")
					} else if el, ok := isPtrTo(x.AssertedType); ok && isValueType(el) {
						n++
						c.bad(fnKey(fn)+":minio-error-assert", ins.Pos(), "asserts *minio.ErrorResponse, but minio returns ErrorResponse values: the assertion never holds and \"NoSuchKey\" is no longer recognised as a missing chunk")
					}
				case *ssa.Call:
					name := callee(x)
					if name != "errors.As" && name != "github.com/pkg/errors.As" {
						continue
					}
					tt := x.Call.Args[1].Type()
					if mi, ok := x.Call.Args[1].(*ssa.MakeInterface); ok {
						tt = mi.X.Type()
					}
					el, ok := isPtrTo(tt)
					if !ok {
						continue
					}
					if isValueType(el) {
						n++
						good++
						c.ok(fnKey(fn)+":minio-error-as", ins.Pos(), "errors.As with a *minio.ErrorResponse target matches the values minio returns")
					} else if el2, ok := isPtrTo(el); ok && isValueType(el2) {
						n++
						c.bad(fnKey(fn)+":minio-error-as", ins.Pos(), "errors.As with a **minio.ErrorResponse target: minio returns ErrorResponse values, the target never matches and \"NoSuchKey\" is no longer recognised as a missing chunk")
					}
				}
			}
		}
	}
	if good == 0 {
		c.bad("minio-errors", 0, "the S3 store no longer recognises minio.ErrorResponse at all (%d site(s)): a missing object is not reported as ChunkMissing", n)
	}
}

// chunkDataOwned: a Chunk keeps the byte slice it is built from (as its stored or plain form) for
// as long as it lives - it is handed to workers, cached, passed through by servers.  The slice
// given to a chunk constructor must therefore be that chunk's own: freshly read (ReadAll, ReadN,
// ReadFile, GetObject), made here, a local buffer's bytes, a parameter, or the body of a message.
// The bytes of a buffer that lives in a connection, store or other long-lived object are
// overwritten by the next request on it.
func (c *Ctx) chunkDataOwned() {
	ctors := map[string]int{"desync.NewChunkFromStorage": 1, "desync.NewChunkWithID": 1, "desync.NewChunk": 0}
	fresh := func(name string) bool {
		switch name {
		case "io/ioutil.ReadAll", "io.ReadAll", "os.ReadFile", "io/ioutil.ReadFile", "(desync.reader).ReadN", "(*desync.RemoteHTTPBase).GetObject", "(desync.Converters).fromStorage", "(desync.Converters).toStorage", "desync.Compress", "desync.Decompress", "(*desync.Chunk).Data":
			return true
		}
		return false
	}
	n := 0
	for _, fn := range c.libFuncsAll() {
		for _, b := range fn.Blocks {
			for _, ins := range b.Instrs {
				call, ok := ins.(*ssa.Call)
				if !ok {
					continue
				}
				ai, isCtor := ctors[callee(call)]
				if !isCtor || ai >= len(call.Call.Args) {
					continue
				}
				n++
				key := fmt.Sprintf("%s:%s-data", fnKey(fn), strings.TrimPrefix(callee(call), "desync."))
				why := ""
				var ls []ssa.Value
				for _, l := range leaves(call.Call.Args[ai]) {
					if inner := stripSlices(l); inner != l {
						ls = append(ls, leaves(inner)...)
					} else {
						ls = append(ls, l)
					}
				}
				for _, l := range ls {
					switch x := l.(type) {
					case *ssa.Const, *ssa.Parameter, *ssa.MakeSlice, *ssa.FreeVar:
						continue
					case *ssa.UnOp:
						// a field that holds data handed over with the object (a message body, a job's chunk)
						if fa, ok := x.X.(*ssa.FieldAddr); ok && x.Op == token.MUL {
							if f := fieldOf(fa); f == "Message.Body" || strings.HasSuffix(f, ".b") || strings.HasSuffix(f, ".Data") {
								continue
							}
							why = "a load of the long-lived field " + fieldOf(fa)
						}
					case *ssa.Field:
						continue
					}
					if cl, idx := callOf(l); cl != nil {
						name := callee(cl)
						if fresh(name) && idx == 0 {
							continue
						}
						if name == "(*bytes.Buffer).Bytes" {
							// whose buffer?
							recv := cl.Call.Args[0]
							if al, isLocal := recv.(*ssa.Alloc); isLocal && al.Parent() == fn {
								continue
							}
							if c2, _ := callOf(recv); c2 != nil && (callee(c2) == "bytes.NewBuffer" || callee(c2) == "builtin:new") {
								continue
							}
							if hasOrigin(recv, func(o string) bool { return strings.HasPrefix(o, "field:") || strings.HasPrefix(o, "global:") }) || func() bool { _, isFA := recv.(*ssa.FieldAddr); return isFA }() {
								why = "the bytes of a buffer kept in " + strings.Join(origins(recv), ",") + " (" + lockKey(recv) + ")"
							} else if hasOrigin(recv, func(o string) bool { return strings.Contains(o, "sync.Pool).Get") }) {
								why = "the bytes of a buffer taken from a sync.Pool (and put back when the function returns)"
							} else {
								continue
							}
						} else if h := directCallee(cl); h != nil && h.Pkg == c.LibSSA {
							continue // a library function's own result (checked where it is built)
						} else {
							continue
						}
					}
					if why != "" {
						break
					}
				}
				c.verdict(why == "", key, ins.Pos(), "the chunk is built from bytes of its own", "the chunk is built from "+why+": the next request that reuses that memory changes the chunk's bytes under whoever still holds it (a worker, a cache write, a pass-through to a client)")
			}
		}
	}
	if n < 6 {
		c.bad("chunk-data", 0, "only %d chunk constructions found", n)
	}
}

// headerBeforeBody: net/http sends the status line with the first byte of the body: a
// WriteHeader (or http.Error) that is executed after something was written to the same
// ResponseWriter is ignored and the client sees 200 - an upstream failure answered with "200 +
// error text" makes the remote client report success.  Path rule: every function that holds a
// ResponseWriter is explored with the repository functions it hands the writer to inlined (so
// that "the helper wrote an error page" and "the helper returned an error" stay correlated); on
// no path does a status call follow a body write.
func (c *Ctx) headerBeforeBody() {
	isRW := func(v ssa.Value) bool {
		for d := 0; d < 4; d++ {
			if typeName(v.Type()) == "http.ResponseWriter" {
				return true
			}
			switch x := v.(type) {
			case *ssa.ChangeInterface:
				v = x.X
				continue
			case *ssa.MakeInterface:
				v = x.X
				continue
			}
			break
		}
		return false
	}
	holds := func(fn *ssa.Function) bool {
		for _, p := range fn.Params {
			if typeName(p.Type()) == "http.ResponseWriter" {
				return true
			}
		}
		return false
	}
	var fns []*ssa.Function
	for _, fn := range c.libFuncsAll() {
		if holds(fn) && len(fn.Blocks) > 0 {
			fns = append(fns, fn)
		}
	}
	classify := func(ci ssa.CallInstruction) (body, status bool) {
		cc := ci.Common()
		if cc.IsInvoke() && isRW(cc.Value) {
			switch cc.Method.Name() {
			case "WriteHeader":
				return false, true
			case "Write":
				return true, false
			}
			return false, false
		}
		passes := false
		for _, a := range cc.Args {
			if isRW(a) {
				passes = true
			}
		}
		if !passes {
			return false, false
		}
		name := callee(ci)
		if name == "net/http.Error" || name == "net/http.NotFound" || name == "net/http.Redirect" {
			return true, true
		}
		if cal := cc.StaticCallee(); cal != nil && len(cal.Blocks) > 0 && holds(cal) {
			return false, false // explored in place
		}
		// any other callee given the writer (fmt.Fprint*, io.Copy, io.WriteString, WriteTo ...) writes to it
		return true, false
	}
	late := map[ssa.Instruction]string{}
	seen := map[ssa.Instruction]bool{}
	var order []ssa.Instruction
	truncated := false
	for _, fn := range fns {
		h := &Hooks{MaxVisits: 2}
		h.Inline = func(st *State, call *ssa.Call) (*ssa.Function, bool) {
			if cal := call.Call.StaticCallee(); cal != nil && len(cal.Blocks) > 0 && holds(cal) && !call.Call.IsInvoke() {
				for _, a := range call.Call.Args {
					if isRW(a) {
						return cal, false
					}
				}
			}
			return nil, false
		}
		h.Call = func(st *State, call *ssa.Call) map[int]Val {
			body, status := classify(call)
			if status {
				if !seen[call] {
					seen[call] = true
					order = append(order, call)
				}
				if st.Has("body") && late[call] == "" {
					for _, e := range st.Events {
						if e.Kind == "body" {
							late[call] = e.Arg
							break
						}
					}
				}
			}
			if body {
				st.Emit("body", c.pos(call.Pos()), call)
			}
			return nil
		}
		Explore(fn, fn.Blocks[0], 0, nil, NewState(), h)
		c.paths += h.Paths
		if h.Truncated {
			truncated = true
		}
	}
	for _, ins := range order {
		key := fmt.Sprintf("%s:status@%s", fnKey(ins.Parent()), c.pos(ins.Pos()))
		if at := late[ins]; at != "" {
			c.bad(key, ins.Pos(), "the status is set after the response body was started at %s: net/http has already sent 200, the client takes the failure for success", at)
		} else {
			c.ok(key, ins.Pos(), "no body write precedes this status on any path")
		}
	}
	if truncated {
		c.bad("header-before-body", token.NoPos, "path exploration truncated")
	}
	if len(order) == 0 {
		c.bad("header-before-body", token.NoPos, "no status call found in the HTTP handlers")
	}
}

// workersStarted: the worker pools are fed through an unbuffered channel after the workers have
// been started by a counting loop "for i := 0; i < n; i++ { g.Go(worker) }".  With n >= 1 the
// loop must start n workers: a loop that begins at 1 (or ends one early) starts none for n == 1
// and the feeder blocks for ever.  For every counting loop whose body starts a goroutine:
// (start, comparison) is (0, <) or (1, <=).
func (c *Ctx) workersStarted() {
	n := 0
	for _, fn := range c.libFuncsAll() {
		for _, hb := range fn.Blocks {
			iff := lastIf(hb)
			if iff == nil {
				continue
			}
			cm, truth, ok := cmpOf(iff.Cond)
			if !ok || !truth {
				continue
			}
			op, cnt, bound := cm.op, cm.x, cm.y
			if _, isPhiSide := counterPhi(cm.y); isPhiSide {
				op, cnt, bound = mirrorOp(op), cm.y, cm.x
			}
			phi, incremented := counterPhi(cnt)
			if phi == nil || (op != token.LSS && op != token.LEQ && op != token.NEQ) {
				continue
			}
			if _, isConst := bound.(*ssa.Const); isConst {
				continue // a fixed number of goroutines, not a worker count
			}
			start, okS := int64(0), false
			inc := false
			for _, e := range phi.Edges {
				if k, ok := e.(*ssa.Const); ok && k.Value != nil {
					start, okS = constInt64(k), true
				} else if bo, ok := e.(*ssa.BinOp); ok && bo.Op == token.ADD && bo.X == ssa.Value(phi) {
					if k, ok := bo.Y.(*ssa.Const); ok && constInt64(k) == 1 {
						inc = true
					}
				}
			}
			if !okS || !inc {
				continue
			}
			if incremented {
				start++ // "for range n": the incremented counter is what is compared
			}
			// the loop body starts a goroutine
			body := hb.Succs[0]
			region := reachableFrom(body, map[edge]bool{{hb, hb.Succs[1]}: true})
			var starter ssa.Instruction
			for b := range region {
				if !reachableFrom(b, nil)[hb] {
					continue
				}
				for _, ins := range b.Instrs {
					switch x := ins.(type) {
					case *ssa.Go:
						starter = x
					case *ssa.Call:
						if strings.HasSuffix(callee(x), "errgroup.Group).Go") {
							starter = x
						}
					}
				}
			}
			if starter == nil {
				continue
			}
			n++
			key := fmt.Sprintf("%s:worker-loop@%s", fnKey(fn), c.pos(starter.Pos()))
			okL := (start == 0 && (op == token.LSS || op == token.NEQ)) || (start == 1 && op == token.LEQ)
			c.verdict(okL, key, starter.Pos(), "the loop starts one goroutine per unit of its bound",
				fmt.Sprintf("the loop that starts the workers runs from %d with %s: for a worker count of 1 it starts %s, and whoever feeds the workers afterwards blocks for ever", start, op, map[bool]string{true: "no worker", false: "a different number of workers than asked for"}[start >= 1 && op == token.LSS]))
		}
	}
	if n == 0 {
		c.bad("workers-started", token.NoPos, "no worker-starting loop found")
	}
}

// counterPhi: v is a loop counter phi, or its increment (incremented == true).
func counterPhi(v ssa.Value) (phi *ssa.Phi, incremented bool) {
	switch x := v.(type) {
	case *ssa.Phi:
		return x, false
	case *ssa.BinOp:
		if p, ok := x.X.(*ssa.Phi); ok && x.Op == token.ADD {
			if k, ok := x.Y.(*ssa.Const); ok && constInt64(k) == 1 {
				return p, true
			}
		}
	}
	return nil, false
}

// deferredErrorArgs: "defer f(err)" hands f the value err has when the defer statement runs.  If
// err is assigned afterwards (the usual "err = work()" below it), f never sees the outcome -
// publishing, logging or recording a nil error for a failed operation.  No deferred call in the
// analysed packages takes an error variable that is stored to after the defer statement.
func (c *Ctx) deferredErrorArgs() {
	n, bad := 0, 0
	for _, fn := range c.Funcs {
		if len(fn.Blocks) == 0 {
			continue
		}
		instrs(fn, func(b *ssa.BasicBlock, i int, ins ssa.Instruction) {
			d, ok := ins.(*ssa.Defer)
			if !ok || ins.Parent() != fn {
				return
			}
			n++
			for _, a := range d.Call.Args {
				if !isErrorType(a.Type()) {
					continue
				}
				ld, ok := a.(*ssa.UnOp)
				if !ok || ld.Op != token.MUL {
					continue
				}
				cell, ok := ld.X.(*ssa.Alloc)
				if !ok {
					continue
				}
				for _, st := range storesTo(cell) {
					if st.Parent() != fn {
						continue
					}
					later := false
					if st.Block() == b {
						for j, x := range b.Instrs {
							if x == ssa.Instruction(st) && j > i {
								later = true
							}
						}
					} else if reachableFrom(b, nil)[st.Block()] {
						later = true
					}
					if later {
						bad++
						c.bad(fmt.Sprintf("%s:defer-%s", fnKey(fn), callee(d)), d.Pos(), "the deferred call takes the error variable %s by value here, but %s is assigned later at %s: the deferred call sees the old value (nil), not the outcome", cell.Comment, cell.Comment, c.pos(st.Pos()))
						return
					}
				}
			}
		})
	}
	if bad == 0 {
		c.ok("deferred-error-args", token.NoPos, "%d defer statement(s); none takes an error variable that is assigned after it", n)
	}
}

// wrapperOrder: a writer that wraps another one (bufio.NewWriter(w), tar.NewWriter(w),
// NewTarWriter(w)) holds data - buffered bytes, the end-of-archive marker - until it is flushed or
// closed.  That must happen while the underlying writer is still open: an explicit w.Close() is
// dominated by an explicit Flush/Close of the wrapper, and where both are deferred the wrapper's
// defer is registered after the underlying one (defers run last-in-first-out).  Otherwise the tail
// of the stream is written to a closed file or pipe, the error of the deferred call is dropped,
// and a truncated archive is reported as success.
func (c *Ctx) wrapperOrder() {
	isWrapCtor := func(name string) bool {
		switch name {
		case "bufio.NewWriter", "bufio.NewWriterSize", "archive/tar.NewWriter", "desync.NewTarWriter", "compress/gzip.NewWriter", "compress/gzip.NewWriterLevel":
			return true
		}
		return false
	}
	// rootValue: the value behind interface conversions and single-assignment variables
	// (captured ones included)
	var rootValue func(v ssa.Value, depth int) ssa.Value
	rootValue = func(v ssa.Value, depth int) ssa.Value {
		for depth < 10 {
			depth++
			switch x := v.(type) {
			case *ssa.MakeInterface:
				v = x.X
				continue
			case *ssa.ChangeInterface:
				v = x.X
				continue
			case *ssa.ChangeType:
				v = x.X
				continue
			case *ssa.UnOp:
				if x.Op != token.MUL {
					return v
				}
				var cell *ssa.Alloc
				switch a := x.X.(type) {
				case *ssa.Alloc:
					cell = a
				case *ssa.FreeVar:
					if cs := captured(a); len(cs) == 1 {
						cell, _ = cs[0].(*ssa.Alloc)
					}
				}
				if cell == nil {
					return v
				}
				var vals []ssa.Value
				for _, st := range storesTo(cell) {
					if k, isK := st.Val.(*ssa.Const); isK && k.Value == nil {
						continue // "var w io.Writer" zero value
					}
					vals = append(vals, st.Val)
				}
				if len(vals) != 1 {
					return cell // several assignments: the variable itself is the identity
				}
				v = vals[0]
				continue
			case *ssa.Phi:
				return v
			}
			return v
		}
		return v
	}
	same := func(a, b ssa.Value) bool {
		ra, rb := rootValue(a, 0), rootValue(b, 0)
		if ra == rb {
			return true
		}
		// one of several values of a variable: the variable (cell) of one side holds the other
		if ca, ok := ra.(*ssa.Alloc); ok {
			for _, st := range storesTo(ca) {
				if rootValue(st.Val, 0) == rb {
					return true
				}
			}
		}
		if cb, ok := rb.(*ssa.Alloc); ok {
			for _, st := range storesTo(cb) {
				if rootValue(st.Val, 0) == ra {
					return true
				}
			}
		}
		// a phi of the values
		if pa, ok := ra.(*ssa.Phi); ok {
			for _, e := range pa.Edges {
				if rootValue(e, 0) == rb {
					return true
				}
			}
		}
		if pb, ok := rb.(*ssa.Phi); ok {
			for _, e := range pb.Edges {
				if rootValue(e, 0) == ra {
					return true
				}
			}
		}
		return false
	}
	type fin struct {
		ins      ssa.Instruction
		deferred bool
		method   string
		recv     ssa.Value
	}
	n := 0
	for _, top := range c.Funcs {
		if top.Parent() != nil || len(top.Blocks) == 0 {
			continue
		}
		fam := withClosures(top)
		type wrap struct {
			at   *ssa.Call
			b, a ssa.Value
		}
		var wraps []wrap
		var fins []fin
		for _, f := range fam {
			instrs(f, func(_ *ssa.BasicBlock, _ int, ins ssa.Instruction) {
				if ins.Parent() != f {
					return
				}
				ci, ok := ins.(ssa.CallInstruction)
				if !ok {
					return
				}
				if call, isCall := ins.(*ssa.Call); isCall && isWrapCtor(callee(call)) && len(call.Call.Args) > 0 {
					wraps = append(wraps, wrap{call, call, call.Call.Args[0]})
				}
				cc := ci.Common()
				var recv ssa.Value
				method := ""
				if cc.IsInvoke() {
					recv, method = cc.Value, cc.Method.Name()
				} else if sc := cc.StaticCallee(); sc != nil && sc.Signature.Recv() != nil && len(cc.Args) > 0 {
					recv, method = cc.Args[0], sc.Name()
				}
				if method != "Close" && method != "Flush" {
					return
				}
				_, isDefer := ins.(*ssa.Defer)
				fins = append(fins, fin{ins, isDefer, method, recv})
			})
		}
		for _, w := range wraps {
			var finB, finA []fin
			for _, f := range fins {
				if same(f.recv, w.b) {
					finB = append(finB, f)
				} else if f.method == "Close" && same(f.recv, w.a) {
					finA = append(finA, f)
				}
			}
			if len(finA) == 0 {
				continue // the underlying writer is not closed here (stdout, a caller's writer)
			}
			n++
			key := fmt.Sprintf("%s:%s@%s", fnKey(top), callee(w.at), c.pos(w.at.Pos()))
			bad := ""
			for _, fa := range finA {
				if !fa.deferred {
					okB := false
					for _, fb := range finB {
						if !fb.deferred && fb.ins.Parent() == fa.ins.Parent() && instrDominates(fb.ins, fa.ins) {
							okB = true
						}
					}
					if !okB && (len(finB) > 0 || strings.HasPrefix(callee(w.at), "bufio.")) {
						bad = fmt.Sprintf("the underlying writer is closed at %s before the wrapper created at %s was flushed/closed on every path (a deferred flush runs after this close)", c.pos(fa.ins.Pos()), c.pos(w.at.Pos()))
					}
					continue
				}
				for _, fb := range finB {
					if fb.deferred && fb.ins.Parent() == fa.ins.Parent() && instrDominates(fb.ins, fa.ins) {
						bad = fmt.Sprintf("defer of the wrapper's %s at %s is registered before the defer that closes the underlying writer at %s: deferred calls run in reverse order, the file is closed first and the wrapper's final bytes (buffer, end-of-archive marker) are lost", fb.method, c.pos(fb.ins.Pos()), c.pos(fa.ins.Pos()))
					}
				}
			}
			if bad != "" {
				c.bad(key, w.at.Pos(), "%s", bad)
			} else {
				c.ok(key, w.at.Pos(), "the wrapper is finalised while the underlying writer is still open")
			}
		}
	}
	if n == 0 {
		c.info("wrapper-order", token.NoPos, "no wrapping writer whose underlying writer is closed in the same function")
		c.ok("wrapper-order", token.NoPos, "no wrapper/underlying close pair")
	}
}

// pooledMemoryEscapes: memory taken from a sync.Pool and given back by the same function (directly
// or by defer) belongs to the next taker as soon as the function returns.  Nothing derived from it
// - a sub-slice, the Bytes() of a pooled buffer, the result of a call that was handed the pooled
// slice as its destination (EncodeAll(src, dst[:0])) - may be returned to the caller.
func (c *Ctx) pooledMemoryEscapes() {
	n := 0
	for _, fn := range c.libFuncsAll() {
		var gets []ssa.Value
		puts := 0
		instrs(fn, func(_ *ssa.BasicBlock, _ int, ins ssa.Instruction) {
			if ins.Parent() != fn {
				return
			}
			if ci, ok := ins.(ssa.CallInstruction); ok {
				switch callee(ci) {
				case "(*sync.Pool).Get":
					if v := ci.Value(); v != nil {
						gets = append(gets, v)
					}
				case "(*sync.Pool).Put":
					puts++
				}
			}
		})
		if len(gets) == 0 || puts == 0 {
			continue
		}
		n++
		tainted := map[ssa.Value]bool{}
		var spread func(v ssa.Value, depth int)
		spread = func(v ssa.Value, depth int) {
			if depth > 8 || tainted[v] || v.Referrers() == nil {
				return
			}
			tainted[v] = true
			for _, r := range *v.Referrers() {
				switch x := r.(type) {
				case *ssa.TypeAssert:
					spread(x, depth+1)
				case *ssa.Extract:
					spread(x, depth+1)
				case *ssa.Slice:
					spread(x, depth+1)
				case *ssa.ChangeType:
					spread(x, depth+1)
				case *ssa.Convert:
					spread(x, depth+1)
				case *ssa.MakeInterface:
					spread(x, depth+1)
				case *ssa.Phi:
					spread(x, depth+1)
				case *ssa.Call:
					// a method of the pooled object or a function handed the pooled memory: a result that
					// can point into it (slice, pointer, interface)
					name := callee(x)
					if name == "(*sync.Pool).Put" || name == "builtin:len" || name == "builtin:cap" || name == "builtin:copy" {
						continue
					}
					if isPointerLike(x.Type()) {
						spread(x, depth+1)
					} else if tup, ok := x.Type().(*types.Tuple); ok {
						for i := 0; i < tup.Len(); i++ {
							if isPointerLike(tup.At(i).Type()) {
								spread(x, depth+1)
								break
							}
						}
					}
				case *ssa.Store:
					// a local variable holding it
					if al, ok := x.Addr.(*ssa.Alloc); ok && x.Val == v {
						for _, r2 := range *al.Referrers() {
							if ld, ok := r2.(*ssa.UnOp); ok && ld.Op == token.MUL {
								spread(ld, depth+1)
							}
						}
					}
				}
			}
		}
		for _, g := range gets {
			spread(g, 0)
		}
		bad := false
		for _, r := range returnsOf(fn) {
			for _, res := range r.Results {
				if tainted[res] || tainted[unspill(r, res)] {
					bad = true
					c.bad(fnKey(fn)+":pooled-result", r.Pos(), "the function returns memory that it took from a sync.Pool and puts back before the caller can use it: the next taker of the pool overwrites the caller's data (a stored chunk ends up as a mix of two chunks)")
					break
				}
			}
			if bad {
				break
			}
		}
		if !bad {
			c.ok(fnKey(fn)+":pooled-result", fn.Pos(), "nothing taken from the pool leaves the function")
		}
	}
	if n == 0 {
		c.ok("pooled-memory", token.NoPos, "no function of the library takes memory from a sync.Pool and gives it back")
	}
}

// feederWatchesGroup: a function that runs its workers under errgroup.WithContext and feeds them
// through an unbuffered channel must stop feeding when a worker fails: the select that sends the
// next job watches the Done channel of the *group's* context (cancelled by the first failing
// worker), not the caller's.  Watching the caller's context, the feeder blocks for ever once all
// workers have returned an error - verify-index / extract / chop hang instead of failing.
func (c *Ctx) feederWatchesGroup() {
	n := 0
	for _, fn := range c.libFuncsAll() {
		if fn.Parent() != nil || len(fn.Blocks) == 0 {
			continue
		}
		var wc *ssa.Call
		for _, cs := range calls(fn, named("golang.org/x/sync/errgroup.WithContext")) {
			if call, ok := cs.(*ssa.Call); ok && call.Parent() == fn {
				wc = call
			}
		}
		if wc == nil {
			continue
		}
		isGroupCtx := func(v ssa.Value) bool {
			if onlyOrigins(v, func(o string) bool { return o == "call:golang.org/x/sync/errgroup.WithContext#1" }) {
				return true
			}
			// a variable (the parameter's own cell, re-assigned by "g, ctx := errgroup.WithContext(ctx)",
			// possibly captured by the feeder closure): at the point of use it holds the group's
			// context if that assignment comes before the use and no other assignment after it
			cellHolds := func(cell *ssa.Alloc, use ssa.Instruction) bool {
				var sg *ssa.Store
				sts := storesTo(cell)
				for _, st := range sts {
					if st.Parent() == cell.Parent() && onlyOrigins(st.Val, func(o string) bool { return o == "call:golang.org/x/sync/errgroup.WithContext#1" }) {
						sg = st
					}
				}
				if sg == nil || !instrDominates(sg, use) {
					return false
				}
				for _, st := range sts {
					if st != sg && !(st.Parent() == cell.Parent() && instrDominates(st, sg)) {
						return false
					}
				}
				return true
			}
			if ld, ok := v.(*ssa.UnOp); ok && ld.Op == token.MUL {
				switch x := ld.X.(type) {
				case *ssa.Alloc:
					return cellHolds(x, ld)
				case *ssa.FreeVar:
					// where the closure is made
					okAll, some := true, false
					var scan func(f *ssa.Function)
					scan = func(f *ssa.Function) {
						instrs(f, func(_ *ssa.BasicBlock, _ int, ins ssa.Instruction) {
							mc, isMC := ins.(*ssa.MakeClosure)
							if !isMC || mc.Fn != ssa.Value(x.Parent()) {
								return
							}
							for k, fv := range x.Parent().FreeVars {
								if fv != x || k >= len(mc.Bindings) {
									continue
								}
								some = true
								cell, isCell := mc.Bindings[k].(*ssa.Alloc)
								if !isCell || !cellHolds(cell, mc) {
									okAll = false
								}
							}
						})
					}
					if x.Parent().Parent() != nil {
						scan(x.Parent().Parent())
					}
					return okAll && some
				}
			}
			return false
		}
		for _, f := range withClosures(fn) {
			// only the feeder: a select that also sends
			instrs(f, func(_ *ssa.BasicBlock, _ int, ins ssa.Instruction) {
				sel, ok := ins.(*ssa.Select)
				if !ok || ins.Parent() != f {
					return
				}
				sends := false
				for _, st := range sel.States {
					if st.Dir == types.SendOnly {
						sends = true
					}
				}
				if !sends {
					return
				}
				for _, st := range sel.States {
					if st.Dir != types.RecvOnly {
						continue
					}
					// the received-from channel: X.Done() of some context
					var doneCall ssa.CallInstruction
					for _, l := range leaves(st.Chan) {
						if ci, ok := l.(*ssa.Call); ok && ci.Call.IsInvoke() && ci.Call.Method.Name() == "Done" {
							doneCall = ci
						}
					}
					if doneCall == nil {
						continue
					}
					n++
					key := fmt.Sprintf("%s:feeder-select", fnKey(f))
					c.verdict(isGroupCtx(doneCall.Common().Value), key, sel.Pos(), "the feeding select watches the errgroup's context",
						"the select that feeds the workers watches a Done channel that is not the errgroup context's (it was taken from the caller's context, or before errgroup.WithContext): when all workers have failed nothing receives any more and nothing cancels that channel - the operation hangs instead of returning the error")
				}
			})
		}
	}
	if n == 0 {
		c.bad("feeder-watches-group", token.NoPos, "no feeding select found in the functions that use errgroup.WithContext")
	}
}
