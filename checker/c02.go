package main

import (
	"fmt"
	"go/token"
	"strings"

	"golang.org/x/tools/go/ssa"
)

func init() {
	register(&property{
		ID: "C02",
		Explanation: "The core of C02 - a cut falls at the first window-hash match, parallel chunking equals sequential chunking under every interleaving, independence of read fragmentation - quantifies over byte values and schedules and is NOT decided. Decided necessary conditions: " +
			"C02.params-agree: the min/avg/max an index records are the values the chunker was built with (IndexFromFile: same SSA values to NewChunker and FormatIndex; ChunkStream: Chunker.Min/Avg/Max return the fields NewChunker set from the like-named parameters). C02.digest-flag: the index's digest bit follows the digest in use (shared with C05). " +
			"C02.id-size-same-bytes: pChunker.start records Size=len(b), ID=Digest.Sum(b) of the b returned by Chunker.Next, at Next's start plus the worker's offset. C02.split: every return of Chunker.Next goes through split, which slices, trims the buffer and advances start by the same operand and resets the hash; C02.ctor-guards: NewChunker builds a Chunker only behind its four parameter checks. " +
			"C02.fill: fillBuffer reads into a fresh buffer, adds every Read's byte count before testing the error, and keeps the unread tail. C02.sync: syncWith reports 'in sync' only on the equal edges of both Start and Size; the null-run skip-ahead is computed only when both the current and the previous bucket entries are null chunks; the amount passed to Chunker.Advance equals the total size of the null chunks emitted for it. " +
			"C02.worker-errors: on every path of pChunker.start on which Chunker.Next/Advance failed the worker returns with pChunker.err non-nil (a read error with an empty chunk is not an EOF). C02.order: IndexFromFile concatenates the buckets in worker order and stops after the first worker that hit EOF; ChunkStream rebuilds the list by index 0..len-1, never by ranging over the map.",
		NotDecided: "rolling-hash boundaries, parallel == sequential for every schedule, independence of reader fragmentation beyond the count/keep-tail clauses.",
		Rules: []rule{
			{"C02.params-agree", "recorded chunk-size parameters are the chunker's parameters", 6, c02Params},
			{"C02.digest-flag", "the recorded digest flag follows the digest in use", 3, c05DigestFlag},
			{"C02.id-size-same-bytes", "recorded size, id and start describe the bytes Chunker.Next returned", 4, c02SameBytes},
			{"C02.size-boundaries", "refill, short-tail and hard-cut thresholds of Chunker.Next (partition points)", 4, c02SizeBoundaries},
			{"C02.split", "Chunker.Next returns through split; split keeps slice, buffer and start in step", 4, c02Split},
			{"C02.ctor-guards", "NewChunker validates min/avg/max before building the chunker", 4, c02CtorGuards},
			{"C02.fill", "buffer refill counts every read, uses a fresh buffer and keeps the tail", 3, c02Fill},
			{"C02.sync", "worker hand-over only on equal start and size; null skip-ahead only inside a proven null run; Advance matches the emitted null chunks", 3, c02Sync},
			{"C02.order", "chunk lists are assembled in worker order / job order", 3, c02Order},
			{"C02.worker-errors", "a failed chunker call always ends the chunking worker with its err field set", 1, c02WorkerErrors},
			{"C02.scan-needs-room", "the boundary scan of the chunker runs only where min is below the limit (no max+1 chunks for min == max)", 1, c02MinBelowLimit},
			{"C02.skip-clears-eof", "a chunking worker that is skipped does not end the index early", 1, c02SkipClearsEOF},
			{"C02.null-chunk-consistent", "the null chunk's ID is the digest of exactly its Data, a buffer of its own", 2, func(c *Ctx) { c.nullChunkConsistent() }},
		},
	})
}

func c02Params(c *Ctx) {
	if fn := c.mustFn("IndexFromFile"); fn != nil {
		fields := map[string]ssa.Value{}
		instrs(fn, func(_ *ssa.BasicBlock, _ int, ins ssa.Instruction) {
			if st, ok := ins.(*ssa.Store); ok {
				if fa, ok := st.Addr.(*ssa.FieldAddr); ok && strings.HasPrefix(fieldOf(fa), "FormatIndex.ChunkSize") {
					fields[strings.TrimPrefix(fieldOf(fa), "FormatIndex.ChunkSize")] = st.Val
				}
			}
		})
		ncs := calls(fn, named("desync.NewChunker"))
		for i, name := range []string{"Min", "Avg", "Max"} {
			okP := len(ncs) > 0 && fields[name] != nil
			for _, nc := range ncs {
				a := nc.Common().Args
				if !sameValue(a[1+i], fields[name]) {
					okP = false
				}
			}
			c.verdict(okP, "IndexFromFile:ChunkSize"+name, fn.Pos(), "index records the "+strings.ToLower(name)+" value passed to NewChunker", "the index's ChunkSize"+name+" is not the "+strings.ToLower(name)+" the chunkers are built with: readers of the index chunk with other parameters")
		}
	}
	// ChunkStream records c.Min()/Avg()/Max()
	if fn := c.mustFn("ChunkStream"); fn != nil {
		for _, name := range []string{"Min", "Avg", "Max"} {
			okP := false
			instrs(fn, func(_ *ssa.BasicBlock, _ int, ins ssa.Instruction) {
				if st, ok := ins.(*ssa.Store); ok {
					if fa, ok := st.Addr.(*ssa.FieldAddr); ok && fieldOf(fa) == "FormatIndex.ChunkSize"+name {
						if hasOrigin(st.Val, func(o string) bool { return strings.HasSuffix(o, "desync.Chunker)."+name+"#0") }) {
							okP = true
						}
					}
				}
			})
			c.verdict(okP, "ChunkStream:ChunkSize"+name, fn.Pos(), "index records Chunker."+name+"()", "ChunkStream does not record Chunker."+name+"() as ChunkSize"+name)
		}
	}
	// the accessors return the like-named fields, NewChunker sets them from the like-named params
	for _, name := range []string{"Min", "Avg", "Max"} {
		f := strings.ToLower(name)
		if acc := c.mustFn("Chunker." + name); acc != nil {
			okA := false
			for _, r := range returnsOf(acc) {
				if onlyOrigins(r.Results[0], func(o string) bool { return o == "field:Chunker."+f }) {
					okA = true
				}
			}
			c.verdict(okA, "Chunker."+name+":field", acc.Pos(), "returns the "+f+" field", "Chunker."+name+"() does not return the "+f+" field")
		}
	}
	if nc := c.mustFn("NewChunker"); nc != nil {
		instrs(nc, func(_ *ssa.BasicBlock, _ int, ins ssa.Instruction) {
			if st, ok := ins.(*ssa.Store); ok {
				if fa, ok := st.Addr.(*ssa.FieldAddr); ok {
					switch f := fieldOf(fa); f {
					case "Chunker.min", "Chunker.avg", "Chunker.max":
						want := "param:" + strings.TrimPrefix(f, "Chunker.")
						c.verdict(onlyOrigins(st.Val, func(o string) bool { return o == want }), "NewChunker:"+f, st.Pos(), f+" = "+want, f+" is not set from the like-named parameter")
					}
				}
			}
		})
	}
}

func c02SameBytes(c *Ctx) {
	fn := c.mustFn("pChunker.start")
	if fn == nil {
		return
	}
	nexts := calls(fn, suffixed("desync.Chunker).Next"))
	if len(nexts) != 1 {
		c.bad("pChunker.start:next", fn.Pos(), "expected one Chunker.Next call")
		return
	}
	next := nexts[0].(*ssa.Call)
	isNext := func(v ssa.Value, idx int) bool {
		for _, l := range leaves(v) {
			cl, i := callOf(l)
			if cl != next || i != idx {
				return false
			}
		}
		return len(leaves(v)) > 0
	}
	// the first IndexChunk literal (the real chunk)
	var size, id, start ssa.Value
	instrs(fn, func(_ *ssa.BasicBlock, _ int, ins ssa.Instruction) {
		st, ok := ins.(*ssa.Store)
		if !ok {
			return
		}
		fa, ok := st.Addr.(*ssa.FieldAddr)
		if !ok {
			return
		}
		switch fieldOf(fa) {
		case "IndexChunk.Size":
			if size == nil {
				size = st.Val
			}
		case "IndexChunk.ID":
			if id == nil {
				id = st.Val
			}
		case "IndexChunk.Start":
			if start == nil {
				start = st.Val
			}
		}
	})
	okSize := false
	if cv, ok := stripConv(size).(*ssa.Call); ok && callee(cv) == "builtin:len" && isNext(cv.Call.Args[0], 1) {
		okSize = true
	}
	c.verdict(okSize, "pChunker.start:size", fn.Pos(), "Size = len(b) of the bytes Next returned", "the recorded Size is not len() of the bytes Chunker.Next returned")
	okID := false
	for _, l := range leaves(id) {
		if cl, _ := callOf(l); cl != nil && callee(cl) == "(desync.HashAlgorithm).Sum" && isNext(cl.Call.Args[0], 1) {
			okID = true
		}
	}
	c.verdict(okID, "pChunker.start:id", fn.Pos(), "ID = Digest.Sum(b) of the same bytes", "the recorded ID is not the digest of the bytes Chunker.Next returned")
	okStart := false
	if bo, ok := stripConv(start).(*ssa.BinOp); ok && bo.Op == token.ADD {
		a, b := bo.X, bo.Y
		if (isNext(a, 0) && hasOrigin(b, func(o string) bool { return o == "field:pChunker.offset" })) || (isNext(b, 0) && hasOrigin(a, func(o string) bool { return o == "field:pChunker.offset" })) {
			okStart = true
		}
	}
	c.verdict(okStart, "pChunker.start:start", fn.Pos(), "Start = Next's start + the worker's offset", "the recorded Start is not the chunker's start plus the worker's offset in the file")
	// IndexFromFile: the worker's offset is the position its file handle was seeked to
	if ifn := c.mustFn("IndexFromFile"); ifn != nil {
		// the store and the seek may have moved together into a constructor of the worker
		okOff := false
		for _, f := range fnsDeep(ifn) {
			var off ssa.Value
			instrs(f, func(_ *ssa.BasicBlock, _ int, ins ssa.Instruction) {
				if st, ok := ins.(*ssa.Store); ok && ins.Parent() == f {
					if fa, ok := st.Addr.(*ssa.FieldAddr); ok && fieldOf(fa) == "pChunker.offset" {
						off = st.Val
					}
				}
			})
			if off == nil {
				continue
			}
			for _, s := range calls(f, func(name string) bool {
				return name == "(*os.File).Seek" || name == "(io.Seeker).Seek" || name == "(io.ReadSeeker).Seek"
			}) {
				if a := s.Common().Args; len(a) >= 2 && sameValue(stripConv(a[len(a)-2]), stripConv(off)) {
					okOff = true
				}
			}
		}
		c.verdict(okOff, "IndexFromFile:worker-offset", ifn.Pos(), "each worker's offset is the position its reader was seeked to", "a worker's offset is not the position its file handle was seeked to")
	}
}

func c02Split(c *Ctx) {
	if fn := c.mustFn("Chunker.Next"); fn != nil {
		okAll := true
		n := 0
		for _, r := range returnsOf(fn) {
			n++
			for _, res := range r.Results {
				for _, l := range leaves(res) {
					if cl, _ := callOf(l); cl == nil || !strings.HasSuffix(callee(cl), "desync.Chunker).split") {
						okAll = false
					}
				}
			}
		}
		c.verdict(okAll && n > 0, "Chunker.Next:returns-through-split", fn.Pos(), fmt.Sprintf("%d return(s), all results of split()", n), "Chunker.Next has a return that does not go through split(): buffer, start offset and hash state get out of step with the bytes handed out")
	}
	if fn := c.mustFn("Chunker.split"); fn != nil {
		var iParam *ssa.Parameter
		for _, p := range fn.Params {
			if p.Name() == "i" || (p.Type().String() == "int") {
				iParam = p
			}
		}
		okSlice, okTrim, okStart, okHash := false, false, false, 0
		instrs(fn, func(_ *ssa.BasicBlock, _ int, ins ssa.Instruction) {
			switch x := ins.(type) {
			case *ssa.Slice:
				if !hasOrigin(x.X, func(o string) bool { return o == "field:Chunker.buf" }) {
					return
				}
				if x.High != nil && x.Low == nil && iParam != nil && isParam(x.High, iParam) {
					okSlice = true // buf[:i]
				}
				if x.Low != nil && x.High == nil && iParam != nil && isParam(x.Low, iParam) {
					okTrim = true // buf[i:]
				}
			case *ssa.Store:
				if fa, ok := x.Addr.(*ssa.FieldAddr); ok {
					switch fieldOf(fa) {
					case "Chunker.start":
						if bo, ok := x.Val.(*ssa.BinOp); ok && bo.Op == token.ADD && iParam != nil && (isParam(stripConv(bo.Y), iParam) || isParam(stripConv(bo.X), iParam)) {
							okStart = true
						}
					case "Chunker.hValue", "Chunker.hIdx":
						if k, ok := x.Val.(*ssa.Const); ok && constInt64(k) == 0 {
							okHash++
						}
					}
				}
			}
		})
		c.verdict(okSlice && okTrim, "Chunker.split:slice-and-trim", fn.Pos(), "returns buf[:i] and keeps buf[i:]", "split does not return buf[:i] and keep buf[i:] for the same i: chunks would overlap or leave gaps")
		c.verdict(okStart, "Chunker.split:advance-start", fn.Pos(), "start += i", "split does not advance the absolute start offset by the bytes handed out")
		c.verdict(okHash == 2, "Chunker.split:reset-hash", fn.Pos(), "the rolling hash state is reset at every cut", "the rolling hash state is not reset at a cut: boundaries would depend on earlier chunks")
	}
}

func c02CtorGuards(c *Ctx) {
	fn := c.mustFn("NewChunker")
	if fn == nil {
		return
	}
	// the success return (nil error) must be unreachable when the four rejecting tests are cut
	type chk struct {
		name string
		acc  acceptFn
	}
	cmpParams := func(op token.Token, a, b string) acceptFn {
		// accept the edge on which NOT (a op b) holds, a/b parameters or constants
		is := func(n string) func(ssa.Value) bool {
			return func(v ssa.Value) bool {
				if strings.HasPrefix(n, "const") {
					_, ok := v.(*ssa.Const)
					return ok
				}
				return onlyOrigins(v, func(o string) bool { return o == "param:"+n })
			}
		}
		return relAcc(negOp(op), is(a), is(b))
	}
	checks := []chk{
		{"min>=window", cmpParams(token.LSS, "min", "const")},
		{"min<=max", cmpParams(token.GTR, "min", "max")},
		{"min<=avg", cmpParams(token.GTR, "min", "avg")},
		{"avg<=max", cmpParams(token.GTR, "avg", "max")},
	}
	for _, r := range returnsOf(fn) {
		if len(r.Results) != 2 || !isNilConst(r.Results[1]) {
			continue
		}
		for _, ck := range checks {
			okG, _ := guarded(fn, r, ck.acc)
			c.verdict(okG, "NewChunker:"+ck.name, r.Pos(), "a chunker is built only behind the check "+ck.name, "NewChunker builds a chunker without the check "+ck.name+": the window slice buf[min-48:min] or the cut logic can go out of range")
		}
	}
}

func c02Fill(c *Ctx) {
	c06BufferOwnership(c)
	fn := c.mustFn("Chunker.fillBuffer")
	if fn == nil {
		return
	}
	for _, r := range calls(fn, named("(io.Reader).Read")) {
		call := r.(*ssa.Call)
		// the count
		var cnt ssa.Value
		for _, ref := range *call.Referrers() {
			if ex, ok := ref.(*ssa.Extract); ok && ex.Index == 0 {
				cnt = ex
			}
		}
		var add ssa.Instruction
		if cnt != nil && cnt.Referrers() != nil {
			for _, ref := range *cnt.Referrers() {
				if bo, ok := ref.(*ssa.BinOp); ok && bo.Op == token.ADD {
					add = bo
				}
			}
		}
		okAdd := add != nil && add.Block() == call.Block()
		if add != nil && !okAdd {
			// every path from the read back to the loop test or out of the function passes the add
			removed := map[edge]bool{}
			for _, s := range add.Block().Succs {
				removed[edge{add.Block(), s}] = true
			}
			reach := map[*ssa.BasicBlock]bool{}
			for _, s := range call.Block().Succs {
				if s == add.Block() {
					continue
				}
				for b := range reachableFrom(s, removed) {
					reach[b] = true
				}
			}
			okAdd = true
			for b := range reach {
				if b == add.Block() {
					continue
				}
				if len(b.Instrs) > 0 {
					if _, isRet := b.Instrs[len(b.Instrs)-1].(*ssa.Return); isRet {
						okAdd = false
					}
				}
				if b == call.Block() {
					okAdd = false
				}
			}
		}
		c.verdict(okAdd, "Chunker.fillBuffer:count-every-read", call.Pos(), "the bytes returned by Read are counted before the error is looked at", "bytes returned by Read together with an error (e.g. io.EOF) are not counted: the tail of the stream is lost for readers that return data with EOF")
	}
	// the unread tail is kept: copy(newbuf, c.buf)
	okCopy := false
	for _, cp := range calls(fn, named("builtin:copy")) {
		if hasOrigin(cp.Common().Args[1], func(o string) bool { return o == "field:Chunker.buf" }) {
			okCopy = true
		}
	}
	c.verdict(okCopy, "Chunker.fillBuffer:keeps-tail", fn.Pos(), "the unread tail of the old buffer is copied into the new one", "the unread tail of the buffer is not carried over on refill")
}

func c02Sync(c *Ctx) {
	fn := c.mustFn("pChunker.syncWith")
	if fn == nil {
		return
	}
	startEq := edgesWhere(fn, func(iff *ssa.If) (bool, bool) {
		eqOnTrue, ok := equalEdge(iff, originHas("field:IndexChunk.Start"), originHas("field:IndexChunk.Start"))
		if !ok {
			return false, false
		}
		return eqOnTrue, !eqOnTrue
	})
	sizeEq := edgesWhere(fn, func(iff *ssa.If) (bool, bool) {
		eqOnTrue, ok := equalEdge(iff, originHas("field:IndexChunk.Size"), originHas("field:IndexChunk.Size"))
		if !ok {
			return false, false
		}
		return eqOnTrue, !eqOnTrue
	})
	n := 0
	for _, r := range returnsOf(fn) {
		if k, ok := r.Results[0].(*ssa.Const); ok && isTrueConst(k) {
			n++
			a := !reachable(fn, startEq)[r.Block()] && len(startEq) > 0
			b := !reachable(fn, sizeEq)[r.Block()] && len(sizeEq) > 0
			c.verdict(a && b, "pChunker.syncWith:in-sync", r.Pos(), "'in sync' only on the equal edges of both Start and Size", fmt.Sprintf("'in sync' is reported without both Start and Size having been found equal (start=%v size=%v): the previous worker stops at a boundary the next worker does not share", a, b))
		}
	}
	if n == 0 {
		c.bad("pChunker.syncWith:in-sync", fn.Pos(), "syncWith never reports 'in sync'")
	}
	// the null-run: the skip-ahead amount is computed only behind both null tests
	// the two sides by role, not by variable name: the current bucket entry is the pChunker's own
	// field (sync), the previous one is any other IndexChunk (a local)
	nullEq := func(side string) map[edge]bool {
		return edgesWhere(fn, func(iff *ssa.If) (bool, bool) {
			eqOnTrue, ok := equalEdge(iff, func(v ssa.Value) bool {
				if !hasOrigin(v, func(o string) bool { return o == "field:IndexChunk.ID" }) {
					return false
				}
				isField := strings.Contains(locKey(v), ".sync")
				return isField == (side == "sync")
			}, originHas("field:NullChunk.ID"))
			if !ok {
				return false, false
			}
			return eqOnTrue, !eqOnTrue
		})
	}
	var nDef ssa.Instruction
	instrs(fn, func(_ *ssa.BasicBlock, _ int, ins ssa.Instruction) {
		if bo, ok := ins.(*ssa.BinOp); ok && bo.Op == token.SUB && hasOrigin(bo.Y, func(o string) bool { return o == "field:IndexChunk.Start" }) {
			if add, ok := bo.X.(*ssa.BinOp); ok && add.Op == token.ADD {
				nDef = bo
			}
		}
	})
	if nDef == nil {
		c.bad("pChunker.syncWith:null-run", fn.Pos(), "the null-run skip-ahead computation (prev.Start+prev.Size-chunk.Start) was not found")
	} else {
		cur, prev := nullEq("sync"), nullEq("prev")
		a := len(cur) > 0 && !reachable(fn, cur)[nDef.Block()]
		b := len(prev) > 0 && !reachable(fn, prev)[nDef.Block()]
		c.verdict(a && b, "pChunker.syncWith:null-run", nDef.Pos(), "the skip-ahead is computed only when both the current and the previous bucket entry are null chunks", fmt.Sprintf("the null-run skip-ahead is computed without both bucket entries having been found to be null chunks (current=%v previous=%v): the predecessor would advance over data and record null ids for it", a, b))
	}
	// Advance(k*len(null)) and k null chunks of len(null) each
	if st := c.mustFn("pChunker.start"); st != nil {
		okAdv := false
		for _, adv := range calls(st, suffixed("desync.Chunker).Advance")) {
			arg := adv.Common().Args[1]
			if bo, ok := stripConv(arg).(*ssa.BinOp); ok && bo.Op == token.MUL {
				isLenNull := func(v ssa.Value) bool {
					cl := lenCallOf(stripConv(v)) // also "nullSize := len(c.nullChunk.Data)" hoisted into a local
					return cl != nil && hasOrigin(cl.Call.Args[0], func(o string) bool { return o == "field:NullChunk.Data" })
				}
				var count ssa.Value
				if isLenNull(bo.Y) {
					count = bo.X
				} else if isLenNull(bo.X) {
					count = bo.Y
				}
				if count != nil {
					// a loop bounded by the same count that emits chunks of Size len(null)
					for _, b := range adv.Parent().Blocks {
						iff := lastIf(b)
						if iff == nil {
							continue
						}
						cm, _, ok := cmpOf(iff.Cond)
						if ok && cm.op == token.LSS && sameValue(cm.y, count) {
							okAdv = true
						}
						if ok && cm.op == token.GTR && sameValue(cm.x, count) {
							okAdv = true
						}
					}
				}
			}
		}
		sizeOK := false
		instrs(st, func(_ *ssa.BasicBlock, _ int, ins ssa.Instruction) {
			if s, ok := ins.(*ssa.Store); ok {
				if fa, ok := s.Addr.(*ssa.FieldAddr); ok && fieldOf(fa) == "IndexChunk.Size" {
					if cl := lenCallOf(stripConv(s.Val)); cl != nil && hasOrigin(cl.Call.Args[0], func(o string) bool { return o == "field:NullChunk.Data" }) {
						sizeOK = true
					}
				}
			}
		})
		c.verdict(okAdv && sizeOK, "pChunker.start:advance-matches-null-chunks", st.Pos(), "Advance(k*len(null)) and exactly k null chunks of len(null) bytes are emitted", "the amount skipped with Chunker.Advance is not k*len(null chunk) for the k null chunks emitted: the chunks would not tile the input")
	}
}

func c02Order(c *Ctx) {
	if fn := c.mustFn("IndexFromFile"); fn != nil {
		// appends to index.Chunks: value received from w.results, inside the range over worker
		// (in IndexFromFile itself or in a new helper that collects the list and hands it back)
		fam := fnsDeep(fn)
		n := 0
		okAll := true
		for _, g := range fam {
			instrs(g, func(_ *ssa.BasicBlock, _ int, ins ssa.Instruction) {
				call, ok := ins.(*ssa.Call)
				if !ok || callee(call) != "builtin:append" || ins.Parent() != g {
					return
				}
				// the appended element comes from a receive on pChunker.results
				el := call.Call.Args[1]
				fromBucket := false
				if sl, ok := el.(*ssa.Slice); ok {
					if al, ok := sl.X.(*ssa.Alloc); ok {
						for _, ref := range *al.Referrers() {
							if ia, ok := ref.(*ssa.IndexAddr); ok {
								for _, r2 := range *ia.Referrers() {
									if st, ok := r2.(*ssa.Store); ok && hasOrigin(st.Val, func(o string) bool { return strings.Contains(o, "field:pChunker.results") }) {
										fromBucket = true
									}
								}
							}
						}
					}
				}
				direct := hasOrigin(call.Call.Args[0], func(o string) bool { return o == "field:Index.Chunks" })
				if !direct && !(g != fn && fromBucket) {
					return // some other list
				}
				n++
				if !fromBucket {
					okAll = false
				}
				if !direct {
					// the helper's list must be what IndexFromFile puts into the index
					stored := false
					instrs(fn, func(_ *ssa.BasicBlock, _ int, i2 ssa.Instruction) {
						if st, ok := i2.(*ssa.Store); ok {
							if fa, ok := st.Addr.(*ssa.FieldAddr); ok && fieldOf(fa) == "Index.Chunks" {
								for _, l := range leaves(st.Val) {
									if l == ssa.Value(call) {
										stored = true
									}
								}
								if hasOrigin(st.Val, func(o string) bool { return strings.HasPrefix(o, "call:") && strings.Contains(o, g.Name()) }) {
									stored = true
								}
							}
						}
					})
					if !stored {
						okAll = false
					}
				}
			})
		}
		c.verdict(n == 1 && okAll, "IndexFromFile:concatenate-buckets", fn.Pos(), "the index is the concatenation of the workers' buckets", "index.Chunks is not built by draining the workers' buckets")
		// the outer loop ranges over the worker slice in order and leaves on eof
		var blocks []*ssa.BasicBlock
		for _, g := range fam {
			blocks = append(blocks, g.Blocks...)
		}
		eofBreak := false
		for _, b := range blocks {
			iff := lastIf(b)
			if iff != nil && onlyOrigins(stripNot(iff.Cond), func(o string) bool { return o == "field:pChunker.eof" }) {
				eofBreak = true
			}
		}
		errChecked := false
		for _, b := range blocks {
			iff := lastIf(b)
			if iff == nil {
				continue
			}
			cm, _, ok := cmpOf(iff.Cond)
			if ok && (isNilConst(cm.x) || isNilConst(cm.y)) && (hasOrigin(cm.x, func(o string) bool { return o == "field:pChunker.err" }) || hasOrigin(cm.y, func(o string) bool { return o == "field:pChunker.err" })) {
				errChecked = true
			}
		}
		c.verdict(eofBreak && errChecked, "IndexFromFile:stop-at-eof-worker", fn.Pos(), "after each worker its error is checked and the loop stops at the first worker that reached EOF", "the main loop does not check the worker's error / stop at the worker that reached EOF: chunks of later (overlapping) workers would be appended again")
	}
	if fn := c.mustFn("ChunkStream"); fn != nil {
		// no range over the results map; list built by Lookup with the loop index
		mapRange := false
		instrs(fn, func(_ *ssa.BasicBlock, _ int, ins ssa.Instruction) {
			if rg, ok := ins.(*ssa.Range); ok && strings.HasPrefix(rg.X.Type().Underlying().String(), "map[") {
				mapRange = true
			}
		})
		byIndex := false
		instrs(fn, func(_ *ssa.BasicBlock, _ int, ins ssa.Instruction) {
			if lk, ok := ins.(*ssa.Lookup); ok && strings.HasPrefix(lk.X.Type().Underlying().String(), "map[int]") {
				// the loop counter: a phi, or the incremented counter of a range loop
				switch x := stripConv(lk.Index).(type) {
				case *ssa.Phi:
					byIndex = true
				case *ssa.BinOp:
					if _, isPhi := x.X.(*ssa.Phi); isPhi && x.Op == token.ADD {
						byIndex = true
					}
				}
			}
		})
		c.verdict(!mapRange && byIndex, "ChunkStream:rebuild-in-order", fn.Pos(), "the chunk list is rebuilt by looking up results[i] for i = 0..len-1", "the chunk list is rebuilt by ranging over the results map (random order) or not by job number")
		// the job number increases by one per job and is what the worker records the row under
		numOK := false
		// the primitive: the store into the results map is keyed by the job's number - directly in
		// the worker, or through a closure parameter that every call fills with the job's number
		isNum := func(v ssa.Value) bool {
			return hasOrigin(v, func(o string) bool { return strings.HasSuffix(o, ".num") })
		}
		for _, f := range withClosures(fn) {
			instrs(f, func(_ *ssa.BasicBlock, _ int, ins ssa.Instruction) {
				mu, ok := ins.(*ssa.MapUpdate)
				if !ok || !strings.HasPrefix(mu.Map.Type().Underlying().String(), "map[int]") {
					return
				}
				if isNum(mu.Key) {
					numOK = true
					return
				}
				if p, isParam := stripConv(mu.Key).(*ssa.Parameter); isParam {
					idx := -1
					for i, q := range p.Parent().Params {
						if q == p {
							idx = i
						}
					}
					all, n := true, 0
					for _, g := range withClosures(fn) {
						for _, call := range calls(g, func(string) bool { return true }) {
							if call.Common().StaticCallee() == p.Parent() && idx >= 0 && idx < len(call.Common().Args) {
								n++
								if !isNum(call.Common().Args[idx]) {
									all = false
								}
							}
						}
					}
					if all && n > 0 {
						numOK = true
					}
				}
			})
		}
		for _, w := range c.workerClosures(fn) {
			for _, call := range calls(w, func(n string) bool { return strings.HasPrefix(n, "closure:ChunkStream") }) {
				if hasOrigin(call.Common().Args[0], func(o string) bool { return strings.HasSuffix(o, ".num") }) {
					numOK = true
				}
			}
			instrs(w, func(_ *ssa.BasicBlock, _ int, ins ssa.Instruction) {
				if call, ok := ins.(*ssa.Call); ok && call.Call.StaticCallee() == nil && !call.Call.IsInvoke() {
					if len(call.Call.Args) > 0 && hasOrigin(call.Call.Args[0], func(o string) bool { return strings.HasSuffix(o, ".num") }) {
						numOK = true
					}
				}
			})
		}
		c.verdict(numOK, "ChunkStream:row-under-job-number", fn.Pos(), "each index row is recorded under its job number", "index rows are not recorded under the job number of the chunk they describe")
	}
}

// c02SizeBoundaries (E-BOUND): the size thresholds of Chunker.Next.  They fix where a chunk can
// end independently of the rolling hash: refill while fewer than max bytes are buffered, emit the
// whole rest when no more than min bytes are left, cut at m = min(max, len(buf)).
func c02SizeBoundaries(c *Ctx) {
	fn := c.mustFn("Chunker.Next")
	if fn == nil {
		return
	}
	c.dumpPartitions()
	m := "phi([1*Chunker.max]+0|[1*len(Chunker.buf)]+0)"
	pos := "phi([1*Chunker.min]+0|[1*phi([1*?*ssa.Phi]+1|[1*Chunker.min]+0)]+1)"
	// refill: the comparison that leads to fillBuffer must split exactly at len(buf) < max; the
	// other comparison of the same quantities computes m = min(max, len(buf)), where the boundary
	// case len == max gives the same m either way (both splits are right).
	refillOK, capOK, nRefill, nCap := true, true, 0, 0
	fills := calls(fn, suffixed("Chunker).fillBuffer"))
	for _, p := range partitionsIn(withClosures(fn)) {
		t, ok := p.over(map[string]int{"Chunker.max": 1, "len(Chunker.buf)": -1})
		if !ok || p.cmpv == nil {
			continue
		}
		guardsFill := false
		if refs := p.cmpv.Referrers(); refs != nil {
			for _, r := range *refs {
				iff, isIf := r.(*ssa.If)
				if u, isNot := r.(*ssa.UnOp); isNot && u.Referrers() != nil {
					for _, r2 := range *u.Referrers() {
						if i2, ok := r2.(*ssa.If); ok {
							iff, isIf = i2, true
						}
					}
				}
				if !isIf {
					continue
				}
				for _, f := range fills {
					for _, succ := range iff.Block().Succs {
						if len(succ.Preds) == 1 && (succ == f.Block() || succ.Dominates(f.Block())) {
							guardsFill = true
						}
					}
				}
			}
		}
		if guardsFill {
			nRefill++
			if t != 0 {
				refillOK = false
			}
		} else {
			nCap++
			if t != 0 && t != -1 {
				capOK = false
			}
		}
	}
	c.verdict(refillOK && nRefill >= 1, "Chunker.Next:refill", fn.Pos(), "the buffer is refilled iff len(buf) < max", "the refill test does not split at len(buf) < max: a buffer holding exactly max bytes is refilled needlessly or a shorter one is not refilled (chunk boundaries move)")
	c.verdict(capOK && nCap >= 1, "Chunker.Next:cap", fn.Pos(), "m = min(max, len(buf))", "the upper boundary m of the chunk is not min(max, len(buf))")
	c.boundaryRule("Chunker.Next", withClosures(fn), []boundarySpec{
		{"short-tail", map[string]int{"Chunker.min": 1, "len(Chunker.buf)": -1}, -1, 1, "the rest is emitted as one chunk iff len(buf) <= min"},
		{"hard-cut", map[string]int{m: 1, pos: -1}, 1, 1, "after consuming byte pos the chunk is cut iff pos+1 >= m"},
	})
}

// c02WorkerErrors: a chunking worker has no error result; it reports a failure of the chunker by
// leaving it in pChunker.err, which IndexFromFile reads after draining the worker.  On every
// path on which Chunker.Next or Chunker.Advance failed, the worker ends with err set - in
// particular a read error that arrives with an empty chunk is not taken for the end of the input.
func c02WorkerErrors(c *Ctx) {
	fn := c.mustFn("pChunker.start")
	if fn == nil {
		return
	}
	var errField *ssa.FieldAddr
	instrs(fn, func(_ *ssa.BasicBlock, _ int, ins ssa.Instruction) {
		if fa, ok := ins.(*ssa.FieldAddr); ok && fieldOf(fa) == "pChunker.err" && fa.Parent() == fn {
			errField = fa
		}
	})
	if errField == nil {
		c.bad("pChunker.start:errors-recorded", fn.Pos(), "the worker never touches pChunker.err")
		return
	}
	sites := map[*ssa.Call]bool{}
	var bad []string
	h := &Hooks{MaxVisits: 2}
	h.Fork = func(st *State, call *ssa.Call) []map[int]Val {
		switch callee(call) {
		case "(*desync.Chunker).Next", "(*desync.Chunker).Advance":
			sites[call] = true
			ei := errResultIndex(call)
			return []map[int]Val{{ei: {N: NNil, Class: ClsNil}}, {ei: {N: NNon, Class: ClsOther, Sym: "failed:" + callee(call)}}}
		}
		return nil
	}
	h.Return = func(st *State, ret *ssa.Return, _ []Val) {
		if !st.Has("outcome:failed") {
			return
		}
		if st.load(errField).N != NNon && len(bad) < 3 {
			bad = append(bad, fmt.Sprintf("the worker can end at %s after the chunker failed without pChunker.err being set (trail %s): the consumer takes the partial chunk list for a complete one", c.pos(ret.Pos()), strings.Join(st.Trail, ">")))
		}
	}
	Explore(fn, fn.Blocks[0], 0, nil, NewState(), h)
	c.paths += h.Paths
	switch {
	case h.Truncated:
		c.bad("pChunker.start:errors-recorded", fn.Pos(), "path exploration truncated")
	case len(sites) == 0:
		c.bad("pChunker.start:errors-recorded", fn.Pos(), "the worker calls neither Chunker.Next nor Chunker.Advance")
	case len(bad) > 0:
		c.bad("pChunker.start:errors-recorded", fn.Pos(), "%s", bad[0])
	default:
		c.ok("pChunker.start:errors-recorded", fn.Pos(), "%d fallible chunker call(s); every failure ends the worker with err set", len(sites))
	}
}

// c02MinBelowLimit: the boundary scan of Chunker.Next starts at pos = min, looks at one byte,
// advances, and only then compares pos with the limit m (max, or what is left).  With min == m
// the first test is made at m+1: every chunk is one byte longer than max and the index written
// for it cannot be read back.  The scan (the window initialisation buf[min-48:min] that opens it)
// is reached only behind the min < m edge.
func c02MinBelowLimit(c *Ctx) {
	fn := c.mustFn("Chunker.Next")
	if fn == nil {
		return
	}
	isMin := func(v ssa.Value) bool {
		return onlyOrigins(v, func(o string) bool { return o == "field:Chunker.min" })
	}
	isLimit := func(v ssa.Value) bool {
		var alts []ssa.Value
		switch x := v.(type) {
		case *ssa.Phi:
			alts = x.Edges
		case *ssa.Call:
			// a new helper that computes the limit
			if h := directCallee(x); h != nil && newHelpers[h] && h.Blocks != nil && h.Signature.Results().Len() == 1 {
				for _, r := range returnsOf(h) {
					alts = append(alts, phiEdgesFlat(r.Results[0], 0)...)
				}
			}
		}
		hasMax := false
		for _, e := range alts {
			if hasOrigin(e, func(o string) bool { return o == "field:Chunker.max" }) {
				hasMax = true
			}
		}
		return hasMax
	}
	n := 0
	for _, g := range fnsDeep(fn) { // (the scan may live in a new helper that is handed the limit)
		instrs(g, func(_ *ssa.BasicBlock, _ int, ins ssa.Instruction) {
			sl, ok := ins.(*ssa.Slice)
			if !ok || ins.Parent() != g || sl.High == nil || !isMin(sl.High) || !hasOrigin(sl.X, func(o string) bool { return o == "field:Chunker.buf" }) {
				return
			}
			n++
			okG, _ := guarded(fn, sl, relAcc(token.LSS, isMin, isLimit))
			c.verdict(okG, "Chunker.Next:scan-needs-room", sl.Pos(), "the boundary scan starts only where min < limit",
				"the boundary scan is entered although min may equal the limit (min == max): it looks at one more byte before it tests the size, every chunk comes out max+1 bytes long and the index made from them is refused by IndexFromReader")
		})
	}
	if n == 0 {
		// the window is primed byte by byte: the scan is then anchored at its position counter, the
		// loop variable that starts at min
		for _, g := range fnsDeep(fn) {
			instrs(g, func(b *ssa.BasicBlock, _ int, ins ssa.Instruction) {
				phi, ok := ins.(*ssa.Phi)
				if !ok || ins.Parent() != g || !inLoop(b) || !isIntegerType(phi.Type()) {
					return
				}
				fromMin := false
				for _, e := range phi.Edges {
					if isMin(e) {
						fromMin = true
					}
				}
				if !fromMin {
					return
				}
				n++
				okG, _ := guarded(fn, phi, relAcc(token.LSS, isMin, isLimit))
				c.verdict(okG, "Chunker.Next:scan-needs-room", phi.Pos(), "the boundary scan starts only where min < limit",
					"the boundary scan is entered although min may equal the limit (min == max): it looks at one more byte before it tests the size, every chunk comes out max+1 bytes long and the index made from them is refused by IndexFromReader")
			})
		}
	}
	if n == 0 {
		c.bad("Chunker.Next:scan-needs-room", fn.Pos(), "the hash window initialisation buf[min-window:min] was not found")
	}
}

// c02SkipClearsEOF: a chunking worker that finds the next worker stopped with an empty bucket
// skips it (c.next = c.next.next).  IndexFromFile walks the workers in order and stops at the
// first whose eof flag is set; a skipped worker that had reached the end of the stream would end
// the index before the chunks of the worker behind it (files ending in a run of zeros: the
// null-chunk skip-ahead drains the next bucket).  The skip clears the flag of the worker it
// skips, in the same block.
func c02SkipClearsEOF(c *Ctx) {
	fn := c.mustFn("pChunker.start")
	if fn == nil {
		return
	}
	n := 0
	instrs(fn, func(b *ssa.BasicBlock, i int, ins ssa.Instruction) {
		st, ok := ins.(*ssa.Store)
		if !ok || ins.Parent() != fn {
			return
		}
		fa, ok := st.Addr.(*ssa.FieldAddr)
		if !ok || fieldOf(fa) != "pChunker.next" || !hasOrigin(st.Val, func(o string) bool { return o == "field:pChunker.next" }) {
			return
		}
		n++
		cleared := false
		for j := 0; j < i; j++ {
			if s2, ok := b.Instrs[j].(*ssa.Store); ok {
				if f2, ok := s2.Addr.(*ssa.FieldAddr); ok && fieldOf(f2) == "pChunker.eof" {
					if k, isK := s2.Val.(*ssa.Const); isK && k.Value != nil && k.Value.ExactString() == "false" && hasOrigin(f2.X, func(o string) bool { return o == "field:pChunker.next" }) {
						cleared = true
					}
				}
			}
		}
		c.verdict(cleared, "pChunker.start:skip-clears-eof", st.Pos(), "the skipped worker's eof flag is cleared before it is unlinked",
			"a worker is skipped with its eof flag left as it is: if it had stopped at the end of the stream, IndexFromFile ends the index at it and never collects the chunks of the worker behind it - the end of a file that ends in zeros is dropped without an error (about one run in ten with default options)")
	})
	if n == 0 {
		c.info("pChunker.start:skip-clears-eof", fn.Pos(), "no worker is ever skipped")
		c.ok("pChunker.start:skip-clears-eof", fn.Pos(), "workers are not skipped")
	}
}
