package main

// Self-test of the checker (thorough tier): breaking variants must be reported, equivalent
// variants must be silent.  Variants are in-memory overlays of the repository's current
// files (nothing is written into /repo); each is analysed by a child process.
//
//   selftest/mutants.json   textual single-site rewrites {id, property, file, old, new, kind, rule}
//   regress/*.diff          the repairs of the defects found on the pinned tree, applied in
//                           reverse (re-introducing the defect)
//   seeded/<id>/patch.diff  changes written by independent agents (applied forward)
//   compound/*.diff         a refactoring of equiv/ with a break on top (applied forward)

import (
	"encoding/json"
	"fmt"
	"os"
	"os/exec"
	"path/filepath"
	"regexp"
	"sort"
	"strings"
	"sync"
	"time"
)

type selftestResult struct {
	Variants   int      `json:"variants"`
	Killed     int      `json:"killed"`
	Survived   []string `json:"survived"`
	Skipped    []string `json:"skipped"`
	Equivalent int      `json:"equivalent_variants"`
	Silent     int      `json:"equivalent_silent"`
	Noisy      []string `json:"equivalent_noisy"`
	Samples    []string `json:"samples"`
}

type mutant struct {
	ID       string `json:"id"`
	Property string `json:"property"`
	File     string `json:"file"`
	Old      string `json:"old"`
	New      string `json:"new"`
	Kind     string `json:"kind"` // break | equiv
	Rule     string `json:"rule"` // rule expected to report (prefix match), optional
	Note     string `json:"note,omitempty"`
	All      bool   `json:"all,omitempty"` // replace every occurrence of Old (renames)
	Also     []struct {
		File string `json:"file"`
		Old  string `json:"old"`
		New  string `json:"new"`
	} `json:"also,omitempty"`
	// for patch-based variants
	patch   string
	reverse bool
	// may be known to be outside the reach of the static rules (value-level); then a
	// survival is recorded but not counted against the checker
	Expect string `json:"expect,omitempty"` // "" (must be killed) | "miss" (documented limit)
}

func loadMutants(verif, id string) []mutant {
	var out []mutant
	b, err := os.ReadFile(filepath.Join(verif, "selftest", "mutants.json"))
	if err == nil {
		var all []mutant
		if err := json.Unmarshal(b, &all); err == nil {
			for _, m := range all {
				if m.Property == id {
					out = append(out, m)
				}
			}
		} else {
			fmt.Println("selftest: cannot parse mutants.json:", err)
		}
	}
	// regressions: first line of the patch-adjacent index tells the properties
	idx, err := os.ReadFile(filepath.Join(verif, "regress", "INDEX.json"))
	if err == nil {
		var m map[string]struct {
			Properties []string          `json:"properties"`
			Rule       map[string]string `json:"rule"`
		}
		if json.Unmarshal(idx, &m) == nil {
			var names []string
			for n := range m {
				names = append(names, n)
			}
			sort.Strings(names)
			for _, n := range names {
				for _, p := range m[n].Properties {
					if p == id {
						out = append(out, mutant{ID: "regress/" + n, Property: id, Kind: "break", Rule: m[n].Rule[id], patch: filepath.Join(verif, "regress", n), reverse: true})
					}
				}
			}
		}
	}
	// compound variants: one of the agents' refactorings with a break applied on top of it - the
	// generalised machinery must still see the break in the refactored shape
	if cidx, err := os.ReadFile(filepath.Join(verif, "compound", "INDEX.json")); err == nil {
		var m map[string]struct {
			Property string `json:"property"`
			Rule     string `json:"rule"`
		}
		if json.Unmarshal(cidx, &m) == nil {
			var names []string
			for n := range m {
				names = append(names, n)
			}
			sort.Strings(names)
			for _, n := range names {
				if m[n].Property == id {
					out = append(out, mutant{ID: "compound/" + n, Property: id, Kind: "break", Rule: m[n].Rule, patch: filepath.Join(verif, "compound", n)})
				}
			}
		}
	}
	// behaviour-preserving refactorings written by independent agents: every one of them must be
	// silent under every property (a refactoring of C03's code can trip a rule of C16)
	eqs, _ := filepath.Glob(filepath.Join(verif, "equiv", "*.diff"))
	sort.Strings(eqs)
	for _, e := range eqs {
		out = append(out, mutant{ID: "equiv/" + strings.TrimSuffix(filepath.Base(e), ".diff"), Property: id, Kind: "equiv", patch: e})
	}
	// seeded changes
	dirs, _ := filepath.Glob(filepath.Join(verif, "seeded", "*", "meta.json"))
	sort.Strings(dirs)
	for _, mf := range dirs {
		b, err := os.ReadFile(mf)
		if err != nil {
			continue
		}
		var meta struct {
			Property string `json:"property"`
			Detected string `json:"detected_by"`
			Expect   string `json:"expect"`
		}
		if json.Unmarshal(b, &meta) != nil || meta.Property != id {
			continue
		}
		out = append(out, mutant{ID: "seeded/" + filepath.Base(filepath.Dir(mf)), Property: id, Kind: "break", Rule: meta.Detected, Expect: meta.Expect, patch: filepath.Join(filepath.Dir(mf), "patch.diff")})
	}
	return out
}

var diffFile = regexp.MustCompile(`(?m)^\+\+\+ b/(\S+)`)

// overlayFor builds the overlay of a variant; ok=false when its target is not present.
func overlayFor(repo string, m mutant) (map[string]string, bool, string) {
	if m.patch == "" {
		path := filepath.Join(repo, m.File)
		b, err := os.ReadFile(path)
		if err != nil {
			return nil, false, "file missing"
		}
		src := string(b)
		if m.All {
			if strings.Count(src, m.Old) < 1 {
				return nil, false, "anchor text does not occur"
			}
			src = strings.ReplaceAll(src, m.Old, m.New)
		} else {
			if strings.Count(src, m.Old) != 1 {
				return nil, false, fmt.Sprintf("anchor text occurs %d times", strings.Count(src, m.Old))
			}
			src = strings.Replace(src, m.Old, m.New, 1)
		}
		ov := map[string]string{m.File: src}
		for _, a := range m.Also {
			cur, ok := ov[a.File]
			if !ok {
				bb, err := os.ReadFile(filepath.Join(repo, a.File))
				if err != nil {
					return nil, false, "file missing: " + a.File
				}
				cur = string(bb)
			}
			if !strings.Contains(cur, a.Old) {
				return nil, false, "secondary anchor text does not occur in " + a.File
			}
			ov[a.File] = strings.ReplaceAll(cur, a.Old, a.New)
		}
		return ov, true, ""
	}
	pb, err := os.ReadFile(m.patch)
	if err != nil {
		return nil, false, "patch missing"
	}
	tmp, err := os.MkdirTemp("", "desynclint-variant-")
	if err != nil {
		return nil, false, err.Error()
	}
	defer os.RemoveAll(tmp)
	var files []string
	for _, mm := range diffFile.FindAllStringSubmatch(string(pb), -1) {
		files = append(files, mm[1])
	}
	for _, f := range files {
		src, err := os.ReadFile(filepath.Join(repo, f))
		if err != nil {
			if m.reverse {
				return nil, false, "file missing: " + f
			}
			continue // a patch may add files
		}
		os.MkdirAll(filepath.Dir(filepath.Join(tmp, f)), 0o755)
		os.WriteFile(filepath.Join(tmp, f), src, 0o644)
	}
	args := []string{"-p1", "-s", "-f", "--no-backup-if-mismatch", "-d", tmp, "-i", m.patch}
	if m.reverse {
		args = append([]string{"-R"}, args...)
	}
	if out, err := exec.Command("patch", args...).CombinedOutput(); err != nil {
		return nil, false, "patch does not apply: " + strings.TrimSpace(string(out))
	}
	ov := map[string]string{}
	for _, f := range files {
		b, err := os.ReadFile(filepath.Join(tmp, f))
		if err != nil {
			continue
		}
		ov[f] = string(b)
	}
	return ov, true, ""
}

func runSelftest(repo, verif, id string) *selftestResult {
	ms := loadMutants(verif, id)
	res := &selftestResult{Survived: []string{}, Skipped: []string{}, Noisy: []string{}, Samples: []string{}}
	if len(ms) == 0 {
		return res
	}
	self, err := os.Executable()
	if err != nil {
		return res
	}
	type outcome struct {
		m      mutant
		status string // killed | survived | skipped | silent | noisy
		detail string
	}
	outs := make([]outcome, len(ms))
	sem := make(chan struct{}, 16)
	relevant := relevantFiles(self, repo, verif, id)
	var wg sync.WaitGroup
	for i, m := range ms {
		wg.Add(1)
		go func(i int, m mutant) {
			defer wg.Done()
			sem <- struct{}{}
			defer func() { <-sem }()
			if strings.HasPrefix(m.ID, "equiv/") && !touches(m.patch, relevant) {
				outs[i] = outcome{m, "irrelevant", ""}
				return
			}
			ov, ok, why := overlayFor(repo, m)
			if !ok {
				outs[i] = outcome{m, "skipped", why}
				return
			}
			f, err := os.CreateTemp("", "desynclint-overlay-*.json")
			if err != nil {
				outs[i] = outcome{m, "skipped", err.Error()}
				return
			}
			defer os.Remove(f.Name())
			json.NewEncoder(f).Encode(ov)
			f.Close()
			var code int
			var text string
			// a child that could not load the program (import data missing while 16 loads compete for
			// the build cache) says nothing about the variant: try again, alone if need be
			for attempt := 0; attempt < 3; attempt++ {
				cmd := exec.Command(self, "-property", id, "-tier", "quick", "-repo", repo, "-verif", verif, "-overlay", f.Name(), "-no-evidence")
				b, _ := cmd.CombinedOutput()
				code = cmd.ProcessState.ExitCode()
				text = string(b)
				if code == 2 && (strings.Contains(text, "SSA packages missing") || strings.Contains(text, "could not import") || strings.Contains(text, "signal: killed")) {
					time.Sleep(time.Duration(2+attempt*5) * time.Second)
					continue
				}
				break
			}
			switch m.Kind {
			case "equiv":
				switch code {
				case 0:
					outs[i] = outcome{m, "silent", ""}
				case 2:
					if strings.Contains(text, "UNDECIDED") {
						outs[i] = outcome{m, "noisy", "UNDECIDED: " + lastLine(text)}
					} else {
						outs[i] = outcome{m, "skipped", "variant does not type-check: " + lastLine(text)}
					}
				default:
					outs[i] = outcome{m, "noisy", firstViolation(text)}
				}
			default:
				switch {
				case code == 1 && (m.Rule == "" || strings.Contains(text, "rule="+m.Rule)):
					outs[i] = outcome{m, "killed", firstViolation(text)}
				case code == 2:
					outs[i] = outcome{m, "skipped", "variant does not type-check: " + lastLine(text)}
				default:
					outs[i] = outcome{m, "survived", fmt.Sprintf("exit %d %s", code, firstViolation(text))}
				}
			}
		}(i, m)
	}
	wg.Wait()
	for _, o := range outs {
		switch o.status {
		case "killed":
			res.Variants++
			res.Killed++
			if len(res.Samples) < 6 {
				res.Samples = append(res.Samples, o.m.ID+": "+o.detail)
			}
		case "survived":
			if o.m.Expect == "miss" {
				res.Skipped = append(res.Skipped, o.m.ID+": documented limit of the static rules (value-level change), not reported")
				continue
			}
			res.Variants++
			res.Survived = append(res.Survived, o.m.ID)
		case "skipped":
			res.Skipped = append(res.Skipped, o.m.ID+": "+o.detail)
		case "silent":
			res.Equivalent++
			res.Silent++
		case "noisy":
			res.Equivalent++
			res.Noisy = append(res.Noisy, o.m.ID+": "+o.detail)
		}
	}
	return res
}

func firstViolation(text string) string {
	for _, l := range strings.Split(text, "\n") {
		if strings.Contains(l, "violation rule=") {
			l = strings.TrimSpace(l)
			if len(l) > 260 {
				l = l[:260] + "..."
			}
			return l
		}
	}
	return ""
}

func lastLine(text string) string {
	ls := strings.Split(strings.TrimSpace(text), "\n")
	return ls[len(ls)-1]
}

var posFile = regexp.MustCompile(` at ([A-Za-z0-9_./-]+\.go):\d+`)

// relevantFiles runs the property on the unchanged tree and collects the source files its
// obligations point into; a refactoring that touches none of them cannot change the verdict.
func relevantFiles(self, repo, verif, id string) map[string]bool {
	out := map[string]bool{}
	b, _ := exec.Command(self, "-property", id, "-tier", "quick", "-repo", repo, "-verif", verif, "-no-evidence", "-no-selftest", "-v").CombinedOutput()
	for _, m := range posFile.FindAllStringSubmatch(string(b), -1) {
		out[m[1]] = true
	}
	return out
}

func touches(patch string, files map[string]bool) bool {
	if len(files) == 0 {
		return true
	}
	b, err := os.ReadFile(patch)
	if err != nil {
		return true
	}
	for _, m := range diffFile.FindAllStringSubmatch(string(b), -1) {
		if files[m[1]] {
			return true
		}
	}
	return false
}
