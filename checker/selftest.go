package main

type selftestResult struct {
	Variants   int      `json:"variants"`
	Killed     int      `json:"killed"`
	Survived   []string `json:"survived"`
	Skipped    []string `json:"skipped"`
	Equivalent int      `json:"equivalent_variants"`
	Silent     int      `json:"equivalent_silent"`
	Noisy      []string `json:"equivalent_noisy"`
	Samples    []string `json:"samples"`
}

func runSelftest(repo, verif, id string) *selftestResult { return nil }
