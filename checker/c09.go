package main

import (
	"fmt"
	"go/token"
	"sort"
	"strings"

	"golang.org/x/tools/go/ssa"
)

func init() {
	register(&property{
		ID: "C09",
		Explanation: "Byte-exactness of random-access reads for all seek/read histories is a value-level property and is NOT decided. Decided necessary conditions: " +
			"C09.empty-index: in the seekable reader every indexing of Index.Chunks lies behind a comparison of len(Index.Chunks) with 0 on its non-empty edge (empty blob: no panic). " +
			"C09.errors-surface: IndexPos.loadChunk returns GetChunk/Data errors; IndexPos.Read returns a non-nil error whenever loadChunk or Seek failed (also after a partial copy); the FUSE handle answers a non-zero errno for every Seek error and every Read error other than io.EOF. " +
			"C09.handle-lock: the per-handle IndexPos is used only while the handle's mutex is held exclusively across Seek+Read (a shared lock lets two requests interleave on the stateful cursor). " +
			"C09.cursor-consistency: findOffset stores pos, curChunkIdx, curChunkOffset and curChunkID together after the last error return, and a change of the current chunk id invalidates the cached chunk data (store of nil behind the unequal edge); loadChunk serves the null chunk from memory only on the id-equal edge and otherwise stores the data fetched for curChunkID. " +
			"C09.chunks-verified (shared with C03): IndexPos copies whatever the store returns for curChunkID; the verifying constructors and all store back ends are checked as under C03.",
		NotDecided: "correctness of the binary search and of the offset arithmetic, i.e. that the bytes returned are the blob's bytes for every history; FUSE kernel behaviour.",
		Rules: []rule{
			{"C09.chunks-verified", "every chunk a store hands to the reader was verified against the requested id (shared with C03)", 16, func(c *Ctx) { c03CtorVerifies(c); c03Backends(c) }},
			{"C09.seek-boundaries", "chunk lookup and range ends split at the right offsets (partition points of the comparisons in findOffset, Seek and the copy-on-read indexRange)", 9, c09SeekBoundaries},
			{"C09.empty-index", "Index.Chunks is indexed only behind a non-empty check", 2, c09EmptyIndex},
			{"C09.errors-surface", "store and seek errors end a read with an error / EIO", 4, c09ErrorsSurface},
			{"C09.handle-lock", "the FUSE handle's cursor is used only under the exclusive handle lock", 2, c09HandleLock},
			{"C09.cursor-consistency", "cursor fields change together; chunk cache invalidated when the chunk id changes", 4, c09Cursor},
			{"C09.cor-state-needs-size-match", "the copy-on-read variant of the mount trusts a saved state only for a cache file of exactly the indexed size (shared with C10)", 1, c10Truncate},
			{"C09.cat-copy-errors", "cat fails when copying from the seekable reader fails (a store error is never turned into success)", 1, c09CatCopyErrors},
		},
	})
}

func c09EmptyIndex(c *Ctx) {
	nonEmpty := func(iff *ssa.If) (bool, bool) {
		cm, truth, ok := cmpOf(iff.Cond)
		if !ok {
			return false, false
		}
		isLen := func(v ssa.Value) bool {
			return hasOrigin(v, func(o string) bool { return o == "len:field:Index.Chunks" })
		}
		isZero := func(v ssa.Value) bool { k, ok := v.(*ssa.Const); return ok && k.Value != nil && constInt64(k) == 0 }
		var holdsOnOp bool
		switch {
		case (cm.op == token.GTR || cm.op == token.NEQ) && isLen(cm.x) && isZero(cm.y):
			holdsOnOp = true
		case cm.op == token.EQL && isLen(cm.x) && isZero(cm.y):
			holdsOnOp = false
		case cm.op == token.LSS && isZero(cm.x) && isLen(cm.y):
			holdsOnOp = true
		case cm.op == token.LSS && isLen(cm.x): // len < 1
			if k, ok := cm.y.(*ssa.Const); ok && constInt64(k) == 1 {
				holdsOnOp = false
			} else {
				return false, false
			}
		case cm.op == token.GEQ && isLen(cm.x): // len >= 1
			if k, ok := cm.y.(*ssa.Const); ok && constInt64(k) >= 1 {
				holdsOnOp = true
			} else {
				return false, false
			}
		default:
			return false, false
		}
		onTrue := holdsOnOp == truth
		return onTrue, !onTrue
	}
	n := 0
	for _, fn := range c.subjects() {
		k := fnKey(fn)
		if !(strings.HasPrefix(k, "IndexPos.") || k == "NewIndexReadSeeker") {
			continue
		}
		instrs(fn, func(_ *ssa.BasicBlock, _ int, ins ssa.Instruction) {
			ia, ok := ins.(*ssa.IndexAddr)
			if !ok || !hasOrigin(ia.X, func(o string) bool { return o == "field:Index.Chunks" }) {
				return
			}
			// closures of sort.Search index with the search variable: bounded by the search itself
			if fn.Parent() != nil || ia.Parent().Parent() != nil {
				return
			}
			n++
			okG, _ := guarded(fn, ia, nonEmpty)
			c.verdict(okG, fmt.Sprintf("%s:Chunks-index%d", k, n), ia.Pos(), "indexed only behind len(Index.Chunks) != 0",
				"Index.Chunks is indexed without a non-empty check: an index of an empty blob (no chunks) panics with 'index out of range' in cat and in the index mount")
		})
	}
	if n == 0 {
		c.bad("IndexPos:Chunks-indexing", token.NoPos, "the seekable reader no longer indexes Index.Chunks")
	}
	// the copy-on-read file: loadRange indexes the loader's chunk list with what indexRange
	// answers, which is (-1,-1) for an index without chunks and (len,len) for an empty range at
	// the end of the blob - both must have been excluded before
	if fn := c.mustFn("sparseFileLoader.loadRange"); fn != nil {
		isLenChunks := func(v ssa.Value) bool {
			return hasOrigin(v, func(o string) bool { return o == "len:field:sparseFileLoader.chunks" })
		}
		isZero := func(v ssa.Value) bool { k, ok := v.(*ssa.Const); return ok && k.Value != nil && constInt64(k) == 0 }
		isOne := func(v ssa.Value) bool { k, ok := v.(*ssa.Const); return ok && k.Value != nil && constInt64(k) == 1 }
		isLength := func(v ssa.Value) bool { return len(fn.Params) >= 3 && isParam(v, fn.Params[2]) }
		m := 0
		for _, g := range fnsDeep(fn) {
			instrs(g, func(_ *ssa.BasicBlock, _ int, ins ssa.Instruction) {
				ia, ok := ins.(*ssa.IndexAddr)
				if !ok || ins.Parent() != g || !hasOrigin(ia.X, func(o string) bool { return o == "field:sparseFileLoader.chunks" }) {
					return
				}
				m++
				okN, _ := guarded(fn, ia, relAcc(token.NEQ, isLenChunks, isZero))
				okL1, _ := guarded(fn, ia, relAcc(token.GEQ, isLength, isOne))
				okL0, _ := guarded(fn, ia, relAcc(token.GTR, isLength, isZero))
				c.verdict(okN && (okL1 || okL0), fmt.Sprintf("sparseFileLoader.loadRange:chunks-index%d", m), ia.Pos(), "indexed only for a non-empty range of a non-empty chunk list",
					"the loader's chunk list is indexed with the answer of indexRange without having excluded an index without chunks and an empty range: reading the copy-on-read file of an empty blob, or zero bytes at its end, panics with the read lock held")
			})
		}
		if m == 0 {
			c.info("sparseFileLoader.loadRange:chunks-index", fn.Pos(), "loadRange does not index the chunk list itself")
		}
	}
}

func c09ErrorsSurface(c *Ctx) {
	if fn := c.mustFn("IndexPos.loadChunk"); fn != nil {
		sites, bad := errPropagates(c, fn, func(name string, _ *ssa.Call) bool {
			return name == "(desync.Store).GetChunk" || name == "(*desync.Chunk).Data"
		}, errPropOpts{})
		if len(bad) > 0 || sites < 2 {
			c.bad("IndexPos.loadChunk:errors", fn.Pos(), "store errors are not returned by loadChunk (%d sites): %v", sites, bad)
		} else {
			c.ok("IndexPos.loadChunk:errors", fn.Pos(), "%d fallible call site(s); failures are returned", sites)
		}
	}
	if fn := c.mustFn("IndexPos.Read"); fn != nil {
		sites, bad := errPropagates(c, fn, func(name string, _ *ssa.Call) bool {
			return name == "(*desync.IndexPos).loadChunk" || name == "(*desync.IndexPos).Seek"
		}, errPropOpts{maxVisits: 3})
		if len(bad) > 0 || sites < 2 {
			c.bad("IndexPos.Read:errors", fn.Pos(), "a failed chunk load or seek does not end Read with an error (%d sites): %v - callers that read once (the FUSE handle) would answer short or stale data as success", sites, first(bad))
		} else {
			c.ok("IndexPos.Read:errors", fn.Pos(), "%d fallible call site(s); a failure ends Read with a non-nil error on every path", sites)
		}
	}
	if fn := c.mustFn("IndexPos.Seek"); fn != nil {
		sites, bad := errPropagates(c, fn, func(name string, _ *ssa.Call) bool { return name == "(*desync.IndexPos).findOffset" }, errPropOpts{})
		if len(bad) > 0 || sites < 1 {
			c.bad("IndexPos.Seek:errors", fn.Pos(), "findOffset errors are not returned by Seek: %v", first(bad))
		} else {
			c.ok("IndexPos.Seek:errors", fn.Pos(), "findOffset errors are returned")
		}
	}
	c.fuseReadErrnoMulti("indexFileHandle.read", map[string]bool{"(*desync.IndexPos).Seek": false, "(*desync.IndexPos).Read": true})
	c09StoreEOF(c)
}

// c09StoreEOF: io.Reader gives io.EOF a meaning of its own - io.Copy and friends take it for the
// regular end.  A store may fail with a bare io.EOF (RemoteSSH does when the session ends at a
// message boundary), so IndexPos.Read must not hand the store's error through unchanged: on the
// path on which Store.GetChunk failed with io.EOF, the error Read returns is not
// that io.EOF.
func c09StoreEOF(c *Ctx) {
	c.storeEOF("IndexPos.Read", "io.Copy reports success with truncated data", "IndexPos.loadChunk")
}

// storeEOF: the reader entry point key (inner functions inlined) never hands a store's io.EOF on
// as its own error.
func (c *Ctx) storeEOF(key, consequence string, inner ...string) {
	fn := c.mustFn(key)
	if fn == nil {
		return
	}
	inl := map[*ssa.Function]bool{}
	for _, k := range inner {
		f := c.mustFn(k)
		if f == nil {
			return
		}
		inl[f] = true
	}
	var bad []string
	eofPaths := 0
	h := &Hooks{MaxVisits: 2, MaxPaths: 100000}
	h.Inline = func(st *State, call *ssa.Call) (*ssa.Function, bool) {
		if f := c.staticFn(call); f != nil && inl[f] {
			return f, false
		}
		return nil, false
	}
	h.Fork = func(st *State, call *ssa.Call) []map[int]Val {
		switch callee(call) {
		case "(desync.Store).GetChunk":
			return []map[int]Val{
				{0: {N: NNon}, 1: {N: NNil, Class: ClsNil}},
				{1: {N: NNon, Class: ClsOther, Sym: "is:io.EOF"}},
			}
		}
		return nil
	}
	h.Return = func(st *State, ret *ssa.Return, results []Val) {
		if len(results) != 2 {
			return
		}
		failed := false
		for _, v := range st.V {
			if v.Sym == "is:io.EOF" {
				failed = true
			}
		}
		if !failed {
			return
		}
		eofPaths++
		if results[1].Sym == "is:io.EOF" || results[1].N != NNon {
			bad = append(bad, fmt.Sprintf("return at %s yields %s after the store failed with io.EOF (trail %s)", c.pos(ret.Pos()), results[1], strings.Join(st.Trail, ">")))
		}
	}
	Explore(fn, fn.Blocks[0], 0, nil, NewState(), h)
	c.paths += h.Paths
	switch {
	case h.Truncated:
		c.bad(key+":store-eof", fn.Pos(), "path exploration truncated")
	case eofPaths == 0:
		c.bad(key+":store-eof", fn.Pos(), "no path on which a chunk load fails was found")
	case len(bad) > 0:
		c.bad(key+":store-eof", fn.Pos(), "a store that fails with io.EOF ends the read like the end of the blob: %s; %s", bad[0], consequence)
	default:
		c.ok(key+":store-eof", fn.Pos(), "on %d path(s) with a store failure of io.EOF, the read returns another non-nil error", eofPaths)
	}
}

func first(l []string) string {
	if len(l) == 0 {
		return ""
	}
	return l[0]
}

// fuseReadErrnoMulti: every failing call (callee -> whether io.EOF is an accepted outcome) must
// lead to a non-zero errno.
func (c *Ctx) fuseReadErrnoMulti(key string, callees map[string]bool) {
	fn := c.mustFn(key)
	if fn == nil {
		return
	}
	var bad []string
	sites := map[*ssa.Call]bool{}
	h := &Hooks{
		Fork: func(st *State, call *ssa.Call) []map[int]Val {
			name := callee(call)
			eofOK, ok := callees[name]
			if !ok {
				return nil
			}
			sites[call] = true
			ei := errResultIndex(call)
			tag := "strict"
			if eofOK {
				tag = "eofok"
			}
			return []map[int]Val{{ei: {N: NNil, Class: ClsNil}}, {ei: {N: NNon, Class: ClsOther, Sym: tag + ":failed"}}}
		},
		Branch: func(st *State, iff *ssa.If, taken bool) {
			cm, truth, ok := cmpOf(iff.Cond)
			if !ok || (cm.op != token.EQL && cm.op != token.NEQ) {
				return
			}
			isEOF := func(v ssa.Value) bool { return hasOrigin(v, func(o string) bool { return o == "global:EOF" }) }
			if !(isEOF(cm.x) || isEOF(cm.y)) {
				return
			}
			if ((cm.op == token.EQL) == truth) == taken {
				st.Flags["eof"] = 1
			}
		},
		Return: func(st *State, ret *ssa.Return, results []Val) {
			strict := len(outcomeSeq(st, "strict")) > 0
			eofok := len(outcomeSeq(st, "eofok")) > 0
			if !strict && !(eofok && st.Flags["eof"] != 1) {
				return
			}
			for i, r := range ret.Results {
				if typeName(r.Type()) == "syscall.Errno" {
					if results[i].Int == nil || *results[i].Int == 0 {
						bad = append(bad, fmt.Sprintf("a failed seek/read (other than io.EOF) is answered with errno %v at %s", results[i], c.pos(ret.Pos())))
					}
				}
			}
		},
	}
	Explore(fn, fn.Blocks[0], 0, nil, NewState(), h)
	c.paths += h.Paths
	switch {
	case len(sites) < len(callees):
		c.bad(key+":errno", fn.Pos(), "the handler does not call all of %v", callees)
	case len(bad) > 0:
		c.bad(key+":errno", fn.Pos(), "%s", bad[0])
	default:
		c.ok(key+":errno", fn.Pos(), "%d path(s): every failed seek and every failed read other than io.EOF answers a non-zero errno", h.Paths)
	}
}

func c09HandleLock(c *Ctx) {
	c.guardedBy(guardedField{"indexFileHandle", "r", "mu", "per-handle cursor"}, nil)
	c.lockPairing("indexFileHandle")
	c.ownedCursor("indexFileHandle", "r", "desync.NewIndexReadSeeker")
	fn := c.mustFn("indexFileHandle.read")
	if fn == nil {
		return
	}
	n := 0
	for _, call := range calls(fn, suffixed("IndexPos).Seek", "IndexPos).Read")) {
		n++
		held := heldAt(call.(ssa.Instruction), 0)
		c.verdict(holds(held, ".mu", true), "indexFileHandle.read:"+callee(call), call.Pos(), "called with the handle mutex held exclusively",
			fmt.Sprintf("the stateful cursor is used without the handle mutex held exclusively (held: %s): two FUSE requests on one handle interleave Seek and Read and return each other's bytes", held))
	}
	if n < 2 {
		c.bad("indexFileHandle.read:cursor-calls", fn.Pos(), "read does not Seek and Read on the handle's cursor")
	}
	// Seek and Read happen in one critical section: no unlock between them
	var seek, read ssa.Instruction
	for _, call := range calls(fn, suffixed("IndexPos).Seek")) {
		seek = call.(ssa.Instruction)
	}
	for _, call := range calls(fn, suffixed("IndexPos).Read")) {
		read = call.(ssa.Instruction)
	}
	if seek != nil && read != nil {
		okA := true
		instrs(fn, func(_ *ssa.BasicBlock, _ int, ins ssa.Instruction) {
			if ci, ok := ins.(*ssa.Call); ok {
				if op, ok := lockOpOf(ci); ok && !op.acquire && reachesInstr(seek, ins) && reachesInstr(ins, read) {
					okA = false
				}
			}
		})
		c.verdict(okA, "indexFileHandle.read:one-critical-section", seek.Pos(), "Seek and Read share one critical section", "the mutex is released between Seek and Read")
	}
}

// ownedCursor: the lock that serialises a cursor lives in the handle, so the cursor must belong to
// that handle alone - every value stored into <handle>.<field> is the result of a constructor call
// made for this handle (directly, or handed in through parameters by callers that make the call
// per invocation).  A cursor kept in the inode and shared by all handles is driven under several
// different mutexes at once.
func (c *Ctx) ownedCursor(typ, field string, ctors ...string) {
	n := 0
	isCtor := func(name string) bool {
		for _, k := range ctors {
			if name == k {
				return true
			}
		}
		return false
	}
	var fresh func(v ssa.Value, depth int) (bool, string)
	fresh = func(v ssa.Value, depth int) (bool, string) {
		if depth > 5 {
			return false, "too deep"
		}
		for _, l := range leaves(v) {
			if call, _ := callOf(l); call != nil && isCtor(callee(call)) {
				continue
			}
			if _, isAlloc := l.(*ssa.Alloc); isAlloc {
				continue // a cursor literal built here
			}
			p, isParam := l.(*ssa.Parameter)
			if !isParam {
				return false, fmt.Sprintf("%s (%T)", strings.Join(origins(l), ","), l)
			}
			g := p.Parent()
			idx := -1
			for i, q := range g.Params {
				if q == p {
					idx = i
				}
			}
			sites := 0
			for _, caller := range c.subjects() {
				for _, cs := range calls(caller, func(string) bool { return true }) {
					if c.staticFn(cs) != g || idx >= len(cs.Common().Args) {
						continue
					}
					sites++
					if ok, why := fresh(cs.Common().Args[idx], depth+1); !ok {
						return false, why
					}
				}
			}
			if sites == 0 {
				return false, "parameter of a function without visible call sites"
			}
		}
		return true, ""
	}
	for _, fn := range c.subjects() {
		instrs(fn, func(_ *ssa.BasicBlock, _ int, ins ssa.Instruction) {
			st, ok := ins.(*ssa.Store)
			if !ok {
				return
			}
			fa, ok := st.Addr.(*ssa.FieldAddr)
			if !ok || fieldOf(fa) != typ+"."+field {
				return
			}
			n++
			ok2, why := fresh(st.Val, 0)
			c.verdict(ok2, fnKey(fn)+":"+typ+"."+field+"-fresh", ins.Pos(), "the handle's cursor is created for this handle",
				"the cursor stored in the handle is not created for it ("+why+"): handles that share one cursor drive it under different mutexes, concurrent reads on two handles return each other's bytes")
		})
	}
	if n == 0 {
		c.bad(typ+"."+field+"-fresh", 0, "no construction of %s.%s found", typ, field)
	}
}

func c09Cursor(c *Ctx) {
	fn := c.mustFn("IndexPos.findOffset")
	if fn == nil {
		return
	}
	// the final update: stores to pos, curChunkIdx, curChunkOffset, curChunkID in one block, no
	// error return after them
	blocks := map[string]*ssa.BasicBlock{}
	var idStore *ssa.Store
	instrs(fn, func(b *ssa.BasicBlock, _ int, ins ssa.Instruction) {
		st, ok := ins.(*ssa.Store)
		if !ok {
			return
		}
		fa, ok := st.Addr.(*ssa.FieldAddr)
		if !ok {
			return
		}
		f := fieldOf(fa)
		switch f {
		case "IndexPos.curChunkIdx", "IndexPos.curChunkID":
			blocks[f] = b
			if f == "IndexPos.curChunkID" {
				idStore = st
			}
		case "IndexPos.pos", "IndexPos.curChunkOffset":
			// these are also updated by the in-chunk fast path; remember the block that also sets the id
			if blocks[f] == nil || b == blocks["IndexPos.curChunkID"] {
				blocks[f] = b
			}
		}
	})
	if idStore == nil {
		c.bad("IndexPos.findOffset:update", fn.Pos(), "findOffset never updates the current chunk id")
		return
	}
	ub := idStore.Block()
	together := true
	for _, f := range []string{"IndexPos.pos", "IndexPos.curChunkIdx", "IndexPos.curChunkOffset"} {
		found := false
		for _, ins := range ub.Instrs {
			if st, ok := ins.(*ssa.Store); ok {
				if fa, ok := st.Addr.(*ssa.FieldAddr); ok && fieldOf(fa) == f {
					found = true
				}
			}
		}
		if !found {
			together = false
		}
	}
	c.verdict(together, "IndexPos.findOffset:update-together", idStore.Pos(), "pos, curChunkIdx, curChunkOffset and curChunkID are stored in one straight-line block", "the cursor fields are not updated together: an error or branch between them leaves position and chunk out of step")
	// the values: idx/id/offset of the same found chunk
	// cache invalidation: the id store is reachable only via the id-equal edge or via the block storing nil to curChunk
	eq := edgesWhere(fn, func(iff *ssa.If) (bool, bool) {
		eqOnTrue, ok := equalEdge(iff, originHas("field:IndexChunk.ID"), originHas("field:IndexPos.curChunkID"))
		if !ok {
			return false, false
		}
		return eqOnTrue, !eqOnTrue
	})
	var nilStoreBlocks []*ssa.BasicBlock
	instrs(fn, func(b *ssa.BasicBlock, _ int, ins ssa.Instruction) {
		if st, ok := ins.(*ssa.Store); ok {
			if fa, ok := st.Addr.(*ssa.FieldAddr); ok && fieldOf(fa) == "IndexPos.curChunk" && isNilConst(st.Val) {
				nilStoreBlocks = append(nilStoreBlocks, b)
			}
		}
	})
	removed := map[edge]bool{}
	for e := range eq {
		removed[e] = true
	}
	for _, b := range nilStoreBlocks {
		for _, s := range b.Succs {
			removed[edge{b, s}] = true
		}
	}
	c.verdict(len(eq) > 0 && len(nilStoreBlocks) > 0 && !reachable(fn, removed)[ub], "IndexPos.findOffset:cache-invalidation", idStore.Pos(),
		"the chunk id changes only with the cached data dropped (or the id being equal)", "the current chunk id can change while the cached chunk data is kept: the next read serves the previous chunk's bytes")
	// loadChunk: null shortcut only on the id-equal edge; otherwise data of GetChunk(curChunkID)
	c09LoadChunk(c)
}

// c09LoadChunk (path rule, new helpers explored in place): whenever loadChunk stores the chunk
// cache, the stored bytes are either the null chunk's data on a path that found the current id
// equal to the null chunk's id, or Data() of a chunk fetched with GetChunk(current id); and a nil
// return has stored something.
func c09LoadChunk(c *Ctx) {
	lc := c.mustFn("IndexPos.loadChunk")
	if lc == nil {
		return
	}
	isCur := func(st *State, v ssa.Value) bool {
		return hasOrigin(st.ArgOf(v), func(o string) bool { return o == "field:IndexPos.curChunkID" })
	}
	var bad []string
	stores, nilPaths := 0, 0
	h := &Hooks{MaxVisits: 2}
	h.Fork = func(st *State, call *ssa.Call) []map[int]Val {
		switch callee(call) {
		case "(desync.Store).GetChunk":
			lbl := "chunk:other"
			if isCur(st, call.Call.Args[0]) {
				lbl = "chunk:cur"
			}
			return []map[int]Val{{0: {N: NNon, Sym: lbl}, 1: {N: NNil, Class: ClsNil}}, {0: {N: NNil}, 1: {N: NNon, Class: ClsOther}}}
		case "(*desync.Chunk).Data":
			lbl := "data:other"
			if st.Eval(call.Call.Args[0]).Sym == "chunk:cur" {
				lbl = "data:cur"
			}
			return []map[int]Val{{0: {N: NNon, Sym: lbl}, 1: {N: NNil, Class: ClsNil}}, {1: {N: NNon, Class: ClsOther}}}
		}
		return nil
	}
	h.Branch = func(st *State, iff *ssa.If, taken bool) {
		cm, truth, ok := cmpOf(iff.Cond)
		if !ok || (cm.op != token.EQL && cm.op != token.NEQ) {
			return
		}
		isNullID := originHas("field:NullChunk.ID")
		if (isCur(st, cm.x) && isNullID(st.ArgOf(cm.y))) || (isCur(st, cm.y) && isNullID(st.ArgOf(cm.x))) {
			if ((cm.op == token.EQL) == truth) == taken {
				st.Flags["null-id"] = 1
			}
		}
	}
	h.Instr = func(st *State, ins ssa.Instruction) {
		if u, ok := ins.(*ssa.UnOp); ok && u.Op == token.MUL && hasOrigin(u, func(o string) bool { return o == "field:NullChunk.Data" }) {
			if _, isFA := u.X.(*ssa.FieldAddr); isFA {
				st.V[u] = Val{N: NNon, Sym: "data:null"}
			}
		}
		sto, ok := ins.(*ssa.Store)
		if !ok {
			return
		}
		fa, ok := st.Resolve(sto.Addr).(*ssa.FieldAddr)
		if !ok || fieldOf(fa) != "IndexPos.curChunk" {
			return
		}
		stores++
		st.Flags["stored"] = 1
		v := st.Eval(sto.Val)
		if v.Sym == "" && hasOrigin(st.ArgOf(sto.Val), func(o string) bool { return o == "field:NullChunk.Data" }) {
			v.Sym = "data:null"
		}
		switch v.Sym {
		case "data:cur":
		case "data:null":
			if st.Flags["null-id"] != 1 {
				bad = append(bad, fmt.Sprintf("the null-chunk shortcut at %s is taken although the current chunk id was not found equal to the null chunk's id", c.pos(ins.Pos())))
			}
		default:
			bad = append(bad, fmt.Sprintf("the chunk cache is filled at %s with something that is neither Data() of GetChunk(current id) nor the null chunk's data (%s)", c.pos(ins.Pos()), v))
		}
	}
	h.Return = func(st *State, ret *ssa.Return, results []Val) {
		if len(results) == 1 && results[0].N == NNil {
			nilPaths++
			if st.Flags["stored"] != 1 {
				bad = append(bad, fmt.Sprintf("loadChunk returns nil at %s without having stored chunk data", c.pos(ret.Pos())))
			}
		}
	}
	Explore(lc, lc.Blocks[0], 0, nil, NewState(), h)
	c.paths += h.Paths
	switch {
	case len(bad) > 0:
		c.bad("IndexPos.loadChunk:cache-fill", lc.Pos(), "%s", bad[0])
	case stores < 2 || nilPaths < 2:
		c.bad("IndexPos.loadChunk:stores", lc.Pos(), "loadChunk does not store the chunk data (null shortcut and fetched data expected; %d store(s) on %d success path(s))", stores, nilPaths)
	default:
		c.ok("IndexPos.loadChunk:cache-fill", lc.Pos(), "%d success path(s): the cache holds Data() of GetChunk(current id), or the null chunk's data behind id == null id", nilPaths)
	}
}

// c09SeekBoundaries (E-BOUND): the comparisons that decide which chunk holds a position.
func c09SeekBoundaries(c *Ctx) {
	c.dumpPartitions()
	if fn := c.mustFn("IndexPos.findOffset"); fn != nil {
		c.boundaryRule("IndexPos.findOffset", withClosures(fn), []boundarySpec{
			{"within-current-lower", map[string]int{"IndexPos.curChunkOffset": 1, "IndexPos.pos": -1, "param#1": 1}, -1, 1, "the new position is before the current chunk iff curChunkOffset+delta < 0"},
			{"within-current-upper", map[string]int{"IndexPos.curChunkOffset": 1, "IndexPos.pos": -1, "[i]IndexChunk.Size": -1, "param#1": 1}, -1, 1, "the new position is inside the current chunk iff curChunkOffset+delta < Size"},
			{"bisect", map[string]int{"[i]IndexChunk.Size": 1, "[i]IndexChunk.Start": 1, "param#1": -1}, 0, 1, "chunk i is the first whose end lies beyond the position: newPos < Start+Size"},
			{"before-found-chunk", map[string]int{"IndexChunk.Start": 1, "param#1": -1}, 0, 1, "error iff newPos < Start of the chunk found"},
			{"after-found-chunk", map[string]int{"IndexChunk.Size": 1, "IndexChunk.Start": 1, "param#1": -1}, -1, 1, "error iff newPos > Start+Size of the chunk found (the end position itself is legal: EOF)"},
		})
	}
	if fn := c.mustFn("IndexPos.Seek"); fn != nil {
		// newPos is whatever Seek hands to findOffset; it must be offset, pos+offset or Length+offset
		// (by whence), be rejected iff < 0 and answer EOF iff > Length - however it is put together
		var newPos ssa.Value
		for _, call := range calls(fn, suffixed("IndexPos).findOffset")) {
			a := call.Common().Args
			newPos = a[len(a)-1]
		}
		if newPos == nil {
			c.bad("IndexPos.Seek:newPos", fn.Pos(), "Seek does not call findOffset")
		} else {
			forms := map[string]bool{}
			for _, f := range altForms(newPos, 0) {
				forms[f.String()] = true
			}
			want := []string{"[1*param#1]+0", "[1*IndexPos.pos 1*param#1]+0", "[1*IndexPos.Length 1*param#1]+0"}
			okW := true
			for _, w := range want {
				if !forms[w] {
					okW = false
				}
			}
			var got []string
			for f := range forms {
				got = append(got, f)
			}
			sort.Strings(got)
			c.verdict(okW, "IndexPos.Seek:whence", fn.Pos(), "newPos = offset | pos+offset | Length+offset", fmt.Sprintf("the new position is not offset, pos+offset or Length+offset by whence (forms %v)", got))
			lf := linearB(newPos, 0)
			sameAs := func(atoms map[string]int, want map[string]int) int {
				if len(atoms) != len(want) {
					return 0
				}
				pos, neg := true, true
				for a, n := range want {
					if atoms[a] != n {
						pos = false
					}
					if atoms[a] != -n {
						neg = false
					}
				}
				switch {
				case pos:
					return 1
				case neg:
					return -1
				}
				return 0
			}
			vAtoms := map[string]int{}
			for a, n := range lf.atoms {
				if n != 0 {
					vAtoms[a] = n
				}
			}
			// the test may sit in a helper that computes the position: there it is written in terms
			// of the helper's own expression for the value it returns
			cands := []map[string]int{vAtoms}
			if ex, isEx := newPos.(*ssa.Extract); isEx {
				if call, isCall := ex.Tuple.(*ssa.Call); isCall {
					if h := call.Call.StaticCallee(); h != nil && newHelpers[h] {
						for _, r := range returnsOf(h) {
							if ex.Index >= len(r.Results) {
								continue
							}
							rv := unspill(r, r.Results[ex.Index])
							if _, isConst := rv.(*ssa.Const); isConst {
								continue
							}
							if l := linearB(rv, 0); l.k == lf.k {
								at := map[string]int{}
								for a, n := range l.atoms {
									if n != 0 {
										at[a] = n
									}
								}
								cands = append(cands, at)
							}
						}
					}
				}
			}
			c.boundaryRuleFn("IndexPos.Seek", "negative", withClosures(fn), func(atoms map[string]int) int {
				for _, cand := range cands {
					if s := sameAs(atoms, cand); s != 0 {
						return s
					}
				}
				return 0
			}, -1-lf.k, 1, "newPos is rejected iff < 0")
			lenMinus := map[string]int{"IndexPos.Length": 1}
			for a, n := range vAtoms {
				lenMinus[a] -= n
			}
			for a, n := range lenMinus {
				if n == 0 {
					delete(lenMinus, a)
				}
			}
			c.boundaryRuleFn("IndexPos.Seek", "past-end", withClosures(fn), func(atoms map[string]int) int { return sameAs(atoms, lenMinus) }, -1+lf.k, 1, "EOF iff newPos > Length")
		}
	}
	c10RangeBoundaries(c)
}

// c09CatCopyErrors: every error io.Copy / io.CopyN hand back in runCat makes the command fail.
// Store errors arrive there wrapped by the router; an "it is only EOF" exemption written with
// errors.Is would unwrap a dropped ssh session's io.EOF and report truncated output as success.
func c09CatCopyErrors(c *Ctx) {
	fn := c.mustFn("cmd.runCat")
	if fn == nil {
		return
	}
	sites, bad := errPropagates(c, fn, func(name string, _ *ssa.Call) bool { return name == "io.Copy" || name == "io.CopyN" }, errPropOpts{})
	switch {
	case sites == 0:
		c.bad("cmd.runCat:copy-errors", fn.Pos(), "runCat does not copy with io.Copy/io.CopyN")
	case len(bad) > 0:
		c.bad("cmd.runCat:copy-errors", fn.Pos(), "%s", bad[0])
	default:
		c.ok("cmd.runCat:copy-errors", fn.Pos(), "%d copy call(s); a failed copy makes the command fail on every path", sites)
	}
}
