package main

// Names the rules were written against.  known.json is generated from the tree the rules were
// confirmed on (desynclint -dump-known) and embedded.  It serves three purposes:
//
//   - a function, unexported struct field or constant that was merely RENAMED is recognised by its
//     shape (receiver and signature; position and type in its struct; value) and keeps its known
//     name inside the checker, so a rename is not reported as a lost or broken mechanism;
//   - a function that does not exist in the table is a NEW HELPER (extracted by a refactoring): the
//     engines look through calls to it as if it were inlined, and it is not a subject of its own;
//   - when the table and the program disagree in any other way the rules see the program as it is.

import (
	_ "embed"
	"encoding/json"
	"fmt"
	"go/token"
	"go/types"
	"os"
	"sort"
	"strings"

	"golang.org/x/tools/go/ssa"
)

//go:embed known.json
var knownJSON []byte

type knownTable struct {
	Funcs    map[string]string      `json:"funcs"`    // fnKey -> signature (types only)
	Fields   map[string][][2]string `json:"fields"`   // "pkg.Struct" -> [[name, type], ...]
	Consts   map[string]string      `json:"consts"`   // "pkg.Name" -> exact value
	Callee   map[string]string      `json:"callee"`   // fnKey -> the name callee() gives calls of it
	Closures map[string][]string    `json:"closures"` // top-level fnKey -> signatures of its (nested) closures
}

var known knownTable

// fieldAlias: "Struct.actualName" -> "Struct.knownName"
var fieldAlias = map[string]string{}

// newHelpers: top-level functions that are not in the known table (after renames were resolved).
var newHelpers = map[*ssa.Function]bool{}

func sigKey(sig *types.Signature) string {
	var b strings.Builder
	tuple := func(t *types.Tuple) {
		b.WriteString("(")
		for i := 0; i < t.Len(); i++ {
			if i > 0 {
				b.WriteString(",")
			}
			b.WriteString(types.TypeString(t.At(i).Type(), nil))
		}
		b.WriteString(")")
	}
	tuple(sig.Params())
	if sig.Variadic() {
		b.WriteString("...")
	}
	tuple(sig.Results())
	return b.String()
}

func recvOf(key string) string {
	if i := strings.LastIndex(key, "."); i >= 0 {
		return key[:i]
	}
	return ""
}

func (c *Ctx) structTypes() map[string]*types.Struct {
	out := map[string]*types.Struct{}
	for prefix, pkg := range map[string]*types.Package{"": c.Lib.Types, "cmd.": c.Cmd.Types} {
		sc := pkg.Scope()
		for _, n := range sc.Names() {
			tn, ok := sc.Lookup(n).(*types.TypeName)
			if !ok {
				continue
			}
			if st, ok := tn.Type().Underlying().(*types.Struct); ok {
				out[prefix+n] = st
			}
		}
	}
	return out
}

func (c *Ctx) dumpKnown(path string) error {
	k := knownTable{Funcs: map[string]string{}, Fields: map[string][][2]string{}, Consts: map[string]string{}, Callee: map[string]string{}, Closures: map[string][]string{}}
	for _, f := range c.Funcs {
		if f.Parent() != nil {
			top := fnKey(topOf(f))
			k.Closures[top] = append(k.Closures[top], sigKey(f.Signature))
		}
	}
	for top := range k.Closures {
		sort.Strings(k.Closures[top])
	}
	for _, f := range c.Funcs {
		if f.Parent() == nil {
			k.Funcs[fnKey(f)] = sigKey(f.Signature)
			if o := f.Object(); o != nil {
				k.Callee[fnKey(f)] = short(o.(*types.Func).FullName())
			}
		}
	}
	for name, st := range c.structTypes() {
		var fs [][2]string
		for i := 0; i < st.NumFields(); i++ {
			fs = append(fs, [2]string{st.Field(i).Name(), types.TypeString(st.Field(i).Type(), nil)})
		}
		k.Fields[name] = fs
	}
	for prefix, pkg := range map[string]*types.Package{"": c.Lib.Types, "cmd.": c.Cmd.Types} {
		sc := pkg.Scope()
		for _, n := range sc.Names() {
			if o, ok := sc.Lookup(n).(*types.Const); ok {
				k.Consts[prefix+n] = o.Val().ExactString()
			}
		}
	}
	b, err := json.MarshalIndent(k, "", " ")
	if err != nil {
		return err
	}
	return os.WriteFile(path, b, 0644)
}

// resolveKnown maps renamed functions and fields to their known names and marks new helpers.
func (c *Ctx) resolveKnown() {
	if len(knownJSON) > 2 && known.Funcs == nil {
		if err := json.Unmarshal(knownJSON, &known); err != nil {
			fmt.Fprintln(os.Stderr, "known.json:", err)
		}
	}
	if known.Funcs == nil {
		return
	}
	// ---- functions
	present := map[string]*ssa.Function{}
	var fresh []*ssa.Function // in the program, not in the table
	for _, f := range c.Funcs {
		if f.Parent() != nil {
			continue
		}
		k := fnKey(f)
		present[k] = f
		if _, ok := known.Funcs[k]; !ok {
			fresh = append(fresh, f)
		}
	}
	var missing []string
	for k := range known.Funcs {
		if present[k] == nil {
			missing = append(missing, k)
		}
	}
	sort.Strings(missing)
	used := map[*ssa.Function]bool{}
	for _, k := range missing {
		var cands []*ssa.Function
		for _, f := range fresh {
			if used[f] || recvOf(fnKey(f)) != recvOf(k) || sigKey(f.Signature) != known.Funcs[k] {
				continue
			}
			cands = append(cands, f)
		}
		// several missing functions of one receiver with the same signature: pair them only when unambiguous
		if len(cands) == 1 {
			same := 0
			for _, k2 := range missing {
				if recvOf(k2) == recvOf(k) && known.Funcs[k2] == known.Funcs[k] {
					same++
				}
			}
			if same == 1 {
				f := cands[0]
				used[f] = true
				name := k
				if i := strings.LastIndex(k, "."); i >= 0 && f.Signature.Recv() == nil {
					name = k
				}
				funcAlias[f] = strings.TrimPrefix(name, "")
				c.byKey[k] = f
			}
		}
	}
	for _, f := range fresh {
		if !used[f] && funcAlias[f] == "" {
			newHelpers[f] = true
		}
	}
	// local closures that did not exist (by signature) in their function and are called directly
	// ("fetch := func(c IndexChunk) ([]byte, error) {...}; b, err := fetch(job.chunk)") are helpers too
	if known.Closures != nil {
		budget := map[string]map[string]int{}
		for top, sigs := range known.Closures {
			budget[top] = map[string]int{}
			for _, sg := range sigs {
				budget[top][sg]++
			}
		}
		called := map[*ssa.Function]bool{}
		for _, f := range c.Funcs {
			for _, b := range f.Blocks {
				for _, ins := range b.Instrs {
					if call, ok := ins.(*ssa.Call); ok {
						if g := directCallee(call); g != nil && g.Parent() != nil {
							called[g] = true
						}
					}
				}
			}
		}
		for _, f := range c.Funcs {
			if f.Parent() == nil || isNewHelper(f) {
				continue
			}
			top := fnKey(topOf(f))
			sg := sigKey(f.Signature)
			if budget[top][sg] > 0 {
				budget[top][sg]--
				continue
			}
			if called[f] {
				newHelpers[f] = true
			}
		}
	}
	// closures of aliased functions get their keys recomputed
	for _, f := range c.Funcs {
		c.byKey[fnKey(f)] = f
	}
	c.indexHelperSites()
	// ---- fields: same number of fields with the same types at the same positions
	c.indexFieldGroups(c.structTypes())
	for name, st := range c.structTypes() {
		kf, ok := known.Fields[name]
		if !ok || len(kf) != st.NumFields() {
			continue
		}
		okTypes := true
		for i := range kf {
			if types.TypeString(st.Field(i).Type(), nil) != kf[i][1] {
				okTypes = false
			}
		}
		if !okTypes {
			continue
		}
		short := strings.TrimPrefix(name, "cmd.")
		for i := range kf {
			if st.Field(i).Name() != kf[i][0] {
				fieldAlias[short+"."+st.Field(i).Name()] = short + "." + kf[i][0]
			}
		}
	}
}

// fieldGroups: "Struct.groupField" -> the known fields of Struct that a refactoring moved into
// a new nested struct type held in groupField ("request.outcome" -> request.data, request.err).
// The members of the nested type are aliased to the known names, so that rules keep seeing
// "request.data" whether the field lives in the struct itself or one level down.
var fieldGroups = map[string][]string{}

func (c *Ctx) indexFieldGroups(structs map[string]*types.Struct) {
	for name, st := range structs {
		kf, ok := known.Fields[name]
		if !ok {
			continue
		}
		short := strings.TrimPrefix(name, "cmd.")
		prefix := strings.TrimSuffix(name, short)
		have := map[string]bool{}
		for i := 0; i < st.NumFields(); i++ {
			have[st.Field(i).Name()] = true
		}
		gone := map[string]string{} // known field no longer present directly -> its type
		for _, f := range kf {
			if !have[f[0]] {
				gone[f[0]] = f[1]
			}
		}
		if len(gone) == 0 {
			continue
		}
		for i := 0; i < st.NumFields(); i++ {
			nt, isNamed := st.Field(i).Type().(*types.Named)
			if !isNamed {
				continue
			}
			inner, isStruct := nt.Underlying().(*types.Struct)
			if !isStruct || inner.NumFields() == 0 {
				continue
			}
			if _, wasKnown := known.Fields[prefix+nt.Obj().Name()]; wasKnown {
				continue
			}
			all := true
			var members []string
			for j := 0; j < inner.NumFields(); j++ {
				f := inner.Field(j)
				if t, moved := gone[f.Name()]; !moved || t != types.TypeString(f.Type(), nil) {
					all = false
				}
				members = append(members, short+"."+f.Name())
			}
			if !all {
				continue
			}
			for j := 0; j < inner.NumFields(); j++ {
				fieldAlias[nt.Obj().Name()+"."+inner.Field(j).Name()] = short + "." + inner.Field(j).Name()
			}
			fieldGroups[short+"."+st.Field(i).Name()] = members
		}
	}
}

// helperSites: call sites of each new helper.
var helperSites = map[*ssa.Function][]ssa.CallInstruction{}

func (c *Ctx) indexHelperSites() {
	if len(newHelpers) == 0 {
		return
	}
	for _, f := range c.Funcs {
		for _, b := range f.Blocks {
			for _, ins := range b.Instrs {
				if ci, ok := ins.(ssa.CallInstruction); ok {
					if h := directCallee(ci); h != nil && newHelpers[h] {
						helperSites[h] = append(helperSites[h], ci)
					}
				}
			}
		}
	}
}

// boundArgs returns, for a parameter of a new helper, the values passed for it at the helper's
// call sites (nil for parameters of other functions): analyses substitute them for the parameter.
func boundArgs(p *ssa.Parameter) []ssa.Value {
	fn := p.Parent()
	if fn == nil || !newHelpers[fn] {
		return nil
	}
	idx := -1
	for i, q := range fn.Params {
		if q == p {
			idx = i
		}
	}
	var out, scoped []ssa.Value
	for _, cs := range helperSites[fn] {
		if a := cs.Common().Args; idx >= 0 && idx < len(a) {
			out = append(out, a[idx])
			if boundScope != nil && boundScope[topOf(cs.Parent())] {
				scoped = append(scoped, a[idx])
			}
		}
	}
	// a helper shared by several functions: while one of them is being analysed only its own call
	// sites bind the helper's parameters (call-site sensitivity by scope)
	if len(scoped) > 0 {
		return scoped
	}
	return out
}

// boundScope: the top-level functions that belong to the function under analysis (itself and the
// new helpers it reaches).  Set by Ctx.scope / Ctx.mustFn.
var boundScope map[*ssa.Function]bool

func topOf(f *ssa.Function) *ssa.Function {
	for f != nil && f.Parent() != nil {
		f = f.Parent()
	}
	return f
}

// scope makes fn the function under analysis for the binding of shared helpers' parameters.
func (c *Ctx) scope(fn *ssa.Function) {
	if fn == nil || len(newHelpers) == 0 {
		boundScope = nil
		return
	}
	boundScope = map[*ssa.Function]bool{}
	for _, g := range fnsDeep(topOf(fn)) {
		boundScope[g] = true
	}
	// closures of the root may call helpers as well
	for _, cl := range closures(topOf(fn)) {
		for _, g := range fnsDeep(cl) {
			boundScope[topOf(g)] = true
		}
	}
}

// helperResults returns, for a call of a new helper, the values the helper returns at result
// position idx (nil if the callee is not a new helper).
func helperResults(call ssa.CallInstruction, idx int) []ssa.Value {
	h := directCallee(call)
	if h == nil && !call.Common().IsInvoke() {
		// a call of a function-typed parameter of a new helper: the results of the closures passed in
		if p, ok := call.Common().Value.(*ssa.Parameter); ok {
			var out []ssa.Value
			for _, a := range boundArgs(p) {
				var f *ssa.Function
				switch x := a.(type) {
				case *ssa.MakeClosure:
					f, _ = x.Fn.(*ssa.Function)
				case *ssa.Function:
					f = x
				}
				if f == nil || f.Blocks == nil {
					return nil
				}
				for _, b := range f.Blocks {
					if r, ok := b.Instrs[len(b.Instrs)-1].(*ssa.Return); ok && idx < len(r.Results) {
						out = append(out, unspill(r, r.Results[idx]))
					}
				}
			}
			return out
		}
		return nil
	}
	if h == nil || !newHelpers[h] || h.Blocks == nil {
		return nil
	}
	var out []ssa.Value
	for _, b := range h.Blocks {
		if r, ok := b.Instrs[len(b.Instrs)-1].(*ssa.Return); ok && idx < len(r.Results) {
			out = append(out, unspill(r, r.Results[idx]))
		}
	}
	return out
}

// isNewHelper reports whether f (or the function it is nested in) was introduced after the rules
// were written.
func isNewHelper(f *ssa.Function) bool {
	for f != nil {
		if newHelpers[f] {
			return true
		}
		f = f.Parent()
	}
	return false
}

// subjects are the functions rules iterate over: everything except new helpers (those are seen
// through their callers).
func (c *Ctx) subjects() []*ssa.Function {
	if len(newHelpers) == 0 {
		return c.Funcs
	}
	var out []*ssa.Function
	for _, f := range c.Funcs {
		if !isNewHelper(f) {
			out = append(out, f)
		}
	}
	return out
}

// knownConst returns the value a constant had under its known name (for renamed constants).
func knownConst(name string) (string, bool) {
	v, ok := known.Consts[name]
	return v, ok
}

// directCallee: the function a call runs when that is statically evident - a static callee, or
// a function variable with exactly one definition ("fetch := func(...) {...}", also when a
// closure captured the variable).
func directCallee(call ssa.CallInstruction) *ssa.Function {
	cc := call.Common()
	if f := cc.StaticCallee(); f != nil {
		return f
	}
	if cc.IsInvoke() {
		return nil
	}
	v := cc.Value
	for d := 0; d < 6; d++ {
		switch x := v.(type) {
		case *ssa.MakeClosure:
			f, _ := x.Fn.(*ssa.Function)
			return f
		case *ssa.Function:
			return x
		case *ssa.ChangeType:
			v = x.X
		case *ssa.UnOp:
			if x.Op != token.MUL {
				return nil
			}
			var cell *ssa.Alloc
			switch a := x.X.(type) {
			case *ssa.Alloc:
				cell = a
			case *ssa.FreeVar:
				if cs := captured(a); len(cs) == 1 {
					cell, _ = cs[0].(*ssa.Alloc)
				}
			}
			if cell == nil {
				return nil
			}
			sts := storesTo(cell)
			if len(sts) != 1 {
				return nil
			}
			v = sts[0].Val
		case *ssa.FreeVar:
			cs := captured(x)
			if len(cs) != 1 {
				return nil
			}
			v = cs[0]
		default:
			return nil
		}
	}
	return nil
}
