package main

import (
	"fmt"
	"go/constant"
	"go/token"
	"go/types"
	"strings"

	"golang.org/x/tools/go/ssa"
)

func init() {
	register(&property{
		ID: "C18",
		Explanation: "C18.name-sanitised: every use of the decoded FormatFilename.Name in ArchiveDecoder.Next (flowing into the entry name and the current directory) lies behind the accepting edge of a name validator - a boolean function of the name that rejects '..' and names containing '/' (cut-set over the CFG; uses that only build the rejection message excepted). " +
			"C18.node-paths: the Name of every Node* value is path.Join(a.dir, name) or a.dir, and a.dir is only ever path.Join(a.dir, <validated name>), filepath.Dir(a.dir) or the initial '.'. C18.sole-constructor: Node* values are built only in ArchiveDecoder.Next, so UnTar, UnTarIndex and mtree share the guard. " +
			"C18.join-root: in LocalFS every path handed to a creating/modifying call is filepath.Join(fs.Root, n.Name) of the node being created. C18.lstat-dir: CreateDir decides 'already there' with os.Lstat (never following a symlink) and fails when the existing object is not a directory, before Mkdir and before any permission/ownership/time call.",
		NotDecided: "races with other processes, symlinks that exist in the destination before unpacking starts, what the OS does for path components.",
		Rules: []rule{
			{"C18.name-sanitised", "decoded entry names are used only behind a validator rejecting '..' and '/'", 1, c18NameSanitised},
			{"C18.node-paths", "node names derive from the tracked directory joined with the validated name", 5, c18NodePaths},
			{"C18.sole-constructor", "Node* values are built only by ArchiveDecoder.Next", 4, c18SoleConstructor},
			{"C18.join-root", "LocalFS touches only filepath.Join(fs.Root, n.Name)", 15, c18JoinRoot},
			{"C18.lstat-dir", "CreateDir refuses an existing non-directory (lstat) before doing anything", 2, c18LstatDir},
			{"C18.unlink-before-create", "files, symlinks and devices are created only after what was under the name has been removed; a removal that failed ends the creation", 3, c18UnlinkBeforeCreate},
			{"C18.single-root", "only the first entry of an archive may come without a filename", 1, c18SingleRoot},
			{"C18.symlink-nofollow", "a symlink entry's metadata is applied to the link, never through it", 2, c18SymlinkNoFollow},
		},
	})
}

// validatorAcceptEdges: the edges of fn on which the result of the validator call says "good"
// (true for a predicate, nil for a check).
func validatorAcceptEdges(fn *ssa.Function, call *ssa.Call) map[edge]bool {
	acc := map[edge]bool{}
	for _, b := range fn.Blocks {
		iff := lastIf(b)
		if iff == nil {
			continue
		}
		if isErrorType(call.Type()) {
			cm, truth, ok := cmpOf(iff.Cond)
			if !ok || (cm.op != token.EQL && cm.op != token.NEQ) || !(isNilConst(cm.x) || isNilConst(cm.y)) {
				continue
			}
			subj := cm.x
			if isNilConst(cm.x) {
				subj = cm.y
			}
			isCall := subj == ssa.Value(call) // (leaves() would look through a new helper into its returns)
			for _, l := range leaves(subj) {
				if l == ssa.Value(call) {
					isCall = true
				}
			}
			if !isCall {
				continue
			}
			if (cm.op == token.EQL) == truth {
				acc[edge{b, b.Succs[0]}] = true
			} else {
				acc[edge{b, b.Succs[1]}] = true
			}
			continue
		}
		if stripNot(iff.Cond) != ssa.Value(call) {
			continue
		}
		_, truth, _ := cmpOf(iff.Cond)
		if truth {
			acc[edge{b, b.Succs[0]}] = true
		} else {
			acc[edge{b, b.Succs[1]}] = true
		}
	}
	return acc
}

// isNameValidator: a function of one string that rejects ".." and '/': by its own tests
// (isNameTest), or by handing the string to such a function and answering "good" only behind that
// function's good edge (a check wrapped around a predicate: "if valid(name) { return nil }").
func isNameValidator(f *ssa.Function) bool {
	return isNameValidatorDepth(f, 0)
}

func isNameValidatorDepth(f *ssa.Function, depth int) bool {
	if isNameTest(f) {
		return true
	}
	if f == nil || f.Blocks == nil || len(f.Params) != 1 || f.Signature.Results().Len() != 1 || depth > 2 ||
		!(isBool(f.Signature.Results().At(0).Type()) || isErrorType(f.Signature.Results().At(0).Type())) {
		return false
	}
	acc := map[edge]bool{}
	instrs(f, func(_ *ssa.BasicBlock, _ int, ins ssa.Instruction) {
		call, ok := ins.(*ssa.Call)
		if !ok || ins.Parent() != f || len(call.Call.Args) != 1 || call.Call.Args[0] != ssa.Value(f.Params[0]) {
			return
		}
		g := call.Call.StaticCallee()
		if g == nil || g == f || !isNameValidatorDepth(g, depth+1) {
			return
		}
		for e := range validatorAcceptEdges(f, call) {
			acc[e] = true
		}
	})
	if len(acc) == 0 {
		return false
	}
	reach := reachable(f, acc)
	for _, r := range returnsOf(f) {
		v := unspill(r, r.Results[0])
		bad := false
		if k, isK := v.(*ssa.Const); isK {
			good := k.Value == nil || k.Value.ExactString() == "true"
			bad = !good
		} else if isErrorType(v.Type()) && constructedNonNil(v, r.Block(), 0) {
			bad = true
		}
		if !bad && reach[r.Block()] {
			return false // may answer "good" without the inner validator having said so
		}
	}
	return true
}

// isNameTest: a boolean function of one string that compares it with ".." and tests for '/'.
func isNameTest(f *ssa.Function) bool {
	// a predicate (bool) or a check (error)
	if f == nil || f.Blocks == nil || len(f.Params) != 1 || f.Signature.Results().Len() != 1 ||
		!(isBool(f.Signature.Results().At(0).Type()) || isErrorType(f.Signature.Results().At(0).Type())) {
		return false
	}
	p := f.Params[0]
	dotdot, slash := false, false
	instrs(f, func(_ *ssa.BasicBlock, _ int, ins ssa.Instruction) {
		switch x := ins.(type) {
		case *ssa.BinOp:
			if (x.Op == token.EQL || x.Op == token.NEQ) && (x.X == ssa.Value(p) || x.Y == ssa.Value(p)) {
				for _, o := range []ssa.Value{x.X, x.Y} {
					if k, ok := o.(*ssa.Const); ok && k.Value != nil && k.Value.Kind() == constant.String && constant.StringVal(k.Value) == ".." {
						dotdot = true
					}
				}
			}
		case *ssa.Call:
			n := callee(x)
			if (strings.HasPrefix(n, "strings.Contains") || strings.HasPrefix(n, "strings.Index")) && len(x.Call.Args) == 2 && x.Call.Args[0] == ssa.Value(p) {
				if k, ok := x.Call.Args[1].(*ssa.Const); ok && k.Value != nil {
					switch k.Value.Kind() {
					case constant.Int:
						if v, _ := constant.Int64Val(k.Value); v == '/' {
							slash = true
						}
					case constant.String:
						if strings.Contains(constant.StringVal(k.Value), "/") {
							slash = true
						}
					}
				}
			}
		}
	})
	// the same test written as a loop over the bytes of the name: name[i] == '/' (directly or in a
	// new predicate helper that is handed name[i]) inside a loop over the whole of len(name)
	if !slash {
		isByteOfName := func(v ssa.Value) bool {
			elemOf := func(x ssa.Value) bool {
				// name[i] with a loop counter as index
				var base, idx ssa.Value
				switch e := x.(type) {
				case *ssa.Index: // string and array indexing
					base, idx = e.X, e.Index
				case *ssa.Lookup:
					base, idx = e.X, e.Index
				default:
					return false
				}
				ph, isPhi := idx.(*ssa.Phi)
				return base == ssa.Value(p) && isPhi && isLoopPhi(ph)
			}
			if elemOf(v) {
				return true
			}
			if q, ok := v.(*ssa.Parameter); ok && q != p {
				for _, a := range boundArgs(q) {
					if elemOf(a) {
						return true
					}
				}
			}
			return false
		}
		// the loop runs up to len(name): some comparison of a counter with len(name) exists
		lenCmp := false
		instrs(f, func(_ *ssa.BasicBlock, _ int, ins ssa.Instruction) {
			if bo, ok := ins.(*ssa.BinOp); ok && (bo.Op == token.LSS || bo.Op == token.GEQ || bo.Op == token.GTR || bo.Op == token.LEQ || bo.Op == token.NEQ || bo.Op == token.EQL) {
				for _, side := range []ssa.Value{bo.X, bo.Y} {
					if lc := lenCallOf(side); lc != nil && lc.Call.Args[0] == ssa.Value(p) {
						lenCmp = true
					}
				}
			}
		})
		if lenCmp {
			for _, g := range fnsDeep(f) {
				instrs(g, func(_ *ssa.BasicBlock, _ int, ins ssa.Instruction) {
					bo, ok := ins.(*ssa.BinOp)
					if !ok || (bo.Op != token.EQL && bo.Op != token.NEQ) {
						return
					}
					for _, pr := range [][2]ssa.Value{{bo.X, bo.Y}, {bo.Y, bo.X}} {
						if k, isK := pr[1].(*ssa.Const); isK && k.Value != nil && k.Value.Kind() == constant.Int {
							if v, _ := constant.Int64Val(k.Value); v == '/' && isByteOfName(pr[0]) {
								slash = true
							}
						}
					}
				})
			}
		}
	}
	// and it can answer false
	canFalse := false
	for _, r := range returnsOf(f) {
		if isErrorType(r.Results[0].Type()) {
			// the check form: some return yields a constructed error
			if !isNilConst(unspill(r, r.Results[0])) {
				canFalse = true
			}
			continue
		}
		if hasOrigin(r.Results[0], func(o string) bool {
			return o == "const:false" || strings.HasPrefix(o, "unop:") || strings.HasPrefix(o, "binop:") || strings.HasPrefix(o, "call:")
		}) {
			canFalse = true
		}
	}
	return dotdot && slash && canFalse
}

func c18NameSanitised(c *Ctx) {
	fn := c.mustFn("ArchiveDecoder.Next")
	if fn == nil {
		return
	}
	// reads of FormatFilename.Name
	var tainted []ssa.Value
	instrs(fn, func(_ *ssa.BasicBlock, _ int, ins ssa.Instruction) {
		switch x := ins.(type) {
		case *ssa.Field:
			if fieldOf(x) == "FormatFilename.Name" {
				tainted = append(tainted, x)
			}
		case *ssa.UnOp:
			if fa, ok := x.X.(*ssa.FieldAddr); ok && x.Op == token.MUL && fieldOf(fa) == "FormatFilename.Name" {
				tainted = append(tainted, x)
			}
		}
	})
	if len(tainted) == 0 {
		c.bad("ArchiveDecoder.Next:filename", fn.Pos(), "the decoder does not read FormatFilename.Name")
		return
	}
	isTainted := func(v ssa.Value) bool {
		for _, t := range tainted {
			if v == t {
				return true
			}
		}
		return false
	}
	acc := map[edge]bool{}
	validatorCalls := map[ssa.Instruction]bool{}
	var validators []string
	instrs(fn, func(_ *ssa.BasicBlock, _ int, ins ssa.Instruction) {
		call, ok := ins.(*ssa.Call)
		if !ok || len(call.Call.Args) != 1 || !isTainted(call.Call.Args[0]) || !isNameValidator(c.staticFn(call)) {
			return
		}
		validatorCalls[call] = true
		validators = append(validators, fnKey(c.staticFn(call)))
		for e := range validatorAcceptEdges(fn, call) {
			acc[e] = true
		}
	})
	reach := reachable(fn, acc)
	for i, t := range tainted {
		key := fmt.Sprintf("ArchiveDecoder.Next:filename-use%d", i+1)
		unguarded := ""
		for _, ref := range *t.Referrers() {
			if validatorCalls[ref] {
				continue
			}
			var sinkBlock *ssa.BasicBlock
			what := ref.String()
			if phi, ok := ref.(*ssa.Phi); ok {
				for k, e := range phi.Edges {
					if e == t {
						sinkBlock = phi.Block().Preds[k]
					}
				}
				what = "flows into variable " + phi.Comment
			} else {
				sinkBlock = ref.Block()
			}
			if sinkBlock == nil || !reach[sinkBlock] {
				continue
			}
			// building the rejection message is not a use of the name as a path
			if mi, ok := ref.(*ssa.MakeInterface); ok {
				onlyFmt := true
				for _, r := range *mi.Referrers() {
					if _, ok := r.(*ssa.Store); !ok {
						onlyFmt = false
					}
				}
				if onlyFmt {
					continue
				}
			}
			unguarded = what
		}
		if unguarded != "" {
			c.bad(key, t.Pos(), "the decoded filename %s without having passed a validator that rejects '..' and '/': an entry named '../x' or 'a/b' is created outside (or deeper than) its directory", unguarded)
		} else {
			c.ok(key, t.Pos(), "every use lies behind the accepting edge of %v", validators)
		}
	}
}

func c18NodePaths(c *Ctx) {
	fn := c.mustFn("ArchiveDecoder.Next")
	if fn == nil {
		return
	}
	nameVarOK := func(v ssa.Value) bool {
		// the local 'name': empty or the decoded filename
		return onlyOrigins(v, func(o string) bool { return o == `const:""` || o == "field:FormatFilename.Name" })
	}
	dirOK := func(v ssa.Value) bool {
		return onlyOrigins(v, func(o string) bool { return o == "field:ArchiveDecoder.dir" })
	}
	n := 0
	instrs(fn, func(_ *ssa.BasicBlock, _ int, ins ssa.Instruction) {
		st, ok := ins.(*ssa.Store)
		if !ok {
			return
		}
		fa, ok := st.Addr.(*ssa.FieldAddr)
		if !ok {
			return
		}
		f := fieldOf(fa)
		switch {
		case strings.HasPrefix(f, "Node") && strings.HasSuffix(f, ".Name"):
			n++
			okV := true
			why := ""
			for _, l := range leaves(st.Val) {
				if call, _ := callOf(l); call != nil && callee(call) == "path.Join" {
					if !joinArgsOK(call, dirOK, nameVarOK) {
						okV = false
						why = "path.Join of something else than (a.dir, name)"
					}
					continue
				}
				if dirOK(l) {
					continue
				}
				okV = false
				why = fmt.Sprint(origins(l))
			}
			c.verdict(okV, "ArchiveDecoder.Next:"+f, st.Pos(), f+" = path.Join(a.dir, name) or a.dir", f+" is not derived from the tracked directory and the validated name: "+why)
		case f == "ArchiveDecoder.dir":
			n++
			okV := true
			why := ""
			for _, l := range leaves(st.Val) {
				call, _ := callOf(l)
				switch {
				case call != nil && callee(call) == "path.Join" && joinArgsOK(call, dirOK, nameVarOK):
				case call != nil && callee(call) == "path/filepath.Dir" && dirOK(call.Call.Args[0]):
				case call != nil && callee(call) == "path.Dir" && dirOK(call.Call.Args[0]):
				default:
					okV = false
					why = fmt.Sprint(origins(l))
				}
			}
			c.verdict(okV, "ArchiveDecoder.Next:dir-update", st.Pos(), "a.dir = path.Join(a.dir, name) | filepath.Dir(a.dir)", "the current archive directory is set from "+why)
		}
	})
	if n < 5 {
		c.bad("ArchiveDecoder.Next:node-names", fn.Pos(), "expected the four Node* names and the directory updates, found %d stores", n)
	}
}

// joinArgsOK checks the variadic arguments of a path.Join call: exactly (dir, name).
func joinArgsOK(call *ssa.Call, dirOK, nameOK func(ssa.Value) bool) bool {
	sl, ok := call.Call.Args[0].(*ssa.Slice)
	if !ok {
		return false
	}
	al, ok := sl.X.(*ssa.Alloc)
	if !ok {
		return false
	}
	vals := map[int64]ssa.Value{}
	for _, ref := range *al.Referrers() {
		if ia, ok := ref.(*ssa.IndexAddr); ok {
			idx, isK := ia.Index.(*ssa.Const)
			if !isK {
				return false
			}
			for _, r2 := range *ia.Referrers() {
				if st, ok := r2.(*ssa.Store); ok {
					vals[constInt64(idx)] = st.Val
				}
			}
		}
	}
	return len(vals) == 2 && dirOK(vals[0]) && nameOK(vals[1])
}

func c18SoleConstructor(c *Ctx) {
	counts := map[string]int{}
	for _, fn := range c.subjects() {
		instrs(fn, func(_ *ssa.BasicBlock, _ int, ins ssa.Instruction) {
			st, ok := ins.(*ssa.Store)
			if !ok {
				return
			}
			fa, ok := st.Addr.(*ssa.FieldAddr)
			if !ok {
				return
			}
			f := fieldOf(fa)
			if !(strings.HasPrefix(f, "Node") && strings.HasSuffix(f, ".Name")) {
				return
			}
			typ := strings.TrimSuffix(f, ".Name")
			counts[typ]++
			c.verdict(fnKey(fn) == "ArchiveDecoder.Next", fnKey(fn)+":"+typ, st.Pos(), typ+" built by ArchiveDecoder.Next", typ+" is built outside ArchiveDecoder.Next: its name bypasses the archive name validation")
		})
	}
	for _, t := range []string{"NodeDirectory", "NodeFile", "NodeSymlink", "NodeDevice"} {
		if counts[t] == 0 {
			c.bad("ArchiveDecoder.Next:"+t, token.NoPos, "%s is never built", t)
		}
	}
}

var fsMutators = map[string]int{ // callee -> index of the path argument
	"os.Mkdir": 0, "os.MkdirAll": 0, "os.OpenFile": 0, "os.Create": 0, "os.RemoveAll": 0, "os.Remove": 0, "os.Symlink": 1, "os.Link": 1,
	"syscall.Unlink": 0, "syscall.Mknod": 0, "os.Chown": 0, "os.Lchown": 0, "os.Chmod": 0, "syscall.Chmod": 0,
	"github.com/pkg/xattr.LSet": 0, "github.com/pkg/xattr.Set": 0, "os.Chtimes": 0, "os.Rename": 1, "syscall.Mkfifo": 0,
	"os.Lstat": 0, "os.Stat": 0,
}

func c18JoinRoot(c *Ctx) {
	n := 0
	for _, fn := range c.subjects() {
		if fn.Signature.Recv() == nil || typeName(fn.Signature.Recv().Type()) != "desync.LocalFS" {
			continue
		}
		// writer side only: methods taking a Node* parameter
		var node *ssa.Parameter
		for _, p := range fn.Params {
			if strings.HasPrefix(typeName(p.Type()), "desync.Node") {
				node = p
			}
		}
		if node == nil {
			continue
		}
		nodeType := strings.TrimPrefix(typeName(node.Type()), "desync.")
		for _, call := range calls(fn, func(name string) bool { _, ok := fsMutators[name]; return ok }) {
			idx := fsMutators[callee(call)]
			a := call.Common().Args
			if idx >= len(a) {
				continue
			}
			n++
			okP := true
			why := ""
			for _, l := range leaves(a[idx]) {
				jc, _ := callOf(l)
				if jc == nil || callee(jc) != "path/filepath.Join" {
					okP = false
					why = fmt.Sprint(origins(l))
					continue
				}
				if !joinArgsOK(jc, func(v ssa.Value) bool {
					return onlyOrigins(v, func(o string) bool { return o == "field:LocalFS.Root" })
				},
					func(v ssa.Value) bool {
						// the method's own node name; through a shared path helper the (context-insensitive)
						// binding of its parameter shows the names of all Node* types
						return onlyOrigins(v, func(o string) bool {
							return o == "field:"+nodeType+".Name" || (strings.HasPrefix(o, "field:Node") && strings.HasSuffix(o, ".Name") && len(newHelpers) > 0)
						})
					}) {
					okP = false
					why = "filepath.Join of something else than (fs.Root, n.Name)"
				}
			}
			c.verdict(okP, fmt.Sprintf("%s:%s", fnKey(fn), callee(call)), call.Pos(), "path = filepath.Join(fs.Root, n.Name)", "a filesystem call gets a path that is not filepath.Join(fs.Root, n.Name): "+why)
		}
	}
	if n == 0 {
		c.bad("LocalFS:paths", token.NoPos, "no filesystem call found in LocalFS")
	}
}

func c18LstatDir(c *Ctx) {
	fn := c.mustFn("LocalFS.CreateDir")
	if fn == nil {
		return
	}
	ls := calls(fn, named("os.Lstat"))
	st := calls(fn, named("os.Stat"))
	if len(ls) != 1 || len(st) != 0 {
		c.bad("LocalFS.CreateDir:lstat", fn.Pos(), "CreateDir must probe the destination with os.Lstat exactly once and never with os.Stat (found %d Lstat, %d Stat): os.Stat follows a symlink planted by an earlier entry and children would be created outside the destination", len(ls), len(st))
		return
	}
	c.ok("LocalFS.CreateDir:lstat", ls[0].Pos(), "the destination is probed with os.Lstat")
	lst := ls[0].(*ssa.Call)
	// explore: on the path where Lstat succeeded and IsDir() is false, the function returns a non-nil
	// error before any mutating call
	var bad []string
	h := &Hooks{}
	h.Fork = func(s *State, call *ssa.Call) []map[int]Val {
		switch {
		case call == lst:
			return []map[int]Val{{0: {N: NNon}, 1: {N: NNil, Class: ClsNil, Sym: "lstat:exists"}}, {1: {N: NNon, Class: ClsOther, Sym: "lstat:absent"}}}
		case callee(call) == "(io/fs.FileInfo).IsDir":
			return []map[int]Val{{0: {B: BTrue, Sym: "isdir:yes"}}, {0: {B: BFalse, Sym: "isdir:no"}}}
		}
		return nil
	}
	h.Call = func(s *State, call *ssa.Call) map[int]Val {
		n := callee(call)
		if _, ok := fsMutators[n]; ok && n != "os.Lstat" && n != "os.Stat" {
			s.Emit("mutate", n, call)
		}
		if cal := c.staticFn(call); cal != nil && cal.Signature.Recv() != nil && typeName(cal.Signature.Recv().Type()) == "desync.LocalFS" {
			s.Emit("mutate", fnKey(cal), call)
		}
		return nil
	}
	h.Return = func(s *State, ret *ssa.Return, results []Val) {
		ex, dir := outcomeSeq(s, "lstat"), outcomeSeq(s, "isdir")
		if len(ex) == 1 && ex[0] == "exists" && len(dir) >= 1 && dir[0] == "no" {
			if results[0].N != NNon {
				bad = append(bad, "an existing non-directory at the destination is not an error")
			}
			if s.Has("mutate") {
				bad = append(bad, "filesystem modifications ("+s.Word()+") happen although the destination exists and is not a directory")
			}
		}
		if len(ex) == 1 && ex[0] == "exists" && len(dir) == 0 {
			bad = append(bad, "an existing destination is accepted without checking that it is a directory")
		}
	}
	Explore(fn, fn.Blocks[0], 0, nil, NewState(), h)
	c.paths += h.Paths
	c.report("LocalFS.CreateDir:not-a-dir-is-error", fn, bad, fmt.Sprintf("%d path(s): existing non-directory -> error before any modification", h.Paths))
	_ = types.Typ
}

// c18UnlinkBeforeCreate: open(O_CREAT|O_TRUNC), symlink and mknod act on whatever the destination
// name refers to.  If an earlier entry of the archive planted a symlink under that name, opening
// it follows the link and truncates, chmods and rewrites a file outside the destination.  So in
// CreateFile, CreateSymlink and CreateDevice the creating call is dominated by an unconditional
// removal of the same path (RemoveAll / Remove / Unlink), or the open carries O_EXCL or O_NOFOLLOW.
func c18UnlinkBeforeCreate(c *Ctx) {
	isCreate := func(call ssa.CallInstruction) (pathArg int, ok bool) {
		switch callee(call) {
		case "os.OpenFile":
			if k, isK := call.Common().Args[1].(*ssa.Const); isK && k.Value != nil {
				fl := constInt64(k)
				if fl&0x40 == 0 {
					return 0, false // no O_CREATE
				}
				if fl&0x80 != 0 || fl&0x20000 != 0 { // O_EXCL, O_NOFOLLOW
					return 0, false
				}
			}
			return 0, true
		case "os.Create":
			return 0, true
		case "os.Symlink":
			return 1, true
		case "syscall.Mknod", "syscall.Mkfifo", "golang.org/x/sys/unix.Mknod", "golang.org/x/sys/unix.Mkfifo":
			return 0, true
		}
		return 0, false
	}
	isRemove := named("os.RemoveAll", "os.Remove", "syscall.Unlink", "golang.org/x/sys/unix.Unlink")
	n := 0
	for _, key := range []string{"LocalFS.CreateFile", "LocalFS.CreateSymlink", "LocalFS.CreateDevice"} {
		fn := c.mustFn(key)
		if fn == nil {
			continue
		}
		found := 0
		for _, g := range fnsDeep(fn) {
			for _, cr := range calls(g, func(string) bool { return true }) {
				pa, ok := isCreate(cr)
				if !ok {
					continue
				}
				found++
				n++
				okR := false
				for _, g2 := range fnsDeep(fn) {
					for _, rm := range calls(g2, isRemove) {
						target := rm.Common().Args[0]
						if instrDominates(rm.(ssa.Instruction), cr.(ssa.Instruction)) && sameValue(target, cr.Common().Args[pa]) {
							okR = true
						}
						// the removal inside a new helper that is handed the name ("unlinkIfExists(dst)"):
						// executed on every path through the helper, the helper called before the creation
						if prm, isP := target.(*ssa.Parameter); isP && newHelpers[prm.Parent()] {
							always := true
							for _, ret := range returnsOf(prm.Parent()) {
								if !rm.Block().Dominates(ret.Block()) {
									always = false
								}
							}
							if !always {
								continue
							}
							for k, hp := range prm.Parent().Params {
								if hp != prm {
									continue
								}
								for _, cs := range helperSites[prm.Parent()] {
									if cs.Parent() == cr.Parent() && k < len(cs.Common().Args) && sameValue(cs.Common().Args[k], cr.Common().Args[pa]) && instrDominates(cs, cr.(ssa.Instruction)) {
										okR = true
									}
								}
							}
						}
					}
				}
				c.verdict(okR, key+":"+callee(cr), cr.Pos(), "whatever is under the destination name is removed on every path before it is created",
					"the destination is created without removing what is already under that name on every path: a symlink planted by an earlier entry is followed and a file outside the destination is truncated, rewritten and chmod-ed")
			}
		}
		if found == 0 {
			c.bad(key+":create", fn.Pos(), "no creating call found")
		}
		// a removal that failed (with anything but "not there") leaves what was under the name in
		// place: on such a path the creating call is not reached.  Path rule; new helpers around
		// the removal ("unlinkIfExists") are explored in place, so an error swallowed there counts.
		var bad []string
		removals := 0
		h := &Hooks{MaxVisits: 2, MaxPaths: 100000}
		h.Fork = func(st *State, call *ssa.Call) []map[int]Val {
			if !isRemove(callee(call)) {
				return nil
			}
			removals++
			ei := errResultIndex(call)
			return []map[int]Val{{ei: {N: NNil, Class: ClsNil, Sym: "removed:ok"}}, {ei: {N: NNon, Class: ClsOther, Sym: "removed:failed"}}}
		}
		h.Call = func(st *State, call *ssa.Call) map[int]Val {
			last := ""
			for _, e := range st.Events {
				if e.Kind == "outcome:removed" {
					last = e.Arg
				}
			}
			if last != "failed" {
				return nil
			}
			if callee(call) == "os.IsNotExist" {
				return map[int]Val{0: {B: BFalse}} // the failure that is not "nothing there"
			}
			if _, isC := isCreate(call); isC {
				bad = append(bad, fmt.Sprintf("%s at %s is reached after the removal of the destination failed", callee(call), c.pos(call.Pos())))
			}
			return nil
		}
		Explore(fn, fn.Blocks[0], 0, nil, NewState(), h)
		c.paths += h.Paths
		if removals > 0 {
			if len(bad) > 0 {
				c.bad(key+":removal-failed", fn.Pos(), "%s: what could not be removed (a symlink planted by an earlier entry in a directory that does not allow the removal) is opened through, or the entry is reported as extracted", bad[0])
			} else {
				c.ok(key+":removal-failed", fn.Pos(), "a failed removal (other than not-exist) ends the creation")
			}
		}
	}
}

// c18SingleRoot: only the root of an archive has no filename.  An entry that is not preceded by a
// filename element gets the name of the directory the decoder is in; anywhere but at the start
// that lets a crafted archive replace the directory being unpacked by a file and then by a
// symlink to the outside, and everything that follows is created through the link.  Path rule
// over ArchiveDecoder.Next: a node is returned only on paths that validated a filename for it,
// found the name non-empty, or found the decoder's "an entry was decoded before" state unset -
// and every path that returns a node sets that state.
func c18SingleRoot(c *Ctx) {
	fn := c.mustFn("ArchiveDecoder.Next")
	if fn == nil {
		return
	}
	stateField := func(v ssa.Value) (string, bool) {
		u, ok := v.(*ssa.UnOp)
		if !ok || u.Op != token.MUL {
			return "", false
		}
		fa, ok := u.X.(*ssa.FieldAddr)
		if !ok || !strings.HasPrefix(fieldOf(fa), "ArchiveDecoder.") || !isBool(u.Type()) {
			return "", false
		}
		return fieldOf(fa), true
	}
	var bad []string
	nodes := 0
	h := &Hooks{MaxVisits: 2, MaxPaths: 400000}
	h.Call = func(st *State, call *ssa.Call) map[int]Val {
		if isNameValidator(directCallee(call)) {
			st.Flags["named"] = 1
		}
		return nil
	}
	h.Branch = func(st *State, iff *ssa.If, taken bool) {
		cond, neg := iff.Cond, false
		for {
			if u, ok := cond.(*ssa.UnOp); ok && u.Op == token.NOT {
				cond, neg = u.X, !neg
				continue
			}
			break
		}
		if f, ok := stateField(cond); ok {
			if taken == neg { // the state is false on this edge
				st.Flags["first:"+f] = 1
			} else {
				st.Flags["true:"+f] = 1
			}
			return
		}
		cm, truth, ok := cmpOf(iff.Cond)
		if !ok || (cm.op != token.EQL && cm.op != token.NEQ) {
			return
		}
		for _, pr := range [][2]ssa.Value{{cm.x, cm.y}, {cm.y, cm.x}} {
			k, isK := pr[1].(*ssa.Const)
			if !isK || k.Value == nil || k.Value.Kind() != constant.String || constant.StringVal(k.Value) != "" {
				continue
			}
			if hasOrigin(pr[0], func(o string) bool { return o == "field:FormatFilename.Name" }) {
				empty := ((cm.op == token.EQL) == truth) == taken
				if !empty {
					st.Flags["nonempty"] = 1
				}
			}
		}
	}
	h.Instr = func(st *State, ins ssa.Instruction) {
		// the node built on this path (possibly inside a helper that assembles it)
		if mi, ok := ins.(*ssa.MakeInterface); ok && strings.HasPrefix(typeName(mi.X.Type()), "desync.Node") {
			if typeName(mi.X.Type()) == "desync.NodeDirectory" {
				st.Flags["lastnode"] = 1
			} else {
				st.Flags["lastnode"] = 2
			}
		}
		if sto, ok := ins.(*ssa.Store); ok {
			if fa, ok := sto.Addr.(*ssa.FieldAddr); ok && strings.HasPrefix(fieldOf(fa), "ArchiveDecoder.") && isBool(sto.Val.Type()) {
				if k, isK := sto.Val.(*ssa.Const); isK && k.Value != nil && k.Value.ExactString() == "true" {
					st.Flags["set:"+fieldOf(fa)] = 1
				} else if !isK {
					// a computed state ("the root is a directory"): what it is on this path
					switch st.Eval(sto.Val).B {
					case BTrue:
						st.Flags["computed:"+fieldOf(fa)] = 1
					case BFalse:
						st.Flags["computed:"+fieldOf(fa)] = 2
					default:
						st.Flags["computed:"+fieldOf(fa)] = 3
					}
				}
			}
		}
	}
	h.Return = func(st *State, ret *ssa.Return, results []Val) {
		if len(results) != 2 || results[1].N == NNon {
			return
		}
		if _, isNode := stripConv(ret.Results[0]).(*ssa.MakeInterface); !isNode {
			if len(leaves(ret.Results[0])) == 1 {
				if k, isK := leaves(ret.Results[0])[0].(*ssa.Const); isK && k.Value == nil {
					return // end of archive
				}
			}
		}
		nodes++
		first, set := "", false
		for k := range st.Flags {
			if strings.HasPrefix(k, "first:") {
				first = strings.TrimPrefix(k, "first:")
			}
		}
		for k := range st.Flags {
			if strings.HasPrefix(k, "set:") && (first == "" || strings.TrimPrefix(k, "set:") == first) {
				set = true
			}
		}
		// an entry that is not the first one lies below the root: only if the root was found to be a
		// directory (a second state field of the decoder, found true on this path)
		if first == "" {
			below := false
			for k := range st.Flags {
				if strings.HasPrefix(k, "true:") {
					for k2 := range st.Flags {
						if strings.HasPrefix(k2, "true:") && k2 != k {
							below = true // "an entry was decoded" and "the root is a directory"
						}
					}
				}
			}
			if !below {
				bad = append(bad, fmt.Sprintf("return at %s yields a node for an entry that follows the root although the root was not found to be a directory: after a symlink root the entry is created through the link, outside the destination (trail tail %s)", c.pos(ret.Pos()), tailOf(st.Trail, 6)))
				return
			}
		}
		// the first entry records whether the root is a directory: that must be decided by the
		// same facts that decide which node is returned (the elements that followed the entry),
		// not by something the archive can set independently (the mode bits of the entry)
		if first != "" {
			isDirNode := st.Flags["lastnode"] == 1
			for k, v := range st.Flags {
				if strings.HasPrefix(k, "computed:") && !isDirNode && v != 2 {
					bad = append(bad, fmt.Sprintf("return at %s yields a root node that is not a directory while %s is not known to be false on that path: a root symlink whose entry carries directory mode bits is followed by the entries after it (trail tail %s)", c.pos(ret.Pos()), strings.TrimPrefix(k, "computed:"), tailOf(st.Trail, 6)))
					return
				}
			}
		}
		if st.Flags["named"] != 1 && st.Flags["nonempty"] != 1 && first == "" {
			bad = append(bad, fmt.Sprintf("return at %s yields a node for an entry without a filename although it need not be the first entry of the archive (trail tail %s)", c.pos(ret.Pos()), tailOf(st.Trail, 6)))
		} else if first != "" && !set { // (a later entry found the state set already)
			bad = append(bad, fmt.Sprintf("return at %s yields a node without recording that an entry was decoded: the next entry without a filename would be taken for the root again", c.pos(ret.Pos())))
		}
	}
	Explore(fn, fn.Blocks[0], 0, nil, NewState(), h)
	c.paths += h.Paths
	switch {
	case h.Truncated:
		c.bad("ArchiveDecoder.Next:single-root", fn.Pos(), "path exploration truncated")
	case len(bad) > 0:
		c.bad("ArchiveDecoder.Next:single-root", fn.Pos(), "%s: such an entry takes the name of the current directory and can replace it by a symlink to the outside", bad[0])
	case nodes == 0:
		c.bad("ArchiveDecoder.Next:single-root", fn.Pos(), "no path returns a node")
	default:
		c.ok("ArchiveDecoder.Next:single-root", fn.Pos(), "%d node-returning path(s): a filename was validated, or the entry is the first of the archive; the state is recorded", nodes)
	}
}

func tailOf(l []string, n int) string {
	if len(l) > n {
		l = l[len(l)-n:]
	}
	return strings.Join(l, ">")
}

// c18SymlinkNoFollow: the owner, mode, times and xattrs of a symlink entry are applied to the
// link itself.  chown/chmod/utimes/setxattr follow a link whose target the archive chose, so in
// the functions that restore a symlink's metadata only the l-variants may be called on its path.
func c18SymlinkNoFollow(c *Ctx) {
	follows := map[string]string{"os.Chown": "os.Lchown", "os.Chmod": "nothing (there is no lchmod on Linux)", "os.Chtimes": "unix.Lutimes / nothing", "syscall.Chown": "syscall.Lchown", "syscall.Chmod": "nothing",
		"github.com/pkg/xattr.Set": "xattr.LSet", "os.Truncate": "nothing", "os.Stat": "os.Lstat"}
	n := 0
	for _, key := range []string{"LocalFS.SetSymlinkPermissions", "LocalFS.CreateSymlink"} {
		fn := c.mustFn(key)
		if fn == nil {
			continue
		}
		for _, g := range fnsDeep(fn) {
			if g != fn && !newHelpers[g] {
				continue
			}
			for _, call := range calls(g, func(string) bool { return true }) {
				if call.Parent() != g {
					continue
				}
				// a primitive handed on as a function value ("applyOwner(dst, os.Chown, ...)")
				for _, a := range call.Common().Args {
					if fv, isFn := a.(*ssa.Function); isFn && fv.Object() != nil {
						vn := short(fv.Object().(*types.Func).FullName())
						if alt, bad := follows[vn]; bad {
							n++
							c.bad(key+":"+vn, call.Pos(), "%s (passed as a function value) follows a symbolic link: applied to a symlink entry it changes the object the link points to; use %s", vn, alt)
						}
					}
				}
				name := callee(call)
				if alt, bad := follows[name]; bad {
					n++
					c.bad(key+":"+name, call.Pos(), "%s follows a symbolic link: applied to a symlink entry it changes the object the link points to, which the archive chooses and which can lie outside the destination; use %s", name, alt)
				} else if strings.HasPrefix(name, "os.L") || strings.HasSuffix(name, "xattr.LSet") || name == "syscall.Unlink" || name == "os.Symlink" {
					n++
					c.ok(key+":"+name, call.Pos(), "operates on the link itself")
				}
			}
		}
	}
	if n == 0 {
		c.bad("LocalFS:symlink-metadata", 0, "no link-level operation found in the symlink functions")
	}
}
