package main

// E-LOCK: lock-set data flow over SSA (sync.Mutex / sync.RWMutex), guarded-by tables,
// held-through-call and channel-pool re-entrancy.

import (
	"fmt"
	"go/token"
	"go/types"
	"sort"
	"strings"

	"golang.org/x/tools/go/ssa"
)

// lockKey gives a canonical name to the object an address expression denotes, stable across
// the separate FieldAddr instructions go/ssa emits for every access (no CSE).
func lockKey(v ssa.Value) string {
	switch x := v.(type) {
	case *ssa.FieldAddr:
		f := fieldOf(x)
		if i := strings.LastIndex(f, "."); i >= 0 {
			f = f[i+1:]
		}
		return lockKey(x.X) + "." + f
	case *ssa.Field:
		f := fieldOf(x)
		if i := strings.LastIndex(f, "."); i >= 0 {
			f = f[i+1:]
		}
		return lockKey(x.X) + "." + f
	case *ssa.UnOp:
		if x.Op == token.MUL {
			return "*" + lockKey(x.X)
		}
	case *ssa.IndexAddr:
		return lockKey(x.X) + "[i]"
	case *ssa.Parameter:
		return "param:" + x.Name()
	case *ssa.FreeVar:
		return "var:" + x.Name()
	case *ssa.Alloc:
		if x.Comment != "" {
			return "var:" + x.Comment
		}
	case *ssa.Global:
		return "global:" + x.Name()
	}
	return fmt.Sprintf("%s@%p", v.Name(), v)
}

type lockOp struct {
	acquire bool
	write   bool
	key     string
}

// lockOpOf classifies a call as a mutex operation.
func lockOpOf(call ssa.CallInstruction) (lockOp, bool) {
	name := callee(call)
	var op lockOp
	switch name {
	case "(*sync.Mutex).Lock", "(*sync.RWMutex).Lock":
		op = lockOp{acquire: true, write: true}
	case "(*sync.RWMutex).RLock":
		op = lockOp{acquire: true}
	case "(*sync.Mutex).Unlock", "(*sync.RWMutex).Unlock":
		op = lockOp{write: true}
	case "(*sync.RWMutex).RUnlock":
		op = lockOp{}
	default:
		return op, false
	}
	a := call.Common().Args
	if len(a) == 0 {
		return op, false
	}
	op.key = lockKey(a[0])
	return op, true
}

type lockset map[string]bool // key "R:<lock>" or "W:<lock>"

func (l lockset) clone() lockset {
	c := lockset{}
	for k := range l {
		c[k] = true
	}
	return c
}

func (l lockset) String() string {
	var out []string
	for k := range l {
		out = append(out, k)
	}
	sort.Strings(out)
	return strings.Join(out, ",")
}

func lockName(op lockOp) string {
	if op.write {
		return "W:" + op.key
	}
	return "R:" + op.key
}

// lockFlow is the result of the lock-set analysis of one function.
type lockFlow struct {
	fn *ssa.Function
	// must/may held immediately before each instruction
	must map[ssa.Instruction]lockset
	may  map[ssa.Instruction]lockset
	// locks that may still be held at a return (after deferred releases)
	leaks []lockLeak
	acqs  int
}

type lockLeak struct {
	ret  *ssa.Return
	lock string
}

// analyseLocks runs the forward data flow: must = intersection over predecessors, may = union.
func analyseLocks(fn *ssa.Function) *lockFlow {
	lf := &lockFlow{fn: fn, must: map[ssa.Instruction]lockset{}, may: map[ssa.Instruction]lockset{}}
	type st struct {
		must, may, deferred lockset
		set                 bool
	}
	in := map[*ssa.BasicBlock]*st{}
	out := map[*ssa.BasicBlock]*st{}
	for _, b := range fn.Blocks {
		in[b] = &st{}
		out[b] = &st{}
	}
	transfer := func(b *ssa.BasicBlock, s *st, record bool) *st {
		cur := &st{must: s.must.clone(), may: s.may.clone(), deferred: s.deferred.clone(), set: true}
		for _, ins := range b.Instrs {
			if record {
				lf.must[ins] = cur.must.clone()
				lf.may[ins] = cur.may.clone()
			}
			switch x := ins.(type) {
			case *ssa.Defer:
				if op, ok := lockOpOf(x); ok && !op.acquire {
					cur.deferred[lockName(op)] = true
				} else if op, ok := handedOffRelease(x.Call.Value); ok {
					cur.deferred[lockName(op)] = true // "store, release := s.acquire(); defer release()"
				} else if mc, ok := x.Call.Value.(*ssa.MakeClosure); ok {
					// defer func() { mu.Unlock() }()
					if f, ok := mc.Fn.(*ssa.Function); ok {
						instrs(f, func(_ *ssa.BasicBlock, _ int, i2 ssa.Instruction) {
							if ci, ok := i2.(ssa.CallInstruction); ok {
								if op, ok := lockOpOf(ci); ok && !op.acquire {
									cur.deferred[lockName(op)] = true
								}
							}
						})
					}
				}
			case *ssa.RunDefers:
				for k := range cur.deferred {
					// a deferred release names the lock through the closure's or the function's own
					// address expression; match on the suffix after the mode
					delete(cur.must, k)
					delete(cur.may, k)
					for h := range cur.may {
						if sameLock(h, k) {
							delete(cur.may, h)
							delete(cur.must, h)
						}
					}
				}
			case ssa.CallInstruction:
				if _, isGo := x.(*ssa.Go); isGo {
					continue
				}
				op, ok := lockOpOf(x)
				if !ok {
					if held, _, isHandOff := lockHandOff(directCallee(x)); isHandOff && fn != directCallee(x) {
						op, ok = held, true // the helper returns with the lock held
					} else if rel, isRel := handedOffRelease(x.Common().Value); isRel {
						op, ok = rel, true
					}
				}
				if ok {
					if op.acquire {
						if record {
							lf.acqs++
						}
						cur.must[lockName(op)] = true
						cur.may[lockName(op)] = true
					} else {
						delete(cur.must, lockName(op))
						delete(cur.may, lockName(op))
					}
				}
			case *ssa.Return:
				if record {
					for k := range cur.may {
						lf.leaks = append(lf.leaks, lockLeak{x, k})
					}
				}
			}
		}
		return cur
	}
	// iterate to a fixed point
	changed := true
	for iter := 0; changed && iter < 50; iter++ {
		changed = false
		for _, b := range fn.Blocks {
			var s *st
			if b == fn.Blocks[0] {
				s = &st{must: lockset{}, may: lockset{}, deferred: lockset{}, set: true}
			} else {
				s = &st{}
				for _, p := range b.Preds {
					o := out[p]
					if !o.set {
						continue
					}
					if !s.set {
						s = &st{must: o.must.clone(), may: o.may.clone(), deferred: o.deferred.clone(), set: true}
						continue
					}
					for k := range s.must {
						if !o.must[k] {
							delete(s.must, k)
						}
					}
					for k := range o.may {
						s.may[k] = true
					}
					for k := range o.deferred {
						s.deferred[k] = true
					}
				}
				if !s.set {
					continue
				}
			}
			n := transfer(b, s, false)
			o := out[b]
			if !o.set || o.must.String() != n.must.String() || o.may.String() != n.may.String() || o.deferred.String() != n.deferred.String() {
				out[b] = n
				in[b] = s
				changed = true
			}
		}
	}
	for _, b := range fn.Blocks {
		if in[b].set || b == fn.Blocks[0] {
			s := in[b]
			if b == fn.Blocks[0] {
				s = &st{must: lockset{}, may: lockset{}, deferred: lockset{}, set: true}
			}
			transfer(b, s, true)
		}
	}
	return lf
}

// sameLock compares two lock names modulo the way the base object is spelled inside a
// deferred closure (free variable) and in the function itself (parameter / local).
func sameLock(a, b string) bool {
	if a == b {
		return true
	}
	if a[:2] != b[:2] {
		return false
	}
	norm := func(s string) string {
		s = s[2:]
		s = strings.ReplaceAll(s, "param:", "")
		s = strings.ReplaceAll(s, "var:", "")
		s = strings.ReplaceAll(s, "*", "")
		return s
	}
	return norm(a) == norm(b)
}

// holds reports whether the lock set contains lock key (suffix match on the field path) in a
// sufficient mode.
func holds(ls lockset, lockSuffix string, needWrite bool) bool {
	for k := range ls {
		if needWrite && !strings.HasPrefix(k, "W:") {
			continue
		}
		if strings.HasSuffix(strings.ReplaceAll(k[2:], "*", ""), lockSuffix) {
			return true
		}
	}
	return false
}

// ---------------------------------------------------------------------------------------
// rule helpers

// lockPairing checks, for every function/method/closure whose key has one of the prefixes,
// that no lock acquired in it may still be held at a return.  Returns the number of acquire sites.
func (c *Ctx) lockPairing(prefixes ...string) {
	for _, fn := range c.subjects() {
		k := fnKey(fn)
		match := false
		for _, p := range prefixes {
			if k == p || strings.HasPrefix(k, p+".") || strings.HasPrefix(k, p+"$") {
				match = true
			}
		}
		if !match {
			continue
		}
		lf := analyseLocks(fn)
		if lf.acqs == 0 {
			continue
		}
		if len(lf.leaks) > 0 {
			l := lf.leaks[0]
			c.bad(k+":pairing", l.ret.Pos(), "returns with %s still held (acquired in this function, not released on this path)", l.lock)
		} else {
			c.ok(k+":pairing", fn.Pos(), "%d acquire site(s), every return releases what was acquired", lf.acqs)
		}
	}
}

// guardedField is one line of the guarded-by table.
type guardedField struct {
	Struct string // named struct type of the library
	Field  string
	Mutex  string // mutex field of the same struct
	Reason string
}

// guardedBy checks that every access of the field outside the allocating constructor happens
// with the mutex of the same object held (write mode for stores).
func (c *Ctx) guardedBy(g guardedField, exemptFns map[string]string) {
	c.lockNotCopied(g.Struct)
	n := 0
	for _, fn := range c.subjects() {
		var lf *lockFlow
		instrs(fn, func(_ *ssa.BasicBlock, _ int, ins ssa.Instruction) {
			fa, ok := ins.(*ssa.FieldAddr)
			if !ok || fieldOf(fa) != g.Struct+"."+g.Field {
				return
			}
			key := fmt.Sprintf("%s.%s@%s", g.Struct, g.Field, fnKey(fn))
			if why, ok := exemptFns[fnKey(fn)]; ok {
				c.info(key, fa.Pos(), "exempt: %s", why)
				return
			}
			// constructor: the object is allocated in this function
			if al, ok := fa.X.(*ssa.Alloc); ok && al.Heap || isFreshObject(fa.X) {
				c.info(key, fa.Pos(), "constructor: object not yet shared")
				return
			}
			// an access inside a new helper is judged by the helper's own lock flow
			owner := fa.Parent()
			if lf == nil || lf.fn != owner {
				lf = analyseLocks(owner)
			}
			base := strings.ReplaceAll(lockKey(fa.X), "*", "")
			want := base + "." + g.Mutex
			for _, r := range *fa.Referrers() {
				isStore := false
				switch x := r.(type) {
				case *ssa.Store:
					isStore = x.Addr == fa
				case *ssa.UnOp:
				case *ssa.MapUpdate:
					isStore = true
				default:
					// address taken for a method call on the field value etc.: treat as read
				}
				n++
				must := lf.must[r]
				// any write to a map held in the field is a store as well
				if !isStore {
					if u, ok := r.(*ssa.UnOp); ok && u.Op == token.MUL && u.Referrers() != nil {
						for _, r2 := range *u.Referrers() {
							if mu, ok := r2.(*ssa.MapUpdate); ok && mu.Map == u {
								isStore = true
							}
							if cl, ok := r2.(*ssa.Call); ok && callee(cl) == "builtin:delete" {
								isStore = true
							}
						}
					}
				}
				if holds(must, want, isStore) {
					c.ok(key, r.Pos(), "access under %s", want)
				} else if newHelpers[owner] && holds(heldAt(r, 0), "."+g.Mutex, isStore) {
					// a new helper that documents "caller must hold the lock": held at every call site
					c.ok(key, r.Pos(), "access under %s held by every caller of the helper", g.Mutex)
				} else {
					mode := "read"
					if isStore {
						mode = "write"
					}
					c.bad(key, r.Pos(), "%s access of %s.%s without holding %s in %s mode (held: %s)", mode, g.Struct, g.Field, g.Mutex, mode, must)
				}
			}
		})
	}
	_ = n
}

func isFreshObject(v ssa.Value) bool {
	if fa, ok := v.(*ssa.FieldAddr); ok {
		return isFreshObject(fa.X) // a struct embedded in a fresh object
	}
	switch x := v.(type) {
	case *ssa.Alloc:
		return true
	case *ssa.UnOp:
		if x.Op == token.MUL {
			if a, ok := x.X.(*ssa.Alloc); ok {
				// local pointer variable assigned from a fresh allocation only
				fresh := true
				for _, s := range storesTo(a) {
					if _, ok := s.Val.(*ssa.Alloc); !ok {
						fresh = false
					}
				}
				return fresh && len(storesTo(a)) > 0
			}
		}
	}
	return false
}

// receivesFromField reports whether fn receives from channel field `field` of its receiver.
func receivesFromField(fn *ssa.Function, field string) []ssa.Instruction {
	var out []ssa.Instruction
	instrs(fn, func(_ *ssa.BasicBlock, _ int, ins ssa.Instruction) {
		if u, ok := ins.(*ssa.UnOp); ok && u.Op == token.ARROW {
			if hasOrigin(u.X, func(o string) bool { return o == "field:"+field }) {
				out = append(out, u)
			}
		}
	})
	return out
}

// poolReentrancy: a method that holds a token of the channel pool (received from field) must
// not call, before giving it back, a method of the same type that takes a token itself.
func (c *Ctx) poolReentrancy(typ, field string) {
	var methods []*ssa.Function
	for _, fn := range c.subjects() {
		if fn.Parent() == nil && strings.HasPrefix(fnKey(fn), typ+".") {
			methods = append(methods, fn)
		}
	}
	takes := map[*ssa.Function]bool{}
	for _, m := range methods {
		if len(receivesFromField(m, typ+"."+field)) > 0 {
			takes[m] = true
		}
	}
	// one level of helpers: a method calling a taker without holding counts as a taker too
	for i := 0; i < 2; i++ {
		for _, m := range methods {
			if takes[m] {
				continue
			}
			for _, f := range withClosures(m) {
				instrs(f, func(_ *ssa.BasicBlock, _ int, ins ssa.Instruction) {
					if ci, ok := ins.(ssa.CallInstruction); ok {
						if cal := c.staticFn(ci); cal != nil && takes[cal] {
							takes[m] = true
						}
					}
				})
			}
		}
	}
	for _, m := range methods {
		recvs := receivesFromField(m, typ+"."+field)
		if len(recvs) == 0 {
			continue
		}
		key := fnKey(m) + ":pool"
		// is the token returned by a deferred send (held until return) or by an explicit send?
		deferred := false
		var sends []ssa.Instruction
		instrs(m, func(_ *ssa.BasicBlock, _ int, ins ssa.Instruction) {
			switch x := ins.(type) {
			case *ssa.Defer:
				if mc, ok := x.Call.Value.(*ssa.MakeClosure); ok {
					if f, ok := mc.Fn.(*ssa.Function); ok {
						instrs(f, func(_ *ssa.BasicBlock, _ int, i2 ssa.Instruction) {
							if s, ok := i2.(*ssa.Send); ok && hasOrigin(s.Chan, func(o string) bool { return o == "field:"+typ+"."+field }) {
								deferred = true
							}
						})
					}
				}
			case *ssa.Send:
				if hasOrigin(x.Chan, func(o string) bool { return o == "field:"+typ+"."+field }) {
					sends = append(sends, x)
				}
			}
		})
		bad := false
		for _, f := range withClosures(m) {
			instrs(f, func(_ *ssa.BasicBlock, _ int, ins ssa.Instruction) {
				ci, ok := ins.(ssa.CallInstruction)
				if !ok {
					return
				}
				if _, isDefer := ins.(*ssa.Defer); isDefer {
					return
				}
				cal := c.staticFn(ci)
				if cal == nil || !takes[cal] || cal == m && false {
					return
				}
				// is the token held at this call?
				held := false
				for _, r := range recvs {
					if f != m {
						held = true // closures of a method run while it holds the token (Walk callbacks etc.)
						continue
					}
					if instrDominates(r, ins) || reachesInstr(r, ins) {
						held = true
						if !deferred {
							// released before by an explicit send on every path?
							for _, s := range sends {
								if instrDominates(s, ins) && instrDominates(r, s) {
									held = false
								}
							}
						}
					}
				}
				if held {
					bad = true
					c.bad(key, ins.Pos(), "calls %s, which takes a token of %s.%s, while holding one: self-deadlock when the pool has a single connection", fnKey(cal), typ, field)
				}
			})
		}
		if !bad {
			c.ok(key, m.Pos(), "holds a pool token and calls no method that takes another")
		}
	}
}

// reachesInstr reports whether b can execute after a (CFG reachability).
func reachesInstr(a, b ssa.Instruction) bool {
	if a.Block() == b.Block() && indexIn(a) < indexIn(b) {
		return true
	}
	r := reachableFrom(a.Block(), nil)
	if a.Block() == b.Block() {
		// through a cycle
		for _, s := range a.Block().Succs {
			if reachableFrom(s, nil)[a.Block()] {
				return true
			}
		}
		return false
	}
	return r[b.Block()]
}

var _ = types.Typ

// heldAt: the locks certainly held when instruction ins executes.  For an instruction of the
// function under analysis this is the must-set of its lock flow; for an instruction inside a new
// helper it is the helper's own must-set plus the locks held at every call of the helper (by
// mutex field: the caller names the object differently).
func heldAt(ins ssa.Instruction, depth int) lockset {
	fn := ins.Parent()
	lf := analyseLocks(fn)
	out := lf.must[ins].clone()
	if out == nil {
		out = lockset{}
	}
	if !newHelpers[fn] || len(helperSites[fn]) == 0 || depth > 3 {
		return out
	}
	var common lockset
	for _, cs := range helperSites[fn] {
		at := heldAt(cs, depth+1)
		if common == nil {
			common = at.clone()
			continue
		}
		for k := range common {
			found := false
			for k2 := range at {
				if lockField(k) == lockField(k2) && k[:2] == k2[:2] {
					found = true
				}
			}
			if !found {
				delete(common, k)
			}
		}
	}
	for k := range common {
		out[k] = true
	}
	return out
}

// lockField: mode prefix stripped, the trailing ".<mutex field>" of a lock name.
func lockField(k string) string {
	if i := strings.LastIndex(k, "."); i >= 0 {
		return k[i:]
	}
	return k
}

// poolPairing: a session taken from the pool channel is given back on every path - by a deferred
// send, or by a send between the receive and every return.  A path that keeps the session (an
// early return on an error, say) shrinks the pool by one each time it is taken; when the pool is
// empty every further request on the store blocks for ever, and so does Close.
func (c *Ctx) poolPairing(typ, field string) {
	isPoolChan := func(v ssa.Value) bool {
		return hasOrigin(v, func(o string) bool { return o == "field:"+typ+"."+field })
	}
	n := 0
	for _, m := range c.subjects() {
		if m.Parent() != nil || !strings.HasPrefix(fnKey(m), typ+".") {
			continue
		}
		recvs := receivesFromField(m, typ+"."+field)
		if len(recvs) == 0 {
			continue
		}
		// Close drains the pool on purpose
		if m.Name() == "Close" {
			continue
		}
		n++
		key := fnKey(m) + ":pool-returned"
		deferred := false
		instrs(m, func(_ *ssa.BasicBlock, _ int, ins ssa.Instruction) {
			if d, ok := ins.(*ssa.Defer); ok && ins.Parent() == m {
				if mc, ok := d.Call.Value.(*ssa.MakeClosure); ok {
					if f, ok := mc.Fn.(*ssa.Function); ok {
						for _, b := range f.Blocks {
							for _, i2 := range b.Instrs {
								if s, ok := i2.(*ssa.Send); ok && isPoolChan(s.Chan) {
									deferred = true
								}
							}
						}
					}
				}
			}
		})
		if deferred {
			c.ok(key, m.Pos(), "the session is given back by a deferred send")
			continue
		}
		bad := ""
		for _, rv := range recvs {
			ri, ok := rv.(ssa.Instruction)
			if !ok {
				continue
			}
			type pt struct {
				b *ssa.BasicBlock
				i int
			}
			seen := map[pt]bool{}
			work := []pt{{ri.Block(), instrIndex(ri) + 1}}
			for len(work) > 0 && bad == "" {
				p := work[len(work)-1]
				work = work[:len(work)-1]
				if seen[p] {
					continue
				}
				seen[p] = true
				stopped := false
				for k := p.i; k < len(p.b.Instrs); k++ {
					switch x := p.b.Instrs[k].(type) {
					case *ssa.Send:
						if isPoolChan(x.Chan) {
							stopped = true
						}
					case *ssa.Return:
						bad = c.pos(x.Pos())
						stopped = true
					case *ssa.Panic:
						stopped = true
					}
					if stopped {
						break
					}
				}
				if !stopped {
					for _, s := range p.b.Succs {
						work = append(work, pt{s, 0})
					}
				}
			}
		}
		c.verdict(bad == "", key, m.Pos(), "the session is sent back to the pool on every path to a return",
			"the return at "+bad+" is reachable from the receive without the session having been sent back to the pool: each such return shrinks the pool, and once it is empty every request on this store (and Close) blocks for ever")
	}
	if n == 0 {
		c.bad(typ+":pool-returned", 0, "no method of %s takes a session from %s", typ, field)
	}
}

// lockHandOff recognises a new helper that takes a lock and hands the release to its caller:
// "func (s *T) acquire() (V, func()) { s.mu.RLock(); return s.v, s.mu.RUnlock }".  It returns the
// lock (in the helper's own terms) that is held at every return, and the index of the result
// that is the bound release method of that same mutex.
var handOffBusy = map[*ssa.Function]bool{}

func lockHandOff(h *ssa.Function) (held lockOp, releaseIdx int, ok bool) {
	if h == nil || !newHelpers[h] || h.Blocks == nil || handOffBusy[h] {
		return lockOp{}, 0, false
	}
	handOffBusy[h] = true
	defer delete(handOffBusy, h)
	rets := returnsOf(h)
	if len(rets) == 0 {
		return lockOp{}, 0, false
	}
	releaseIdx = -1
	for _, r := range rets {
		found := false
		for i, res := range r.Results {
			mc, isMC := unspill(r, res).(*ssa.MakeClosure)
			if !isMC || len(mc.Bindings) != 1 {
				continue
			}
			f, isF := mc.Fn.(*ssa.Function)
			if !isF {
				continue
			}
			var op lockOp
			switch {
			case strings.HasSuffix(f.Name(), "RUnlock$bound"):
				op = lockOp{acquire: true}
			case strings.HasSuffix(f.Name(), "Unlock$bound"):
				op = lockOp{acquire: true, write: true}
			default:
				continue
			}
			op.key = lockKey(mc.Bindings[0])
			if releaseIdx >= 0 && (releaseIdx != i || held.key != op.key || held.write != op.write) {
				return lockOp{}, 0, false
			}
			held, releaseIdx, found = op, i, true
		}
		if !found {
			return lockOp{}, 0, false
		}
	}
	// the lock is held at every return
	lf := analyseLocks(h)
	for _, r := range rets {
		if !lf.must[r][lockName(held)] {
			return lockOp{}, 0, false
		}
	}
	return held, releaseIdx, true
}

// handedOffRelease: v is the release function a hand-off helper returned (possibly through a
// local variable): the lock it releases.
func handedOffRelease(v ssa.Value) (lockOp, bool) {
	ex, ok := v.(*ssa.Extract)
	if !ok {
		return lockOp{}, false
	}
	call, ok := ex.Tuple.(*ssa.Call)
	if !ok {
		return lockOp{}, false
	}
	held, idx, ok := lockHandOff(directCallee(call))
	if !ok || idx != ex.Index {
		return lockOp{}, false
	}
	held.acquire = false
	return held, true
}

// sharedScratchWrites: appending to (or storing through) a slice that is kept in a field of an
// object shared between goroutines writes the shared backing array.  Where the object has a
// mutex, such a write needs it held exclusively - a read lock is shared, so two readers that both
// build "their" list in the same scratch space overwrite each other's entries.
func (c *Ctx) sharedScratchWrites(typ, mutex string) {
	n := 0
	for _, fn := range c.libFuncsAll() {
		if !strings.HasPrefix(fnKey(topOf(fn)), typ+".") {
			continue
		}
		var lf *lockFlow
		for _, b := range fn.Blocks {
			for _, ins := range b.Instrs {
				call, ok := ins.(*ssa.Call)
				if !ok || callee(call) != "builtin:append" {
					continue
				}
				// the slice appended to derives from a field of the receiver
				target := call.Call.Args[0]
				field := ""
				for _, l := range leaves(stripSlices(target)) {
					l = stripSlices(l)
					if u, ok := l.(*ssa.UnOp); ok && u.Op == token.MUL {
						if fa, ok := u.X.(*ssa.FieldAddr); ok && strings.HasPrefix(fieldOf(fa), typ+".") {
							field = fieldOf(fa)
						}
					}
				}
				if field == "" {
					continue
				}
				n++
				if lf == nil {
					lf = analyseLocks(fn)
				}
				held := lf.must[ins]
				c.verdict(holds(held, "."+mutex, true), fmt.Sprintf("%s:append-to-%s", fnKey(fn), field), ins.Pos(), "the shared slice is appended to with the mutex held exclusively",
					fmt.Sprintf("append writes into the backing array of %s, shared by all users of the object, without holding %s exclusively (held: %s): concurrent callers overwrite each other's entries", field, mutex, held))
				// what was put into the shared backing array is read back only while the mutex is
				// still held: after the unlock the next caller starts overwriting it
				seenV := map[ssa.Value]bool{}
				var uses []ssa.Instruction
				var follow func(v ssa.Value, depth int)
				follow = func(v ssa.Value, depth int) {
					if depth > 6 || seenV[v] || v.Referrers() == nil {
						return
					}
					seenV[v] = true
					for _, r := range *v.Referrers() {
						switch x := r.(type) {
						case *ssa.Phi:
							follow(x, depth+1)
						case *ssa.Slice:
							follow(x, depth+1)
						case *ssa.IndexAddr:
							uses = append(uses, x)
						case *ssa.Index:
							uses = append(uses, x)
						}
					}
				}
				follow(call, 0)
				for _, u := range uses {
					if u.Parent() != fn {
						continue
					}
					hu := lf.must[u]
					if !holds(hu, "."+mutex, false) {
						c.bad(fmt.Sprintf("%s:read-of-%s", fnKey(fn), field), u.Pos(), "the list built in the backing array of %s (shared by all users of the object) is read at %s without %s held (held: %s): once the lock is dropped the next caller overwrites the entries, this one then works on the other's list", field, c.pos(u.Pos()), mutex, hu)
						break
					}
				}
			}
		}
	}
	c.ok(typ+":shared-scratch", 0, "%d append(s) to slices kept in %s fields, all under the exclusive lock", n, typ)
}

// lockNotCopied: an object whose field is guarded by a mutex of the same object must never be
// copied - a method with a value receiver (or a by-value parameter, or a load of the whole
// struct) works on a private copy of the mutex and of the guarded field: the critical section
// excludes nobody and the field it reads is stale.  (go vet's copylocks says the same; the
// project's suite runs with -vet=off.)
func (c *Ctx) lockNotCopied(structName string) {
	if c.copyChecked == nil {
		c.copyChecked = map[string]bool{}
	}
	if c.copyChecked[c.curRule+"/"+structName] {
		return
	}
	c.copyChecked[c.curRule+"/"+structName] = true
	var contains func(t types.Type, depth int) bool
	contains = func(t types.Type, depth int) bool {
		if depth > 6 {
			return false
		}
		if n, ok := t.(*types.Named); ok && n.Obj().Name() == structName && n.Obj().Pkg() != nil && strings.HasSuffix(n.Obj().Pkg().Path(), "desync") {
			return true
		}
		switch u := t.Underlying().(type) {
		case *types.Struct:
			for i := 0; i < u.NumFields(); i++ {
				if contains(u.Field(i).Type(), depth+1) {
					return true
				}
			}
		case *types.Array:
			return contains(u.Elem(), depth+1)
		}
		return false
	}
	sites := 0
	for _, fn := range c.Funcs {
		if fn.Synthetic != "" || fn.Blocks == nil {
			continue
		}
		for _, p := range fn.Params {
			sites++
			if contains(p.Type(), 0) {
				what := "parameter"
				if fn.Signature.Recv() != nil && p == fn.Params[0] {
					what = "receiver"
				}
				c.bad(structName+":not-copied@"+fnKey(fn), fn.Pos(), "%s %s of %s holds a %s by value: the function locks a private copy of the mutex and reads a stale copy of the guarded state, it excludes nobody", what, p.Name(), fnKey(fn), structName)
			}
		}
		instrs(fn, func(_ *ssa.BasicBlock, _ int, ins ssa.Instruction) {
			if u, ok := ins.(*ssa.UnOp); ok && u.Op == token.MUL && contains(u.Type(), 0) {
				sites++
				c.bad(structName+":not-copied@"+fnKey(fn), u.Pos(), "a %s is copied by value in %s (load of the whole struct): the copy carries its own mutex and a stale copy of the guarded state", structName, fnKey(fn))
			}
		})
	}
	c.ok(structName+":not-copied", token.NoPos, "no value receiver, by-value parameter or whole-struct load of a type holding a %s in %d parameter and load sites", structName, sites)
}
