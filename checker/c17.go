package main

import (
	"fmt"
	"go/token"
	"strings"

	"golang.org/x/tools/go/ssa"
)

func init() {
	register(&property{
		ID: "C17",
		Explanation: "C17.length: the first worker of VerifyIndex is started only on paths that found stat.Size() equal to idx.Length() or the target to be a device; the unequal edge returns an error. " +
			"C17.batches-tile: the feeder sends idx.Chunks[i:hi] with i starting at 0, running while i < len(idx.Chunks), where every alternative of hi is either the next value of i (no gap) or len(idx.Chunks) (clamped last batch) - linear identities over the SSA form. " +
			"C17.rehash-all: the worker hands the whole received batch to newFileSeedSegment and validates it; fileSeedSegment.Validate loops over the whole of s.chunks, every iteration passes the hash-equal edge for a buffer of c.Size bytes read at c.Start, nil is returned only after the loop. " +
			"C17.errgroup / C17.worker-errors: workers under errgroup, success only through g.Wait(), a failed validation fails the worker. C17.cancel-not-success: a cancelled verification never returns nil.",
		NotDecided: "the iff for concrete files (that equal hashes imply equal bytes is the hash function's property); I/O behaviour of the file system.",
		Rules: []rule{
			{"C17.length", "verification starts only after the length comparison (or for devices)", 1, c17Length},
			{"C17.batches-tile", "batches cover every chunk index from 0 to len-1 without gaps", 4, c17Batches},
			{"C17.rehash-all", "every chunk of every batch is re-hashed", 5, c17RehashAll},
			{"C17.segment-keeps-all", "a file segment keeps the whole chunk list it was built from", 2, c17SegmentKeepsAll},
			{"C17.errgroup", "workers under errgroup; success only through g.Wait()", 1, func(c *Ctx) { c.errgroupRule("VerifyIndex") }},
			{"C17.cancel-not-success", "a cancelled verify-index never reports success", 1, func(c *Ctx) { c.doneIsErrorFor("VerifyIndex") }},
			{"C17.workers-started", "every loop that starts pool workers starts one per unit of the worker count (none is skipped for n == 1)", 6, func(c *Ctx) { c.workersStarted() }},
			{"C17.feeder-watches-group", "the select that feeds pool workers watches the errgroup context, so a failed worker stops the feeder", 5, func(c *Ctx) { c.feederWatchesGroup() }},
			{"C17.errors-not-dropped", "no error of the operations this property depends on is dropped", 1, func(c *Ctx) { c.errorsNotDropped("C17") }},
		},
	})
}

func c17Length(c *Ctx) {
	fn := c.mustFn("VerifyIndex")
	if fn == nil {
		return
	}
	var bad []string
	reached := 0
	isSize := originHas("FileInfo).Size#0")
	isLen := originHas("desync.Index).Length#0")
	h := &Hooks{
		Fork: func(st *State, call *ssa.Call) []map[int]Val {
			if callee(call) == "desync.isDevice" {
				return []map[int]Val{{0: {B: BTrue, Sym: "dev:yes"}}, {0: {B: BFalse, Sym: "dev:no"}}}
			}
			return nil
		},
		Branch: func(st *State, iff *ssa.If, taken bool) {
			eqOnTrue, ok := equalEdge(iff, isSize, isLen)
			if !ok {
				return
			}
			if taken == eqOnTrue {
				st.Flags["size-equal"] = 1
			} else {
				st.Flags["size-unequal"] = 1
			}
		},
		Call: func(st *State, call *ssa.Call) map[int]Val {
			if callee(call) == egGo && st.Flags["go"] == 0 {
				st.Flags["go"] = 1
				reached++
				dev := outcomeSeq(st, "dev")
				isDev := len(dev) > 0 && dev[len(dev)-1] == "yes"
				if st.Flags["size-equal"] != 1 && !isDev {
					bad = append(bad, "verification starts on a path that neither found the file size equal to the indexed length nor the target to be a device: a truncated or extended file could be accepted")
				}
			}
			return nil
		},
		Return: func(st *State, ret *ssa.Return, results []Val) {
			if st.Flags["size-unequal"] == 1 && st.Flags["go"] == 0 && results[0].N != NNon {
				bad = append(bad, "a size mismatch does not return an error")
			}
		},
		Stop: func(st *State) bool { return st.Flags["go"] == 1 },
	}
	Explore(fn, fn.Blocks[0], 0, nil, NewState(), h)
	c.paths += h.Paths
	if reached == 0 {
		bad = append(bad, "no worker start reachable")
	}
	c.report("VerifyIndex:length", fn, bad, fmt.Sprintf("%d path(s) to the first worker start, each through size==length or the device edge", reached))
	// the exemption is for devices only and the size is that of the file the data is read from:
	// isDevice tests the ModeDevice bit (a wider test such as "not regular" also exempts symlinks,
	// fifos and sockets), and the mode and size come from os.Stat, which follows links like the
	// os.Open that reads the data (an Lstat would see the link's own mode and size)
	if dv := c.mustFn("isDevice"); dv != nil {
		okD := false
		why := "no return found"
		want, _ := c.importedConst("os", "ModeDevice")
		for _, r := range returnsOf(dv) {
			cm, truth, ok := cmpOf(unspill(r, r.Results[0]))
			okD = false
			why = "the result is not a comparison of mode & os.ModeDevice with 0"
			if ok && (cm.op == token.NEQ || cm.op == token.EQL) {
				if and, isAnd := stripConv(cm.x).(*ssa.BinOp); isAnd && and.Op == token.AND {
					if k, isK := and.Y.(*ssa.Const); isK && k.Value != nil && k.Value.ExactString() == want {
						// mode&K != 0, or (K being a single bit) mode&K == K; in either polarity
						// the result must be true exactly when the bit is set
						if z, isZ := cm.y.(*ssa.Const); isZ && z.Value != nil {
							switch {
							case constInt64(z) == 0:
								okD = (cm.op == token.NEQ) == truth
							case z.Value.ExactString() == want:
								okD = (cm.op == token.EQL) == truth
							}
							if !okD {
								why = "the result is true when the ModeDevice bit is clear"
							}
						}
					}
				}
			}
			if !okD {
				break
			}
		}
		c.verdict(okD, "isDevice:mode-bit", dv.Pos(), "isDevice is the ModeDevice bit test", "isDevice is not the plain ModeDevice bit test ("+why+"): the length check of verify-index (and the sizing of extract) is skipped for things that are not devices")
	}
	nStat := 0
	for _, call := range callsAll(fn, named("os.Stat", "os.Lstat", "(*os.File).Stat")) {
		nStat++
		c.verdict(callee(call) != "os.Lstat", "VerifyIndex:stat-follows-links", call.Pos(), "mode and size are taken with a call that follows symbolic links",
			"VerifyIndex looks at the file with os.Lstat: for a symlinked data file it sees the link's own mode and size, not those of the file whose bytes it verifies")
	}
	if nStat == 0 {
		c.bad("VerifyIndex:stat-follows-links", fn.Pos(), "VerifyIndex does not stat the file")
	}
}

// alternatives expands non-loop phis and '+ const' into the list of linear forms a value can take.
func alternatives(v ssa.Value, atom func(ssa.Value) string, depth int) []linform {
	switch x := v.(type) {
	case *ssa.Phi:
		if depth < 3 && !isLoopPhi(x) {
			var out []linform
			for _, e := range x.Edges {
				out = append(out, alternatives(e, atom, depth+1)...)
			}
			return out
		}
	case *ssa.BinOp:
		if depth < 3 && (x.Op == token.ADD || x.Op == token.SUB) {
			var out []linform
			for _, a := range alternatives(x.X, atom, depth+1) {
				for _, b := range alternatives(x.Y, atom, depth+1) {
					if x.Op == token.ADD {
						out = append(out, a.add(b, 1))
					} else {
						out = append(out, a.add(b, -1))
					}
				}
			}
			return out
		}
	case *ssa.Convert:
		return alternatives(x.X, atom, depth)
	case *ssa.Call:
		// min(a, b) / max(a, b) is one of its operands
		if n := callee(x); depth < 3 && (n == "builtin:min" || n == "builtin:max") {
			var out []linform
			for _, a := range x.Call.Args {
				out = append(out, alternatives(a, atom, depth+1)...)
			}
			return out
		}
	}
	return []linform{atomForm(v, atom)}
}

// atomForm: the linear form of a leaf - single-assignment locals and captured variables are looked
// through ("chunksNum := len(idx.Chunks)", also when a closure captures it); loop counters keep
// their identity.
func atomForm(v ssa.Value, atom func(ssa.Value) string) linform {
	if p, ok := v.(*ssa.Phi); ok && isLoopPhi(p) {
		return linform{atoms: map[string]int{atom(v): 1}, ok: true}
	}
	lf := linearB(v, 0)
	// rename the atoms of interest
	out := linform{atoms: map[string]int{}, k: lf.k, ok: lf.ok}
	for a, n := range lf.atoms {
		if a == "len(Index.Chunks)" {
			a = "len(chunks)"
		}
		out.atoms[a] += n
	}
	return out
}

// isLoopPhi: one of the phi's operands depends on the phi itself (a loop-carried variable).
func isLoopPhi(p *ssa.Phi) bool {
	seen := map[ssa.Value]bool{}
	var dep func(v ssa.Value, d int) bool
	dep = func(v ssa.Value, d int) bool {
		if v == ssa.Value(p) {
			return true
		}
		if d > 6 || seen[v] {
			return false
		}
		seen[v] = true
		switch x := v.(type) {
		case *ssa.BinOp:
			return dep(x.X, d+1) || dep(x.Y, d+1)
		case *ssa.Phi:
			for _, e := range x.Edges {
				if dep(e, d+1) {
					return true
				}
			}
		case *ssa.Convert:
			return dep(x.X, d+1)
		}
		return false
	}
	for _, e := range p.Edges {
		if dep(e, 0) {
			return true
		}
	}
	return false
}

func c17Batches(c *Ctx) {
	fn := c.mustFn("VerifyIndex")
	if fn == nil {
		return
	}
	// the slice that is sent to the workers
	var sl *ssa.Slice
	instrsAll(fn, func(_ *ssa.BasicBlock, _ int, ins ssa.Instruction) {
		sel, ok := ins.(*ssa.Select)
		if !ok {
			return
		}
		for _, s := range sel.States {
			if s.Send == nil {
				continue
			}
			if x, ok := s.Send.(*ssa.Slice); ok && hasOrigin(x.X, func(o string) bool { return o == "field:Index.Chunks" }) {
				sl = x
			}
		}
	})
	if sl == nil {
		c.bad("VerifyIndex:batch-slice", fn.Pos(), "the feeder does not send sub-slices of idx.Chunks to the workers")
		return
	}
	atom := func(v ssa.Value) string {
		if call, ok := v.(*ssa.Call); ok && callee(call) == "builtin:len" && hasOrigin(call.Call.Args[0], func(o string) bool { return o == "field:Index.Chunks" }) {
			return "len(chunks)"
		}
		return fmt.Sprintf("%s@%p", v.Name(), v)
	}
	// Low: the loop counter
	iPhi, ok := sl.Low.(*ssa.Phi)
	if !ok || !isLoopPhi(iPhi) {
		c.bad("VerifyIndex:batch-low", sl.Pos(), "the lower bound of the batch is not the loop counter")
		return
	}
	var next ssa.Value
	startOK := false
	for _, e := range iPhi.Edges {
		if k0, isK := e.(*ssa.Const); isK {
			if constInt64(k0) == 0 {
				startOK = true
			}
			continue
		}
		next = e
	}
	c.verdict(startOK, "VerifyIndex:batch-start", iPhi.Pos(), "the first batch starts at index 0", "the first batch does not start at index 0: leading chunks are never verified")
	if next == nil {
		c.bad("VerifyIndex:batch-step", sl.Pos(), "the loop counter is never advanced")
		return
	}
	nextAlts := alternatives(next, atom, 0)
	lenForm := linform{atoms: map[string]int{"len(chunks)": 1}, ok: true}
	// High alternatives
	okTile := sl.High != nil
	why := ""
	if sl.High != nil {
		for _, hAlt := range alternatives(sl.High, atom, 0) {
			if hAlt.equal(lenForm) {
				continue
			}
			matched := false
			for _, n := range nextAlts {
				if hAlt.equal(n) {
					matched = true
				}
			}
			if !matched {
				okTile = false
				why = fmt.Sprintf("upper bound %s is neither the next start %v nor len(chunks)", hAlt, nextAlts)
			}
		}
	} else {
		why = "open-ended slice"
	}
	c.verdict(okTile, "VerifyIndex:batch-no-gap", sl.Pos(), "every batch ends where the next one starts, or at len(idx.Chunks)", "consecutive batches leave a gap: "+why+" - the chunks in between are never hashed")
	// the loop runs while i < len(chunks)
	hdr := iPhi.Block()
	condOK := false
	if iff := lastIf(hdr); iff != nil {
		cm, truth, ok := cmpOf(iff.Cond)
		if ok && truth && cm.op == token.LSS && cm.x == ssa.Value(iPhi) && atomForm(cm.y, atom).equal(lenForm) {
			condOK = true
		}
		if ok && truth && cm.op == token.GTR && cm.y == ssa.Value(iPhi) && atomForm(cm.x, atom).equal(lenForm) {
			condOK = true
		}
	}
	c.verdict(condOK, "VerifyIndex:batch-until-end", hdr.Instrs[0].Pos(), "the feeder loops while i < len(idx.Chunks)", "the feeder does not run while i < len(idx.Chunks): trailing chunks (a partial last batch) are never verified")
	// progress: next > i
	progress := false
	for _, n := range nextAlts {
		d := n.add(linform{atoms: map[string]int{atom(iPhi): 1}, ok: true}, -1)
		if d.ok && d.k >= 1 {
			progress = true
			for _, v := range d.atoms {
				if v < 0 {
					progress = false
				}
			}
		}
	}
	c.verdict(progress, "VerifyIndex:batch-progress", sl.Pos(), "each iteration advances by at least one chunk", "the feeder may not advance")
}

func c17RehashAll(c *Ctx) {
	fn := c.mustFn("VerifyIndex")
	if fn == nil {
		return
	}
	for _, w := range c.workerClosures(fn) {
		// where the worker builds its segment: a call of the constructor, or the composite literal
		// written out (a store to the chunks field of a fileSeedSegment of its own)
		type segSite struct {
			at     ssa.Instruction
			chunks ssa.Value
			obj    ssa.Value // the segment: the constructor's result or the literal's storage
		}
		var segs []segSite
		for _, cs := range calls(w, named("desync.newFileSeedSegment")) {
			segs = append(segs, segSite{cs.(ssa.Instruction), cs.Common().Args[1], cs.Value()})
		}
		for _, g := range fnsDeep(w) {
			instrs(g, func(_ *ssa.BasicBlock, _ int, ins ssa.Instruction) {
				if st, ok := ins.(*ssa.Store); ok && ins.Parent() == g {
					if fa, ok := st.Addr.(*ssa.FieldAddr); ok && fieldOf(fa) == "fileSeedSegment.chunks" && fnKey(g) != "newFileSeedSegment" {
						segs = append(segs, segSite{st, st.Val, fa.X})
					}
				}
			})
		}
		if len(segs) != 1 {
			c.bad("VerifyIndex.worker:segment", w.Pos(), "the worker does not build exactly one fileSeedSegment per batch")
			continue
		}
		chunksVal := segs[0].chunks
		whole := onlyOrigins(chunksVal, func(o string) bool {
			return strings.HasPrefix(o, "recv:") || o == "next" || strings.HasPrefix(o, "tuple:")
		}) && !hasOrigin(chunksVal, func(o string) bool { return o == "subslice" })
		c.verdict(whole, "VerifyIndex.worker:whole-batch", segs[0].at.Pos(), "the whole received batch becomes the segment", fmt.Sprintf("the segment is not the whole received batch (origins %v)", origins(chunksVal)))
		vals := calls(w, suffixed("fileSeedSegment).Validate"))
		okV := false
		if len(vals) == 1 {
			recv := vals[0].Common().Args[0]
			if hasOrigin(recv, func(o string) bool { return o == "call:desync.newFileSeedSegment#0" }) {
				okV = true
			}
			for _, l := range leaves(recv) {
				if segs[0].obj != nil && l == segs[0].obj {
					okV = true
				}
			}
			if recv == segs[0].obj {
				okV = true
			}
		}
		c.verdict(okV, "VerifyIndex.worker:validates", w.Pos(), "the segment is validated", "the segment built from the batch is not validated")
		sites, bad := errPropagates(c, w, func(name string, _ *ssa.Call) bool { return strings.HasSuffix(name, "fileSeedSegment).Validate") }, errPropOpts{maxVisits: 3})
		if len(bad) > 0 || sites == 0 {
			c.bad("VerifyIndex.worker:errors", w.Pos(), "a failed validation does not fail the worker: %v", bad)
		} else {
			c.ok("VerifyIndex.worker:errors", w.Pos(), "a failed validation fails the worker")
		}
	}
	c.validateRehashAll("C17")
}

// c17SegmentKeepsAll: VerifyIndex hands each batch to newFileSeedSegment and validates the
// segment; Validate ranges over the segment's own chunk list.  The constructor must therefore keep
// exactly the list it was given: the value stored in fileSeedSegment.chunks is the parameter
// itself, not a re-slice of it (a cap meant for copy segments would silently exempt the rest of
// every large batch from verification).
func c17SegmentKeepsAll(c *Ctx) {
	n := 0
	for _, fn := range c.subjects() {
		instrs(fn, func(_ *ssa.BasicBlock, _ int, ins ssa.Instruction) {
			st, ok := ins.(*ssa.Store)
			if !ok {
				return
			}
			fa, ok := st.Addr.(*ssa.FieldAddr)
			if !ok || fieldOf(fa) != "fileSeedSegment.chunks" {
				return
			}
			n++
			// the rule is about a constructor (a function that is handed the list): a composite
			// literal written at the place of use stores what that place has, nothing is cut there
			ctor := false
			for _, l := range leaves(st.Val) {
				if _, isP := stripSlices(l).(*ssa.Parameter); isP {
					ctor = true
				}
			}
			if !ctor && fnKey(topOf(fn)) != "newFileSeedSegment" {
				c.info(fnKey(fn)+":fileSeedSegment.chunks", ins.Pos(), "segment literal at the place of use")
				return
			}
			whole := true
			why := ""
			for _, l := range leaves(st.Val) {
				switch x := l.(type) {
				case *ssa.Parameter:
				case *ssa.Slice:
					if x.Low != nil || x.High != nil {
						whole, why = false, "a sub-slice"
					} else if _, isP := stripSlices(x).(*ssa.Parameter); !isP {
						whole, why = false, "not the parameter"
					}
				default:
					whole, why = false, fmt.Sprintf("%T", l)
				}
			}
			c.verdict(whole, fnKey(fn)+":fileSeedSegment.chunks", ins.Pos(), "the segment keeps the whole chunk list it was given",
				"the segment does not keep the whole chunk list it was given ("+why+"): Validate (and with it verify-index) never looks at the chunks that were cut off")
		})
	}
	if n == 0 {
		c.bad("fileSeedSegment.chunks", 0, "no construction of fileSeedSegment found")
	}
	// VerifyIndex validates segments built from the batch it received
	if fn := c.mustFn("VerifyIndex"); fn != nil {
		okB := false
		// in VerifyIndex itself, its closures and helpers, or a worker type declared next to it
		// ("g.Go(w.run)"): any function of the same source file
		file := c.Fset.Position(fn.Pos()).Filename
		for _, g := range c.libFuncsAll() {
			if c.Fset.Position(g.Pos()).Filename != file {
				continue
			}
			if len(calls(g, named("desync.newFileSeedSegment"))) > 0 {
				okB = true
			}
			instrs(g, func(_ *ssa.BasicBlock, _ int, ins ssa.Instruction) {
				if st, ok := ins.(*ssa.Store); ok {
					if fa, ok := st.Addr.(*ssa.FieldAddr); ok && fieldOf(fa) == "fileSeedSegment.chunks" {
						okB = true
					}
				}
			})
		}
		c.verdict(okB, "VerifyIndex:segment-from-batch", fn.Pos(), "each batch is validated through a fileSeedSegment", "VerifyIndex no longer validates its batches through newFileSeedSegment")
	}
}
