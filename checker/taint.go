package main

// E-TAINT: forward propagation of "comes from untrusted input" over the SSA form of the
// library package, context-insensitive, field-insensitive for local struct cells.

import (
	"go/token"
	"strings"

	"golang.org/x/tools/go/ssa"
)

type taintResult struct {
	val     map[ssa.Value]bool
	cell    map[ssa.Value]bool // tainted local cells (Alloc)
	sources int
}

func isTaintSource(call *ssa.Call) []int {
	switch callee(call) {
	case "(desync.reader).ReadUint64":
		return []int{0}
	case "(desync.reader).ReadHeader":
		return []int{0}
	case "(encoding/binary.littleEndian).Uint64", "(encoding/binary.littleEndian).Uint32", "(encoding/binary.bigEndian).Uint64":
		return []int{0}
	}
	return nil
}

// baseAlloc returns the local cell an address is based on (through field/index selections).
func baseAlloc(v ssa.Value) *ssa.Alloc {
	for i := 0; i < 6; i++ {
		switch x := v.(type) {
		case *ssa.Alloc:
			return x
		case *ssa.FieldAddr:
			v = x.X
		case *ssa.IndexAddr:
			v = x.X
		default:
			return nil
		}
	}
	return nil
}

// computeTaint runs the propagation to a fixed point over the given functions.
func computeTaint(c *Ctx, fns []*ssa.Function) *taintResult {
	t := &taintResult{val: map[ssa.Value]bool{}, cell: map[ssa.Value]bool{}}
	inSet := map[*ssa.Function]bool{}
	for _, f := range fns {
		inSet[f] = true
	}
	retTainted := map[*ssa.Function]map[int]bool{}
	srcSeen := map[*ssa.Call]bool{}
	changed := true
	mark := func(v ssa.Value) {
		if !t.val[v] {
			t.val[v] = true
			changed = true
		}
	}
	for iter := 0; changed && iter < 30; iter++ {
		changed = false
		for _, f := range fns {
			instrs(f, func(_ *ssa.BasicBlock, _ int, ins ssa.Instruction) {
				switch x := ins.(type) {
				case *ssa.Call:
					if idx := isTaintSource(x); idx != nil {
						if !srcSeen[x] {
							srcSeen[x] = true
							t.sources++
						}
						if x.Call.Signature().Results().Len() == 1 {
							mark(x)
						} else {
							// tuple: mark the extracts
							for _, r := range *x.Referrers() {
								if ex, ok := r.(*ssa.Extract); ok {
									for _, i := range idx {
										if ex.Index == i {
											mark(ex)
										}
									}
								}
							}
						}
						return
					}
					// arguments -> parameters of in-set callees; returns -> results
					if cal := c.staticFn(x); cal != nil && inSet[cal] {
						for i, a := range x.Call.Args {
							if t.val[a] && i < len(cal.Params) {
								mark(cal.Params[i])
							}
						}
						if rt := retTainted[cal]; rt != nil {
							if x.Call.Signature().Results().Len() == 1 && rt[0] {
								mark(x)
							}
							for _, r := range *x.Referrers() {
								if ex, ok := r.(*ssa.Extract); ok && rt[ex.Index] {
									mark(ex)
								}
							}
						}
					}
					if callee(x) == "builtin:len" || callee(x) == "builtin:cap" {
						return // the length of what was actually read is proportional to the input
					}
				case *ssa.BinOp:
					if t.val[x.X] || t.val[x.Y] {
						switch x.Op {
						case token.EQL, token.NEQ, token.LSS, token.LEQ, token.GTR, token.GEQ:
						default:
							mark(x)
						}
					}
				case *ssa.UnOp:
					if x.Op == token.MUL {
						if a := baseAlloc(x.X); a != nil && t.cell[a] {
							mark(x)
						}
						if t.val[x.X] {
							mark(x)
						}
					} else if t.val[x.X] {
						mark(x)
					}
				case *ssa.Convert:
					if t.val[x.X] {
						mark(x)
					}
				case *ssa.ChangeType:
					if t.val[x.X] {
						mark(x)
					}
				case *ssa.Phi:
					for _, e := range x.Edges {
						if t.val[e] {
							mark(x)
						}
					}
				case *ssa.Field:
					if t.val[x.X] {
						mark(x)
					}
				case *ssa.Extract:
					// handled at the call
				case *ssa.Store:
					if t.val[x.Val] {
						if a := baseAlloc(x.Addr); a != nil && !t.cell[a] {
							t.cell[a] = true
							changed = true
						}
					}
				case *ssa.Return:
					for i, r := range x.Results {
						if t.val[r] {
							if retTainted[f] == nil {
								retTainted[f] = map[int]bool{}
							}
							if !retTainted[f][i] {
								retTainted[f][i] = true
								changed = true
							}
						}
					}
				}
			})
		}
	}
	return t
}

// locKey names the memory location or value an integer expression reads, so that separate
// loads of the same struct field (no CSE in go/ssa) are recognised as the same quantity.
func locKey(v ssa.Value) string {
	switch x := v.(type) {
	case *ssa.UnOp:
		if x.Op == token.MUL {
			return "load:" + lockKey(x.X)
		}
	case *ssa.Field:
		return "field:" + lockKey(x)
	case *ssa.Convert:
		return locKey(x.X)
	case *ssa.ChangeType:
		return locKey(x.X)
	case *ssa.Call:
		if callee(x) == "builtin:len" {
			return "len(" + locKey(x.Call.Args[0]) + ")"
		}
	}
	return lockKey(v)
}

// linearLoc is linear() with atoms named by location.
func linearLoc(v ssa.Value) linform {
	return linear(v, func(a ssa.Value) string { return locKey(a) }, 0)
}

// lowerBound tries to prove a constant lower bound for the value of expr at instruction at:
// expr = X - Y (or just X), with a dominating guard "X >= Z" (edge of a comparison of the same
// location X), gives expr >= Z - Y when that difference is a constant.
func lowerBound(fn *ssa.Function, at ssa.Instruction, expr ssa.Value) (int64, bool) {
	a, okA := lowerBoundLoc(fn, at, expr)
	b, okB := provenLower(at, expr)
	switch {
	case okA && okB:
		if b > a {
			return b, true
		}
		return a, true
	case okB:
		return b, true
	}
	return a, okA
}

func lowerBoundLoc(fn *ssa.Function, at ssa.Instruction, expr ssa.Value) (int64, bool) {
	e := linearLoc(expr)
	if !e.ok {
		return 0, false
	}
	// constants
	if len(nonZero(e.atoms)) == 0 {
		return e.k, true
	}
	best, found := int64(0), false
	for _, b := range fn.Blocks {
		iff := lastIf(b)
		if iff == nil {
			continue
		}
		cm, truth, ok := cmpOf(iff.Cond)
		if !ok {
			continue
		}
		// normalise to "L >= R holds on edge"
		var L, R ssa.Value
		var strict bool
		var onTrue bool
		switch cm.op {
		case token.LSS: // x < z : on false edge x >= z
			L, R, onTrue = cm.x, cm.y, !truth
		case token.GEQ:
			L, R, onTrue = cm.x, cm.y, truth
		case token.GTR: // x > z: on true edge x >= z+1 ; on false edge z >= x
			L, R, onTrue, strict = cm.x, cm.y, truth, true
		case token.LEQ: // x <= z : on false edge x > z
			L, R, onTrue, strict = cm.x, cm.y, !truth, true
		case token.NEQ: // x != K: on false edge x == K (>= K)
			L, R, onTrue = cm.x, cm.y, !truth
		case token.EQL:
			L, R, onTrue = cm.x, cm.y, truth
		default:
			continue
		}
		to := b.Succs[1]
		if onTrue {
			to = b.Succs[0]
		}
		// the edge must dominate 'at': the target block dominates at's block and is entered only from b
		if !(to.Dominates(at.Block()) && len(to.Preds) == 1) {
			continue
		}
		l, r := linearLoc(L), linearLoc(R)
		if !l.ok || !r.ok {
			continue
		}
		// fact: l - r >= s (s = 1 if strict). Want: e >= ?  If e - (l - r) is a constant c, then e >= c + s.
		d := e.add(l, -1).add(r, 1)
		if len(nonZero(d.atoms)) == 0 {
			s := int64(0)
			if strict {
				s = 1
			}
			v := d.k + s
			if !found || v > best {
				best, found = v, true
			}
		}
	}
	return best, found
}

func nonZero(m map[string]int) []string {
	var out []string
	for k, v := range m {
		if v != 0 {
			out = append(out, k)
		}
	}
	return out
}

var _ = strings.Contains
