package main

import (
	"encoding/json"
	"fmt"
	"go/ast"
	"go/token"
	"go/types"
	"os"
	"path/filepath"
	"sort"
	"strings"

	"golang.org/x/tools/go/packages"
	"golang.org/x/tools/go/ssa"
	"golang.org/x/tools/go/ssa/ssautil"
)

const libPath = "github.com/folbricht/desync"
const cmdPath = "github.com/folbricht/desync/cmd/desync"

// Ctx is the loaded program plus the obligations collected for the property being decided.
type Ctx struct {
	Repo       string
	Tier       string
	Config     string
	ConfigName string
	Fset       *token.FileSet
	Pkgs       []*packages.Package
	Lib        *packages.Package
	Cmd        *packages.Package
	Prog       *ssa.Program
	LibSSA     *ssa.Package
	CmdSSA     *ssa.Package
	Funcs      []*ssa.Function // every function, method and closure of the two packages
	byKey      map[string]*ssa.Function
	nFiles     int

	obs     []Obligation
	curRule string
	paths   int

	copyChecked map[string]bool
	deadErrs    *deadErrScan
	onlyCmds    map[string]bool // restricts c07CommandsPropagate to these commands (shared use)
}

func (c *Ctx) pkgPaths() []string {
	var out []string
	for _, p := range c.Pkgs {
		out = append(out, p.PkgPath)
	}
	return out
}

// load type-checks both packages of the repository from its current working tree and
// builds their SSA form.  Dependencies are taken from export data (their bodies are never
// needed: callees outside the repository are identified by their types.Func).
func load(repo, overlayFile string, extraEnv []string) (*Ctx, error) {
	abs, err := filepath.Abs(repo)
	if err != nil {
		return nil, err
	}
	env := append(os.Environ(), "GOFLAGS=-mod=mod", "GOPROXY=off", "GOSUMDB=off", "GOTOOLCHAIN=local", "GOWORK=off")
	var buildFlags []string
	for _, e := range extraEnv {
		if strings.HasPrefix(e, "-") {
			buildFlags = append(buildFlags, e)
		} else {
			env = append(env, e)
		}
	}
	cfg := &packages.Config{
		Mode:       packages.LoadSyntax | packages.NeedModule,
		Dir:        abs,
		Env:        env,
		BuildFlags: buildFlags,
		Tests:      false,
	}
	if overlayFile != "" {
		b, err := os.ReadFile(overlayFile)
		if err != nil {
			return nil, err
		}
		m := map[string]string{}
		if err := json.Unmarshal(b, &m); err != nil {
			return nil, err
		}
		cfg.Overlay = map[string][]byte{}
		for k, v := range m {
			if !filepath.IsAbs(k) {
				k = filepath.Join(abs, k)
			}
			cfg.Overlay[k] = []byte(v)
		}
	}
	pkgs, err := packages.Load(cfg, "./...")
	if err != nil {
		return nil, fmt.Errorf("load: %v", err)
	}
	c := &Ctx{Repo: abs, Pkgs: pkgs, byKey: map[string]*ssa.Function{}, Config: "linux/amd64 default tags"}
	if len(extraEnv) > 0 {
		c.Config = strings.Join(extraEnv, " ")
	}
	for _, p := range pkgs {
		if len(p.Errors) > 0 {
			return nil, fmt.Errorf("package %s does not type-check: %v", p.PkgPath, p.Errors[0])
		}
		switch p.PkgPath {
		case libPath:
			c.Lib = p
		case cmdPath:
			c.Cmd = p
		}
		c.nFiles += len(p.Syntax)
	}
	if c.Lib == nil || c.Cmd == nil {
		return nil, fmt.Errorf("expected packages %s and %s, loaded %d package(s)", libPath, cmdPath, len(pkgs))
	}
	c.Fset = c.Lib.Fset
	prog, spkgs := ssautil.Packages(pkgs, ssa.InstantiateGenerics)
	prog.Build()
	c.Prog = prog
	for i, p := range pkgs {
		switch p.PkgPath {
		case libPath:
			c.LibSSA = spkgs[i]
		case cmdPath:
			c.CmdSSA = spkgs[i]
		}
	}
	if c.LibSSA == nil || c.CmdSSA == nil {
		return nil, fmt.Errorf("SSA packages missing")
	}
	for _, sp := range []*ssa.Package{c.LibSSA, c.CmdSSA} {
		var fns []*ssa.Function
		for _, m := range sp.Members {
			switch m := m.(type) {
			case *ssa.Function:
				fns = append(fns, m)
			case *ssa.Type:
				for _, t := range []types.Type{m.Type(), types.NewPointer(m.Type())} {
					ms := prog.MethodSets.MethodSet(t)
					for i := 0; i < ms.Len(); i++ {
						if f := prog.MethodValue(ms.At(i)); f != nil && f.Pkg == sp && f.Synthetic == "" {
							fns = append(fns, f)
						}
					}
				}
			}
		}
		seen := map[*ssa.Function]bool{}
		var add func(f *ssa.Function)
		add = func(f *ssa.Function) {
			if seen[f] || f.Blocks == nil {
				return
			}
			seen[f] = true
			c.Funcs = append(c.Funcs, f)
			for _, a := range f.AnonFuncs {
				add(a)
			}
		}
		for _, f := range fns {
			add(f)
		}
	}
	sort.Slice(c.Funcs, func(i, j int) bool { return c.Funcs[i].Pos() < c.Funcs[j].Pos() })
	for _, f := range c.Funcs {
		c.byKey[fnKey(f)] = f
	}
	if len(c.Funcs) < 300 {
		return nil, fmt.Errorf("only %d functions found in the repository packages", len(c.Funcs))
	}
	c.resolveRoles()
	c.resolveKnown()
	return c, nil
}

// funcAlias maps a function that was found by its role to the name the rules know it under, so
// that renaming an internal helper does not make the rules lose their subject.
var funcAlias = map[*ssa.Function]string{}

// resolveRoles finds internal free functions by what they do when their usual name is absent.
func (c *Ctx) resolveRoles() {
	hasParam := func(f *ssa.Function, typ string) bool {
		for _, p := range f.Params {
			if typeName(p.Type()) == typ {
				return true
			}
		}
		return false
	}
	callsAll := func(f *ssa.Function, names ...string) bool {
		for _, n := range names {
			if len(calls(f, suffixed(n))) == 0 {
				return false
			}
		}
		return true
	}
	roles := map[string]func(f *ssa.Function) bool{
		"writeChunk": func(f *ssa.Function) bool {
			// the store may be a parameter or (method of a writer struct) a field
			return hasParam(f, "desync.IndexChunk") && callsAll(f, "Store).GetChunk", "os.File).WriteAt")
		},
		"sparseFileLoader.stateFromReader": func(f *ssa.Function) bool {
			res := f.Signature.Results()
			return res.Len() == 2 && strings.HasSuffix(res.At(0).Type().String(), "bitmap.Bitmap") && hasParam(f, "io.Reader")
		},
		"HTTPHandler.idFromPath": func(f *ssa.Function) bool {
			res := f.Signature.Results()
			return res.Len() == 2 && typeName(res.At(0).Type()) == "desync.ChunkID" && callsAll(f, "path.Join", "desync.ChunkIDFromString") && len(calls(f, suffixed("os.Stat", "os.Open"))) == 0
		},
		"readChunkFromFile": func(f *ssa.Function) bool {
			return hasParam(f, "desync.IndexChunk") && hasParam(f, "os.File") && callsAll(f, "desync.NewChunkWithID")
		},
		"tar": func(f *ssa.Function) bool {
			if !hasParam(f, "desync.FormatEncoder") || !hasParam(f, "desync.File") {
				return false
			}
			for _, call := range calls(f, func(string) bool { return true }) {
				if call.Common().StaticCallee() == f {
					return true
				}
			}
			return false
		},
		"makeGoodbyeBST": func(f *ssa.Function) bool {
			return len(f.Params) == 1 && strings.Contains(f.Params[0].Type().String(), "FormatGoodbyeItem") && callsAll(f, "sort.Slice")
		},
		"newFileSeedSegment": func(f *ssa.Function) bool {
			return f.Signature.Results().Len() == 1 && typeName(f.Signature.Results().At(0).Type()) == "desync.fileSeedSegment" && f.Signature.Recv() == nil
		},
		"isDevice": func(f *ssa.Function) bool {
			return len(f.Params) == 1 && typeName(f.Params[0].Type()) == "fs.FileMode" && f.Signature.Results().Len() == 1 && isBool(f.Signature.Results().At(0).Type())
		},
	}
	for name, pred := range roles {
		if c.byKey[name] != nil {
			continue
		}
		var cands []*ssa.Function
		for _, f := range c.Funcs {
			// free functions, and methods as well: "turn a function into a method of a small struct"
			if f.Pkg == c.LibSSA && f.Parent() == nil && pred(f) {
				cands = append(cands, f)
			}
		}
		if len(cands) == 1 {
			funcAlias[cands[0]] = name
			c.byKey[name] = cands[0]
		}
	}
}

// fnKey is the stable name of a function: "AssembleFile", "LocalStore.StoreChunk",
// "cmd.runList", closures "UnTarIndex$1".
func fnKey(f *ssa.Function) string {
	if a, ok := funcAlias[f]; ok {
		return a
	}
	if f.Parent() != nil {
		return fnKey(f.Parent()) + strings.TrimPrefix(f.Name(), f.Parent().Name())
	}
	prefix := ""
	if f.Pkg != nil && f.Pkg.Pkg.Path() == cmdPath {
		prefix = "cmd."
	}
	if recv := f.Signature.Recv(); recv != nil {
		t := recv.Type()
		if p, ok := t.(*types.Pointer); ok {
			t = p.Elem()
		}
		if n, ok := t.(*types.Named); ok {
			return prefix + n.Obj().Name() + "." + f.Name()
		}
	}
	return prefix + f.Name()
}

// fn returns the function with the given key or nil.
func (c *Ctx) fn(key string) *ssa.Function { return c.byKey[key] }

// mustFn returns the function or records a violation of the current rule: an entry point
// the property is anchored in does not exist any more.
func (c *Ctx) mustFn(key string) *ssa.Function {
	f := c.byKey[key]
	if f == nil {
		// the anchor of the rule is gone (renamed, moved, removed): the rule cannot decide
		c.obs = append(c.obs, Obligation{c.curRule, key, "-", "undecided", "anchored function " + key + " not found in the analysed program: the rule lost its subject and cannot decide"})
	}
	c.scope(f)
	return f
}

// closures returns the closures nested in f (transitively).
func closures(f *ssa.Function) []*ssa.Function {
	var out []*ssa.Function
	for _, a := range f.AnonFuncs {
		out = append(out, a)
		out = append(out, closures(a)...)
	}
	return out
}

// withClosures returns f and its nested closures.
func withClosures(f *ssa.Function) []*ssa.Function {
	return append([]*ssa.Function{f}, closures(f)...)
}

// short makes a resolved name readable.
func short(s string) string {
	s = strings.ReplaceAll(s, cmdPath, "cmd")
	s = strings.ReplaceAll(s, libPath, "desync")
	return s
}

// callee returns the resolved name of what a call instruction calls:
// "(*desync.LocalStore).GetChunk", "(desync.Store).GetChunk" for interface dispatch,
// "os.Rename", "" for calls of function values.
func callee(call ssa.CallInstruction) string {
	cc := call.Common()
	if cc.IsInvoke() {
		return short(cc.Method.FullName())
	}
	if f := cc.StaticCallee(); f != nil {
		if a, ok := funcAlias[f]; ok {
			if n, ok := known.Callee[a]; ok {
				return n // exactly what calls of it were called when the rules were written
			}
			// the name the function is known under, in the form callee names have
			if o := f.Object(); o != nil && f.Signature.Recv() != nil {
				full := short(o.(*types.Func).FullName()) // "(*desync.queue).acquire"
				if i := strings.LastIndex(full, "."); i >= 0 {
					if j := strings.LastIndex(a, "."); j >= 0 {
						return full[:i+1] + a[j+1:]
					}
				}
			}
			if strings.HasPrefix(a, "cmd.") {
				return a
			}
			return "desync." + a
		}
		if f.Parent() != nil {
			return "closure:" + fnKey(f)
		}
		if o := f.Object(); o != nil {
			return short(o.(*types.Func).FullName())
		}
		return short(f.String())
	}
	if b, ok := cc.Value.(*ssa.Builtin); ok {
		return "builtin:" + b.Name()
	}
	return ""
}

// staticFn returns the repository function called, or nil.
func (c *Ctx) staticFn(call ssa.CallInstruction) *ssa.Function {
	if f := call.Common().StaticCallee(); f != nil && f.Blocks != nil {
		return f
	}
	return nil
}

// args returns the arguments of a call including the receiver for static method calls
// (SSA puts the receiver first); for invoke-mode calls the receiver is cc.Value.
func args(call ssa.CallInstruction) []ssa.Value { return call.Common().Args }

// instrs calls f for every instruction of fn.
func instrs(fn *ssa.Function, f func(b *ssa.BasicBlock, i int, ins ssa.Instruction)) {
	instrsSeen(fn, f, map[*ssa.Function]bool{})
}

// instrsAll visits fn, its closures and the new helpers they call (with their closures): the whole
// code that belongs to fn, wherever a refactoring put it.
func instrsAll(fn *ssa.Function, f func(b *ssa.BasicBlock, i int, ins ssa.Instruction)) {
	seen := map[*ssa.Function]bool{}
	for _, g := range fnsDeep(fn) {
		for _, h := range withClosures(g) {
			instrsSeen(h, f, seen)
		}
	}
}

// instrsSeen visits the instructions of fn and, as if they were inlined, those of the new helper
// functions (see known.go) it calls.
func instrsSeen(fn *ssa.Function, f func(b *ssa.BasicBlock, i int, ins ssa.Instruction), seen map[*ssa.Function]bool) {
	if seen[fn] {
		return
	}
	seen[fn] = true
	for _, b := range fn.Blocks {
		for i, ins := range b.Instrs {
			f(b, i, ins)
			if ci, ok := ins.(ssa.CallInstruction); ok && len(newHelpers) > 0 {
				if h := directCallee(ci); h != nil && newHelpers[h] && h.Blocks != nil {
					instrsSeen(h, f, seen)
					for _, a := range closures(h) {
						instrsSeen(a, f, seen)
					}
				}
			}
		}
	}
}

// calls returns the call instructions (call, defer, go) of fn whose callee name satisfies match.
func calls(fn *ssa.Function, match func(name string) bool) []ssa.CallInstruction {
	var out []ssa.CallInstruction
	instrs(fn, func(_ *ssa.BasicBlock, _ int, ins ssa.Instruction) {
		if ci, ok := ins.(ssa.CallInstruction); ok {
			if match(callee(ci)) {
				out = append(out, ci)
			}
		}
	})
	return out
}

// callsAll is calls() over fn, its closures and the new helpers they use.
func callsAll(fn *ssa.Function, match func(name string) bool) []ssa.CallInstruction {
	var out []ssa.CallInstruction
	seen := map[ssa.Instruction]bool{}
	instrsAll(fn, func(_ *ssa.BasicBlock, _ int, ins ssa.Instruction) {
		if ci, ok := ins.(ssa.CallInstruction); ok && !seen[ins] {
			seen[ins] = true
			if match(callee(ci)) {
				out = append(out, ci)
			}
		}
	})
	return out
}

func named(names ...string) func(string) bool {
	return func(n string) bool {
		for _, x := range names {
			if n == x {
				return true
			}
		}
		return false
	}
}

func suffixed(suffixes ...string) func(string) bool {
	return func(n string) bool {
		for _, x := range suffixes {
			if strings.HasSuffix(n, x) {
				return true
			}
		}
		return false
	}
}

// index of an instruction within its block
func indexIn(ins ssa.Instruction) int {
	for i, x := range ins.Block().Instrs {
		if x == ins {
			return i
		}
	}
	return -1
}

// instrDominates reports whether a is executed before b on every path reaching b.
func instrDominates(a, b ssa.Instruction) bool {
	if a.Parent() != b.Parent() {
		// one of them lies in a new helper: compare through the helper's (single) call site
		if h := a.Parent(); newHelpers[h] && len(helperSites[h]) == 1 {
			// a runs inside the call; it precedes b if it is on every path through the helper and
			// the call dominates b
			all := true
			for _, blk := range h.Blocks {
				if _, isRet := blk.Instrs[len(blk.Instrs)-1].(*ssa.Return); isRet && !(a.Block() == blk || a.Block().Dominates(blk)) {
					all = false
				}
			}
			cs := helperSites[h][0]
			return all && (ssa.Instruction(cs) == b || instrDominates(cs, b))
		}
		if h := b.Parent(); newHelpers[h] && len(helperSites[h]) == 1 {
			cs := helperSites[h][0]
			return ssa.Instruction(cs) == a || instrDominates(a, cs)
		}
		return false
	}
	if a.Block() == b.Block() {
		return indexIn(a) < indexIn(b)
	}
	return a.Block().Dominates(b.Block())
}

// ---------------------------------------------------------------------------------------
// type helpers

func namedOf(t types.Type) *types.Named {
	for {
		switch x := t.(type) {
		case *types.Pointer:
			t = x.Elem()
		case *types.Named:
			return x
		default:
			return nil
		}
	}
}

// typeName returns "pkgname.Type" of a (pointer to) named type, "" otherwise.
func typeName(t types.Type) string {
	n := namedOf(t)
	if n == nil {
		return ""
	}
	if n.Obj().Pkg() == nil {
		return n.Obj().Name()
	}
	return n.Obj().Pkg().Name() + "." + n.Obj().Name()
}

func isErrorType(t types.Type) bool {
	return types.Identical(t, types.Universe.Lookup("error").Type())
}

// fieldOf describes a FieldAddr/Field as "Type.field".
func fieldOf(v ssa.Value) string {
	switch x := v.(type) {
	case *ssa.FieldAddr:
		st := x.X.Type().Underlying().(*types.Pointer).Elem()
		s, ok := st.Underlying().(*types.Struct)
		if !ok {
			return ""
		}
		tn := typeName(st)
		if i := strings.LastIndex(tn, "."); i >= 0 {
			tn = tn[i+1:]
		}
		return aliasField(tn + "." + s.Field(x.Field).Name())
	case *ssa.Field:
		s, ok := x.X.Type().Underlying().(*types.Struct)
		if !ok {
			return ""
		}
		tn := typeName(x.X.Type())
		if i := strings.LastIndex(tn, "."); i >= 0 {
			tn = tn[i+1:]
		}
		return aliasField(tn + "." + s.Field(x.Field).Name())
	}
	return ""
}

func aliasField(n string) string {
	if a, ok := fieldAlias[n]; ok {
		return a
	}
	return n
}

// implementers returns the named types of the library package whose method set (value or
// pointer) implements the named interface of the library package.
func (c *Ctx) implementers(iface string) []*types.Named {
	obj := c.Lib.Types.Scope().Lookup(iface)
	if obj == nil {
		return nil
	}
	it, ok := obj.Type().Underlying().(*types.Interface)
	if !ok {
		return nil
	}
	var out []*types.Named
	for _, pkg := range []*packages.Package{c.Lib, c.Cmd} {
		sc := pkg.Types.Scope()
		for _, n := range sc.Names() {
			tn, ok := sc.Lookup(n).(*types.TypeName)
			if !ok || tn.IsAlias() {
				continue
			}
			nt, ok := tn.Type().(*types.Named)
			if !ok || types.IsInterface(nt) {
				continue
			}
			if types.Implements(nt, it) || types.Implements(types.NewPointer(nt), it) {
				out = append(out, nt)
			}
		}
	}
	return out
}

// methodOf returns the SSA function of method name on named type t (value or pointer receiver),
// following embedding only when the method is declared in the repository.
func (c *Ctx) methodOf(t *types.Named, name string) *ssa.Function {
	for _, rt := range []types.Type{t, types.NewPointer(t)} {
		ms := c.Prog.MethodSets.MethodSet(rt)
		for i := 0; i < ms.Len(); i++ {
			if ms.At(i).Obj().Name() == name {
				f := c.Prog.MethodValue(ms.At(i))
				if f == nil {
					continue
				}
				if f.Synthetic != "" {
					// promoted through embedding: resolve the declared method
					if obj, ok := ms.At(i).Obj().(*types.Func); ok {
						if d := c.Prog.FuncValue(obj); d != nil && d.Blocks != nil {
							return d
						}
					}
					continue
				}
				if f.Blocks != nil {
					return f
				}
			}
		}
	}
	return nil
}

// ---------------------------------------------------------------------------------------
// AST helpers (E-TABLE rules work on typed syntax)

// funcDecl returns the declaration of a function or method ("Recv.Name") in pkg.
func funcDecl(pkg *packages.Package, key string) *ast.FuncDecl {
	for _, f := range pkg.Syntax {
		for _, d := range f.Decls {
			fd, ok := d.(*ast.FuncDecl)
			if !ok {
				continue
			}
			name := fd.Name.Name
			if fd.Recv != nil && len(fd.Recv.List) == 1 {
				t := fd.Recv.List[0].Type
				if s, ok := t.(*ast.StarExpr); ok {
					t = s.X
				}
				if id, ok := t.(*ast.Ident); ok {
					name = id.Name + "." + name
				}
			}
			if name == key {
				return fd
			}
		}
	}
	return nil
}

// constVal returns the exact string of a package-level constant of the library.
func (c *Ctx) constVal(name string) string {
	if o, ok := c.Lib.Types.Scope().Lookup(name).(*types.Const); ok {
		return o.Val().ExactString()
	}
	if v, ok := knownConst(name); ok {
		return v // renamed constant: the rules compare values
	}
	return "<missing:" + name + ">"
}
