package main

import (
	"fmt"
	"go/token"
	"strings"

	"golang.org/x/tools/go/ssa"
)

func init() {
	register(&property{
		ID: "C10",
		Explanation: "C10.load-postcondition: every path on which sparseFileLoader.loadChunk returns a nil (or possibly nil) error either executed done.Set(i,true) or observed done.Get(i)==true (closures given to sync.Once.Do are explored as 'runs or is skipped'); " +
			"C10.set-after-write: done.Set is reachable only through the nil-error edge of the WriteAt into the cache file, and the bytes written come from the chunk fetched for the same index; C10.read-after-load: the cache file is read only on the nil edge of loadRange, loadRange fails when a loadChunk fails, and the FUSE read answers EIO for every error other than io.EOF; " +
			"C10.skip-only-done-or-null: loadRange leaves out a chunk of the range only on the done-bit edge or the null-chunk edge; C10.null-skip-needs-truncate: NewSparseFile returns a usable file only after Truncate(idx.Length()) succeeded or a state file was accepted for a cache file of exactly the indexed size; " +
			"C10.state-accept: a state bitmap is accepted only on the equal edge of a comparison of its length with a value derived from the chunk count; C10.locks: done is accessed under mu (write mode for Set/assignment), lock pairing in all loader methods. " +
			"C10.chunks-verified (shared with C03): loadChunk writes whatever the store returns; the verifying constructors and all store back ends are checked as under C03.",
		NotDecided: "the bytes in the cache file, arithmetic of indexRange, FUSE behaviour, concurrency beyond lock discipline.",
		Rules: []rule{
			{"C10.chunks-verified", "the chunk written into the cache file was verified against the requested id (shared with C03)", 16, func(c *Ctx) { c03CtorVerifies(c); c03Backends(c) }},
			{"C10.load-postcondition", "nil return of loadChunk implies done bit set or observed", 1, c10LoadPost},
			{"C10.set-after-write", "done.Set only behind the nil edge of WriteAt of the fetched data at the chunk's start", 2, c10SetAfterWrite},
			{"C10.read-after-load", "cache file read only after loadRange succeeded; load errors propagate; FUSE read maps errors to EIO", 3, c10ReadAfterLoad},
			{"C10.store-eof", "a store failure of io.EOF does not reach the reader of the sparse file as io.EOF (which the FUSE read takes for the regular end)", 1, func(c *Ctx) {
				c.storeEOF("SparseFileHandle.ReadAt", "the FUSE read of the sparse mount answers success with no data", "sparseFileLoader.loadRange", "sparseFileLoader.loadChunk")
			}},
			{"C10.skip-only-done-or-null", "loadRange skips a chunk only when its done bit is set or it is the null chunk", 1, c10SkipOnly},
			{"C10.null-skip-needs-truncate", "NewSparseFile succeeds only after Truncate or an accepted state for a size-matching file", 1, c10Truncate},
			{"C10.state-accept", "stateFromReader accepts only a bitmap whose length equals the value derived from the chunk count", 1, c10StateAccept},
			{"C10.range-boundaries", "indexRange includes exactly the chunks overlapping the byte range (partition points of its comparisons)", 2, c10RangeBoundaries},
			{"C10.locks", "done guarded by mu; lock pairing", 5, c10Locks},
			{"C10.no-shared-scratch", "per-read work lists are not built in memory shared between readers", 1, func(c *Ctx) { c.sharedScratchWrites("sparseFileLoader", "mu") }},
		},
	})
}

func isOnceDo(call *ssa.Call) *ssa.Function {
	if callee(call) != "(*sync.Once).Do" {
		return nil
	}
	for _, a := range call.Call.Args {
		if mc, ok := a.(*ssa.MakeClosure); ok {
			if f, ok := mc.Fn.(*ssa.Function); ok {
				return f
			}
		}
	}
	return nil
}

func c10LoadPost(c *Ctx) {
	fn := c.mustFn("sparseFileLoader.loadChunk")
	if fn == nil {
		return
	}
	var bad []string
	nilPaths := 0
	h := &Hooks{
		Inline: func(st *State, call *ssa.Call) (*ssa.Function, bool) {
			if f := isOnceDo(call); f != nil {
				return f, true
			}
			return c.sameReceiverCallee(fn, call), false
		},
		Call: func(st *State, call *ssa.Call) map[int]Val {
			switch callee(call) {
			case "(github.com/boljen/go-bitmap.Bitmap).Set":
				if v := st.Eval(call.Call.Args[len(call.Call.Args)-1]); v.B == BTrue {
					st.Emit("Set", "", call)
				}
			}
			return nil
		},
		Branch: func(st *State, iff *ssa.If, taken bool) {
			if hasOrigin(iff.Cond, func(o string) bool { return o == "call:(github.com/boljen/go-bitmap.Bitmap).Get#0" }) {
				_, truth, _ := cmpOf(iff.Cond)
				if _, isCmp := iff.Cond.(*ssa.BinOp); isCmp {
					return
				}
				if taken == truth {
					st.Emit("ObservedDone", "", iff)
				}
			}
		},
		Return: func(st *State, ret *ssa.Return, results []Val) {
			if len(results) != 1 || results[0].N == NNon {
				return
			}
			nilPaths++
			if !st.Has("Set") && !st.Has("ObservedDone") {
				bad = append(bad, fmt.Sprintf("loadChunk can return a nil error at %s although the done bit was neither set nor observed on the path (events: %q; trail %s)", c.pos(ret.Pos()), st.Word(), strings.Join(st.Trail, ">")))
			}
		},
	}
	Explore(fn, fn.Blocks[0], 0, nil, NewState(), h)
	c.paths += h.Paths
	if len(bad) > 0 {
		c.bad("sparseFileLoader.loadChunk:nil-implies-done", fn.Pos(), "%s", bad[0])
	} else if nilPaths == 0 {
		c.bad("sparseFileLoader.loadChunk:nil-implies-done", fn.Pos(), "no success path found in loadChunk")
	} else {
		c.ok("sparseFileLoader.loadChunk:nil-implies-done", fn.Pos(), "%d path(s) explored, %d return nil, all with the done bit set or observed", h.Paths, nilPaths)
	}
}

// nilEdgeOf builds an accept function: the edge on which the error value with the given origin is nil.
func nilEdgeOf(originPred func(o string) bool) acceptFn {
	return func(iff *ssa.If) (bool, bool) {
		cm, truth, ok := cmpOf(iff.Cond)
		if !ok || (cm.op != token.EQL && cm.op != token.NEQ) || !(isNilConst(cm.y) || isNilConst(cm.x)) {
			return false, false
		}
		subj := cm.x
		if isNilConst(cm.x) {
			subj = cm.y
		}
		if !hasOrigin(subj, originPred) {
			return false, false
		}
		nilOnTrue := (cm.op == token.EQL) == truth
		return nilOnTrue, !nilOnTrue
	}
}

func c10SetAfterWrite(c *Ctx) {
	n := 0
	for _, fn := range c.subjects() {
		if !strings.HasPrefix(fnKey(fn), "sparseFileLoader.") {
			continue
		}
		for _, call := range calls(fn, named("(github.com/boljen/go-bitmap.Bitmap).Set")) {
			n++
			key := fnKey(fn) + ":done.Set"
			okG, ne := guarded(fn, call, nilEdgeOf(func(o string) bool { return o == "call:(*os.File).WriteAt#1" }))
			c.verdict(okG, key, call.Pos(), fmt.Sprintf("done.Set is reachable only through the nil-error edge of WriteAt (%d accepting edge(s))", ne),
				"done.Set can be reached without a successful WriteAt of the chunk data: the bit would claim data that is not in the cache file")
			// the WriteAt writes the data of the chunk fetched with the ID of the same index, at its Start
			for _, w := range calls(fn, named("(*os.File).WriteAt")) {
				a := w.Common().Args // recv, b, off
				dataOK := hasOrigin(a[1], func(o string) bool { return o == "call:(*desync.Chunk).Data#0" })
				offOK := hasOrigin(a[2], func(o string) bool { return o == "field:IndexChunk.Start" })
				c.verdict(dataOK && offOK, fnKey(fn)+":WriteAt-args", w.Pos(), "WriteAt(chunk.Data(), chunks[i].Start)",
					fmt.Sprintf("WriteAt does not write the fetched chunk data at the chunk's start (data origins %v, offset origins %v)", origins(a[1]), origins(a[2])))
			}
		}
	}
	if n == 0 {
		c.bad("sparseFileLoader:done.Set", token.NoPos, "no done.Set call found in the loader")
	}
}

func c10ReadAfterLoad(c *Ctx) {
	// 1. SparseFileHandle.ReadAt
	if fn := c.mustFn("SparseFileHandle.ReadAt"); fn != nil {
		rs := calls(fn, named("(*os.File).ReadAt"))
		if len(rs) == 0 {
			c.bad("SparseFileHandle.ReadAt:read", fn.Pos(), "no read of the cache file found")
		}
		for _, r := range rs {
			okG, _ := guarded(fn, r, nilEdgeOf(func(o string) bool { return o == "call:(*desync.sparseFileLoader).loadRange#0" }))
			c.verdict(okG, "SparseFileHandle.ReadAt:read", r.Pos(), "the cache file is read only on the nil edge of loadRange",
				"the cache file is read although loadRange failed (or was not called): unpopulated zeros can be returned")
		}
	}
	// 2. loadRange propagates loadChunk errors
	if fn := c.mustFn("sparseFileLoader.loadRange"); fn != nil {
		sites, bad := errPropagates(c, fn, func(name string, _ *ssa.Call) bool { return name == "(*desync.sparseFileLoader).loadChunk" }, errPropOpts{maxVisits: 3})
		switch {
		case sites == 0:
			c.bad("sparseFileLoader.loadRange:errors", fn.Pos(), "loadRange does not call loadChunk")
		case len(bad) > 0:
			c.bad("sparseFileLoader.loadRange:errors", fn.Pos(), "%s", bad[0])
		default:
			c.ok("sparseFileLoader.loadRange:errors", fn.Pos(), "%d loadChunk call site(s); a failed load makes loadRange fail on every path", sites)
		}
	}
	// 3. sparseIndexFile.Read maps every non-EOF error to EIO
	c.fuseReadErrno("sparseIndexFile.Read", "(*desync.SparseFileHandle).ReadAt")
}

// fuseReadErrno: in the FUSE read handler a failed read yields a non-zero errno unless the path
// passed the equal edge of a comparison of the error with io.EOF.
func (c *Ctx) fuseReadErrno(key, readCallee string) {
	fn := c.mustFn(key)
	if fn == nil {
		return
	}
	var bad []string
	sites := 0
	h := &Hooks{
		Fork: func(st *State, call *ssa.Call) []map[int]Val {
			if callee(call) != readCallee {
				return nil
			}
			sites++
			ei := errResultIndex(call)
			return []map[int]Val{{ei: {N: NNil, Class: ClsNil}}, {ei: {N: NNon, Class: ClsOther, Sym: "readerr"}}}
		},
		Branch: func(st *State, iff *ssa.If, taken bool) {
			cm, truth, ok := cmpOf(iff.Cond)
			if !ok || (cm.op != token.EQL && cm.op != token.NEQ) {
				return
			}
			isEOF := func(v ssa.Value) bool { return hasOrigin(v, func(o string) bool { return o == "global:EOF" }) }
			if !(isEOF(cm.x) || isEOF(cm.y)) {
				return
			}
			equal := ((cm.op == token.EQL) == truth) == taken
			if equal {
				st.Flags["eof"] = 1
			}
		},
		Return: func(st *State, ret *ssa.Return, results []Val) {
			failed := false
			for _, v := range st.V {
				if v.Sym == "readerr" {
					failed = true
				}
			}
			if !failed || st.Flags["eof"] == 1 {
				return
			}
			for i, r := range ret.Results {
				if typeName(r.Type()) == "syscall.Errno" {
					if results[i].Int == nil || *results[i].Int == 0 {
						bad = append(bad, fmt.Sprintf("a read error other than io.EOF is answered with errno %v at %s: data is returned instead of EIO", results[i], c.pos(ret.Pos())))
					}
				}
			}
		},
	}
	Explore(fn, fn.Blocks[0], 0, nil, NewState(), h)
	c.paths += h.Paths
	switch {
	case sites == 0:
		c.bad(key+":errno", fn.Pos(), "the FUSE read handler does not call %s", readCallee)
	case len(bad) > 0:
		c.bad(key+":errno", fn.Pos(), "%s", bad[0])
	default:
		c.ok(key+":errno", fn.Pos(), "%d path(s): every failed read that is not io.EOF answers a non-zero errno", h.Paths)
	}
}

func c10SkipOnly(c *Ctx) {
	fn := c.mustFn("sparseFileLoader.loadRange")
	if fn == nil {
		return
	}
	// The loop appends index i to the list of needed chunks (or loads it directly).  Find the
	// instruction that "needs" chunk i: an append whose element has origin i, or a loadChunk call.
	// Cut-set: from the loop header test (i <= last true edge) the loop back edge must not be
	// reachable without passing the need instruction, except through the two skip edges.
	var need []ssa.Instruction
	instrs(fn, func(_ *ssa.BasicBlock, _ int, ins ssa.Instruction) {
		if call, ok := ins.(*ssa.Call); ok {
			n := callee(call)
			if n == "builtin:append" || n == "(*desync.sparseFileLoader).loadChunk" {
				need = append(need, call)
			}
		}
	})
	if len(need) == 0 {
		c.bad("sparseFileLoader.loadRange:skip", fn.Pos(), "no instruction that selects a chunk for loading found")
		return
	}
	// skip edges: true edge of an If on done.Get(...) ; equal edge of compare(chunks[i].ID, nullChunk.ID)
	skips := map[edge]bool{}
	nSkip := 0
	lf := need[0].Parent() // the function that holds the selection loop (loadRange or a new helper)
	for _, b := range lf.Blocks {
		iff := lastIf(b)
		if iff == nil {
			continue
		}
		if _, isBin := iff.Cond.(*ssa.BinOp); !isBin && hasOrigin(iff.Cond, func(o string) bool { return o == "call:(github.com/boljen/go-bitmap.Bitmap).Get#0" }) {
			_, truth, _ := cmpOf(iff.Cond)
			if truth {
				skips[edge{b, b.Succs[0]}] = true
			} else {
				skips[edge{b, b.Succs[1]}] = true
			}
			nSkip++
			continue
		}
		isNullID := func(v ssa.Value) bool {
			return hasOrigin(v, func(o string) bool { return o == "field:NullChunk.ID" })
		}
		isChunkID := func(v ssa.Value) bool {
			return hasOrigin(v, func(o string) bool { return o == "field:IndexChunk.ID" })
		}
		if eqOnTrue, ok := equalEdge(iff, isNullID, isChunkID); ok {
			if eqOnTrue {
				skips[edge{b, b.Succs[0]}] = true
			} else {
				skips[edge{b, b.Succs[1]}] = true
			}
			nSkip++
		}
	}
	// the first loop: the block of the first need instruction lies in a loop; find the loop
	// header = a block that dominates need's block and is reachable from it
	nb := need[0].Block()
	var header *ssa.BasicBlock
	for _, b := range lf.Blocks {
		if b.Dominates(nb) && b != nb && reachableFrom(nb, nil)[b] && lastIf(b) != nil {
			if header == nil || b.Dominates(header) {
				header = b
			}
		}
	}
	if header == nil {
		c.bad("sparseFileLoader.loadRange:skip", need[0].Pos(), "the chunk selection is not inside a loop over the range")
		return
	}
	// remove skip edges and the need block's out-edges: the header must not be reachable from
	// the loop body entry any more (every iteration either needs the chunk or takes a skip edge)
	removed := map[edge]bool{}
	for e := range skips {
		removed[e] = true
	}
	for _, s := range nb.Succs {
		removed[edge{nb, s}] = true
	}
	body := header.Succs[0]
	if !reachableFrom(body, map[edge]bool{})[nb] || body == nb && false {
		body = header.Succs[1]
	}
	r := reachableFrom(body, removed)
	c.verdict(!r[header] && nSkip >= 1, "sparseFileLoader.loadRange:skip", need[0].Pos(),
		fmt.Sprintf("every loop iteration selects the chunk or leaves through one of %d skip edge(s) (done bit / null chunk)", nSkip),
		"an iteration over the requested range can continue without selecting the chunk and without the done-bit or null-chunk test: the range would be served from unpopulated zeros")
}

// c10SizeCmp: bo compares (== or !=) the size of the cache file with the length of the index,
// directly or through the parameters of a helper explored in place.
func c10SizeCmp(st *State, bo *ssa.BinOp) bool {
	if bo.Op != token.EQL && bo.Op != token.NEQ {
		return false
	}
	is := func(what string) func(ssa.Value) bool {
		return func(v ssa.Value) bool { return originHas(what)(v) || originHas(what)(st.ArgOf(v)) }
	}
	isSize, isLen := is("FileInfo).Size#0"), is("desync.Index).Length#0")
	return (isSize(bo.X) && isLen(bo.Y)) || (isSize(bo.Y) && isLen(bo.X))
}

func c10Truncate(c *Ctx) {
	fn := c.mustFn("NewSparseFile")
	if fn == nil {
		return
	}
	var bad []string
	okPaths := 0
	h := &Hooks{
		Fork: func(st *State, call *ssa.Call) []map[int]Val {
			switch callee(call) {
			case "(*os.File).Truncate":
				// Truncate(0): the old content is dropped
				if k, isK := call.Call.Args[len(call.Call.Args)-1].(*ssa.Const); isK && k.Value != nil && constInt64(k) == 0 {
					st.Emit("blanked", "", call)
					return []map[int]Val{{0: {N: NNil, Class: ClsNil}}, {0: {N: NNon, Class: ClsOther}}}
				}
				st.Emit("sized", "", call)
				// the size must be the index length
				lenOK := hasOrigin(call.Call.Args[len(call.Call.Args)-1], func(o string) bool { return strings.Contains(o, "desync.Index).Length#0") })
				s1 := map[int]Val{0: {N: NNil, Class: ClsNil, Sym: "truncated"}}
				if !lenOK {
					s1 = map[int]Val{0: {N: NNil, Class: ClsNil}}
				}
				return []map[int]Val{s1, {0: {N: NNon, Class: ClsOther}}}
			case "(*desync.sparseFileLoader).loadState":
				return []map[int]Val{{0: {N: NNil, Class: ClsNil, Sym: "state-accepted"}}, {0: {N: NNon, Class: ClsOther}}}
			case "(*desync.SparseFile).WriteState":
				st.Emit("state-written", "", call)
				return []map[int]Val{{0: {N: NNil, Class: ClsNil}}, {0: {N: NNon, Class: ClsOther}}}
			}
			return nil
		},
		Instr: func(st *State, ins ssa.Instruction) {
			// the comparison evaluated somewhere else than in the branch (a helper that returns it):
			// its value carries a label to wherever it is branched on
			if bo, ok := ins.(*ssa.BinOp); ok && c10SizeCmp(st, bo) {
				if bo.Op == token.EQL {
					st.V[bo] = Val{Sym: "size-match"}
				} else {
					st.V[bo] = Val{Sym: "size-differs"}
				}
			}
		},
		Branch: func(st *State, iff *ssa.If, taken bool) {
			// sparseFileMatch := stat.Size() == idx.Length()
			v := iff.Cond
			neg := false
			for {
				if u, ok := v.(*ssa.UnOp); ok && u.Op == token.NOT {
					v, neg = u.X, !neg
					continue
				}
				break
			}
			if bo, isCmp := v.(*ssa.BinOp); isCmp {
				if c10SizeCmp(st, bo) && (taken != neg) == (bo.Op == token.EQL) {
					st.Flags["size-match"] = 1
				}
				return
			}
			switch st.Eval(v).Sym {
			case "size-match":
				if taken != neg {
					st.Flags["size-match"] = 1
				}
			case "size-differs":
				if taken == neg {
					st.Flags["size-match"] = 1
				}
			}
		},
		Return: func(st *State, ret *ssa.Return, results []Val) {
			if len(results) < 2 || results[0].N == NNil || results[1].N == NNon {
				return
			}
			okPaths++
			trunc, state := false, false
			for _, v := range st.V {
				if v.Sym == "truncated" {
					trunc = true
				}
				if v.Sym == "state-accepted" {
					state = true
				}
			}
			// a state that was loaded stays in the loader: its done bits are honoured whatever happens
			// next, so it may only have been loaded for a cache file of exactly the indexed size
			if state && st.Flags["size-match"] != 1 {
				bad = append(bad, fmt.Sprintf("NewSparseFile returns a usable file at %s after a saved state was loaded although the cache file was not found to be of the indexed size: chunks marked done in the state are served from a file that does not hold them (trail %s)", c.pos(ret.Pos()), strings.Join(st.Trail, ">")))
				return
			}
			// a file that was (re-)initialised without an accepted state no longer matches whatever is
			// in the state-save file: that file is replaced before NewSparseFile returns, or a process
			// killed before its first save leaves a full-size file next to a stale state
			// order of the three steps of a re-initialisation: the stale state is replaced before the file
			// is touched (a failure or a kill in between must not leave a full-size file next to it), and
			// the file is emptied before it is brought to its size (what it held is not data of this
			// index; null-chunk ranges are never loaded and must read as zeros)
			if trunc && !state {
				pos := map[string]int{"state-written": -1, "blanked": -1, "sized": -1}
				for i, e := range st.Events {
					if _, want := pos[e.Kind]; want && pos[e.Kind] < 0 {
						pos[e.Kind] = i
					}
				}
				if pos["state-written"] >= 0 && pos["sized"] >= 0 && pos["state-written"] > pos["sized"] {
					bad = append(bad, fmt.Sprintf("NewSparseFile (return at %s) brings the file to its full size before it replaces the saved state: a failure to write the state, or a kill between the two steps, leaves a file of the indexed size next to the stale state, which the next start accepts", c.pos(ret.Pos())))
					return
				}
				if pos["sized"] >= 0 && (pos["blanked"] < 0 || pos["blanked"] > pos["sized"]) {
					bad = append(bad, fmt.Sprintf("NewSparseFile (return at %s) re-initialises an existing file by Truncate(idx.Length()) alone, which keeps what the file held: ranges of null chunks are never loaded, a file left over from another version of the image is served in place of the zeros of the blob", c.pos(ret.Pos())))
					return
				}
			}
			if trunc && !state && !st.Has("state-written") {
				bad = append(bad, fmt.Sprintf("NewSparseFile returns at %s after re-initialising the file without replacing the saved state: if the process dies before it saves its own state, the next start finds a file of the indexed size next to the stale state and serves the holes of the file for chunks marked done in it (trail %s)", c.pos(ret.Pos()), tailOf(st.Trail, 8)))
				return
			}
			if trunc || (state && st.Flags["size-match"] == 1) {
				return
			}
			bad = append(bad, fmt.Sprintf("NewSparseFile returns a usable file at %s without a successful Truncate(idx.Length()) and without an accepted state for a size-matching cache file (trail %s)", c.pos(ret.Pos()), strings.Join(st.Trail, ">")))
		},
	}
	Explore(fn, fn.Blocks[0], 0, nil, NewState(), h)
	c.paths += h.Paths
	// the size comparison that licenses the saved state must look at the cache file as it was found:
	// no Truncate may run before the Stat whose Size() is compared with the index length
	for _, stc := range calls(fn, named("(*os.File).Stat", "os.Stat")) {
		for _, tr := range calls(fn, named("(*os.File).Truncate", "os.Truncate")) {
			if reachesInstr(tr.(ssa.Instruction), stc.(ssa.Instruction)) {
				bad = append(bad, fmt.Sprintf("Truncate at %s can run before the Stat at %s whose size decides whether the saved state matches the cache file: the comparison is then always true and a state file is trusted for a cache file that was lost or resized", c.pos(tr.Pos()), c.pos(stc.Pos())))
			}
		}
	}
	switch {
	case len(bad) > 0:
		c.bad("NewSparseFile:truncate-or-state", fn.Pos(), "%s", bad[0])
	case okPaths == 0:
		c.bad("NewSparseFile:truncate-or-state", fn.Pos(), "no success path found")
	default:
		c.ok("NewSparseFile:truncate-or-state", fn.Pos(), "%d success path(s), each through Truncate(idx.Length())==nil or an accepted state on a size-matching file", okPaths)
	}
}

func c10StateAccept(c *Ctx) {
	fn := c.mustFn("sparseFileLoader.stateFromReader")
	if fn == nil {
		return
	}
	isLenB := func(v ssa.Value) bool {
		return hasOrigin(v, func(o string) bool {
			return strings.HasPrefix(o, "len:call:io/ioutil.ReadAll#0") || strings.HasPrefix(o, "len:call:io.ReadAll#0")
		})
	}
	var bad []string
	okPaths := 0
	h := &Hooks{
		Branch: func(st *State, iff *ssa.If, taken bool) {
			cm, truth, ok := cmpOf(iff.Cond)
			if !ok || (cm.op != token.EQL && cm.op != token.NEQ) {
				return
			}
			var other ssa.Value
			switch {
			case isLenB(cm.x):
				other = cm.y
			case isLenB(cm.y):
				other = cm.x
			default:
				return
			}
			// the other side must be computed from the chunk count, not a constant
			if _, isConst := other.(*ssa.Const); isConst {
				return
			}
			if !hasOrigin(other, func(o string) bool { return strings.HasPrefix(o, "binop:") }) {
				return
			}
			if ((cm.op == token.EQL) == truth) == taken {
				st.Flags["len-equal"] = 1
			}
		},
		Return: func(st *State, ret *ssa.Return, results []Val) {
			if len(results) != 2 || results[1].N == NNon {
				return
			}
			okPaths++
			if st.Flags["len-equal"] != 1 {
				bad = append(bad, fmt.Sprintf("a state bitmap is accepted at %s without its length having been found equal to a value derived from the chunk count (trail %s)", c.pos(ret.Pos()), strings.Join(st.Trail, ">")))
			}
		},
	}
	Explore(fn, fn.Blocks[0], 0, nil, NewState(), h)
	c.paths += h.Paths
	switch {
	case len(bad) > 0:
		c.bad("sparseFileLoader.stateFromReader:length", fn.Pos(), "%s", bad[0])
	case okPaths == 0:
		c.bad("sparseFileLoader.stateFromReader:length", fn.Pos(), "no success return found")
	default:
		c.ok("sparseFileLoader.stateFromReader:length", fn.Pos(), "%d success path(s), each through the equal edge of len(state) vs. a value computed from the chunk count", okPaths)
	}
	// the expected length is derived from len(l.chunks)
	derived := false
	instrs(fn, func(_ *ssa.BasicBlock, _ int, ins ssa.Instruction) {
		if call, ok := ins.(*ssa.Call); ok && callee(call) == "builtin:len" {
			if hasOrigin(call.Call.Args[0], func(o string) bool { return o == "field:sparseFileLoader.chunks" }) {
				derived = true
			}
		}
	})
	if !derived {
		// or handed in by the caller: stateFromReader(r, len(l.chunks))
		for _, g := range c.subjects() {
			for _, call := range calls(g, func(string) bool { return true }) {
				if call.Common().StaticCallee() != fn {
					continue
				}
				for _, a := range call.Common().Args {
					if hasOrigin(a, func(o string) bool { return o == "len:field:sparseFileLoader.chunks" }) {
						derived = true
					}
				}
			}
		}
	}
	c.verdict(derived, "sparseFileLoader.stateFromReader:chunk-count", fn.Pos(), "the expected length is computed from len(l.chunks)", "the expected state length is not derived from the number of chunks")
	// which file the accepted state is read from: a state is adopted as "these chunks are in
	// the cache file" only when it is the one this cache file's own state is saved to.  The
	// init state names chunks worth pre-loading (it usually comes from another instance);
	// adopting it marks chunks done whose bytes were never written here.
	ls := c.mustFn("sparseFileLoader.loadState")
	if ls == nil {
		return
	}
	sites := 0
	for _, g := range c.subjects() {
		for _, call := range calls(g, func(string) bool { return true }) {
			if call.Common().StaticCallee() != ls || len(call.Common().Args) < 2 {
				continue
			}
			sites++
			fromSave, fromOther := false, ""
			for _, l := range leaves(call.Common().Args[1]) {
				cl, idx := callOf(l)
				if cl == nil || idx != 0 || len(cl.Call.Args) == 0 {
					fromOther = "a reader that is not the result of opening a file in view"
					continue
				}
				name := callee(cl)
				if name != "os.Open" && name != "os.OpenFile" {
					fromOther = "the result of " + name
					continue
				}
				os := origins(cl.Call.Args[0])
				switch {
				case len(os) == 1 && os[0] == "field:SparseFileOptions.StateSaveFile":
					fromSave = true
				default:
					fromOther = fmt.Sprintf("a file named by %v", os)
				}
			}
			c.verdict(fromSave && fromOther == "", "NewSparseFile:accepted-state-is-own", call.Pos(), "the state adopted by loadState is read from the file named by StateSaveFile", "the state adopted as 'already in the cache file' is read from "+fromOther+", not from the file this cache file's state is saved to (StateSaveFile): chunks marked in a foreign state are served as the zeros of the unpopulated file")
		}
	}
	if sites == 0 {
		c.info("NewSparseFile:accepted-state-is-own", ls.Pos(), "loadState has no call site")
	}
	// the init state is read before the save file is replaced: StateSaveFile and StateInitFile
	// may name the same file (a lost cache file re-warmed from the state saved for it); a
	// WriteState that can run before the init file is opened empties what is about to be read
	if nf := c.mustFn("NewSparseFile"); nf != nil {
		var reads, writes []ssa.Instruction
		instrs(nf, func(_ *ssa.BasicBlock, _ int, ins ssa.Instruction) {
			call, ok := ins.(*ssa.Call)
			if !ok {
				return
			}
			switch callee(call) {
			case "os.Open", "os.OpenFile", "os.ReadFile", "io/ioutil.ReadFile":
				if len(call.Call.Args) > 0 && hasOrigin(call.Call.Args[0], func(o string) bool { return o == "field:SparseFileOptions.StateInitFile" }) {
					reads = append(reads, ins)
				}
			case "(*desync.SparseFile).WriteState":
				writes = append(writes, ins)
			}
		})
		canPrecede := func(a, b ssa.Instruction) bool {
			if a.Block() == b.Block() {
				ia, ib := -1, -1
				for i, x := range a.Block().Instrs {
					if x == a {
						ia = i
					}
					if x == b {
						ib = i
					}
				}
				if ia < ib {
					return true
				}
			}
			for _, s := range a.Block().Succs {
				if reachableFrom(s, nil)[b.Block()] {
					return true
				}
			}
			return false
		}
		for _, r := range reads {
			bad := false
			for _, w := range writes {
				if w.Parent() == r.Parent() && canPrecede(w, r) {
					bad = true
				}
			}
			// an observation, not a clause of the property: pre-loading is best effort and reads
			// stay correct without it, so this never raises an alarm
			if bad {
				c.info("NewSparseFile:init-state-read-first", r.Pos(), "observation: WriteState (which replaces the file named by StateSaveFile) can run before the init state file is opened: when both options name the same file - re-warming a lost cache file from its saved state - the state is emptied before it is read and nothing is pre-loaded (reads stay correct)")
			} else {
				c.ok("NewSparseFile:init-state-read-first", r.Pos(), "the init state file is opened before any WriteState of this function can run")
			}
		}
	}
}

func c10Locks(c *Ctx) {
	c.guardedBy(guardedField{"sparseFileLoader", "done", "mu", "bitmap of populated chunks"}, nil)
	c.lockPairing("sparseFileLoader", "SparseFile", "SparseFileHandle")
}

// c10RangeBoundaries: indexRange must return every chunk that overlaps [start, start+length).
func c10RangeBoundaries(c *Ctx) {
	fn := c.mustFn("sparseFileLoader.indexRange")
	if fn == nil {
		return
	}
	fns := withClosures(fn)
	c.dumpPartitions()
	c.boundaryRule("sparseFileLoader.indexRange", fns, []boundarySpec{
		{"first-chunk", map[string]int{"param#1": 1, "[i]IndexChunk.Start": -1, "[i]IndexChunk.Size": -1}, -1, 1, "chunk i is the first needed one iff start < chunks[i].Start+chunks[i].Size"},
		{"last-chunk", map[string]int{"[i]IndexChunk.Start": 1, "param#1": -1, "param#2": -1}, -1, 1, "chunk i is needed iff chunks[i].Start <= start+length-1"},
	})
}
