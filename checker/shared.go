package main

import (
	"fmt"
	"strings"

	"golang.org/x/tools/go/ssa"
)

const egGo = "(*golang.org/x/sync/errgroup.Group).Go"
const egWait = "(*golang.org/x/sync/errgroup.Group).Wait"

// errgroupRule: in each named function the workers are started through errgroup.Group.Go (no
// bare go statement in the function body), every return that can yield a nil error after a
// worker was started has passed g.Wait(), and a non-nil result of Wait makes the function fail.
func (c *Ctx) errgroupRule(keys ...string) {
	for _, key := range keys {
		fn := c.mustFn(key)
		if fn == nil {
			continue
		}
		bare := 0
		instrs(fn, func(_ *ssa.BasicBlock, _ int, ins ssa.Instruction) {
			if _, ok := ins.(*ssa.Go); ok {
				bare++
			}
		})
		gos := calls(fn, named(egGo))
		if len(gos) == 0 {
			c.bad(key+":errgroup", fn.Pos(), "no worker is started through errgroup.Group.Go")
			continue
		}
		if bare > 0 {
			c.bad(key+":errgroup", fn.Pos(), "%d bare go statement(s): an error of such a goroutine cannot reach the caller", bare)
			continue
		}
		var bad []string
		h := &Hooks{
			MaxVisits: 2,
			Fork: func(st *State, call *ssa.Call) []map[int]Val {
				if callee(call) == egWait {
					st.Flags["wait"] = 1
					return []map[int]Val{{0: {N: NNil, Class: ClsNil}}, {0: {N: NNon, Class: ClsOther, Sym: "wait-failed"}}}
				}
				return nil
			},
			Call: func(st *State, call *ssa.Call) map[int]Val {
				if callee(call) == egGo {
					st.Flags["go"] = 1
				}
				return nil
			},
			Return: func(st *State, ret *ssa.Return, results []Val) {
				if st.Flags["go"] == 0 {
					return
				}
				var errv *Val
				for i, r := range ret.Results {
					if isErrorType(r.Type()) {
						errv = &results[i]
					}
				}
				if errv == nil || errv.N == NNon {
					return
				}
				if st.Flags["wait"] == 0 {
					bad = append(bad, fmt.Sprintf("return at %s can report success after workers were started without waiting for them (g.Wait not on the path; trail %s)", c.pos(ret.Pos()), strings.Join(st.Trail, ">")))
					return
				}
				for _, v := range st.V {
					if v.Sym == "wait-failed" {
						bad = append(bad, fmt.Sprintf("return at %s can report success although g.Wait() returned an error", c.pos(ret.Pos())))
						return
					}
				}
			},
		}
		Explore(fn, fn.Blocks[0], 0, nil, NewState(), h)
		c.paths += h.Paths
		if h.Truncated {
			bad = append(bad, "path exploration truncated")
		}
		if len(bad) > 0 {
			c.bad(key+":errgroup", fn.Pos(), "%s", bad[0])
		} else {
			c.ok(key+":errgroup", fn.Pos(), "%d worker start site(s), no bare go; %d path(s): success only through g.Wait()==nil", len(gos), h.Paths)
		}
	}
}
