package main

import (
	"fmt"
	"go/constant"
	"go/token"
	"go/types"
	"strings"

	"golang.org/x/tools/go/ssa"
)

const egGo = "(*golang.org/x/sync/errgroup.Group).Go"
const egWait = "(*golang.org/x/sync/errgroup.Group).Wait"

// errgroupRule: in each named function the workers are started through errgroup.Group.Go (no
// bare go statement in the function body), every return that can yield a nil error after a
// worker was started has passed g.Wait(), and a non-nil result of Wait makes the function fail.
func (c *Ctx) errgroupRule(keys ...string) {
	for _, key := range keys {
		fn := c.mustFn(key)
		if fn == nil {
			continue
		}
		bare := 0
		instrs(fn, func(_ *ssa.BasicBlock, _ int, ins ssa.Instruction) {
			if _, ok := ins.(*ssa.Go); ok {
				bare++
			}
		})
		gos := calls(fn, named(egGo))
		if len(gos) == 0 {
			c.bad(key+":errgroup", fn.Pos(), "no worker is started through errgroup.Group.Go")
			continue
		}
		if bare > 0 {
			c.bad(key+":errgroup", fn.Pos(), "%d bare go statement(s): an error of such a goroutine cannot reach the caller", bare)
			continue
		}
		var bad []string
		h := &Hooks{
			MaxVisits: 2,
			Fork: func(st *State, call *ssa.Call) []map[int]Val {
				if callee(call) == egWait {
					st.Flags["wait"] = 1
					return []map[int]Val{{0: {N: NNil, Class: ClsNil}}, {0: {N: NNon, Class: ClsOther, Sym: "wait-failed"}}}
				}
				return nil
			},
			Call: func(st *State, call *ssa.Call) map[int]Val {
				if callee(call) == egGo {
					st.Flags["go"] = 1
				}
				return nil
			},
			Return: func(st *State, ret *ssa.Return, results []Val) {
				if st.Flags["go"] == 0 {
					return
				}
				var errv *Val
				for i, r := range ret.Results {
					if isErrorType(r.Type()) {
						errv = &results[i]
					}
				}
				if errv == nil || errv.N == NNon {
					return
				}
				if st.Flags["wait"] == 0 {
					bad = append(bad, fmt.Sprintf("return at %s can report success after workers were started without waiting for them (g.Wait not on the path; trail %s)", c.pos(ret.Pos()), strings.Join(st.Trail, ">")))
					return
				}
				for _, v := range st.V {
					if v.Sym == "wait-failed" {
						bad = append(bad, fmt.Sprintf("return at %s can report success although g.Wait() returned an error", c.pos(ret.Pos())))
						return
					}
				}
			},
		}
		Explore(fn, fn.Blocks[0], 0, nil, NewState(), h)
		c.paths += h.Paths
		if h.Truncated {
			bad = append(bad, "path exploration truncated")
		}
		if len(bad) > 0 {
			c.bad(key+":errgroup", fn.Pos(), "%s", bad[0])
		} else {
			c.ok(key+":errgroup", fn.Pos(), "%d worker start site(s), no bare go; %d path(s): success only through g.Wait()==nil", len(gos), h.Paths)
		}
	}
}

// sideGoroutineErrors: a function that starts a bare goroutine whose closure stores an error into
// a variable of the starting function (var tarErr error; go func(){ tarErr = Tar(...) }()) must
// consult that variable before it can report success: every return after the go statement lies
// behind the nil edge of a test of the variable, or on the non-nil edge of a test of some error
// value (an error return).
func (c *Ctx) sideGoroutineErrors(want func(key string) bool) {
	n := 0
	for _, fn := range c.subjects() {
		if fn.Parent() != nil || !want(fnKey(fn)) {
			continue
		}
		var gos []*ssa.Go
		instrs(fn, func(_ *ssa.BasicBlock, _ int, ins ssa.Instruction) {
			if g, ok := ins.(*ssa.Go); ok {
				gos = append(gos, g)
			}
		})
		for _, g := range gos {
			// the goroutine's function and the cells of fn it can write: captured variables of a
			// closure, or addresses passed to a named function (go produce(ctx, w, &err))
			var cl *ssa.Function
			var shared, inner []ssa.Value
			if mc, ok := g.Call.Value.(*ssa.MakeClosure); ok {
				cl = mc.Fn.(*ssa.Function)
				for k, b := range mc.Bindings {
					if k < len(cl.FreeVars) {
						shared, inner = append(shared, b), append(inner, cl.FreeVars[k])
					}
				}
			} else if cal := g.Call.StaticCallee(); cal != nil && !g.Call.IsInvoke() && cal.Pkg == fn.Pkg && len(cal.Blocks) > 0 {
				cl = cal
				for k, b := range g.Call.Args {
					if k < len(cl.Params) {
						shared, inner = append(shared, b), append(inner, cl.Params[k])
					}
				}
			}
			if cl == nil {
				continue
			}
			for k, b := range shared {
				A, isAlloc := b.(*ssa.Alloc)
				if !isAlloc {
					continue
				}
				pt, _ := A.Type().Underlying().(*types.Pointer)
				if pt == nil || !isErrorType(pt.Elem()) {
					continue
				}
				// the closure stores into it
				stored := false
				for _, s := range storesTo(A) {
					if s.Parent() != fn {
						stored = true
					}
				}
				if !stored {
					continue
				}
				n++
				name := A.Comment
				key := fmt.Sprintf("%s:%s", fnKey(fn), name)
				var isLoadOfA func(v ssa.Value) bool
				isLoadOfA = func(v ssa.Value) bool {
					switch x := v.(type) {
					case *ssa.UnOp:
						return x.Op == token.MUL && x.X == A
					case *ssa.Phi:
						for _, e := range x.Edges {
							if e != v && isLoadOfA(e) {
								return true
							}
						}
					}
					return false
				}
				acc := func(iff *ssa.If) (bool, bool) {
					cm, truth, ok := cmpOf(iff.Cond)
					if !ok || (cm.op != token.EQL && cm.op != token.NEQ) || !(isNilConst(cm.y) || isNilConst(cm.x)) {
						return false, false
					}
					subj := cm.x
					if isNilConst(cm.x) {
						subj = cm.y
					}
					if !isErrorType(subj.Type()) {
						return false, false
					}
					nilOnTrue := (cm.op == token.EQL) == truth
					if isLoadOfA(subj) {
						return nilOnTrue, !nilOnTrue // nil edge: consulted and fine; non-nil edge: an error path
					}
					return !nilOnTrue, nilOnTrue // non-nil edge of another error: an error path
				}
				edges := acceptingEdges(fn, acc)
				// every test of A accepts on both sides (dropped by acceptingEdges): add them back as cut edges
				for _, b := range fn.Blocks {
					if iff := lastIf(b); iff != nil {
						if cm, _, ok := cmpOf(iff.Cond); ok && (isNilConst(cm.x) || isNilConst(cm.y)) {
							subj := cm.x
							if isNilConst(cm.x) {
								subj = cm.y
							}
							if isLoadOfA(subj) {
								edges[edge{b, b.Succs[0]}] = true
								edges[edge{b, b.Succs[1]}] = true
							}
						}
					}
				}
				from := reachableFrom(g.Block(), edges)
				okAll := true
				for _, r := range returnsOf(fn) {
					if r.Block() == g.Block() || from[r.Block()] {
						// returning the variable itself consults it
						direct := false
						for _, res := range r.Results {
							if isErrorType(res.Type()) && isLoadOfA(unspill(r, res)) {
								direct = true
							}
						}
						if direct {
							continue
						}
						okAll = false
						c.bad(key, r.Pos(), "the goroutine started at %s stores its error in %s, but the return at %s can be reached from the go statement without %s having been tested (and not on an error path): a failure or cancellation of the goroutine's work is reported as success", c.pos(g.Pos()), name, c.pos(r.Pos()), name)
					}
				}
				if okAll {
					c.ok(key, g.Pos(), "every return after the go statement is behind a test of %s or on an error path", name)
				}
				// the producing side: whenever the work in the goroutine fails, the shared variable ends
				// up non-nil - no "only if the context is still alive" filter (the consumer relies on it
				// also, and especially, for interruptions)
				fv := inner[k]
				var producers []*ssa.Call
				for _, st := range storesTo(A) {
					if st.Parent() != cl {
						continue
					}
					for _, l := range leaves(st.Val) {
						if call, _ := callOf(l); call != nil && call.Parent() == cl && errResultIndex(call) >= 0 {
							producers = append(producers, call)
						}
					}
				}
				if len(producers) > 0 {
					isProducer := func(call *ssa.Call) bool {
						for _, p := range producers {
							if p == call {
								return true
							}
						}
						return false
					}
					var lost []string
					hp := &Hooks{MaxVisits: 2}
					hp.Fork = func(st *State, call *ssa.Call) []map[int]Val {
						if !isProducer(call) {
							return nil
						}
						ei := errResultIndex(call)
						return []map[int]Val{{ei: {N: NNil, Class: ClsNil}}, {ei: {N: NNon, Sym: "failed:" + callee(call)}}}
					}
					hp.Return = func(st *State, ret *ssa.Return, _ []Val) {
						failed := false
						for _, v := range st.V {
							if strings.HasPrefix(v.Sym, "failed:") {
								failed = true
							}
						}
						if failed && st.load(fv).N != NNon {
							lost = append(lost, fmt.Sprintf("the goroutine can end at %s after its work failed without %s being set (trail %s)", c.pos(ret.Pos()), name, strings.Join(st.Trail, ">")))
						}
					}
					Explore(cl, cl.Blocks[0], 0, nil, NewState(), hp)
					c.paths += hp.Paths
					if len(lost) > 0 {
						c.bad(key+":stored", g.Pos(), "%s: the failure (an interruption included) is invisible to the code that waits for the goroutine", lost[0])
					} else {
						c.ok(key+":stored", g.Pos(), "a failure of the goroutine's work always ends up in %s", name)
					}
				}
			}
		}
	}
	c.ok("side-goroutines", 0, "%d goroutine error variable(s) checked", n)
}

// unspill looks through the named-result cell a return value is spilled to when the function has
// defers (*res = v; rundefers; t = *res; return t): it returns the value last stored to the cell
// in the return's block, or v itself.
func unspill(r *ssa.Return, v ssa.Value) ssa.Value {
	u, ok := v.(*ssa.UnOp)
	if !ok || u.Op != token.MUL {
		return v
	}
	cell, ok := u.X.(*ssa.Alloc)
	if !ok {
		return v
	}
	var last ssa.Value
	for _, ins := range r.Block().Instrs {
		if st, ok := ins.(*ssa.Store); ok && st.Addr == cell {
			last = st.Val
		}
	}
	if last != nil {
		return last
	}
	return v
}

// rawStorageGuarded: Chunk.storage holds the bytes exactly as some store kept them (with that
// store's converters applied).  Outside the Chunk type itself they may be handed on as-is only
// when the receiving side's converters equal the chunk's own: every data use of the field lies
// behind the true edge of Converters.equal(chunk.converters).
func (c *Ctx) rawStorageGuarded() {
	n := 0
	for _, fn := range c.subjects() {
		k := fnKey(fn)
		if strings.HasPrefix(k, "Chunk.") || k == "NewChunk" || k == "NewChunkWithID" || k == "NewChunkFromStorage" {
			continue
		}
		instrs(fn, func(_ *ssa.BasicBlock, _ int, ins ssa.Instruction) {
			var v ssa.Value
			switch x := ins.(type) {
			case *ssa.UnOp:
				if fa, ok := x.X.(*ssa.FieldAddr); ok && x.Op == token.MUL && fieldOf(fa) == "Chunk.storage" {
					v = x
				}
			case *ssa.Field:
				if fieldOf(x) == "Chunk.storage" {
					v = x
				}
			}
			if v == nil || v.Referrers() == nil {
				return
			}
			for _, r := range *v.Referrers() {
				if call, ok := r.(*ssa.Call); ok && callee(call) == "builtin:len" {
					continue
				}
				if _, ok := r.(*ssa.DebugRef); ok {
					continue
				}
				n++
				use := r
				// where the use takes effect: a phi edge counts at the end of the predecessor block
				target := use
				if phi, ok := use.(*ssa.Phi); ok {
					for i, e := range phi.Edges {
						if e == v {
							pb := phi.Block().Preds[i]
							target = pb.Instrs[len(pb.Instrs)-1]
						}
					}
				}
				okG, _ := guarded(fn, target, func(iff *ssa.If) (bool, bool) {
					call, ok := iff.Cond.(*ssa.Call)
					if !ok || !strings.HasSuffix(callee(call), "Converters).equal") {
						return false, false
					}
					if !hasOrigin(call.Call.Args[len(call.Call.Args)-1], func(o string) bool { return o == "field:Chunk.converters" }) {
						return false, false
					}
					return true, false
				})
				c.verdict(okG, k+":raw-storage", ins.Pos(), "the stored form of the chunk is passed on only where the converters were found equal to the chunk's own",
					"Chunk.storage (bytes in the source store's format) is used without Converters.equal(chunk.converters) having been found true: a chunk from a store with another compression/encryption setting is sent or written in the wrong format")
			}
		})
	}
	c.ok("raw-storage", 0, "%d data use(s) of Chunk.storage outside the Chunk type", n)
}

// flagDefaults: safety-relevant command line switches keep their documented default and stay
// bound to the option field the checked code tests.  want: flag name -> {default, field}.
type flagSpec struct {
	def   string // "true" / "false"
	field string // "Type.field" the flag variable is bound to
	min   int    // number of registrations expected
}

func (c *Ctx) flagDefaults(want map[string]flagSpec) {
	found := map[string]int{}
	for _, fn := range c.subjects() {
		if fn.Pkg != c.CmdSSA {
			continue
		}
		instrs(fn, func(_ *ssa.BasicBlock, _ int, ins ssa.Instruction) {
			call, ok := ins.(*ssa.Call)
			if !ok {
				return
			}
			name := callee(call)
			if !strings.Contains(name, "pflag.FlagSet).Bool") {
				return
			}
			a := call.Call.Args
			var flagName, def string
			var ptr ssa.Value
			consts := []*ssa.Const{}
			for _, x := range a[1:] {
				if k, ok := x.(*ssa.Const); ok {
					consts = append(consts, k)
				} else if ptr == nil {
					ptr = x
				}
			}
			for _, k := range consts {
				if k.Value == nil {
					continue
				}
				if b, ok := k.Type().Underlying().(*types.Basic); ok && b.Info()&types.IsBoolean != 0 {
					def = k.Value.ExactString()
				} else if flagName == "" && b != nil && b.Info()&types.IsString != 0 {
					flagName = constant.StringVal(k.Value)
				}
			}
			spec, ok := want[flagName]
			if !ok {
				return
			}
			found[flagName]++
			key := fmt.Sprintf("%s:--%s", fnKey(fn), flagName)
			field := ""
			if fa, ok := ptr.(*ssa.FieldAddr); ok {
				field = fieldOf(fa)
			}
			c.verdict(def == spec.def && strings.HasSuffix(field, spec.field), key, call.Pos(), fmt.Sprintf("default %s, bound to %s", spec.def, spec.field),
				fmt.Sprintf("flag --%s has default %q and is bound to %q; expected default %s bound to %s: the protection is off (or the switch has no effect) unless the user knows to ask for it", flagName, def, field, spec.def, spec.field))
		})
	}
	for n, spec := range want {
		if found[n] < spec.min {
			c.bad("flag:--"+n, token.NoPos, "flag --%s is registered %d time(s), expected %d", n, found[n], spec.min)
		}
	}
}

// flagOwners: the switches that turn a protection off (skip verification, write in place, make a
// server writable, trust any certificate) are each set by exactly the flag that is named after
// them.  A second flag bound to the same variable - "--trust-insecure" stored into skipVerify -
// switches the protection off for users who asked for something else.
var flagOwnerTable = map[string][]string{
	".skipVerify":      {"skip-verify-read"},
	".skipVerifyWrite": {"skip-verify-write"},
	".inPlace":         {"in-place"},
	".writable":        {"writeable"},
	".repair":          {"repair"},
	".cacheRepair":     {"cache-repair"},
	".uncompressed":    {"uncompressed"},
	".trustInsecure":   {"trust-insecure"},
	".auth":            {"authorization"},
}

func (c *Ctx) flagOwners() {
	n := 0
	for _, fn := range c.subjects() {
		if fn.Pkg != c.CmdSSA {
			continue
		}
		instrs(fn, func(_ *ssa.BasicBlock, _ int, ins ssa.Instruction) {
			call, ok := ins.(*ssa.Call)
			if !ok {
				return
			}
			name := callee(call)
			if !strings.Contains(name, "pflag.FlagSet).") || !strings.Contains(name, "Var") {
				return
			}
			var fa *ssa.FieldAddr
			flagName := ""
			for _, a := range call.Call.Args[1:] {
				if x, ok := a.(*ssa.FieldAddr); ok && fa == nil {
					fa = x
				}
				if k, ok := a.(*ssa.Const); ok && k.Value != nil && k.Value.Kind() == constant.String && flagName == "" {
					flagName = constant.StringVal(k.Value)
				}
			}
			if fa == nil {
				return
			}
			f := fieldOf(fa)
			for suffix, owners := range flagOwnerTable {
				if !strings.HasSuffix(f, suffix) {
					continue
				}
				n++
				okOwner := false
				for _, o := range owners {
					if o == flagName {
						okOwner = true
					}
				}
				c.verdict(okOwner, fmt.Sprintf("%s:--%s->%s", fnKey(fn), flagName, f), call.Pos(), "the protection switch is bound to its own flag",
					fmt.Sprintf("flag --%s is stored into %s, the variable of --%s: giving --%s silently switches that protection", flagName, f, strings.Join(owners, "/"), flagName))
			}
		})
	}
	if n < 8 {
		c.bad("flag-owners", token.NoPos, "only %d registrations of protection switches found", n)
	}
}

// constInt64 is Const.Int64 without its panic: the integer value of an integer (or integral
// float) constant; for any other constant (a string, a bool, nil) a value no rule compares with.
// constFitsInt64: the constant is an integer that an int64 holds exactly.
func constFitsInt64(k *ssa.Const) bool {
	if k == nil || k.Value == nil {
		return true
	}
	if k.Value.Kind() != constant.Int {
		return true
	}
	_, exact := constant.Int64Val(k.Value)
	return exact
}

func constInt64(k *ssa.Const) int64 {
	if k == nil || k.Value == nil {
		return 0
	}
	switch k.Value.Kind() {
	case constant.Int, constant.Float:
		return k.Int64()
	}
	return -0x7ead_beef_0bad_c0de
}
