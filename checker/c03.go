package main

import (
	"fmt"
	"go/token"
	"go/types"
	"sort"
	"strings"

	"golang.org/x/tools/go/ssa"
)

func init() {
	register(&property{
		ID: "C03",
		Explanation: "C03.construct: Chunk values are built, and the fields id/idCalculated/data/storage/converters are written, only in the three constructors and the two accessors. " +
			"C03.ctor-verifies: in NewChunkWithID and NewChunkFromStorage (Chunk.ID inlined) every path returning a non-nil chunk took the skipVerify edge or computed Digest.Sum over the decoded data and took the equal edge of compare(sum, requested id); Chunk.ID marks the id calculated only after hashing successfully decoded data. " +
			"C03.backends: for every type implementing Store (enumerated from the type checker) the non-nil chunk returned by GetChunk originates only from a verifying constructor called with the method's own id and with skipVerify being the store's own SkipVerify option or the constant false, or from GetChunk(id)/request.wait() on an inner store with the same id. " +
			"C03.consumers: writeChunk and the UnTarIndex worker use the decoded data only behind the equal edge of compare(indexed size, len(data)). C03.verify-option: StoreOptions.SkipVerify is written only by configuration code. " +
			"C03.sparse-file-bits (shared with C10): in the copy-on-read file behind mount-index a chunk's done bit is set only behind the nil edge of WriteAt(verified chunk data, chunk start), the file is read only after loadRange returned nil and loadRange skips a chunk only when its bit is set or it is the null chunk - otherwise a range that was never fetched (or whose fetch failed verification) is served as zeros.",
		NotDecided: "correctness of the SHA and zstd implementations; which chains a user configures; data races on Chunk.",
		Rules: []rule{
			{"C03.construct", "Chunk literals and writes of its fields only in the constructors/accessors", 5, c03Construct},
			{"C03.ctor-verifies", "verifying constructors return a chunk only via skipVerify or hash-computed-and-equal", 3, c03CtorVerifies},
			{"C03.backends", "every Store.GetChunk returns only verified-constructor results for its own id or forwards an inner GetChunk(id)", 13, c03Backends},
			{"C03.consumers", "consumers compare the decoded length with the indexed size before using the data", 2, c03Consumers},
			{"C03.sparse-file-bits", "mount's copy-on-read file: a chunk's range is served only after its verified data was written (done bit after WriteAt; read after load)", 5, func(c *Ctx) {
				c10SetAfterWrite(c)
				c10ReadAfterLoad(c)
				c10SkipOnly(c)
			}},
			{"C03.verify-option", "SkipVerify options are only written by configuration code", 1, c03VerifyOption},
			{"C03.flag-owners", "the variable behind --skip-verify-read (and the other protection switches) is set by that flag only", 8, func(c *Ctx) { c.flagOwners() }},
			{"C03.chunk-data-owned", "a chunk is built from bytes of its own, never from a buffer that the next request reuses", 8, func(c *Ctx) { c.chunkDataOwned() }},
		},
	})
}

func c03Construct(c *Ctx) {
	allowedLit := map[string]bool{"NewChunk": true, "NewChunkWithID": true, "NewChunkFromStorage": true}
	allowedStore := map[string]bool{"NewChunk": true, "NewChunkWithID": true, "NewChunkFromStorage": true, "Chunk.ID": true, "Chunk.Data": true}
	lits, stores := 0, 0
	for _, fn := range c.subjects() {
		instrs(fn, func(_ *ssa.BasicBlock, _ int, ins ssa.Instruction) {
			switch x := ins.(type) {
			case *ssa.Alloc:
				if typeName(x.Type()) == "desync.Chunk" && namedOf(x.Type().Underlying().(*types.Pointer).Elem()) != nil {
					if _, isPtr := x.Type().Underlying().(*types.Pointer).Elem().(*types.Pointer); isPtr {
						return
					}
					// a local of type Chunk (not *Chunk)
					lits++
					c.verdict(allowedLit[fnKey(fn)], fnKey(fn)+":Chunk-literal", x.Pos(), "Chunk built in a constructor", "a Chunk value is built outside the constructors: its id would not be tied to its data")
				}
			case *ssa.Store:
				if fa, ok := x.Addr.(*ssa.FieldAddr); ok {
					f := fieldOf(fa)
					if strings.HasPrefix(f, "Chunk.") {
						stores++
						c.verdict(allowedStore[fnKey(fn)], fnKey(fn)+":"+f, x.Pos(), "field written in constructor/accessor", "field "+f+" is written outside the constructors and accessors")
					}
				}
			}
		})
	}
	if lits < 3 {
		c.bad("Chunk:constructors", token.NoPos, "expected the three Chunk constructors, found %d literal(s)", lits)
	}
}

func c03CtorVerifies(c *Ctx) {
	idFn := c.mustFn("Chunk.ID")
	for _, key := range []string{"NewChunkWithID", "NewChunkFromStorage"} {
		fn := c.mustFn(key)
		if fn == nil || idFn == nil {
			continue
		}
		idParam := fn.Params[0]
		var skipParam *ssa.Parameter
		for _, p := range fn.Params {
			if p.Name() == "skipVerify" || isBool(p.Type()) {
				skipParam = p
			}
		}
		// the requested id may be compared directly or after it was parked in the new chunk's id field
		idStored := false
		instrs(fn, func(_ *ssa.BasicBlock, _ int, ins ssa.Instruction) {
			if st, ok := ins.(*ssa.Store); ok && ins.Parent() == fn {
				if fa, ok := st.Addr.(*ssa.FieldAddr); ok && fieldOf(fa) == "Chunk.id" && isParam(st.Val, idParam) {
					idStored = true
				}
			}
		})
		var bad []string
		okPaths := 0
		h := &Hooks{
			Inline: func(st *State, call *ssa.Call) (*ssa.Function, bool) {
				if cal := c.staticFn(call); cal == idFn || (cal != nil && fnKey(cal) == "Chunk.Data") {
					return cal, false
				}
				return nil, false
			},
			Fork: func(st *State, call *ssa.Call) []map[int]Val {
				if callee(call) == "(desync.Converters).fromStorage" {
					return []map[int]Val{{0: {N: NNon}, 1: {N: NNil, Class: ClsNil, Sym: "decoded"}}, {1: {N: NNon, Class: ClsOther}}}
				}
				return nil
			},
			Instr: func(st *State, ins ssa.Instruction) {
				if sto, ok := ins.(*ssa.Store); ok {
					if fa, ok := st.Resolve(sto.Addr).(*ssa.FieldAddr); ok && fieldOf(fa) == "Chunk.id" && isParam(st.ArgOf(sto.Val), idParam) {
						k := st.cell(sto.Addr)
						v := st.V[k]
						v.Sym = "requested-id"
						st.V[k] = v
					}
				}
			},
			Call: func(st *State, call *ssa.Call) map[int]Val {
				if callee(call) == "(desync.HashAlgorithm).Sum" {
					// the hash must be taken over the decoded data
					if hasOrigin(call.Call.Args[0], func(o string) bool { return o == "call:(*desync.Chunk).Data#0" }) {
						st.Flags["hashed"] = 1
					}
				}
				return nil
			},
			Branch: func(st *State, iff *ssa.If, taken bool) {
				if skipParam != nil && st.ArgOf(stripNot(iff.Cond)) == ssa.Value(skipParam) {
					_, truth, _ := cmpOf(iff.Cond)
					if taken == truth {
						st.Flags["skip"] = 1
					}
					return
				}
				isSum := func(v ssa.Value) bool {
					return hasOrigin(v, func(o string) bool { return o == "call:(*desync.Chunk).ID#0" })
				}
				isID := func(v ssa.Value) bool {
					// the parameter itself, or the chunk's id field while it still holds the parameter
					// (a call of ID() in between overwrites the field with the computed sum)
					return isParam(st.ArgOf(v), idParam) || (idStored && st.Eval(v).Sym == "requested-id")
				}
				if eqOnTrue, ok := equalEdge(iff, isSum, isID); ok && (iff.Parent() == fn || isNewHelper(iff.Parent())) {
					if taken == eqOnTrue {
						st.Flags["equal"] = 1
					}
				}
			},
			Return: func(st *State, ret *ssa.Return, results []Val) {
				if len(results) != 2 || results[0].N == NNil {
					return
				}
				if results[1].N == NNon {
					return
				}
				okPaths++
				if st.Flags["skip"] == 1 {
					return
				}
				if st.Flags["equal"] == 1 && st.Flags["hashed"] == 1 {
					return
				}
				bad = append(bad, fmt.Sprintf("%s returns a chunk at %s on a path that neither took the skipVerify edge nor (computed Digest.Sum over the decoded data and found it equal to the requested id) [equal=%d hashed=%d]: e.g. undecodable data passes for the all-zero id (trail %s)",
					key, c.pos(ret.Pos()), st.Flags["equal"], st.Flags["hashed"], strings.Join(st.Trail, ">")))
			},
		}
		Explore(fn, fn.Blocks[0], 0, nil, NewState(), h)
		c.paths += h.Paths
		switch {
		case len(bad) > 0:
			c.bad(key+":verified", fn.Pos(), "%s", bad[0])
		case okPaths < 2:
			c.bad(key+":verified", fn.Pos(), "expected a skipVerify and a verified success path, found %d", okPaths)
		default:
			c.ok(key+":verified", fn.Pos(), "%d success path(s): skipVerify edge, or hash computed over decoded data and equal to the id", okPaths)
		}
	}
	// Chunk.ID: idCalculated=true only after Sum over successfully decoded data
	if idFn != nil {
		n := 0
		instrs(idFn, func(_ *ssa.BasicBlock, _ int, ins ssa.Instruction) {
			st, ok := ins.(*ssa.Store)
			if !ok {
				return
			}
			fa, ok := st.Addr.(*ssa.FieldAddr)
			if !ok || fieldOf(fa) != "Chunk.idCalculated" {
				return
			}
			n++
			okG, _ := guarded(idFn, st, nilEdgeOf(func(o string) bool { return o == "call:(*desync.Chunk).Data#1" }))
			sums := calls(idFn, named("(desync.HashAlgorithm).Sum"))
			dom := false
			for _, s := range sums {
				if instrDominates(s.(ssa.Instruction), st) {
					dom = true
				}
			}
			c.verdict(okG && dom, "Chunk.ID:calculated-after-hash", st.Pos(), "idCalculated is set only after Digest.Sum over successfully decoded data", "Chunk.ID marks the id as calculated without having hashed successfully decoded data")
		})
		if n == 0 {
			c.bad("Chunk.ID:calculated-after-hash", idFn.Pos(), "Chunk.ID never records the calculated id")
		}
	}
}

// chunkSources classifies where the *Chunk returned by fn comes from.
type chunkSource struct {
	kind string // ctor | inner | wait | nil | helper | unknown
	desc string
	ok   bool
	pos  token.Pos
}

func (c *Ctx) chunkSources(fn *ssa.Function, idParam *ssa.Parameter, depth int) []chunkSource {
	var out []chunkSource
	for _, r := range returnsOf(fn) {
		if len(r.Results) == 0 || typeName(r.Results[0].Type()) != "desync.Chunk" {
			continue
		}
		for _, l := range leaves(r.Results[0]) {
			if cst, ok := l.(*ssa.Const); ok && cst.Value == nil {
				continue
			}
			call, idx := callOf(l)
			if call == nil || idx != 0 {
				// request.wait() written out: the result field of the in-flight request, read after the
				// receive from its done channel (C12.publish-before-close checks that order)
				if ld, ok := l.(*ssa.UnOp); ok && isResultLoad(ld) {
					out = append(out, chunkSource{"wait", "result of the in-flight request for the same id", true, r.Pos()})
					continue
				}
				out = append(out, chunkSource{"unknown", fmt.Sprintf("chunk of unknown origin %s", l), false, r.Pos()})
				continue
			}
			name := callee(call)
			a := call.Call.Args
			switch {
			case name == "desync.NewChunkFromStorage" || name == "desync.NewChunkWithID":
				idOK := idParam != nil && isParam(a[0], idParam)
				sv := a[len(a)-1]
				svOK := onlyOrigins(sv, func(o string) bool {
					return o == "const:false" || strings.HasSuffix(o, "field:StoreOptions.SkipVerify")
				})
				desc := fmt.Sprintf("%s(id-is-own-parameter=%v, skipVerify=%v)", strings.TrimPrefix(name, "desync."), idOK, origins(sv))
				out = append(out, chunkSource{"ctor", desc, idOK && svOK, call.Pos()})
			case name == "desync.NewChunk":
				out = append(out, chunkSource{"ctor", "NewChunk(b): the id is computed from whatever arrived, nothing is verified", false, call.Pos()})
			case strings.HasSuffix(name, ").GetChunk"):
				idArg := a[len(a)-1]
				idOK := idParam != nil && isParam(idArg, idParam)
				out = append(out, chunkSource{"inner", fmt.Sprintf("%s(same id=%v)", name, idOK), idOK, call.Pos()})
			case name == "(*desync.request).wait":
				out = append(out, chunkSource{"wait", "result of the in-flight request for the same id", true, call.Pos()})
			default:
				cal := c.staticFn(call)
				if cal != nil && depth < 2 {
					// in-package helper returning the chunk: which of its parameters receives our id?
					var calID *ssa.Parameter
					for i, arg := range a {
						if idParam != nil && isParam(arg, idParam) && i < len(cal.Params) {
							calID = cal.Params[i]
						}
					}
					sub := c.chunkSources(cal, calID, depth+1)
					if len(sub) == 0 {
						out = append(out, chunkSource{"unknown", "helper " + fnKey(cal) + " returns no recognisable chunk", false, call.Pos()})
					}
					for _, s := range sub {
						s.desc = "via " + fnKey(cal) + ": " + s.desc
						out = append(out, s)
					}
					continue
				}
				out = append(out, chunkSource{"unknown", "chunk returned by " + name, false, call.Pos()})
			}
		}
	}
	return out
}

func c03Backends(c *Ctx) {
	c03BackendsRules(c)
	c03SkipVerifyPlumbing(c)
}

// c03SkipVerifyPlumbing: in the commands, verification of chunks read from a store is switched
// off only where the --skip-verify flag says so (the config file's per-store entry arrives in
// the options the flag is merged into).  Any other assignment of true to StoreOptions.SkipVerify -
// under another flag, unconditionally - makes every store built from those options hand out
// unverified chunks, and extract writes whatever a damaged store or cache returns.
func c03SkipVerifyPlumbing(c *Ctx) {
	acc := func(iff *ssa.If) (bool, bool) {
		cond := stripNot(iff.Cond)
		neg := cond != iff.Cond
		if !hasOrigin(cond, func(o string) bool { return o == "field:cmdStoreOptions.skipVerify" }) {
			return false, false
		}
		if _, isCmp := cond.(*ssa.BinOp); isCmp {
			return false, false
		}
		return !neg, neg
	}
	n := 0
	for _, fn := range c.subjects() {
		if fn.Pkg != c.CmdSSA || fn.Blocks == nil {
			continue
		}
		instrs(fn, func(_ *ssa.BasicBlock, _ int, ins ssa.Instruction) {
			st, ok := ins.(*ssa.Store)
			if !ok {
				return
			}
			fa, ok := st.Addr.(*ssa.FieldAddr)
			if !ok || fieldOf(fa) != "StoreOptions.SkipVerify" {
				return
			}
			if k, isK := st.Val.(*ssa.Const); isK && !isTrueConst(k) {
				return // switching verification on
			}
			// "opt.SkipVerify = opt.SkipVerify || o.skipVerify": the stored value is computed from
			// what was configured already and the flag, nothing else
			if _, isK := st.Val.(*ssa.Const); !isK && onlyOrigins(st.Val, func(o string) bool {
				return o == "field:cmdStoreOptions.skipVerify" || o == "field:StoreOptions.SkipVerify" || strings.HasPrefix(o, "const:") || strings.HasPrefix(o, "param:")
			}) && hasOrigin(st.Val, func(o string) bool { return o == "field:cmdStoreOptions.skipVerify" }) {
				n++
				c.ok(fnKey(fn)+":skip-verify-by-flag", ins.Pos(), "StoreOptions.SkipVerify is computed from its configured value and --skip-verify only")
				return
			}
			n++
			if fnKey(fn) == "cmd.runPull" {
				c.info(fnKey(fn)+":skip-verify-by-flag", ins.Pos(), "exception: server side of the casync protocol - chunks are sent in storage form and the pulling client verifies them (stated in the source)")
				return
			}
			okG, _ := guarded(fn, ins, acc)
			c.verdict(okG, fnKey(fn)+":skip-verify-by-flag", ins.Pos(), "StoreOptions.SkipVerify is set only where --skip-verify is set", "StoreOptions.SkipVerify is switched on by something other than the --skip-verify flag: every store built from these options hands out chunks without hashing them, and a damaged store or cache ends up in the output")
		})
	}
	if n == 0 {
		c.info("skip-verify-by-flag", token.NoPos, "no assignment of true to StoreOptions.SkipVerify in the commands")
	}
}

func c03BackendsRules(c *Ctx) {
	impls := c.implementers("Store")
	sort.Slice(impls, func(i, j int) bool { return impls[i].Obj().Name() < impls[j].Obj().Name() })
	seen := map[*ssa.Function]bool{}
	for _, t := range impls {
		fn := c.methodOf(t, "GetChunk")
		if fn == nil || seen[fn] || fn.Pkg != c.LibSSA {
			continue
		}
		seen[fn] = true
		c.scope(fn)
		key := fnKey(fn)
		var idParam *ssa.Parameter
		for _, p := range fn.Params {
			if typeName(p.Type()) == "desync.ChunkID" {
				idParam = p
			}
		}
		srcs := c.chunkSources(fn, idParam, 0)
		if len(srcs) == 0 {
			c.bad(key+":chunk-origin", fn.Pos(), "GetChunk returns no recognisable chunk")
			continue
		}
		var descs []string
		okAll := true
		var badPos token.Pos
		for _, s := range srcs {
			descs = append(descs, s.desc)
			if !s.ok {
				okAll = false
				badPos = s.pos
			}
		}
		if okAll {
			c.ok(key+":chunk-origin", fn.Pos(), "%s", strings.Join(descs, "; "))
		} else {
			c.bad(key+":chunk-origin", badPos, "the chunk returned for a requested id is not tied to that id by verification: %s", strings.Join(descs, "; "))
		}
	}
	// other producers of chunks from untrusted bytes
	for _, extra := range []struct{ key, want string }{{"HTTPHandler.put", "field:HTTPHandler.SkipVerifyWrite"}, {"readChunkFromFile", "const:false"}} {
		fn := c.mustFn(extra.key)
		if fn == nil {
			continue
		}
		n := 0
		for _, call := range calls(fn, named("desync.NewChunkFromStorage", "desync.NewChunkWithID")) {
			n++
			a := call.Common().Args
			sv := a[len(a)-1]
			c.verdict(onlyOrigins(sv, func(o string) bool { return o == extra.want || o == "const:false" }), extra.key+":verifies", call.Pos(),
				"chunk built through the verifying constructor with skipVerify="+extra.want, fmt.Sprintf("skipVerify is %v: data that does not match the id would be accepted", origins(sv)))
		}
		if n == 0 {
			c.bad(extra.key+":verifies", fn.Pos(), "no verifying constructor call found")
		}
	}
}

func c03Consumers(c *Ctx) {
	type site struct {
		fn  *ssa.Function
		key string
	}
	var sites []site
	if fn := c.fn("UnTarIndex"); fn != nil {
		for _, cl := range closures(fn) {
			if newHelpers[cl] {
				continue // a local fetch helper: seen through the worker that calls it
			}
			if len(calls(cl, named("(desync.Store).GetChunk"))) > 0 {
				sites = append(sites, site{cl, "UnTarIndex.worker"})
			}
		}
	}
	if len(sites) == 0 {
		c.bad("UnTarIndex.worker:size-check", token.NoPos, "worker closure of UnTarIndex not found")
	}
	for _, s := range sites {
		// the use: a send of the data on a channel
		n := 0
		instrs(s.fn, func(_ *ssa.BasicBlock, _ int, ins ssa.Instruction) {
			snd, ok := ins.(*ssa.Send)
			if !ok || !hasOrigin(snd.X, func(o string) bool { return o == "call:(*desync.Chunk).Data#0" }) {
				return
			}
			n++
			okG, _ := guarded(s.fn, snd, func(iff *ssa.If) (bool, bool) {
				eqOnTrue, ok := equalEdge(iff, originHas("field:IndexChunk.Size"), originHas("len:call:(*desync.Chunk).Data#0"))
				if !ok {
					return false, false
				}
				return eqOnTrue, !eqOnTrue
			})
			c.verdict(okG, s.key+":size-check", snd.Pos(), "decoded data is handed on only behind compare(index size, len(data)) equal", "decoded data is used although its length was not compared with the indexed size")
		})
		if n == 0 {
			c.bad(s.key+":size-check", s.fn.Pos(), "the worker does not hand the decoded data on")
		}
		sitesN, bad := errPropagates(c, s.fn, func(name string, _ *ssa.Call) bool {
			return name == "(desync.Store).GetChunk" || name == "(*desync.Chunk).Data"
		}, errPropOpts{maxVisits: 3})
		if len(bad) > 0 {
			c.bad(s.key+":errors", s.fn.Pos(), "%s", bad[0])
		} else {
			c.ok(s.key+":errors", s.fn.Pos(), "%d fallible call site(s), failures fail the worker", sitesN)
		}
	}
	// writeChunk's size check is decided by C01.writechunk; restate it here as a shared obligation
	if fn := c.mustFn("writeChunk"); fn != nil {
		for _, w := range calls(fn, named("(*os.File).WriteAt")) {
			okG, _ := guarded(fn, w.(ssa.Instruction), func(iff *ssa.If) (bool, bool) {
				eqOnTrue, ok := equalEdge(iff, originHas("field:IndexChunk.Size"), originHas("len:call:(*desync.Chunk).Data#0"))
				if !ok {
					return false, false
				}
				return eqOnTrue, !eqOnTrue
			})
			c.verdict(okG, "writeChunk:size-check", w.Pos(), "store data is written only behind compare(index size, len(data)) equal", "store data is written although its length was not compared with the indexed size")
		}
	}
}

var verifyOptionExceptions = map[string]string{
	"cmd.runPull": "server side of the casync protocol: chunks are sent in storage form and the client verifies them (stated in the source); the store serves nothing else",
}

func c03VerifyOption(c *Ctx) {
	n := 0
	for _, fn := range c.subjects() {
		instrs(fn, func(_ *ssa.BasicBlock, _ int, ins ssa.Instruction) {
			st, ok := ins.(*ssa.Store)
			if !ok {
				return
			}
			fa, ok := st.Addr.(*ssa.FieldAddr)
			if !ok || fieldOf(fa) != "StoreOptions.SkipVerify" {
				return
			}
			n++
			k := fnKey(fn)
			// configuration code: the flag merge (only behind the --skip-verify flag), option (un)marshalling, or copying options
			cst, isConst := st.Val.(*ssa.Const)
			switch {
			case !isConst || cst.Value == nil || cst.Value.ExactString() != "true":
				c.ok(k+":SkipVerify", st.Pos(), "SkipVerify copied or cleared")
			case k == "cmd.cmdStoreOptions.MergedWith":
				okG, _ := guarded(fn, st, func(iff *ssa.If) (bool, bool) {
					if !onlyOrigins(iff.Cond, func(o string) bool { return o == "field:cmdStoreOptions.skipVerify" }) {
						return false, false
					}
					if u, ok := iff.Cond.(*ssa.UnOp); ok && u.Op == token.NOT {
						return false, true
					}
					return true, false
				})
				c.verdict(okG, k+":SkipVerify", st.Pos(), "SkipVerify is switched on only behind the --skip-verify flag", "the option merge switches SkipVerify on without the --skip-verify flag being set: every store configured through the command line stops verifying")
			case verifyOptionExceptions[k] != "":
				c.info(k+":SkipVerify", st.Pos(), "exception: %s", verifyOptionExceptions[k])
			default:
				c.bad(k+":SkipVerify", st.Pos(), "SkipVerify is set to true by the program (not by the --skip-verify flag or the configuration file): verification is disabled without the user asking for it")
			}
		})
	}
	if n == 0 {
		c.ok("StoreOptions.SkipVerify", token.NoPos, "SkipVerify is never written by code (only decoded from configuration / flags)")
	}
}
