package main

import (
	"fmt"
	"go/token"
	"go/types"
	"strings"

	"golang.org/x/tools/go/ssa"
)

func init() {
	register(&property{
		ID: "C11",
		Explanation: "C11.policy: each wrapper method is explored with every error class (nil, ChunkMissing, ChunkInvalid, other) assumed for each member call and the sequence of member outcomes is compared with the documented policy. StoreRouter.GetChunk: Missing* then nil->chunk | other->error, exhausted->ChunkMissing, nothing is called after a terminal outcome; StoreRouter.HasChunk likewise; " +
			"FailoverGroup.GetChunk/HasChunk: nil->return, Missing->return Missing without fail-over, other->errorFrom(the index current() returned in the same attempt) then the next attempt, loop bounded by len(stores), exhausted->last error; Cache.GetChunk: local hit->no upstream call, local Missing->upstream->StoreChunk of that chunk, every error returned; Cache.HasChunk; RepairableCache maps ChunkInvalid to ChunkMissing and nothing else. " +
			"C11.failover-guard: FailoverGroup.active is advanced only on the i==active edge, under the write lock. C11.swap: SwapStore.s is read and called only while the lock is held (a value loaded from it may not leave the critical section), Swap closes the old store and assigns under the write lock; lock pairing. C11.shapes: the CLI builds Cache(Router(FailoverGroup...), RepairableCache?) in that order.",
		NotDecided: "concurrent histories, liveness ('keeps succeeding while a member is healthy') as a statement over fault schedules, contents of the member stores.",
		Rules: []rule{
			{"C11.policy", "wrapper methods follow the documented routing / caching / failover / repair table for every error class", 7, c11Policy},
			{"C11.failover-guard", "active index advanced only by the request that observed the active member fail; under the write lock", 3, c11FailoverGuard},
			{"C11.swap", "SwapStore.s is used only under the lock; Swap closes and assigns under the write lock", 6, c11Swap},
			{"C11.flag-defaults", "cache repair is on unless switched off", 1, func(c *Ctx) {
				c.flagDefaults(map[string]flagSpec{"cache-repair": {"true", "cmdStoreOptions.cacheRepair", 1}})
			}},
			{"C11.store-overwrites", "the local cache store always writes and renames a fresh file (an invalid cached chunk is replaced by the refill; shared with C08)", 3, c08Typestate},
			{"C11.shapes", "the CLI wraps stores as Cache(Router(FailoverGroup...), RepairableCache?)", 3, c11Shapes},
			{"C11.dedup-leader", "the de-duplication layer of the store chain forwards each request once and forgets it afterwards (same queue for loadOrStore and delete; shared with C12)", 3, c12Leader},
			{"C11.missing-unwrapped", "a miss is reported as the concrete ChunkMissing/NoSuchObject by every function that builds one", 8, func(c *Ctx) { c.missingUnwrapped() }},
			{"C11.pool-returned", "pooled sessions (ssh, sftp) are given back on every path, also after a miss", 4, func(c *Ctx) { c.poolPairing("RemoteSSH", "pool"); c.poolPairing("SFTPStore", "pool") }},
			{"C11.minio-error-values", "minio errors are recognised by their value type (a miss in S3 stays a miss)", 1, func(c *Ctx) { c.valueErrorTypes() }},
		},
	})
}

// outcome forks for member calls
func chunkOutcomes(tag string) []map[int]Val {
	return []map[int]Val{
		{0: {N: NNon, Sym: tag + ":chunk"}, 1: {N: NNil, Class: ClsNil, Sym: tag + ":nil"}},
		{0: {N: NNil}, 1: {N: NNon, Class: ClsMissing, Sym: tag + ":missing"}},
		{0: {N: NNil}, 1: {N: NNon, Class: ClsInvalid, Sym: tag + ":invalid"}},
		{0: {N: NNil}, 1: {N: NNon, Class: ClsOther, Sym: tag + ":other"}},
	}
}

func hasOutcomes() []map[int]Val {
	return []map[int]Val{
		{0: {B: BTrue}, 1: {N: NNil, Class: ClsNil}},
		{0: {B: BFalse}, 1: {N: NNil, Class: ClsNil}},
		{0: {B: BFalse}, 1: {N: NNon, Class: ClsOther}},
	}
}

// errClass gives the class a returned error value has for a caller that inspects it.
func errClass(v Val) string {
	if v.N == NNil {
		return "nil"
	}
	if strings.HasPrefix(v.Sym, "wrapped:") {
		return "wrapped(" + strings.TrimPrefix(v.Sym, "wrapped:") + ")"
	}
	if v.Class == "" {
		return "?"
	}
	return v.Class
}

func c11Policy(c *Ctx) {
	// ---- StoreRouter.GetChunk
	if fn := c.mustFn("StoreRouter.GetChunk"); fn != nil {
		var bad []string
		h := &Hooks{
			MaxVisits: 3,
			Fork: func(st *State, call *ssa.Call) []map[int]Val {
				if callee(call) != "(desync.Store).GetChunk" {
					return nil
				}
				outs := chunkOutcomes("m")
				var res []map[int]Val
				for i, o := range outs {
					o := o
					_ = i
					res = append(res, o)
				}
				return res
			},
			Instr:  func(st *State, ins ssa.Instruction) {},
			Return: func(st *State, ret *ssa.Return, results []Val) {},
		}
		// record outcomes as events: wrap Fork to emit
		inner := h.Fork
		h.Fork = func(st *State, call *ssa.Call) []map[int]Val {
			outs := inner(st, call)
			if outs == nil {
				return nil
			}
			st.Emit("call", "", call)
			return outs
		}
		h.Return = func(st *State, ret *ssa.Return, results []Val) {
			seq := outcomeSeq(st, "m")
			got := errClass(results[1])
			k := len(seq)
			// prefix must be all missing
			for i := 0; i < k-1; i++ {
				if seq[i] != "missing" {
					bad = append(bad, fmt.Sprintf("member outcomes %v: another member is asked after outcome %q (only ChunkMissing may fall through)", seq, seq[i]))
					return
				}
			}
			last := "exhausted"
			if k > 0 {
				last = seq[k-1]
			}
			switch last {
			case "nil":
				if got != "nil" || results[0].N == NNil {
					bad = append(bad, fmt.Sprintf("member outcomes %v: a found chunk is returned as (%v, %s)", seq, results[0], got))
				}
			case "missing", "exhausted":
				if got != ClsMissing {
					bad = append(bad, fmt.Sprintf("member outcomes %v: returned error class %s, want ChunkMissing", seq, got))
				}
			default:
				if results[1].N != NNon || got == ClsMissing {
					bad = append(bad, fmt.Sprintf("member outcomes %v: a failing member yields %s (must be an error, and not ChunkMissing)", seq, got))
				}
			}
		}
		Explore(fn, fn.Blocks[0], 0, nil, NewState(), h)
		c.paths += h.Paths
		c.report("StoreRouter.GetChunk:policy", fn, bad, fmt.Sprintf("%d path(s): Missing* then nil->chunk | other->error; exhausted->ChunkMissing", h.Paths))
	}
	// ---- StoreRouter.HasChunk
	if fn := c.mustFn("StoreRouter.HasChunk"); fn != nil {
		var bad []string
		h := &Hooks{MaxVisits: 3}
		h.Fork = func(st *State, call *ssa.Call) []map[int]Val {
			if callee(call) != "(desync.Store).HasChunk" {
				return nil
			}
			return []map[int]Val{
				{0: {B: BTrue, Sym: "m:true"}, 1: {N: NNil, Class: ClsNil}},
				{0: {B: BFalse, Sym: "m:false"}, 1: {N: NNil, Class: ClsNil}},
				{0: {B: BFalse}, 1: {N: NNon, Class: ClsOther, Sym: "m:other"}},
			}
		}
		h.Return = func(st *State, ret *ssa.Return, results []Val) {
			seq := outcomeSeq(st, "m")
			k := len(seq)
			for i := 0; i < k-1; i++ {
				if seq[i] != "false" {
					bad = append(bad, fmt.Sprintf("member outcomes %v: another member is asked after %q", seq, seq[i]))
					return
				}
			}
			last := "exhausted"
			if k > 0 {
				last = seq[k-1]
			}
			b, e := results[0], results[1]
			switch last {
			case "true":
				if !(b.B == BTrue && e.N == NNil) {
					bad = append(bad, fmt.Sprintf("member outcomes %v: result (%v,%v), want (true,nil)", seq, b, e))
				}
			case "false", "exhausted":
				if !(b.B == BFalse && e.N == NNil) {
					bad = append(bad, fmt.Sprintf("member outcomes %v: result (%v,%v), want (false,nil)", seq, b, e))
				}
			default:
				if e.N != NNon {
					bad = append(bad, fmt.Sprintf("member outcomes %v: a failing member is not reported as an error", seq))
				}
			}
		}
		Explore(fn, fn.Blocks[0], 0, nil, NewState(), h)
		c.paths += h.Paths
		c.report("StoreRouter.HasChunk:policy", fn, bad, fmt.Sprintf("%d path(s): false* then true | error; exhausted->(false,nil)", h.Paths))
	}
	// ---- FailoverGroup
	for _, m := range []string{"GetChunk", "HasChunk"} {
		fn := c.mustFn("FailoverGroup." + m)
		if fn == nil {
			continue
		}
		var bad []string
		h := &Hooks{MaxVisits: 3}
		h.Fork = func(st *State, call *ssa.Call) []map[int]Val {
			switch callee(call) {
			case "(desync.Store).GetChunk":
				st.Emit("attempt", "", call)
				return chunkOutcomes("m")
			case "(desync.Store).HasChunk":
				st.Emit("attempt", "", call)
				return []map[int]Val{
					{0: {B: BTrue}, 1: {N: NNil, Class: ClsNil, Sym: "m:nil"}},
					{0: {B: BFalse}, 1: {N: NNon, Class: ClsOther, Sym: "m:other"}},
				}
			}
			return nil
		}
		h.Call = func(st *State, call *ssa.Call) map[int]Val {
			if callee(call) == "(*desync.FailoverGroup).errorFrom" {
				// the index must be the one current() returned in this attempt
				okArg := onlyOrigins(call.Call.Args[1], func(o string) bool { return o == "call:(*desync.FailoverGroup).current#1" })
				if okArg {
					st.Emit("errorFrom", "", call)
				} else {
					st.Emit("errorFrom", "wrong-index", call)
				}
			}
			return nil
		}
		h.Return = func(st *State, ret *ssa.Return, results []Val) {
			seq := outcomeSeq(st, "m")
			word := st.Word()
			k := len(seq)
			// every non-terminal outcome must be a failure followed by errorFrom
			nFail := 0
			for i, o := range seq {
				terminal := o == "nil" || (o == "missing" && m == "GetChunk")
				if terminal && i != k-1 {
					bad = append(bad, fmt.Sprintf("outcomes %v: another attempt after terminal outcome %q", seq, o))
					return
				}
				if !terminal {
					nFail++
				}
			}
			ef := st.Count("errorFrom")
			if strings.Contains(word, "errorFrom(wrong-index)") {
				bad = append(bad, "errorFrom is not given the index that current() returned for the failed attempt: a failure of the active member is attributed to the wrong member and the group does not fail over")
				return
			}
			if ef != nFail {
				bad = append(bad, fmt.Sprintf("outcomes %v with %d errorFrom call(s) (events %s): fail-over must happen exactly for outcomes other than success%s", seq, ef, word, map[bool]string{true: "/ChunkMissing", false: ""}[m == "GetChunk"]))
				return
			}
			e := results[1]
			last := "exhausted"
			if k > 0 {
				last = seq[k-1]
			}
			switch {
			case last == "nil":
				if e.N != NNil {
					bad = append(bad, fmt.Sprintf("outcomes %v: success returned as error", seq))
				}
			case last == "missing" && m == "GetChunk":
				if errClass(e) != ClsMissing {
					bad = append(bad, fmt.Sprintf("outcomes %v: a missing chunk is returned as %s", seq, errClass(e)))
				}
			case k > 0:
				if e.N != NNon {
					bad = append(bad, fmt.Sprintf("outcomes %v: all attempts failed but the result is %v", seq, e))
				}
			}
		}
		Explore(fn, fn.Blocks[0], 0, nil, NewState(), h)
		c.paths += h.Paths
		// loop bound
		hdr, _, _ := loopOverLen(fn, func(os []string) bool { return hasAll(os, "field:FailoverGroup.stores") })
		if hdr == nil {
			hdr = loopCountdownFromLen(fn, func(os []string) bool { return hasAll(os, "field:FailoverGroup.stores") })
		}
		if hdr == nil {
			bad = append(bad, "the attempt loop is not bounded by len(g.stores)")
		} else {
			for _, call := range calls(fn, named("(desync.Store).GetChunk", "(desync.Store).HasChunk")) {
				if !hdr.Dominates(call.Block()) {
					bad = append(bad, "a member call lies outside the loop bounded by len(g.stores)")
				}
			}
		}
		c.report("FailoverGroup."+m+":policy", fn, bad, fmt.Sprintf("%d path(s): success/Missing return at once, failures fail over with the observed index, at most len(stores) attempts", h.Paths))
	}
	// ---- Cache.GetChunk
	if fn := c.mustFn("Cache.GetChunk"); fn != nil {
		var bad []string
		which := func(call *ssa.Call) string {
			if hasOrigin(call.Call.Value, func(o string) bool { return o == "field:Cache.l" }) {
				return "local"
			}
			if hasOrigin(call.Call.Value, func(o string) bool { return o == "field:Cache.s" }) {
				return "upstream"
			}
			return "?"
		}
		h := &Hooks{}
		h.Fork = func(st *State, call *ssa.Call) []map[int]Val {
			switch callee(call) {
			case "(desync.WriteStore).GetChunk", "(desync.Store).GetChunk":
				w := which(call)
				st.Emit(w, "", call)
				return chunkOutcomes(w)
			case "(desync.WriteStore).StoreChunk":
				argOK := hasOrigin(call.Call.Args[0], func(o string) bool { return o == "call:(desync.Store).GetChunk#0" })
				if argOK {
					st.Emit("fill", "", call)
				} else {
					st.Emit("fill", "wrong-chunk", call)
				}
				return []map[int]Val{{0: {N: NNil, Class: ClsNil, Sym: "fill:nil"}}, {0: {N: NNon, Class: ClsOther, Sym: "fill:other"}}}
			}
			return nil
		}
		h.Return = func(st *State, ret *ssa.Return, results []Val) {
			loc := outcomeSeq(st, "local")
			up := outcomeSeq(st, "upstream")
			fill := outcomeSeq(st, "fill")
			e := results[1]
			desc := fmt.Sprintf("local=%v upstream=%v fill=%v -> %s", loc, up, fill, errClass(e))
			if len(loc) != 1 {
				bad = append(bad, "the local store is not asked exactly once first: "+desc)
				return
			}
			switch loc[0] {
			case "nil":
				if len(up) != 0 || e.N != NNil || results[0].N == NNil {
					bad = append(bad, "a cached chunk must be served without touching upstream: "+desc)
				}
			case "missing":
				if len(up) != 1 {
					bad = append(bad, "a cache miss must ask upstream exactly once: "+desc)
					return
				}
				switch up[0] {
				case "nil":
					if len(fill) != 1 || strings.Contains(st.Word(), "fill(wrong-chunk)") {
						bad = append(bad, "a chunk fetched from upstream must be stored in the cache (that chunk, once): "+desc)
					} else if fill[0] == "nil" && (e.N != NNil || results[0].N == NNil) {
						bad = append(bad, "miss+fetch+fill succeeded but the result is not the chunk: "+desc)
					} else if fill[0] != "nil" && e.N != NNon {
						bad = append(bad, "a failed cache fill is not reported: "+desc)
					}
				default:
					if e.N != NNon || len(fill) != 0 {
						bad = append(bad, "an upstream failure must be returned and nothing cached: "+desc)
					}
					if up[0] == "missing" && errClass(e) != ClsMissing {
						bad = append(bad, "an upstream ChunkMissing must stay ChunkMissing: "+desc)
					}
				}
			default:
				if len(up) != 0 || e.N != NNon {
					bad = append(bad, "a local error other than ChunkMissing must be returned without asking upstream: "+desc)
				}
			}
		}
		Explore(fn, fn.Blocks[0], 0, nil, NewState(), h)
		c.paths += h.Paths
		c.report("Cache.GetChunk:policy", fn, bad, fmt.Sprintf("%d path(s): hit->no upstream; miss->upstream->fill; errors returned", h.Paths))
	}
	// ---- Cache.HasChunk
	if fn := c.mustFn("Cache.HasChunk"); fn != nil {
		var bad []string
		h := &Hooks{}
		h.Fork = func(st *State, call *ssa.Call) []map[int]Val {
			n := callee(call)
			if n != "(desync.WriteStore).HasChunk" && n != "(desync.Store).HasChunk" {
				return nil
			}
			tag := "upstream"
			if hasOrigin(call.Call.Value, func(o string) bool { return o == "field:Cache.l" }) {
				tag = "local"
			}
			st.Emit(tag, "", call)
			return []map[int]Val{
				{0: {B: BTrue, Sym: tag + ":true"}, 1: {N: NNil, Class: ClsNil}},
				{0: {B: BFalse, Sym: tag + ":false"}, 1: {N: NNil, Class: ClsNil}},
				{0: {B: BFalse}, 1: {N: NNon, Class: ClsOther, Sym: tag + ":other"}},
			}
		}
		h.Return = func(st *State, ret *ssa.Return, results []Val) {
			loc, up := outcomeSeq(st, "local"), outcomeSeq(st, "upstream")
			desc := fmt.Sprintf("local=%v upstream=%v -> (%v,%v)", loc, up, results[0], results[1])
			if len(loc) != 1 {
				bad = append(bad, "local store not asked first: "+desc)
				return
			}
			switch loc[0] {
			case "true":
				if len(up) != 0 || results[0].B != BTrue || results[1].N != NNil {
					bad = append(bad, "cached chunk must answer true without upstream: "+desc)
				}
			case "other":
				if results[1].N != NNon {
					bad = append(bad, "a local failure must be reported: "+desc)
				}
			case "false":
				if len(up) != 1 {
					bad = append(bad, "a cache miss must ask upstream: "+desc)
				}
			}
		}
		Explore(fn, fn.Blocks[0], 0, nil, NewState(), h)
		c.paths += h.Paths
		c.report("Cache.HasChunk:policy", fn, bad, fmt.Sprintf("%d path(s)", h.Paths))
	}
	// ---- RepairableCache.GetChunk
	if fn := c.mustFn("RepairableCache.GetChunk"); fn != nil {
		tab := c.classTable(fn, "(desync.Store).GetChunk", 1, []string{ClsNil, ClsMissing, ClsInvalid, ClsOther}, nil)
		want := map[string]string{ClsNil: "nil", ClsMissing: ClsMissing, ClsInvalid: ClsMissing, ClsOther: ClsOther}
		okT := true
		var detail []string
		for in, out := range want {
			got := strings.Join(tab[in], "|")
			detail = append(detail, in+"->"+got)
			if got != out {
				okT = false
			}
		}
		sortStrings(detail)
		c.verdict(okT, "RepairableCache.GetChunk:policy", fn.Pos(), strings.Join(detail, ", "), "class mapping deviates (want ChunkInvalid->ChunkMissing, everything else unchanged): "+strings.Join(detail, ", "))
	}
}

// outcomeSeq lists, in path order, the labels of the outcomes chosen for forked calls whose
// result was labelled "<tag>:<label>" (recorded by the explorer as "outcome:<tag>" events).
func outcomeSeq(st *State, tag string) []string {
	var out []string
	for _, e := range st.Events {
		if e.Kind == "outcome:"+tag {
			// one forked call may label several results (chunk + error): count it once
			if e.Arg == "chunk" {
				continue
			}
			out = append(out, e.Arg)
		}
	}
	return out
}

// report records one obligation from a list of violations.
func (c *Ctx) report(key string, fn *ssa.Function, bad []string, okDetail string) {
	if len(bad) > 0 {
		c.bad(key, fn.Pos(), "%s", bad[0])
	} else {
		c.ok(key, fn.Pos(), "%s", okDetail)
	}
}

func c11FailoverGuard(c *Ctx) {
	fn := c.mustFn("FailoverGroup.errorFrom")
	if fn == nil {
		return
	}
	var iParam *ssa.Parameter
	for _, p := range fn.Params {
		if p.Name() != "g" && typeName(p.Type()) == "" {
			iParam = p
		}
	}
	n := 0
	instrs(fn, func(_ *ssa.BasicBlock, _ int, ins ssa.Instruction) {
		st, ok := ins.(*ssa.Store)
		if !ok {
			return
		}
		fa, ok := st.Addr.(*ssa.FieldAddr)
		if !ok || fieldOf(fa) != "FailoverGroup.active" {
			return
		}
		n++
		okG, _ := guarded(fn, st, func(iff *ssa.If) (bool, bool) {
			eqOnTrue, ok := equalEdge(iff, func(v ssa.Value) bool { return iParam != nil && isParam(v, iParam) }, originHas("field:FailoverGroup.active"))
			if !ok {
				return false, false
			}
			return eqOnTrue, !eqOnTrue
		})
		c.verdict(okG, "FailoverGroup.errorFrom:only-observer", st.Pos(), "active is advanced only on the i == active edge", "active is advanced although the failing index is not (or no longer) the active one: concurrent failures skip healthy members")
		// new value: (active + 1) % len(stores), or the same written out: x+1 behind x+1 < len(stores)
		// and 0 behind x+1 >= len(stores), x being active (or the index just found equal to it)
		var isX func(v ssa.Value) bool
		isX = func(v ssa.Value) bool {
			if pr, isP := v.(*ssa.Parameter); isP && newHelpers[pr.Parent()] {
				h := pr.Parent()
				for k, hp := range h.Params {
					if hp != pr {
						continue
					}
					sites := helperSites[h]
					for _, cs := range sites {
						if k >= len(cs.Common().Args) || !isX(cs.Common().Args[k]) {
							return false
						}
					}
					return len(sites) > 0
				}
				return false
			}
			return hasOrigin(v, func(o string) bool { return o == "field:FailoverGroup.active" }) || (iParam != nil && isParam(v, iParam))
		}
		isXp1 := func(v ssa.Value) bool {
			add, ok := v.(*ssa.BinOp)
			if !ok || add.Op != token.ADD {
				return false
			}
			if k, ok := add.Y.(*ssa.Const); ok && constInt64(k) == 1 && isX(add.X) {
				return true
			}
			if k, ok := add.X.(*ssa.Const); ok && constInt64(k) == 1 && isX(add.Y) {
				return true
			}
			return false
		}
		isLen := func(v ssa.Value) bool {
			return hasOrigin(v, func(o string) bool { return o == "len:field:FailoverGroup.stores" })
		}
		vss := valueSites(st.Val, st.Block(), nil, 0)
		okV := len(vss) > 0
		for _, vs := range vss {
			switch {
			case func() bool {
				bo, ok := vs.v.(*ssa.BinOp)
				return ok && bo.Op == token.REM && isLen(bo.Y) && isXp1(bo.X)
			}():
			case isXp1(vs.v):
				if !siteGuarded(vs, relAcc(token.LSS, isXp1, isLen)) {
					okV = false
				}
			case func() bool { k, ok := vs.v.(*ssa.Const); return ok && k.Value != nil && constInt64(k) == 0 }():
				if !siteGuarded(vs, relAcc(token.GEQ, isXp1, isLen)) {
					okV = false
				}
			default:
				okV = false
			}
		}
		c.verdict(okV, "FailoverGroup.errorFrom:next", st.Pos(), "active = (active+1) % len(stores)", "active is not advanced to the next member modulo len(stores)")
	})
	if n == 0 {
		c.bad("FailoverGroup.errorFrom:only-observer", fn.Pos(), "errorFrom never advances active")
	}
	c.guardedBy(guardedField{"FailoverGroup", "active", "mu", "index of the member in use"}, nil)
	c.lockPairing("FailoverGroup")
}

func c11Swap(c *Ctx) {
	c.guardedBy(guardedField{"SwapStore", "s", "mu", "the wrapped store"}, nil)
	c.lockPairing("SwapStore", "SwapWriteStore")
	// held-through-call: a value loaded from SwapStore.s is only used (called) while the lock is
	// held and does not leave the critical section
	for _, fn := range c.subjects() {
		var lf *lockFlow
		instrs(fn, func(_ *ssa.BasicBlock, _ int, ins ssa.Instruction) {
			ld, ok := ins.(*ssa.UnOp)
			if !ok || ld.Op != token.MUL {
				return
			}
			fa, ok := ld.X.(*ssa.FieldAddr)
			if !ok || fieldOf(fa) != "SwapStore.s" || ld.Referrers() == nil {
				return
			}
			if lf == nil {
				lf = analyseLocks(fn)
			}
			want := strings.ReplaceAll(lockKey(fa.X), "*", "") + ".mu"
			key := fmt.Sprintf("SwapStore.s@%s:use", fnKey(fn))
			var walk func(v ssa.Value, depth int)
			walk = func(v ssa.Value, depth int) {
				if depth > 3 || v.Referrers() == nil {
					return
				}
				for _, r := range *v.Referrers() {
					switch x := r.(type) {
					case *ssa.Return:
						// a helper that returns with the lock held and hands the release to its caller
						// ("store, release := s.acquire(); defer release()"): the critical section
						// continues in the callers, the value is followed there
						if _, _, handOff := lockHandOff(x.Parent()); handOff {
							idx := -1
							for i, res := range x.Results {
								if res == v {
									idx = i
								}
							}
							for _, cs := range helperSites[x.Parent()] {
								call, isCall := cs.(*ssa.Call)
								if !isCall || call.Referrers() == nil {
									continue
								}
								saved := lf
								lf = analyseLocks(call.Parent())
								for _, r2 := range *call.Referrers() {
									if ex, ok := r2.(*ssa.Extract); ok && ex.Index == idx {
										walk(ex, depth+1)
									}
								}
								lf = saved
							}
							continue
						}
						c.bad(key, x.Pos(), "the store loaded from SwapStore.s is returned out of the critical section: a request can run on it after Swap closed it")
					case *ssa.Store:
						if x.Val == v {
							c.bad(key, x.Pos(), "the store loaded from SwapStore.s is saved outside the critical section")
						}
					case ssa.CallInstruction:
						if _, isDefer := r.(*ssa.Defer); isDefer {
							continue
						}
						if holds(lf.must[r], want, false) {
							c.ok(key, r.Pos(), "used under %s", want)
						} else {
							c.bad(key, r.Pos(), "the wrapped store is called without holding %s: Swap can close it under the request", want)
						}
					case *ssa.TypeAssert:
						walk(x, depth+1)
					case *ssa.Extract:
						walk(x, depth+1)
					case *ssa.ChangeInterface:
						walk(x, depth+1)
					case *ssa.MakeInterface:
						walk(x, depth+1)
					case *ssa.Phi:
						walk(x, depth+1)
					}
				}
			}
			walk(ld, 0)
		})
	}
	// Swap: closes the old store and assigns under the write lock
	if fn := c.mustFn("SwapStore.Swap"); fn != nil {
		lf := analyseLocks(fn)
		closed, assigned := false, false
		instrs(fn, func(_ *ssa.BasicBlock, _ int, ins ssa.Instruction) {
			switch x := ins.(type) {
			case *ssa.Call:
				if strings.HasSuffix(callee(x), ").Close") && hasOrigin(x.Call.Value, func(o string) bool { return o == "field:SwapStore.s" }) {
					if holds(lf.must[x], ".mu", true) {
						closed = true
					}
				}
			case *ssa.Store:
				if fa, ok := x.Addr.(*ssa.FieldAddr); ok && fieldOf(fa) == "SwapStore.s" {
					if _, isParam := x.Val.(*ssa.Parameter); isParam && holds(lf.must[x], ".mu", true) {
						assigned = true
					}
				}
			}
		})
		c.verdict(closed && assigned, "SwapStore.Swap:close-and-assign", fn.Pos(), "the old store is closed and the new one assigned under the write lock", "Swap does not close the old store and assign the new one under the write lock")
	}
}

func c11Shapes(c *Ctx) {
	if fn := c.mustFn("cmd.MultiStoreWithCache"); fn != nil {
		for _, call := range calls(fn, named("desync.NewCache")) {
			a := call.Common().Args
			upOK := hasOrigin(a[0], func(o string) bool { return o == "call:cmd.multiStoreWithRouter#0" })
			// (const:nil is what a new helper returns together with its error)
			locOK := onlyOrigins(a[1], func(o string) bool {
				return o == "call:cmd.WritableStore#0" || o == "call:desync.NewRepairableCache#0" || o == "const:nil"
			}) && hasOrigin(a[1], func(o string) bool { return o == "call:cmd.WritableStore#0" })
			c.verdict(upOK && locOK, "cmd.MultiStoreWithCache:cache", call.Pos(), "NewCache(router of the stores, writable cache [RepairableCache])", fmt.Sprintf("the cache is not built as Cache(router, cache store): %v / %v", origins(a[0]), origins(a[1])))
		}
		for _, call := range calls(fn, named("desync.NewRepairableCache")) {
			okG, _ := guarded(fn, call.(ssa.Instruction), func(iff *ssa.If) (bool, bool) {
				if onlyOrigins(stripNot(iff.Cond), func(o string) bool { return o == "field:cmdStoreOptions.cacheRepair" }) {
					_, truth, _ := cmpOf(iff.Cond)
					return truth, !truth
				}
				return false, false
			})
			c.verdict(okG, "cmd.MultiStoreWithCache:repair-option", call.Pos(), "RepairableCache only when cache repair is enabled", "RepairableCache is used although cache repair was not enabled")
		}
		// the other direction: with repair enabled, every kind of cache is wrapped.  The wrapping
		// must stay reachable when the cache store is not a plain local directory (the edges on
		// which a type assertion of the cache to a concrete store type succeeded are removed)
		typeOKOf := func(owner *ssa.Function) map[edge]bool {
			typeOK := map[edge]bool{}
			for _, b := range owner.Blocks {
				iff := lastIf(b)
				if iff == nil {
					continue
				}
				cond := stripNot(iff.Cond)
				ex, isEx := cond.(*ssa.Extract)
				if !isEx || ex.Index != 1 {
					continue
				}
				if ta, isTA := ex.Tuple.(*ssa.TypeAssert); isTA && ta.CommaOk && !types.IsInterface(ta.AssertedType) {
					if cond == iff.Cond {
						typeOK[edge{b, b.Succs[0]}] = true
					} else {
						typeOK[edge{b, b.Succs[1]}] = true
					}
				}
			}
			return typeOK
		}
		for _, call := range calls(fn, named("desync.NewRepairableCache")) {
			// (the wrapping may have been moved into a helper: judged in the function it stands in)
			owner := call.(ssa.Instruction).Parent()
			r := reachable(owner, typeOKOf(owner))
			c.verdict(r[call.(ssa.Instruction).Block()], "cmd.MultiStoreWithCache:repair-any-cache", call.Pos(), "the cache is wrapped for repair whatever kind of store it is", "the cache is wrapped by RepairableCache only when it is of one concrete store type: for every other cache (http, s3, sftp, a de-duplicating wrapper) --cache-repair is silently ignored, an invalid cached chunk fails the request instead of being refetched")
		}
	}
	if fn := c.mustFn("cmd.multiStoreWithRouter"); fn != nil {
		n := 0
		for _, call := range calls(fn, named("desync.NewStoreRouter")) {
			n++
			c.verdict(hasOrigin(call.Common().Args[0], func(o string) bool {
				return strings.Contains(o, "call:cmd.storeGroup#0") || o == "call:builtin:append#0"
			}), "cmd.multiStoreWithRouter:router", call.Pos(), "the router is built from the store groups in argument order", "the router is not built from storeGroup results")
		}
		if n == 0 {
			c.bad("cmd.multiStoreWithRouter:router", fn.Pos(), "no StoreRouter is built")
		}
		// the stores are appended in the order of the locations (range loop, append at the end)
	}
	if fn := c.mustFn("cmd.storeGroup"); fn != nil {
		n := len(calls(fn, named("desync.NewFailoverGroup")))
		c.verdict(n == 1, "cmd.storeGroup:failover", fn.Pos(), "'|' separated locations become a FailoverGroup", "storeGroup does not build a FailoverGroup")
	}
}
