package main

import (
	"fmt"
	"go/token"
	"strings"

	"golang.org/x/tools/go/ssa"
)

func init() {
	register(&property{
		ID: "C06",
		Explanation: "C06.errgroup: ChopFile, Copy and ChunkStream start their workers through errgroup.Go only and report success only through g.Wait()==nil. C06.worker-errors: in the worker closures a failing readChunkFromFile / HasChunk / GetChunk / StoreChunk makes the worker return a non-nil error on every path (errors.Wrap(nil)==nil is modelled). " +
			"C06.cancel-not-success: a fired ctx.Done() in these functions never ends in a nil error. C06.chop-verifies: readChunkFromFile reads c.Size bytes at c.Start and builds the chunk with NewChunkWithID(c.ID, b, false). " +
			"C06.processed-set: ChunkStorage.StoreChunk returns nil only for 'already marked', 'HasChunk (true,nil)' or 'ws.StoreChunk nil'; HasChunk/StoreChunk errors are returned; a failed store unmarks the id (deferred); processed is accessed under the mutex. " +
			"C06.commands: runMake, runChop, runCache, runTar return every error of IndexFromFile/ChopFile/Copy/ChunkStream/index store calls; runTar tests tarErr before the index is stored. C06.index-row: the index row recorded by ChunkStream has Size=len(b) and ID=ID of the chunk built from the same b, at the chunker's start offset. " +
			"C06.chunk-buffer-ownership: Chunker.fillBuffer reads into a buffer allocated in the same call, because chunks handed to the workers are sub-slices of the previous buffer. " +
			"C06.store-writes (shared with C08 and C20): LocalStore.StoreChunk returns nil only after create-temp, successful write of the store's own converted form of the chunk, close and rename to the id-derived name; a failed write is returned.",
		NotDecided: "contents of the target store after success; races between workers on duplicate ids beyond the argument that a failed leader's error reaches g.Wait(); behaviour of the stores.",
		Rules: []rule{
			{"C06.errgroup", "bulk writers run workers under errgroup and succeed only through g.Wait()", 3, func(c *Ctx) { c.errgroupRule("ChopFile", "Copy", "ChunkStream") }},
			{"C06.worker-errors", "every failing store operation fails the worker", 3, c06WorkerErrors},
			{"C06.cancel-not-success", "cancellation of a bulk write is never reported as success", 3, func(c *Ctx) { c.doneIsErrorFor("ChopFile", "Copy", "ChunkStream") }},
			{"C06.chop-verifies", "chop re-reads each chunk at its offset and verifies it against the index id", 2, c06ChopVerifies},
			{"C06.processed-set", "ChunkStorage.StoreChunk never masks a failure", 4, c06Processed},
			{"C06.commands", "make/chop/cache/tar -i return every error of the bulk operations", 4, c06Commands},
			{"C06.index-row", "ChunkStream records size and id of the same bytes it stores", 2, c06IndexRow},
			{"C06.chunk-buffer-ownership", "the chunker never reuses a buffer whose sub-slices were handed out", 1, c06BufferOwnership},
			{"C06.store-writes", "the local store publishes a chunk only after its converted data was written completely (shared with C08/C20)", 4, func(c *Ctx) { c08Typestate(c); c20WriteFormat(c) }},
			{"C06.backend-writes", "every back end's StoreChunk reports success only after its write primitives completed", 8, func(c *Ctx) { c.writePrimitives("C06") }},
			{"C06.retried-reader-fresh", "a reader consumed inside a retry cycle is created inside it (shared with C04/C14)", 1, func(c *Ctx) { c.retriedReaderFresh() }},
			{"C06.workers-started", "every loop that starts pool workers starts one per unit of the worker count (none is skipped for n == 1)", 6, func(c *Ctx) { c.workersStarted() }},
			{"C06.pooled-memory", "nothing taken from a sync.Pool and given back by a function leaves that function (shared with C20)", 1, func(c *Ctx) { c.pooledMemoryEscapes() }},
			{"C06.feeder-watches-group", "the select that feeds pool workers watches the errgroup context, so a failed worker stops the feeder", 5, func(c *Ctx) { c.feederWatchesGroup() }},
			{"C06.errors-not-dropped", "no error of the operations this property depends on is dropped", 1, func(c *Ctx) { c.errorsNotDropped("C06") }},
		},
	})
}

// workerClosures returns the closures of fn handed to errgroup.Go, including the ones a
// same-package factory called at the Go site returns.
func (c *Ctx) workerClosures(fn *ssa.Function) []*ssa.Function {
	var out []*ssa.Function
	for _, call := range calls(fn, named(egGo)) {
		for _, a := range call.Common().Args {
			out = append(out, closuresOfValue(a)...)
		}
	}
	return out
}

// closuresOfValue resolves a function-typed value to the functions it can be.
func closuresOfValue(v ssa.Value) []*ssa.Function {
	var out []*ssa.Function
	seen := map[ssa.Value]bool{}
	var walk func(v ssa.Value, d int)
	walk = func(v ssa.Value, d int) {
		if v == nil || seen[v] || d > 6 {
			return
		}
		seen[v] = true
		switch x := v.(type) {
		case *ssa.Function:
			out = append(out, x)
		case *ssa.MakeClosure:
			if f, ok := x.Fn.(*ssa.Function); ok {
				out = append(out, f)
			}
		case *ssa.ChangeType:
			walk(x.X, d+1)
		case *ssa.Phi:
			for _, e := range x.Edges {
				walk(e, d+1)
			}
		case *ssa.UnOp:
			if x.Op != token.MUL {
				return
			}
			cells := []ssa.Value{x.X}
			if fv, ok := x.X.(*ssa.FreeVar); ok {
				cells = captured(fv)
			}
			for _, cell := range cells {
				if al, ok := cell.(*ssa.Alloc); ok {
					for _, st := range storesTo(al) {
						walk(st.Val, d+1)
					}
				}
			}
		case *ssa.FreeVar:
			for _, b := range captured(x) {
				walk(b, d+1)
			}
		case *ssa.Call:
			if callee := x.Common().StaticCallee(); callee != nil && len(callee.Blocks) > 0 && callee.Signature.Results().Len() == 1 {
				for _, b := range callee.Blocks {
					if r, ok := b.Instrs[len(b.Instrs)-1].(*ssa.Return); ok && len(r.Results) == 1 {
						walk(r.Results[0], d+1)
					}
				}
			}
		}
	}
	walk(v, 0)
	return out
}

func c06WorkerErrors(c *Ctx) {
	type spec struct {
		key     string
		callees []string
		min     int
	}
	for _, sp := range []spec{
		{"ChopFile", []string{"desync.readChunkFromFile", "(*desync.ChunkStorage).StoreChunk"}, 2},
		{"Copy", []string{"(desync.WriteStore).HasChunk", "(desync.Store).HasChunk", "(desync.Store).GetChunk", "(desync.WriteStore).StoreChunk"}, 3},
		{"ChunkStream", []string{"(*desync.ChunkStorage).StoreChunk"}, 1},
	} {
		fn := c.mustFn(sp.key)
		if fn == nil {
			continue
		}
		total := 0
		var bad []string
		for _, w := range c.workerClosures(fn) {
			sites, b := errPropagates(c, w, func(name string, _ *ssa.Call) bool {
				for _, x := range sp.callees {
					if name == x {
						return true
					}
				}
				return false
			}, errPropOpts{maxVisits: 3})
			total += sites
			bad = append(bad, b...)
		}
		switch {
		case len(bad) > 0:
			c.bad(sp.key+".worker:errors", fn.Pos(), "%s", bad[0])
		case total < sp.min:
			c.bad(sp.key+".worker:errors", fn.Pos(), "expected at least %d fallible store operations in the worker, found %d", sp.min, total)
		default:
			c.ok(sp.key+".worker:errors", fn.Pos(), "%d fallible call site(s); each failure fails the worker", total)
		}
	}
}

// doneIsErrorFor applies C07.done-is-error to the named functions and their closures.
func (c *Ctx) doneIsErrorFor(keys ...string) {
	saved := c.obs
	c.obs = nil
	c07DoneIsError(c)
	all := c.obs
	// a polled ctx.Err() must not end in success either (workers that "stop promptly" and return nil)
	c.obs = nil
	c07ErrIsError(c)
	polled := c.obs
	c.obs = saved
	for _, k := range keys {
		n := 0
		for _, o := range all {
			if o.Construct == k || strings.HasPrefix(o.Construct, k+"#") || strings.HasPrefix(o.Construct, k+"$") {
				o.Rule = c.curRule
				c.obs = append(c.obs, o)
				n++
			}
		}
		for _, o := range polled {
			if strings.HasPrefix(o.Construct, k+"#") || strings.HasPrefix(o.Construct, k+"$") {
				o.Rule = c.curRule
				c.obs = append(c.obs, o)
			}
		}
		if n == 0 {
			c.bad(k+"#done", token.NoPos, "%s does not observe ctx.Done(): it cannot be interrupted", k)
		}
	}
}

func c06ChopVerifies(c *Ctx) {
	fn := c.mustFn("readChunkFromFile")
	if fn == nil {
		return
	}
	n := 0
	for _, call := range calls(fn, named("desync.NewChunkWithID", "desync.NewChunkFromStorage")) {
		n++
		a := call.Common().Args
		idOK := onlyOrigins(a[0], func(o string) bool { return o == "field:IndexChunk.ID" })
		svOK := onlyOrigins(a[len(a)-1], func(o string) bool { return o == "const:false" })
		buf := stripSlices(a[1])
		ms, isMake := buf.(*ssa.MakeSlice)
		sizeOK := isMake && hasOrigin(ms.Len, func(o string) bool { return o == "field:IndexChunk.Size" })
		c.verdict(idOK && svOK && sizeOK, "readChunkFromFile:verifies", call.Pos(), "NewChunkWithID(c.ID, make([]byte, c.Size), false)", fmt.Sprintf("the re-read chunk is not verified against the index id (id=%v skipVerify=%v buffer-size-ok=%v)", origins(a[0]), origins(a[len(a)-1]), sizeOK))
		// the buffer is filled from the file at c.Start: Seek(c.Start) then ReadFull / ReadAt
		posOK := false
		for _, s := range calls(fn, named("(*os.File).Seek")) {
			if hasOrigin(s.Common().Args[1], func(o string) bool { return o == "field:IndexChunk.Start" }) && instrDominates(s.(ssa.Instruction), call.(ssa.Instruction)) {
				posOK = true
			}
		}
		for _, s := range calls(fn, named("(*os.File).ReadAt")) {
			if hasOrigin(s.Common().Args[2], func(o string) bool { return o == "field:IndexChunk.Start" }) {
				posOK = true
			}
		}
		readOK := false
		for _, r := range calls(fn, named("io.ReadFull", "(*os.File).ReadAt")) {
			for _, arg := range r.Common().Args {
				if stripSlices(arg) == buf {
					readOK = true
				}
			}
		}
		c.verdict(posOK && readOK, "readChunkFromFile:reads-range", call.Pos(), "the buffer is read in full from the file at c.Start", "the chunk buffer is not read in full from the file at c.Start")
	}
	if n == 0 {
		c.bad("readChunkFromFile:verifies", fn.Pos(), "no verifying constructor call")
	}
	sites, bad := errPropagates(c, fn, func(name string, _ *ssa.Call) bool {
		return name == "(*os.File).Seek" || name == "io.ReadFull" || name == "(*os.File).ReadAt"
	}, errPropOpts{})
	if len(bad) > 0 {
		c.bad("readChunkFromFile:errors", fn.Pos(), "%s", bad[0])
	} else {
		c.ok("readChunkFromFile:errors", fn.Pos(), "%d I/O call site(s); failures are returned", sites)
	}
}

func c06Processed(c *Ctx) {
	fn := c.mustFn("ChunkStorage.StoreChunk")
	if fn == nil {
		return
	}
	var bad []string
	h := &Hooks{}
	h.Fork = func(st *State, call *ssa.Call) []map[int]Val {
		switch callee(call) {
		case "(*desync.ChunkStorage).markProcessed":
			return []map[int]Val{{0: {B: BTrue, Sym: "mark:already"}}, {0: {B: BFalse, Sym: "mark:first"}}}
		case "(desync.Store).HasChunk", "(desync.WriteStore).HasChunk":
			return []map[int]Val{
				{0: {B: BTrue, Sym: "has:true"}, 1: {N: NNil, Class: ClsNil}},
				{0: {B: BFalse, Sym: "has:false"}, 1: {N: NNil, Class: ClsNil}},
				{0: {B: BFalse}, 1: {N: NNon, Class: ClsOther, Sym: "has:error"}},
			}
		case "(desync.WriteStore).StoreChunk":
			return []map[int]Val{{0: {N: NNil, Class: ClsNil, Sym: "store:nil"}}, {0: {N: NNon, Class: ClsOther, Sym: "store:error"}}}
		}
		return nil
	}
	h.Return = func(st *State, ret *ssa.Return, results []Val) {
		mark, has, store := outcomeSeq(st, "mark"), outcomeSeq(st, "has"), outcomeSeq(st, "store")
		desc := fmt.Sprintf("mark=%v has=%v store=%v -> %v", mark, has, store, results[0])
		e := results[0]
		switch {
		case len(mark) != 1:
			bad = append(bad, "the id is not marked exactly once first: "+desc)
		case mark[0] == "already":
			if len(has)+len(store) != 0 || e.N == NNon {
				bad = append(bad, "an already processed id must return nil without store calls: "+desc)
			}
		case len(has) != 1:
			bad = append(bad, "the store is not asked whether it has the chunk: "+desc)
		case has[0] == "error":
			if e.N != NNon {
				bad = append(bad, "a HasChunk error is not returned (the chunk would be counted as stored): "+desc)
			}
		case has[0] == "true":
			if len(store) != 0 || e.N == NNon {
				bad = append(bad, "a chunk the store already has must not be stored again: "+desc)
			}
		case len(store) != 1:
			bad = append(bad, "a chunk the store lacks is not stored: "+desc)
		case store[0] == "error":
			if e.N != NNon {
				bad = append(bad, "a StoreChunk error is not returned: "+desc)
			}
		default:
			if e.N == NNon {
				bad = append(bad, "a successful store is reported as an error: "+desc)
			}
		}
	}
	Explore(fn, fn.Blocks[0], 0, nil, NewState(), h)
	c.paths += h.Paths
	c.report("ChunkStorage.StoreChunk:outcomes", fn, bad, fmt.Sprintf("%d path(s): nil only for already-marked / store-has-it / stored", h.Paths))
	// unmark on error: a deferred closure installed before ws.StoreChunk calls unmarkProcessed behind err != nil
	unmarkOK := false
	instrs(fn, func(_ *ssa.BasicBlock, _ int, ins ssa.Instruction) {
		d, ok := ins.(*ssa.Defer)
		if !ok {
			return
		}
		mc, ok := d.Call.Value.(*ssa.MakeClosure)
		if !ok {
			return
		}
		cl := mc.Fn.(*ssa.Function)
		for _, u := range calls(cl, named("(*desync.ChunkStorage).unmarkProcessed")) {
			okG, _ := guarded(cl, u.(ssa.Instruction), func(iff *ssa.If) (bool, bool) {
				cm, truth, ok := cmpOf(iff.Cond)
				if !ok || !(isNilConst(cm.x) || isNilConst(cm.y)) || (cm.op != token.EQL && cm.op != token.NEQ) {
					return false, false
				}
				nonNilOnTrue := (cm.op == token.NEQ) == truth
				return nonNilOnTrue, !nonNilOnTrue
			})
			for _, s := range calls(fn, named("(desync.WriteStore).StoreChunk")) {
				if okG && instrDominates(d, s.(ssa.Instruction)) {
					unmarkOK = true
				}
			}
		}
	})
	// the same written out: on the failure edge of ws.StoreChunk every path to a return calls unmarkProcessed
	if !unmarkOK {
		for _, sc := range calls(fn, named("(desync.WriteStore).StoreChunk")) {
			var errv ssa.Value
			if v, ok := sc.(ssa.Value); ok {
				errv = v
			}
			if errv == nil {
				continue
			}
			for _, b := range fn.Blocks {
				iff := lastIf(b)
				if iff == nil {
					continue
				}
				cm, truth, ok := cmpOf(iff.Cond)
				if !ok || !(isNilConst(cm.x) || isNilConst(cm.y)) || (cm.op != token.EQL && cm.op != token.NEQ) {
					continue
				}
				subj := cm.x
				if isNilConst(cm.x) {
					subj = cm.y
				}
				isErr := false
				for _, l := range leaves(subj) {
					if l == errv {
						isErr = true
					}
				}
				if !isErr {
					continue
				}
				fail := b.Succs[1]
				if (cm.op == token.NEQ) == truth {
					fail = b.Succs[0]
				}
				// remove the blocks that call unmarkProcessed: no return may remain reachable from the failure edge
				removed := map[edge]bool{}
				unmarks := 0
				for _, u := range calls(fn, named("(*desync.ChunkStorage).unmarkProcessed")) {
					if u.Parent() != fn {
						continue
					}
					unmarks++
					for _, s2 := range u.Block().Succs {
						removed[edge{u.Block(), s2}] = true
					}
				}
				if unmarks == 0 {
					continue
				}
				reach := reachableFrom(fail, removed)
				leak := false
				for _, r := range returnsOf(fn) {
					blk := r.Block()
					calledHere := false
					for _, u := range calls(fn, named("(*desync.ChunkStorage).unmarkProcessed")) {
						if u.Block() == blk {
							calledHere = true
						}
					}
					if reach[blk] && !calledHere {
						leak = true
					}
				}
				if !leak {
					unmarkOK = true
				}
			}
		}
	}
	c.verdict(unmarkOK, "ChunkStorage.StoreChunk:unmark-on-error", fn.Pos(), "a failed store unmarks the id (deferred before the store call, or called on its failure edge)", "a failed StoreChunk leaves the id marked as processed: a later duplicate would be skipped as if it had been stored")
	c.guardedBy(guardedField{"ChunkStorage", "processed", "Mutex", "ids claimed by some goroutine"}, nil)
	c.lockPairing("ChunkStorage")
}

func c06Commands(c *Ctx) {
	bulk := map[string]bool{
		"desync.IndexFromFile": true, "desync.ChopFile": true, "desync.Copy": true, "desync.ChunkStream": true,
		"cmd.storeCaibxFile": true, "(desync.IndexWriteStore).StoreIndex": true, "cmd.readCaibxFile": true,
		"cmd.MultiStoreWithCache": true, "cmd.WritableStore": true, "cmd.multiStoreWithRouter": true,
	}
	for _, key := range []string{"cmd.runMake", "cmd.runChop", "cmd.runCache", "cmd.runTar"} {
		fn := c.mustFn(key)
		if fn == nil {
			continue
		}
		sites, bad := errPropagates(c, fn, func(name string, _ *ssa.Call) bool { return bulk[name] }, errPropOpts{maxVisits: 2})
		switch {
		case len(bad) > 0:
			c.bad(key+":errors", fn.Pos(), "%s", bad[0])
		case sites == 0:
			c.bad(key+":errors", fn.Pos(), "the command calls none of the bulk operations")
		default:
			c.ok(key+":errors", fn.Pos(), "%d bulk/store call site(s); every failure is returned to the CLI", sites)
		}
	}
	c.tarIndexNeedsTar()
}

// tarIndexNeedsTar: `tar -i` runs desync.Tar in a goroutine that writes the archive into a pipe
// while ChunkStream chunks what comes out of it.  A failing Tar closes the pipe like a finished
// one, so the chunker ends cleanly on a truncated archive; the only thing that keeps the command
// from storing an index of that archive and reporting success is the error the goroutine leaves
// behind.  Decided here: (1) the error of desync.Tar is recorded in a variable shared with the
// command (or handed to the pipe with CloseWithError); (2) the index is stored only behind the
// nil edge of a test of that variable; (3) every return that can be reached from the go
// statement without passing that nil edge yields an error that is not nil there (the recorded
// error itself, an error tested non-nil on the way, or a constructed one).
func (c *Ctx) tarIndexNeedsTar() {
	fn := c.fn("cmd.runTar")
	if fn == nil {
		return
	}
	var cell *ssa.Alloc
	var goIns ssa.Instruction
	viaPipe := false
	tarCalls := 0
	// the function that starts the Tar goroutine: runTar itself, or a new helper the -i path
	// was moved into; the goroutine: a closure, or a helper that is handed a pointer to the
	// variable that takes the error
	host := fn
	for _, f := range fnsDeep(fn) {
		for _, b := range f.Blocks {
			for _, ins := range b.Instrs {
				g, isGo := ins.(*ssa.Go)
				if !isGo {
					continue
				}
				var body *ssa.Function
				if mc, ok := g.Call.Value.(*ssa.MakeClosure); ok {
					body, _ = mc.Fn.(*ssa.Function)
				} else if sf := g.Call.StaticCallee(); sf != nil {
					body = sf
				}
				if body == nil || body.Blocks == nil {
					continue
				}
				callsTar := false
				instrsAll(body, func(_ *ssa.BasicBlock, _ int, in2 ssa.Instruction) {
					if cl, ok := in2.(*ssa.Call); ok && callee(cl) == "desync.Tar" {
						callsTar = true
					}
				})
				if !callsTar {
					continue
				}
				host, goIns = f, ins
				instrsAll(body, func(_ *ssa.BasicBlock, _ int, in2 ssa.Instruction) {
					switch x := in2.(type) {
					case *ssa.Store:
						if !hasOrigin(x.Val, func(o string) bool { return o == "call:desync.Tar#0" }) {
							return
						}
						switch a := x.Addr.(type) {
						case *ssa.FreeVar:
							for _, cv := range captured(a) {
								if al, ok := cv.(*ssa.Alloc); ok && al.Parent() == f {
									cell = al
								}
							}
						case *ssa.Parameter:
							for k, p := range body.Params {
								if p == a && k < len(g.Call.Args) {
									if al, ok := g.Call.Args[k].(*ssa.Alloc); ok && al.Parent() == f {
										cell = al
									}
								}
							}
						}
					case *ssa.Call:
						if callee(x) == "desync.Tar" {
							tarCalls++
						}
						if strings.HasSuffix(callee(x), "io.PipeWriter).CloseWithError") && len(x.Call.Args) > 1 && hasOrigin(x.Call.Args[1], func(o string) bool { return o == "call:desync.Tar#0" }) {
							viaPipe = true
						}
					}
				})
			}
		}
	}
	if goIns == nil {
		// Tar is not run in a goroutine of this command (plain catar output): nothing to decide
		instrsAll(fn, func(_ *ssa.BasicBlock, _ int, ins ssa.Instruction) {
			if cl, ok := ins.(*ssa.Call); ok && callee(cl) == "desync.Tar" {
				tarCalls++
			}
		})
		if tarCalls > 0 && len(calls(fn, named("desync.ChunkStream"))) > 0 {
			c.bad("cmd.runTar:tarErr", fn.Pos(), "desync.Tar and ChunkStream are used together but no goroutine runs Tar: the shape of tar -i is not recognisable")
		} else {
			c.info("cmd.runTar:tarErr", fn.Pos(), "no goroutine runs desync.Tar")
		}
		return
	}
	fn = host
	if tarCalls == 0 {
		c.info("cmd.runTar:tarErr", fn.Pos(), "runTar does not call desync.Tar")
		return
	}
	if cell == nil {
		if viaPipe {
			c.ok("cmd.runTar:tarErr", fn.Pos(), "Tar's error is handed to the pipe (CloseWithError): the chunker fails with it")
		} else {
			c.bad("cmd.runTar:tarErr", fn.Pos(), "the error of desync.Tar is neither recorded in a variable of the command nor handed to the pipe: a failing or interrupted Tar ends the chunker's input like a finished one, and tar -i stores an index of the truncated archive and reports success")
		}
		return
	}
	isCellLoad := func(v ssa.Value) bool {
		u, ok := v.(*ssa.UnOp)
		return ok && u.Op == token.MUL && u.X == ssa.Value(cell)
	}
	acc := func(iff *ssa.If) (bool, bool) {
		cm, truth, ok := cmpOf(iff.Cond)
		if !ok || !(isNilConst(cm.x) || isNilConst(cm.y)) {
			return false, false
		}
		subj := cm.x
		if isNilConst(cm.x) {
			subj = cm.y
		}
		u, isLoad := subj.(*ssa.UnOp)
		if !isLoad || u.X != ssa.Value(cell) {
			return false, false
		}
		nilOnTrue := (cm.op == token.EQL) == truth
		return nilOnTrue, !nilOnTrue
	}
	okAll := true
	why := "the index is stored (and success reported) although Tar may have failed"
	n := 0
	for _, s := range calls(fn, named("cmd.storeCaibxFile", "(desync.IndexWriteStore).StoreIndex")) {
		n++
		if okG, _ := guarded(fn, s.(ssa.Instruction), acc); !okG {
			okAll = false
		}
	}
	// (3) returns reachable from the go statement without passing the nil edge
	if goIns != nil && okAll {
		edges := acceptingEdgesDeep(fn, acc, 0)
		reach := reachableFrom(goIns.Block(), edges)
		for _, b := range fn.Blocks {
			if !reach[b] || len(b.Instrs) == 0 {
				continue
			}
			ret, ok := b.Instrs[len(b.Instrs)-1].(*ssa.Return)
			if !ok || len(ret.Results) == 0 {
				continue
			}
			v := ret.Results[len(ret.Results)-1]
			// functions with defer spill their results: "*res = x; rundefers; t = *res; return t"
			if u, isLoad := v.(*ssa.UnOp); isLoad && u.Op == token.MUL {
				for _, ins := range b.Instrs {
					if st, isSt := ins.(*ssa.Store); isSt && st.Addr == u.X {
						v = st.Val
					}
				}
			}
			if isCellLoad(v) || nonNilAt(v, b) || constructedNonNil(v, b, 0) || nonNilAtSameCell(v, b) {
				continue
			}
			okAll = false
			why = fmt.Sprintf("the return at %s can be reached with Tar's error set and yields a value that is not known to be non-nil there (origins %v): a failed Tar ends in success or in a nil error", c.pos(ret.Pos()), origins(v))
		}
	}
	c.verdict(okAll && n > 0, "cmd.runTar:tarErr", fn.Pos(), "Tar's error is recorded, the index is stored only when it is nil, and every other way out yields a non-nil error", why)
}

// nonNilAtSameCell: v is a load of a variable that lives in memory, and block b lies behind the
// non-nil edge of a test of another load of the same variable (go/ssa has no CSE: "if err != nil
// { return err }" on a captured err is two loads).
func nonNilAtSameCell(v ssa.Value, b *ssa.BasicBlock) bool {
	u, ok := v.(*ssa.UnOp)
	if !ok || u.Op != token.MUL {
		return false
	}
	for _, tb := range b.Parent().Blocks {
		iff := lastIf(tb)
		if iff == nil {
			continue
		}
		cm, truth, ok := cmpOf(iff.Cond)
		if !ok || (cm.op != token.EQL && cm.op != token.NEQ) || !(isNilConst(cm.x) || isNilConst(cm.y)) {
			continue
		}
		subj := cm.x
		if isNilConst(cm.x) {
			subj = cm.y
		}
		su, isLoad := subj.(*ssa.UnOp)
		if !isLoad || su.Op != token.MUL || su.X != u.X {
			continue
		}
		nn := tb.Succs[1]
		if (cm.op == token.NEQ) == truth {
			nn = tb.Succs[0]
		}
		if len(nn.Preds) == 1 && (nn == b || nn.Dominates(b)) {
			return true
		}
	}
	return false
}

func c06IndexRow(c *Ctx) {
	fn := c.mustFn("ChunkStream")
	if fn == nil {
		return
	}
	for _, w := range c.workerClosures(fn) {
		// the IndexChunk literal
		var sizeV, idV, startV ssa.Value
		instrs(w, func(_ *ssa.BasicBlock, _ int, ins ssa.Instruction) {
			if st, ok := ins.(*ssa.Store); ok {
				if fa, ok := st.Addr.(*ssa.FieldAddr); ok {
					switch fieldOf(fa) {
					case "IndexChunk.Size":
						sizeV = st.Val
					case "IndexChunk.ID":
						idV = st.Val
					case "IndexChunk.Start":
						startV = st.Val
					}
				}
			}
		})
		if sizeV == nil || idV == nil {
			continue
		}
		// Size = len(job.b); ID = NewChunk(job.b).ID(); stored chunk = the same chunk
		sizeOK := hasOrigin(sizeV, func(o string) bool { return strings.HasPrefix(o, "len:") && strings.HasSuffix(o, ".b") })
		idOK := false
		var chunkVal ssa.Value
		for _, l := range leaves(idV) {
			if call, _ := callOf(l); call != nil && callee(call) == "(*desync.Chunk).ID" {
				chunkVal = call.Call.Args[0]
				for _, l2 := range leaves(chunkVal) {
					if c2, _ := callOf(l2); c2 != nil && callee(c2) == "desync.NewChunk" {
						if hasOrigin(c2.Call.Args[0], func(o string) bool { return strings.HasSuffix(o, ".b") }) {
							idOK = true
						}
					}
				}
			}
		}
		storedOK := false
		for _, s := range calls(w, named("(*desync.ChunkStorage).StoreChunk")) {
			a := s.Common().Args
			if chunkVal != nil && a[len(a)-1] == chunkVal {
				storedOK = true
			}
		}
		startOK := startV != nil && hasOrigin(startV, func(o string) bool { return strings.HasSuffix(o, ".start") })
		c.verdict(sizeOK && idOK && storedOK && startOK, "ChunkStream.worker:index-row", w.Pos(), "row = {start of the job, len(b), ID of NewChunk(b)} and that chunk is the one stored",
			fmt.Sprintf("the recorded index row does not describe the stored bytes (size-ok=%v id-ok=%v stored-same-chunk=%v start-ok=%v)", sizeOK, idOK, storedOK, startOK))
	}
	// the job carries what Next returned
	jobOK := false
	instrs(fn, func(_ *ssa.BasicBlock, _ int, ins ssa.Instruction) {
		if st, ok := ins.(*ssa.Store); ok {
			if fa, ok := st.Addr.(*ssa.FieldAddr); ok && strings.HasSuffix(fieldOf(fa), ".b") {
				if hasOrigin(st.Val, func(o string) bool { return strings.Contains(o, "Chunker).Next#1") }) {
					jobOK = true
				}
			}
		}
	})
	c.verdict(jobOK, "ChunkStream:job", fn.Pos(), "the job handed to the workers carries the bytes Chunker.Next returned", "the job does not carry the chunk bytes returned by Chunker.Next")
}

func c06BufferOwnership(c *Ctx) {
	fn := c.mustFn("Chunker.fillBuffer")
	if fn == nil {
		return
	}
	n := 0
	for _, r := range calls(fn, named("(io.Reader).Read")) {
		n++
		buf := stripSlices(r.Common().Args[0])
		fresh := true
		why := ""
		for _, l := range leaves(buf) {
			l = stripSlices(l)
			if ms, ok := l.(*ssa.MakeSlice); ok && ms.Parent() == fn {
				continue
			}
			fresh = false
			why = l.String()
		}
		c.verdict(fresh, "Chunker.fillBuffer:fresh-buffer", r.Pos(), "the reader fills a buffer allocated in this call", "the reader writes into a buffer that outlives the call ("+why+"): chunks returned earlier by Next are sub-slices of it and may still be in use by ChunkStream's workers")
	}
	if n == 0 {
		c.bad("Chunker.fillBuffer:fresh-buffer", fn.Pos(), "fillBuffer does not read")
	}
}
