package main

import (
	"fmt"
	"go/token"
	"go/types"
	"sort"
	"strings"

	"golang.org/x/tools/go/ssa"
)

func init() {
	register(&property{
		ID: "C07",
		Explanation: "C07.done-is-error: for every receive from ctx.Done() in both packages (select case or plain receive) the path explorer starts at the edge taken when the case fires and " +
			"requires every reachable return of the enclosing function/closure to return an error that is non-nil on that path (Interrupted{}, ctx.Err(), a cell/flag set to one), with a frozen exception " +
			"table of three service loops whose normal termination is cancellation. C07.loops-observe-ctx: every long-running entry point named by the property reaches such a receive within call depth 3. " +
			"C07.cli: main registers SIGINT/SIGTERM, the receiving goroutine calls the root cancel function, every sub-command constructor receives the root context, a failed Execute reaches os.Exit(1). " +
			"C07.status-after-drain: every load of pChunker.err/eof in IndexFromFile lies behind the closed edge of a receive from the same worker's results channel, counted from where the worker is picked. C07.tmp-rename: in writeWithTmpFile the rename onto the destination is reachable only through the nil-error edge of the assembly call, the temp file lives in the destination's directory and its removal is deferred.",
		NotDecided: "timing of signal delivery; completeness of the work done when success is reported without cancellation; behaviour of the OS on rename.",
		Rules: []rule{
			{"C07.tar-index-needs-tar", "tar -i stores its index only when desync.Tar succeeded; a failed Tar never ends in success (shared with C06)", 1, func(c *Ctx) { c.tarIndexNeedsTar() }},
			{"C07.done-is-error", "every return reachable from a fired ctx.Done() case returns a non-nil error (3 frozen service-loop exceptions)", 20, c07DoneIsError},
			{"C07.err-is-error", "a branch taken because ctx.Err() is non-nil never ends in a nil error", 0, c07ErrIsError},
			{"C07.loops-observe-ctx", "each long-running entry point reaches a ctx.Done() receive within call depth 3", 10, c07LoopsObserve},
			{"C07.cli", "signal handler cancels the root context that every command receives; Execute error exits non-zero", 4, c07Cli},
			{"C07.side-goroutine-errors", "the error a bare goroutine leaves in a variable of its starter is consulted before success is reported", 3, func(c *Ctx) { c.sideGoroutineErrors(func(string) bool { return true }) }},
			{"C07.commands-propagate", "in the commands a failed (interrupted) context-taking operation makes the command fail", 15, c07CommandsPropagate},
			{"C07.lister-done", "a listing the context can stop is not taken for complete without a look at the context", 1, c07ListerDone},
			{"C07.retry-observes-ctx", "no retry loop repeats a failed context-taking operation without consulting the context", 1, c07RetryObservesCtx},
			{"C07.status-after-drain", "a chunking worker's err/eof are read only after its results channel was seen closed", 2, c07StatusAfterDrain},
			{"C07.tmp-rename", "rename of the temp file only on the nil edge of assembly; temp in the same directory; deferred removal", 3, c07TmpRename},
		},
	})
}

// service loops whose normal termination is cancellation (reason per line)
var c07Exceptions = map[string]string{
	"ProtocolServer.Serve": "casync protocol server: cancellation is its regular shutdown, it has no work item to leave incomplete",
	"cmd.serve":            "HTTP server wrapper: ctx.Done() triggers the graceful Shutdown, nil means the server stopped",
	"MountIndex":           "unmount goroutine of the FUSE mount: cancellation unmounts, MountIndex then returns from Wait",
	"cmd.runMountIndex":    "mount command: waits for cancellation/signal to unmount; termination by signal is its normal end",
}

type doneSite struct {
	fn    *ssa.Function
	pos   token.Pos
	block *ssa.BasicBlock // start block
	idx   int
	pred  *ssa.BasicBlock
}

// doneSites finds every receive from ctx.Done() in fn.
func doneSites(fn *ssa.Function) []doneSite {
	var out []doneSite
	instrs(fn, func(b *ssa.BasicBlock, i int, ins ssa.Instruction) {
		switch x := ins.(type) {
		case *ssa.Select:
			for k, st := range x.States {
				if st.Dir == types.RecvOnly && isCtxDone(st.Chan) {
					from, to := selectCaseEdge(x, k)
					pos := st.Pos
					if !pos.IsValid() {
						pos = x.Pos()
					}
					out = append(out, doneSite{fn, pos, to, 0, from})
				}
			}
		case *ssa.UnOp:
			if x.Op == token.ARROW && isCtxDone(x.X) {
				out = append(out, doneSite{fn, x.Pos(), b, i + 1, nil})
			}
		}
	})
	sort.Slice(out, func(i, j int) bool { return out[i].pos < out[j].pos })
	return out
}

func c07DoneIsError(c *Ctx) {
	for _, fn := range c.subjects() {
		sites := doneSites(fn)
		for n, s := range sites {
			key := fmt.Sprintf("%s#done%d", fnKey(fn), n+1)
			top := fn
			for top.Parent() != nil {
				top = top.Parent()
			}
			if why, ok := c07Exceptions[fnKey(top)]; ok {
				c.info(key, s.pos, "exception (service loop): %s", why)
				continue
			}
			if s.block == nil {
				c.bad(key, s.pos, "cannot locate the edge taken when the ctx.Done() case fires")
				continue
			}
			var bad []string
			nret := 0
			h := &Hooks{
				MaxVisits: 2,
				Call: func(st *State, call *ssa.Call) map[int]Val {
					if callee(call) == "(context.Context).Err" {
						return map[int]Val{0: {N: NNon, Class: ClsOther}} // Done was observed on this path
					}
					return nil
				},
				Instr: func(st *State, ins ssa.Instruction) {
					// a worker without error result that records the error in a field (pChunker.err)
					if sto, ok := ins.(*ssa.Store); ok {
						if _, isField := sto.Addr.(*ssa.FieldAddr); isField && isErrorType(sto.Val.Type()) && st.Eval(sto.Val).N == NNon {
							st.Flags["stored-error"] = 1
						}
					}
				},
				Return: func(st *State, ret *ssa.Return, results []Val) {
					nret++
					var res *Val
					for i, r := range ret.Results {
						if isErrorType(r.Type()) {
							res = &results[i]
						}
					}
					if res == nil {
						if st.Flags["stored-error"] == 1 {
							return
						}
						bad = append(bad, fmt.Sprintf("return at %s has no error result and no error was recorded; trail %s", c.pos(ret.Pos()), strings.Join(st.Trail, ">")))
						return
					}
					if res.N != NNon {
						bad = append(bad, fmt.Sprintf("return at %s may return a nil error after ctx.Done() fired; trail %s", c.pos(ret.Pos()), strings.Join(st.Trail, ">")))
					}
				},
			}
			st := NewState()
			if s.pred != nil {
				st.Trail = append(st.Trail, fmt.Sprintf("%s:%d", fn.Name(), s.pred.Index))
			}
			if s.pred != nil {
				st.assumeDominating(s.pred)
			} else {
				st.assumeDominating(s.block)
			}
			ExploreInside(s.block, s.idx, s.pred, st, h)
			c.paths += h.Paths
			switch {
			case len(bad) > 0:
				c.bad(key, s.pos, "%s", bad[0])
			case nret == 0:
				// the branch never returns (e.g. it panics or loops for ever): nothing is reported as success
				c.ok(key, s.pos, "no return reachable from the fired case")
			default:
				c.ok(key, s.pos, "%d path(s) from the fired case, all return a non-nil error", nret)
			}
		}
	}
}

// reachesDone reports whether fn, its closures or callees within depth reach a ctx.Done() receive.
func (c *Ctx) reachesDone(fn *ssa.Function, depth int, seen map[*ssa.Function]bool) bool {
	if fn == nil || seen[fn] {
		return false
	}
	seen[fn] = true
	for _, f := range withClosures(fn) {
		if len(doneSites(f)) > 0 {
			return true
		}
	}
	if depth == 0 {
		return false
	}
	found := false
	for _, f := range withClosures(fn) {
		instrs(f, func(_ *ssa.BasicBlock, _ int, ins ssa.Instruction) {
			if found {
				return
			}
			if ci, ok := ins.(ssa.CallInstruction); ok {
				if cal := c.staticFn(ci); cal != nil && cal.Pkg == fn.Pkg {
					if c.reachesDone(cal, depth-1, seen) {
						found = true
					}
				}
			}
		})
	}
	return found
}

func c07LoopsObserve(c *Ctx) {
	for _, key := range []string{"AssembleFile", "Plan.Validate", "VerifyIndex", "ChopFile", "Copy", "ChunkStream", "IndexFromFile", "Tar", "UnTar", "UnTarIndex"} {
		fn := c.mustFn(key)
		if fn == nil {
			continue
		}
		c.verdict(c.reachesDone(fn, 3, map[*ssa.Function]bool{}), key, fn.Pos(),
			"reaches a ctx.Done() receive", "long-running entry point never observes ctx.Done() (within call depth 3): cancellation cannot interrupt it")
	}
}

func c07Cli(c *Ctx) {
	main := c.mustFn("cmd.main")
	if main == nil {
		return
	}
	// 1. root context from context.WithCancel; cancel func
	var cancel ssa.Value
	var rootCtx ssa.Value
	instrs(main, func(_ *ssa.BasicBlock, _ int, ins ssa.Instruction) {
		if call, ok := ins.(*ssa.Call); ok && callee(call) == "context.WithCancel" {
			for _, r := range *call.Referrers() {
				if ex, ok := r.(*ssa.Extract); ok {
					if ex.Index == 0 {
						rootCtx = ex
					} else {
						cancel = ex
					}
				}
			}
		}
	})
	if cancel == nil || rootCtx == nil {
		c.bad("cmd.main:root-context", main.Pos(), "main does not derive a cancellable root context")
		return
	}
	// 2. signal.Notify(ch, SIGINT, SIGTERM)
	var sigChanOrigins []string
	sigOK := false
	for _, call := range calls(main, named("os/signal.Notify")) {
		a := call.Common().Args
		if len(a) < 2 {
			continue
		}
		// variadic signals: collect constants stored into the backing array
		sigs := map[string]bool{}
		var elems func(v ssa.Value, d int)
		elems = func(v ssa.Value, d int) {
			if d > 4 {
				return
			}
			switch x := v.(type) {
			case *ssa.Parameter: // signals forwarded through a helper: notify(sig ...os.Signal)
				for _, a := range boundArgs(x) {
					elems(a, d+1)
				}
			case *ssa.Slice:
				if al, ok := x.X.(*ssa.Alloc); ok {
					for _, r := range *al.Referrers() {
						if ia, ok := r.(*ssa.IndexAddr); ok {
							for _, r2 := range *ia.Referrers() {
								if st, ok := r2.(*ssa.Store); ok {
									for _, o := range origins(st.Val) {
										sigs[o] = true
									}
								}
							}
						}
					}
				}
			}
		}
		elems(a[1], 0)
		if sigs["const:2"] && sigs["const:15"] {
			sigOK = true
			sigChanOrigins = origins(a[0])
		}
	}
	c.verdict(sigOK, "cmd.main:notify", main.Pos(), "signal.Notify registers SIGINT(2) and SIGTERM(15)", "main does not register SIGINT and SIGTERM with signal.Notify")
	// 3. a goroutine started by main receives from that channel and then calls cancel
	cancelOK := false
	// the goroutines main starts: closures of main or (new) named functions
	var started []*ssa.Function
	instrs(main, func(_ *ssa.BasicBlock, _ int, ins ssa.Instruction) {
		if g, ok := ins.(*ssa.Go); ok {
			if mc, ok := g.Call.Value.(*ssa.MakeClosure); ok {
				started = append(started, mc.Fn.(*ssa.Function))
			} else if f := g.Call.StaticCallee(); f != nil && f.Blocks != nil {
				started = append(started, f)
			}
		}
	})
	for _, cl := range started {
		var recv ssa.Instruction
		var callCancel ssa.Instruction
		instrs(cl, func(_ *ssa.BasicBlock, _ int, ins ssa.Instruction) {
			switch x := ins.(type) {
			case *ssa.UnOp:
				if x.Op == token.ARROW {
					same := false
					for _, o := range origins(x.X) {
						for _, so := range sigChanOrigins {
							if o == so {
								same = true
							}
						}
					}
					if same {
						recv = x
					}
				}
			case *ssa.Call:
				if !x.Call.IsInvoke() && x.Call.StaticCallee() == nil {
					// call of a function value: is it the cancel function of the root context?
					if hasOrigin(x.Call.Value, func(o string) bool { return o == "call:context.WithCancel#1" }) {
						callCancel = x
					}
				}
			}
		})
		if recv != nil && callCancel != nil && instrDominates(recv, callCancel) {
			// and cancel is reached on every path after the receive (no early return)
			cancelOK = true
			for _, r := range returnsOf(cl) {
				if !instrDominates(callCancel, r) {
					cancelOK = false
				}
			}
		}
	}
	c.verdict(cancelOK, "cmd.main:signal-goroutine", main.Pos(), "the goroutine receiving the signal calls the root cancel function on every path",
		"no goroutine of main receives from the signal channel and then calls the root context's cancel function on every path")
	// 4. every new*Command(ctx) call gets the root context
	n, wrong := 0, 0
	instrs(main, func(_ *ssa.BasicBlock, _ int, ins ssa.Instruction) {
		call, ok := ins.(*ssa.Call)
		if !ok {
			return
		}
		cal := c.staticFn(call)
		if cal == nil || cal.Pkg != main.Pkg || !strings.HasPrefix(cal.Name(), "new") || !strings.HasSuffix(cal.Name(), "Command") {
			return
		}
		if cal.Signature.Params().Len() == 0 {
			return
		}
		if typeName(cal.Signature.Params().At(0).Type()) != "context.Context" {
			return
		}
		n++
		if !onlyOrigins(call.Call.Args[0], func(o string) bool { return o == "call:context.WithCancel#0" }) {
			wrong++
			c.bad("cmd.main:"+cal.Name(), call.Pos(), "sub-command constructor does not receive the root (signal-cancelled) context")
		}
	})
	c.verdict(n >= 15 && wrong == 0, "cmd.main:commands", main.Pos(), fmt.Sprintf("%d sub-command constructors receive the root context", n), fmt.Sprintf("only %d sub-command constructors receive the root context (%d wrong)", n, wrong))
	// 5. commands hand their ctx to run*: in every new*Command closure the run* call's first arg is the ctx parameter
	m, mwrong := 0, 0
	for _, fn := range c.subjects() {
		if fn.Pkg != main.Pkg || fn.Parent() == nil {
			continue
		}
		p := fn.Parent()
		if !strings.HasPrefix(p.Name(), "new") || !strings.HasSuffix(p.Name(), "Command") {
			continue
		}
		instrs(fn, func(_ *ssa.BasicBlock, _ int, ins ssa.Instruction) {
			call, ok := ins.(*ssa.Call)
			if !ok {
				return
			}
			cal := c.staticFn(call)
			if cal == nil || !strings.HasPrefix(cal.Name(), "run") || cal.Signature.Params().Len() == 0 || typeName(cal.Signature.Params().At(0).Type()) != "context.Context" {
				return
			}
			m++
			ctxArg := call.Call.Args[0]
			if cal.Signature.Recv() != nil && len(call.Call.Args) > 1 {
				ctxArg = call.Call.Args[1] // a method ("opt.run(ctx, args)"): the receiver comes first
			}
			if !onlyOrigins(ctxArg, func(o string) bool { return strings.HasPrefix(o, "param:ctx") }) {
				mwrong++
				c.bad("cmd."+p.Name()+":run-ctx", call.Pos(), "command does not pass its context parameter to %s (origins %v)", cal.Name(), origins(ctxArg))
			}
		})
	}
	c.verdict(m >= 15 && mwrong == 0, "cmd:run-ctx", main.Pos(), fmt.Sprintf("%d run* functions receive the command's context", m), fmt.Sprintf("%d run* calls with context, %d not the command's context", m, mwrong))
	// 6. Execute() error -> os.Exit(non-zero)
	exitOK := false
	for _, call := range calls(main, named("os.Exit")) {
		if !hasOrigin(call.Common().Args[0], func(o string) bool { return o == "const:0" }) {
			okG, _ := guarded(main, call, func(iff *ssa.If) (bool, bool) {
				cm, truth, ok := cmpOf(iff.Cond)
				if !ok || !(isNilConst(cm.y) || isNilConst(cm.x)) {
					return false, false
				}
				subj := cm.x
				if isNilConst(cm.x) {
					subj = cm.y
				}
				if !hasOrigin(subj, func(o string) bool { return strings.Contains(o, "cobra.Command).Execute") }) {
					return false, false
				}
				nonNilOnTrue := (cm.op == token.NEQ) == truth
				return nonNilOnTrue, !nonNilOnTrue
			})
			if okG {
				exitOK = true
			}
		}
	}
	// the non-nil edge must not reach a return without passing os.Exit: approximate by requiring that an Exit exists on that edge
	c.verdict(exitOK, "cmd.main:exit", main.Pos(), "a non-nil Execute() error leads to os.Exit with a non-zero status", "a failing command does not reach os.Exit(non-zero)")
}

func c07TmpRename(c *Ctx) {
	fn := c.mustFn("cmd.writeWithTmpFile")
	if fn == nil {
		return
	}
	renames := calls(fn, named("os.Rename"))
	if len(renames) != 1 {
		c.bad("cmd.writeWithTmpFile:rename", fn.Pos(), "expected exactly one os.Rename, found %d", len(renames))
		return
	}
	rn := renames[0]
	isAssembly := func(o string) bool {
		return strings.HasPrefix(o, "call:cmd.writeInplace#1") || strings.HasPrefix(o, "call:desync.AssembleFile#1")
	}
	okG, n := guarded(fn, rn, func(iff *ssa.If) (bool, bool) {
		cm, truth, ok := cmpOf(iff.Cond)
		if !ok || !(isNilConst(cm.y) || isNilConst(cm.x)) {
			return false, false
		}
		subj := cm.x
		if isNilConst(cm.x) {
			subj = cm.y
		}
		if !hasOrigin(subj, isAssembly) {
			return false, false
		}
		nilOnTrue := (cm.op == token.EQL) == truth
		return nilOnTrue, !nilOnTrue
	})
	c.verdict(okG, "cmd.writeWithTmpFile:rename-guard", rn.Pos(), fmt.Sprintf("os.Rename only behind the nil-error edge of the assembly call (%d accepting edge(s))", n),
		"os.Rename onto the destination is reachable although the assembly call failed or was interrupted")
	// destination is the name parameter, source is the temp file
	a := rn.Common().Args
	c.verdict(onlyOrigins(a[1], func(o string) bool { return o == "param:name" }) && hasOrigin(a[0], func(o string) bool {
		return strings.Contains(o, "tempfile.File).Name") || strings.Contains(o, "os.File).Name")
	}),
		"cmd.writeWithTmpFile:rename-args", rn.Pos(), "rename(temp.Name(), name)", fmt.Sprintf("rename arguments are not (temp file, destination): %v -> %v", origins(a[0]), origins(a[1])))
	// temp file in filepath.Dir(name)
	tmpOK := false
	for _, call := range calls(fn, suffixed("tempfile.NewMode", "tempfile.New", "os.CreateTemp", "ioutil.TempFile")) {
		if hasOrigin(call.Common().Args[0], func(o string) bool { return o == "call:path/filepath.Dir#0" }) {
			for _, d := range calls(fn, named("path/filepath.Dir")) {
				if onlyOrigins(d.Common().Args[0], func(o string) bool { return o == "param:name" }) {
					tmpOK = true
				}
			}
		}
	}
	c.verdict(tmpOK, "cmd.writeWithTmpFile:same-dir", fn.Pos(), "temp file is created in filepath.Dir(name) (same filesystem, rename is atomic)", "temp file is not created in the destination's directory")
	// deferred os.Remove(tmp) before the assembly call
	remOK := false
	instrs(fn, func(_ *ssa.BasicBlock, _ int, ins ssa.Instruction) {
		if d, ok := ins.(*ssa.Defer); ok && callee(d) == "os.Remove" {
			for _, as := range calls(fn, named("cmd.writeInplace", "desync.AssembleFile")) {
				if instrDominates(d, as) {
					remOK = true
				}
			}
		}
	})
	c.verdict(remOK, "cmd.writeWithTmpFile:deferred-remove", fn.Pos(), "os.Remove(temp) is deferred before the assembly starts", "the temp file is not removed on failure (no deferred os.Remove before the assembly call)")
}

// c07ErrIsError: code that polls ctx.Err() instead of receiving from Done(): on the edge on
// which ctx.Err() was found non-nil every reachable return must yield a non-nil error.
func c07ErrIsError(c *Ctx) {
	for _, fn := range c.subjects() {
		n := 0
		for _, b := range fn.Blocks {
			iff := lastIf(b)
			if iff == nil {
				continue
			}
			cm, truth, ok := cmpOf(iff.Cond)
			if !ok || (cm.op != token.EQL && cm.op != token.NEQ) || !(isNilConst(cm.x) || isNilConst(cm.y)) {
				continue
			}
			subj := cm.x
			if isNilConst(cm.x) {
				subj = cm.y
			}
			if !onlyOrigins(subj, func(o string) bool { return o == "call:(context.Context).Err#0" }) {
				continue
			}
			n++
			key := fmt.Sprintf("%s#ctxerr%d", fnKey(fn), n)
			top := fn
			for top.Parent() != nil {
				top = top.Parent()
			}
			if why, ok := c07Exceptions[fnKey(top)]; ok {
				c.info(key, iff.Pos(), "exception (service loop): %s", why)
				continue
			}
			nonNilOnTrue := (cm.op == token.NEQ) == truth
			to := b.Succs[1]
			if nonNilOnTrue {
				to = b.Succs[0]
			}
			var bad []string
			h := &Hooks{
				Return: func(st *State, ret *ssa.Return, results []Val) {
					for i, r := range ret.Results {
						if isErrorType(r.Type()) && results[i].N != NNon {
							bad = append(bad, fmt.Sprintf("return at %s may yield a nil error although ctx.Err() was found non-nil (trail %s)", c.pos(ret.Pos()), strings.Join(st.Trail, ">")))
						}
					}
				},
			}
			st := NewState()
			assumeDominators(st, b)
			st.V[subj] = Val{N: NNon, Class: ClsOther}
			if u, ok := subj.(*ssa.UnOp); ok && u.Op == token.MUL {
				st.V[st.cell(u.X)] = Val{N: NNon, Class: ClsOther}
			}
			Explore(fn, to, 0, b, st, h)
			c.paths += h.Paths
			if len(bad) > 0 {
				c.bad(key, iff.Pos(), "%s", bad[0])
			} else {
				c.ok(key, iff.Pos(), "every return behind ctx.Err()!=nil yields a non-nil error")
			}
		}
	}
}

// c07CommandsPropagate: in the command package a failure of any context-taking operation
// (library call or local helper whose first parameter is a context.Context and that returns an
// error) makes the calling function fail - the Interrupted error of a cancelled operation is not
// overwritten or swallowed on the way to main's exit status.
var c07PropagateExceptions = map[string]string{}

func c07CommandsPropagate(c *Ctx) {
	takesCtx := func(call *ssa.Call) bool {
		sig := call.Call.Signature()
		if sig.Params().Len() == 0 {
			return false
		}
		first := sig.Params().At(0).Type()
		if call.Call.IsInvoke() {
			// method value of an interface: the receiver is not in Params
			first = sig.Params().At(0).Type()
		}
		return first.String() == "context.Context"
	}
	total := 0
	for _, fn := range c.subjects() {
		if fn.Pkg != c.CmdSSA || fn.Blocks == nil {
			continue
		}
		// only functions that themselves return an error
		res := fn.Signature.Results()
		hasErr := false
		for i := 0; i < res.Len(); i++ {
			if isErrorType(res.At(i).Type()) {
				hasErr = true
			}
		}
		if !hasErr {
			continue
		}
		n := 0
		instrs(fn, func(_ *ssa.BasicBlock, _ int, ins ssa.Instruction) {
			if call, ok := ins.(*ssa.Call); ok && takesCtx(call) && errResultIndex(call) >= 0 {
				n++
			}
		})
		if n == 0 {
			continue
		}
		if c.onlyCmds != nil && !c.onlyCmds[fnKey(fn)] {
			continue
		}
		key := fnKey(fn) + ":ctx-errors"
		if why, ok := c07PropagateExceptions[fnKey(fn)]; ok {
			c.info(key, fn.Pos(), "exception: %s", why)
			continue
		}
		sites, bad := errPropagates(c, fn, func(name string, call *ssa.Call) bool { return takesCtx(call) }, errPropOpts{})
		total += sites
		if len(bad) > 0 {
			c.bad(key, fn.Pos(), "%s", bad[0])
		} else {
			c.ok(key, fn.Pos(), "%d context-taking call(s); a failure of each makes %s fail", sites, fnKey(fn))
		}
	}
	if total < 10 && c.onlyCmds == nil {
		c.bad("commands:ctx-errors", token.NoPos, "only %d context-taking calls found in the command package", total)
	}
}

// c07RetryObservesCtx: no retry loop around a cancellable operation without a look at the
// context.  For every call K of a context-taking, error-returning function that lies on a cycle of
// its function: from the edge taken when K failed, K must not be reachable again without passing
// a block that observes the context (a call of ctx.Err() or a receive from ctx.Done()).  K fails
// with an interruption error once the context is cancelled; a loop that treats every failure as
// "try again" then spins forever instead of returning the interruption.
func c07RetryObservesCtx(c *Ctx) {
	n := 0
	seenKey := map[string]bool{}
	for _, fn := range c.subjects() {
		if fn.Blocks == nil {
			continue
		}
		observes := map[*ssa.BasicBlock]bool{}
		for _, s := range doneSites(fn) {
			observes[s.block] = true
			if s.pred != nil {
				observes[s.pred] = true
			}
		}
		for _, call := range calls(fn, named("(context.Context).Err")) {
			observes[call.Block()] = true
		}
		instrs(fn, func(b *ssa.BasicBlock, _ int, ins ssa.Instruction) {
			call, ok := ins.(*ssa.Call)
			if !ok || errResultIndex(call) < 0 || !inLoop(b) {
				return
			}
			sig := call.Call.Signature()
			if sig.Params().Len() == 0 || sig.Params().At(0).Type().String() != "context.Context" {
				return
			}
			ei := errResultIndex(call)
			// the failure edges: Ifs on "err != nil" of this call's error result
			var errv ssa.Value = call
			if sig.Results().Len() > 1 {
				errv = nil
				for _, r := range *call.Referrers() {
					if ex, ok := r.(*ssa.Extract); ok && ex.Index == ei {
						errv = ex
					}
				}
			}
			if errv == nil {
				return
			}
			for _, blk := range fn.Blocks {
				iff := lastIf(blk)
				if iff == nil {
					continue
				}
				cm, truth, ok := cmpOf(iff.Cond)
				if !ok || (cm.op != token.EQL && cm.op != token.NEQ) || !(isNilConst(cm.x) || isNilConst(cm.y)) {
					continue
				}
				subj := cm.x
				if isNilConst(cm.x) {
					subj = cm.y
				}
				isErr := false
				for _, l := range leaves(subj) {
					if l == errv {
						isErr = true
					}
				}
				if !isErr {
					continue
				}
				nonNilOnTrue := (cm.op == token.NEQ) == truth
				fail := blk.Succs[1]
				if nonNilOnTrue {
					fail = blk.Succs[0]
				}
				key := fmt.Sprintf("%s:retry-after-%s", fnKey(fn), callee(call))
				if seenKey[key+c.pos(iff.Pos())] {
					continue
				}
				seenKey[key+c.pos(iff.Pos())] = true
				n++
				// remove the observing blocks, then ask whether the call is reachable again from the failure edge
				removed := map[edge]bool{}
				for ob := range observes {
					for _, s := range ob.Succs {
						removed[edge{ob, s}] = true
					}
				}
				again := fail == b || (!observes[fail] && reachableFrom(fail, removed)[b])
				c.verdict(!again, key, call.Pos(), "after a failure the operation is repeated only past a look at the context (ctx.Err / ctx.Done), or not at all",
					fmt.Sprintf("%s is called in a loop and, after it failed, can be called again without the context having been consulted: once the context is cancelled it fails with an interruption every time and the loop spins instead of returning (failure edge at %s)", callee(call), c.pos(iff.Pos())))
			}
		})
	}
	c.ok("retry-loops", token.NoPos, "%d failure edge(s) of context-taking calls inside loops inspected", n)
}

// assumeDominators seeds a state for an exploration that starts in the middle of a function with
// the branch conditions known to hold there: for every dominating If one of whose out-edges
// dominates the start block (target entered only through that edge), the condition is assumed.
func assumeDominators(st *State, start *ssa.BasicBlock) {
	st.assumeDominating(start)
}

// c07ListerDone: a listing or producing component that is handed the context's own Done channel
// (or the context) stops and closes its result channel when the operation is cancelled.  The
// consumer's "for x := range ch" then ends exactly as it does when the listing is complete, so the
// code after the loop must look at the context before it reports success; a consumer that only
// checks the context inside the loop returns nil for a listing that was cut short.
func c07ListerDone(c *Ctx) {
	n := 0
	for _, fn := range c.libFuncsAll() {
		if fn.Blocks == nil || errResultOfFunc(fn) < 0 {
			continue
		}
		observes := map[*ssa.BasicBlock]bool{}
		for _, s := range doneSites(fn) {
			observes[s.block] = true
			if s.pred != nil {
				observes[s.pred] = true
			}
		}
		for _, call := range calls(fn, named("(context.Context).Err")) {
			observes[call.Block()] = true
		}
		for _, b := range fn.Blocks {
			for _, ins := range b.Instrs {
				call, ok := ins.(*ssa.Call)
				if !ok {
					continue
				}
				if _, isChan := call.Type().Underlying().(*types.Chan); !isChan {
					continue
				}
				givenDone := false
				for _, a := range call.Call.Args {
					if hasOrigin(a, func(o string) bool { return o == "call:(context.Context).Done#0" }) {
						givenDone = true
					}
				}
				if !givenDone {
					continue
				}
				// the loop that receives from the channel: "v, ok := <-ch; if !ok { exit }"
				for _, hb := range fn.Blocks {
					iff := lastIf(hb)
					if iff == nil {
						continue
					}
					ex, isEx := stripNot(iff.Cond).(*ssa.Extract)
					if !isEx || ex.Index != 1 {
						continue
					}
					rc, isRecv := ex.Tuple.(*ssa.UnOp)
					if !isRecv || rc.Op != token.ARROW || !rc.CommaOk {
						continue
					}
					fromCall := false
					for _, l := range leaves(rc.X) {
						if l == ssa.Value(call) {
							fromCall = true
						}
					}
					if !fromCall {
						continue
					}
					n++
					_, truth, _ := cmpOf(iff.Cond)
					exit := hb.Succs[1] // ok == false
					if !truth {
						exit = hb.Succs[0]
					}
					// from the exit, a nil-error return must not be reachable without observing the context
					bad := ""
					seen := map[*ssa.BasicBlock]bool{}
					work := []*ssa.BasicBlock{exit}
					for len(work) > 0 && bad == "" {
						x := work[len(work)-1]
						work = work[:len(work)-1]
						if seen[x] || observes[x] {
							continue
						}
						seen[x] = true
						if r, ok := x.Instrs[len(x.Instrs)-1].(*ssa.Return); ok {
							ei := errResultOfFunc(fn)
							if ei < len(r.Results) && isNilConst(unspill(r, r.Results[ei])) {
								bad = c.pos(r.Pos())
							}
							continue
						}
						work = append(work, x.Succs...)
					}
					c.verdict(bad == "", fnKey(fn)+":listing-cut-short", call.Pos(), "after a listing that the context can stop, success is reported only after a look at the context",
						"the channel returned by "+callee(call)+" is closed when the context is cancelled (it was given ctx.Done()); the loop over it then ends normally and the return at "+bad+" reports success for a listing that was cut short")
				}
			}
		}
	}
	c.ok("listers", 0, "%d loop(s) over channels of components that were handed the context's Done channel", n)
}

// c07StatusAfterDrain: a chunking worker reports how it ended (err, eof) in fields of its
// pChunker and then closes its results channel; the close is the only synchronisation with
// the consumer.  IndexFromFile may therefore look at a worker's err/eof only after it has seen
// that worker's channel closed: every load of these fields lies behind the "closed" edge of a
// receive from the same worker's results, counted from where the worker value is picked (so the
// drain of the previous worker does not count for the next one).  Read earlier, a cancellation
// that the worker has not recorded yet is missed and a partial index is returned as success.
func c07StatusAfterDrain(c *Ctx) {
	top := c.mustFn("IndexFromFile")
	if top == nil {
		return
	}
	// the receive whose "closed" outcome is tested, for worker value w (nil: not such a test)
	closedEdge := func(iff *ssa.If, w ssa.Value) (onTrue, onFalse bool) {
		ex, ok := stripNot(iff.Cond).(*ssa.Extract)
		if !ok || ex.Index != 1 {
			return false, false
		}
		rcv, ok := ex.Tuple.(*ssa.UnOp)
		if !ok || rcv.Op != token.ARROW || !rcv.CommaOk {
			return false, false
		}
		fromW := false
		for _, l := range leaves(rcv.X) {
			if cl, ok := l.(*ssa.UnOp); ok && cl.Op == token.MUL {
				if cfa, ok := cl.X.(*ssa.FieldAddr); ok && fieldOf(cfa) == "pChunker.results" && cfa.X == w {
					fromW = true
				}
			}
		}
		if !fromW {
			return false, false
		}
		_, truth, _ := cmpOf(iff.Cond)
		return !truth, truth // ok == false: closed
	}
	// drains(h, k): new helper h returns only after it has seen the results channel of its k-th
	// parameter closed
	var drains func(h *ssa.Function, k int) bool
	drains = func(h *ssa.Function, k int) bool {
		if h == nil || !newHelpers[h] || k >= len(h.Params) || len(h.Blocks) == 0 {
			return false
		}
		w := ssa.Value(h.Params[k])
		closed := edgesWhere(h, func(iff *ssa.If) (bool, bool) { return closedEdge(iff, w) })
		if len(closed) == 0 {
			return false
		}
		r := reachable(h, closed)
		for _, ret := range returnsOf(h) {
			if r[ret.Block()] {
				return false
			}
		}
		return true
	}
	isDrainCall := func(ins ssa.Instruction, w ssa.Value) bool {
		ci, ok := ins.(*ssa.Call)
		if !ok {
			return false
		}
		h := directCallee(ci)
		if h == nil {
			return false
		}
		for k, a := range ci.Call.Args {
			if a == w && drains(h, k) {
				return true
			}
		}
		return false
	}
	var fam []*ssa.Function
	seenF := map[*ssa.Function]bool{}
	for _, f := range withClosures(top) {
		for _, g := range fnsDeep(f) {
			for _, g2 := range withClosures(g) {
				if !seenF[g2] {
					seenF[g2] = true
					fam = append(fam, g2)
				}
			}
		}
	}
	n := 0
	for _, f := range fam {
		instrs(f, func(_ *ssa.BasicBlock, _ int, ins ssa.Instruction) {
			ld, ok := ins.(*ssa.UnOp)
			if !ok || ld.Op != token.MUL || ins.Parent() != f {
				return
			}
			fa, ok := ld.X.(*ssa.FieldAddr)
			if !ok || (fieldOf(fa) != "pChunker.err" && fieldOf(fa) != "pChunker.eof") {
				return
			}
			n++
			key := fmt.Sprintf("%s:%s-after-drain", fnKey(f), strings.TrimPrefix(fieldOf(fa), "pChunker."))
			w := fa.X
			// where the worker value comes into being: an instruction, or the entry for a parameter
			startB, startI := f.Blocks[0], 0
			if def, isIns := w.(ssa.Instruction); isIns {
				startB = def.Block()
				for i, x := range startB.Instrs {
					if x == def {
						startI = i + 1
					}
				}
			} else if _, isParam := w.(*ssa.Parameter); !isParam {
				c.bad(key, ld.Pos(), "the worker whose %s is read is neither picked inside this function nor a parameter", fieldOf(fa))
				return
			}
			closed := edgesWhere(f, func(iff *ssa.If) (bool, bool) { return closedEdge(iff, w) })
			// can the load be reached from the start without crossing a closed edge or a draining call?
			reached := false
			seenB := map[*ssa.BasicBlock]bool{}
			type item struct {
				b *ssa.BasicBlock
				i int
			}
			work := []item{{startB, startI}}
			for len(work) > 0 && !reached {
				it := work[len(work)-1]
				work = work[:len(work)-1]
				stopped := false
				for i := it.i; i < len(it.b.Instrs); i++ {
					x := it.b.Instrs[i]
					if x == ssa.Instruction(ld) {
						reached = true
						break
					}
					if isDrainCall(x, w) {
						stopped = true
						break
					}
				}
				if reached || stopped {
					continue
				}
				for _, sc := range it.b.Succs {
					if closed[edge{it.b, sc}] || seenB[sc] {
						continue
					}
					seenB[sc] = true
					work = append(work, item{sc, 0})
				}
			}
			c.verdict(!reached, key, ld.Pos(), "read only after this worker's results channel was seen closed",
				fmt.Sprintf("%s of a chunking worker is read before (or without) its results channel having been drained to the close: the worker may still be running, an interruption or read error it is about to record is missed and a partial index is returned as success", fieldOf(fa)))
		})
	}
	if n == 0 {
		c.bad("IndexFromFile:status-after-drain", top.Pos(), "IndexFromFile never looks at a worker's err/eof")
	}
}
