// desynclint decides structural necessary conditions of the properties C01–C20 of
// folbricht/desync by static analysis of the repository's current source (type-checked
// packages, SSA form, CFG).  Nothing of the analysed repository is executed.
//
//	desynclint -property C07 [-tier quick|thorough] [-repo /repo] [-verif /verif]
//
// Exit status: 0 held on everything analysed (known findings are printed as
// "KNOWN-FINDING: ..."), 1 violation ("VIOLATION property=<id> replay=<path>"),
// 2 undecided (load or type-check failure, analyser panic).
package main

import (
	"encoding/json"
	"flag"
	"fmt"
	"go/token"
	"os"
	"os/exec"
	"path/filepath"
	"runtime/debug"
	"sort"
	"strconv"
	"strings"
	"time"
)

// Obligation is one instance of a rule on one construct of the analysed program.
type Obligation struct {
	Rule      string `json:"rule"`
	Construct string `json:"construct"` // stable key: function + role, never a line number
	Pos       string `json:"pos"`       // file:line for the reader
	Verdict   string `json:"verdict"`   // ok | violation | known | info
	Detail    string `json:"detail,omitempty"`
}

// configEnv maps a configuration name to loader settings ("GOOS=..." or "-tags=...").
func configEnv(name string) []string {
	switch name {
	case "windows":
		return []string{"GOOS=windows", "CGO_ENABLED=0"}
	case "darwin":
		return []string{"GOOS=darwin", "CGO_ENABLED=0"}
	case "datadog":
		return []string{"-tags=datadog"}
	}
	return nil
}

type ruleFn func(c *Ctx)

type rule struct {
	ID    string
	Doc   string // the rule applied, in one sentence
	Floor int    // minimum number of obligations confirmed by hand on the reference tree
	Run   ruleFn
}

// ruleConfigs lists, per rule id, the additional build configurations the thorough tier
// re-runs the rule under (the code it inspects lives in build-constrained files or is shared
// by every platform).
var ruleConfigs = map[string][]string{
	"C18.name-sanitised":          {"windows", "darwin"},
	"C18.node-paths":              {"windows", "darwin"},
	"C18.sole-constructor":        {"windows", "darwin"},
	"C18.join-root":               {"darwin"},
	"C18.lstat-dir":               {"windows", "darwin"},
	"C19.bounded-alloc":           {"windows", "darwin"},
	"C19.size-floor":              {"windows", "darwin"},
	"C19.slice-guards":            {"windows", "darwin"},
	"C19.tainted-loops":           {"windows", "darwin"},
	"C20.compress-api":            {"datadog"},
	"C20.names":                   {"windows", "darwin", "datadog"},
	"C20.one-switch":              {"datadog"},
	"C05.restore-matrix":          {"darwin"},
	"C05.mode-tables":             {"darwin"},
	"C16.format-filter-by-option": {"windows", "darwin"},
	"C03.backends":                {"windows", "darwin", "datadog"},
	"C07.done-is-error":           {"windows", "darwin"},
	"C08.store-typestate":         {"windows", "darwin"},
	"C05.names-opaque":            {"windows", "darwin"},
	"C19.signed-length":           {"windows", "darwin"},
	"C07.side-goroutine-errors":   {"windows", "darwin"},
	"C16.name-roundtrip":          {"windows"},
	"C14.raw-storage":             {"windows"},
}

type property struct {
	ID          string
	Explanation string
	NotDecided  string
	Rules       []rule
}

var registry = map[string]*property{}

func register(p *property) { registry[p.ID] = p }

// deferredRegistrations run once at the start of main, after every property has registered.
var deferredRegistrations []func()

func main() {
	for _, f := range deferredRegistrations {
		f()
	}
	prop := flag.String("property", "", "property id (C01..C20) or 'all'")
	tier := flag.String("tier", "quick", "quick|thorough")
	repo := flag.String("repo", "/repo", "repository to analyse")
	verif := flag.String("verif", "/verif", "verification directory (evidence, known findings)")
	explain := flag.String("explain", "", "print the violations recorded in the given replay file")
	noEvidence := flag.Bool("no-evidence", false, "do not write evidence (used by the self-test on scratch variants)")
	overlay := flag.String("overlay", "", "JSON file {path: content} of in-memory replacements (self-test)")
	listRules := flag.Bool("rules", false, "list rules and exit")
	verbose := flag.Bool("v", false, "print every obligation")
	noSelftest := flag.Bool("no-selftest", false, "thorough tier without the variant self-test")
	config := flag.String("config", "", "build configuration: '' (linux/amd64), windows, darwin, datadog")
	dumpCodec := flag.Bool("dump-codec", false, "print the encoder/decoder field tables and exit")
	dumpKnown := flag.String("dump-known", "", "write the table of known function, field and constant names of -repo to this file and exit")
	selftestOnly := flag.String("selftest", "", "run only the variant self-test of the given property (comma list or 'all') and print the outcome")
	flag.Parse()

	if *dumpCodec {
		c, err := load(*repo, *overlay, nil)
		if err != nil {
			fmt.Println(err)
			os.Exit(2)
		}
		fmt.Print(c.dumpCodec())
		return
	}
	if *dumpKnown != "" {
		known = knownTable{} // dump the program as it is, without aliasing against an older table
		knownJSON = nil
		c, err := load(*repo, *overlay, nil)
		if err != nil {
			fmt.Println(err)
			os.Exit(2)
		}
		if err := c.dumpKnown(*dumpKnown); err != nil {
			fmt.Println(err)
			os.Exit(2)
		}
		return
	}
	if *selftestOnly != "" {
		var ids []string
		if *selftestOnly == "all" {
			for id := range registry {
				ids = append(ids, id)
			}
			sort.Strings(ids)
		} else {
			ids = strings.Split(*selftestOnly, ",")
		}
		rc := 0
		for _, id := range ids {
			st := runSelftest(*repo, *verif, id)
			fmt.Printf("selftest %s: variants=%d killed=%d survived=%v equivalents=%d silent=%d noisy=%v\n", id, st.Variants, st.Killed, st.Survived, st.Equivalent, st.Silent, st.Noisy)
			for _, s := range st.Skipped {
				fmt.Println("  skipped:", s)
				// a variant of the corpus that can no longer be built is a stale corpus, not a pass
				if strings.Contains(s, "patch does not apply") || strings.Contains(s, "file missing") || strings.Contains(s, "patch missing") {
					rc = 3
				}
			}
			if len(st.Survived) > 0 || len(st.Noisy) > 0 {
				rc = 3
			}
		}
		os.Exit(rc)
	}

	if *explain != "" {
		b, err := os.ReadFile(*explain)
		if err != nil {
			fmt.Println(err)
			os.Exit(2)
		}
		os.Stdout.Write(b)
		return
	}
	if *listRules {
		var ids []string
		for id := range registry {
			ids = append(ids, id)
		}
		sort.Strings(ids)
		for _, id := range ids {
			for _, r := range registry[id].Rules {
				fmt.Printf("%s\t%s\tfloor=%d\t%s\n", id, r.ID, r.Floor, r.Doc)
			}
		}
		return
	}
	if v := os.Getenv("VERIF_TIER"); v != "" && *tier == "" {
		*tier = v
	}
	seed := 0
	if v := os.Getenv("VERIF_SEED"); v != "" {
		seed, _ = strconv.Atoi(v)
	}

	var ids []string
	if *prop == "all" {
		for id := range registry {
			ids = append(ids, id)
		}
		sort.Strings(ids)
	} else {
		for _, id := range strings.Split(*prop, ",") {
			if registry[id] == nil {
				fmt.Printf("UNDECIDED property=%s reason=no such property registered\n", id)
				os.Exit(2)
			}
			ids = append(ids, id)
		}
	}

	start := time.Now()
	c, err := load(*repo, *overlay, configEnv(*config))
	// a load that failed on import data ("could not import ..", packages without SSA) while other
	// builds compete for the build cache is an accident of the moment, not a property of the tree:
	// try again before giving up (a tree that really does not type-check fails the same way thrice)
	for attempt := 0; err != nil && attempt < 2 && (strings.Contains(err.Error(), "could not import") || strings.Contains(err.Error(), "SSA packages missing")); attempt++ {
		time.Sleep(time.Duration(3+4*attempt) * time.Second)
		c, err = load(*repo, *overlay, configEnv(*config))
	}
	if err != nil {
		for _, id := range ids {
			fmt.Printf("UNDECIDED property=%s reason=%v\n", id, err)
		}
		os.Exit(2)
	}
	c.Tier = *tier
	c.ConfigName = *config
	if *tier == "thorough" {
		explorerBoost = 1
	}
	loadS := time.Since(start).Seconds()

	known := readKnown(filepath.Join(*verif, "known-findings.txt"))
	exit := 0
	for _, id := range ids {
		t0 := time.Now()
		res := runProperty(c, registry[id], known)
		res.LoadS = loadS
		res.WallS = time.Since(t0).Seconds() + loadS
		res.Seed = seed
		var st *selftestResult
		if *tier == "thorough" && *config == "" && !*noEvidence {
			res.Configs = runConfigs(*repo, *verif, id, c, res)
		}
		if *tier == "thorough" && !*noSelftest && !*noEvidence {
			st = runSelftest(*repo, *verif, id)
			res.WallS = time.Since(t0).Seconds() + loadS
		}
		res.WallS = time.Since(t0).Seconds() + loadS
		if !*noEvidence {
			if err := writeEvidence(*verif, c, registry[id], res, st); err != nil {
				fmt.Printf("UNDECIDED property=%s reason=cannot write evidence: %v\n", id, err)
				exit = 2
				continue
			}
		}
		fmt.Printf("property=%s tier=%s rules=%d obligations=%d ok=%d known=%d violations=%d functions=%d wall=%.1fs\n",
			id, *tier, len(registry[id].Rules), len(res.Obs), res.count("ok"), res.count("known"), res.count("violation"), len(c.Funcs), res.WallS)
		for _, o := range res.Obs {
			if *verbose {
				fmt.Printf("  [%s] %s %s at %s: %s\n", o.Verdict, o.Rule, o.Construct, o.Pos, o.Detail)
				continue
			}
			switch o.Verdict {
			case "known":
				fmt.Printf("KNOWN-FINDING: property=%s %s\n", id, o.Detail)
			case "violation":
				fmt.Printf("  violation rule=%s construct=%s at %s: %s\n", o.Rule, o.Construct, o.Pos, o.Detail)
			}
		}
		if res.Panic != "" {
			fmt.Printf("UNDECIDED property=%s reason=analyser panic: %s\n", id, res.Panic)
			if exit == 0 {
				exit = 2
			}
			continue
		}
		if res.count("undecided") > 0 {
			for _, o := range res.Obs {
				if o.Verdict == "undecided" {
					fmt.Printf("UNDECIDED property=%s rule=%s reason=%s\n", id, o.Rule, o.Detail)
				}
			}
			if exit == 0 {
				exit = 2
			}
		}
		if st != nil && (len(st.Survived) > 0 || len(st.Noisy) > 0) {
			// a variant that should be reported but is not: the checker lost power; this
			// is a defect of the checker, not of the repository: say so loudly but
			// do not blame the repository
			fmt.Printf("SELFTEST property=%s survived=%v noisy=%v\n", id, st.Survived, st.Noisy)
		}
		if res.count("violation") > 0 {
			replay := filepath.Join(*verif, "evidence", "violations", id+".json")
			if !*noEvidence {
				writeViolations(replay, id, res)
			}
			fmt.Printf("VIOLATION property=%s replay=%s\n", id, replay)
			exit = 1
		}
	}
	os.Exit(exit)
}

type configRun struct {
	Config      string   `json:"config"`
	Rules       []string `json:"rules"`
	Obligations int      `json:"obligations"`
	Violations  int      `json:"violations"`
	Status      string   `json:"status"`
}

// runConfigs re-runs, each in a child process, the rules of the property that are declared for
// further build configurations (GOOS=windows, GOOS=darwin, -tags datadog).
func runConfigs(repo, verif, id string, c *Ctx, res *result) []configRun {
	want := map[string][]string{}
	for _, r := range registry[id].Rules {
		for _, cfg := range ruleConfigs[r.ID] {
			want[cfg] = append(want[cfg], r.ID)
		}
	}
	var cfgs []string
	for k := range want {
		cfgs = append(cfgs, k)
	}
	sort.Strings(cfgs)
	self, err := os.Executable()
	if err != nil {
		return nil
	}
	var out []configRun
	for _, cfg := range cfgs {
		cmd := exec.Command(self, "-property", id, "-tier", "quick", "-repo", repo, "-verif", verif, "-config", cfg, "-no-evidence")
		b, _ := cmd.CombinedOutput()
		code := cmd.ProcessState.ExitCode()
		text := string(b)
		run := configRun{Config: cfg, Rules: want[cfg]}
		fmt.Sscanf(afterPrefix(text, "obligations="), "%d", &run.Obligations)
		fmt.Sscanf(afterPrefix(text, "violations="), "%d", &run.Violations)
		switch code {
		case 0:
			run.Status = "held"
		case 1:
			run.Status = "violation"
			for _, l := range strings.Split(text, "\n") {
				if strings.Contains(l, "violation rule=") {
					f := strings.Fields(l)
					ruleID, construct := "", ""
					for _, w := range f {
						if strings.HasPrefix(w, "rule=") {
							ruleID = strings.TrimPrefix(w, "rule=")
						}
						if strings.HasPrefix(w, "construct=") {
							construct = strings.TrimPrefix(w, "construct=")
						}
					}
					res.Obs = append(res.Obs, Obligation{Rule: ruleID, Construct: construct + "@" + cfg, Pos: "-", Verdict: "violation", Detail: "[build configuration " + cfg + "] " + strings.TrimSpace(l)})
				}
			}
		default:
			run.Status = "undecided: " + lastLine(text)
		}
		out = append(out, run)
	}
	return out
}

func afterPrefix(text, key string) string {
	if i := strings.Index(text, key); i >= 0 {
		return text[i+len(key):]
	}
	return ""
}

type result struct {
	Configs []configRun
	Obs     []Obligation
	Rules   map[string]int
	Panic   string
	WallS   float64
	LoadS   float64
	Seed    int
	Paths   int
	Floors  map[string]int
}

func (r *result) count(v string) int {
	n := 0
	for _, o := range r.Obs {
		if o.Verdict == v {
			n++
		}
	}
	return n
}

func runProperty(c *Ctx, p *property, known []knownFinding) (res *result) {
	res = &result{Rules: map[string]int{}, Floors: map[string]int{}}
	c.obs = nil
	c.paths = 0
	defer func() {
		if r := recover(); r != nil {
			res.Panic = fmt.Sprintf("%v\n%s", r, debug.Stack())
		}
	}()
	for _, r := range p.Rules {
		if c.ConfigName != "" {
			applies := false
			for _, x := range ruleConfigs[r.ID] {
				if x == c.ConfigName {
					applies = true
				}
			}
			if !applies {
				continue
			}
		}
		before := len(c.obs)
		c.curRule = r.ID
		r.Run(c)
		n := len(c.obs) - before
		res.Rules[r.ID] = n
		// The floor guards against a rule that silently matches nothing.  The table holds the instance
		// count confirmed by hand on the tree the rule was written on; half of it is demanded, because
		// a refactoring that merges duplicated code (two mirrored branches into one, seven inline
		// path computations into one helper) legitimately lowers the count, while a vanished
		// mechanism takes it to zero.
		floor := (r.Floor + 1) / 2
		res.Floors[r.ID] = floor
		lost := false
		for _, o := range c.obs[before:] {
			if o.Verdict == "undecided" {
				lost = true
			}
		}
		if n < floor && !lost {
			// The mechanism the property is anchored in is no longer there (or no longer
			// recognisable): the necessary condition cannot be shown, report it.
			c.obs = append(c.obs, Obligation{Rule: r.ID, Construct: "floor", Pos: "-", Verdict: "violation",
				Detail: fmt.Sprintf("rule matched %d instance(s), expected at least %d: an anchored mechanism is missing or no longer recognisable (%s)", n, floor, r.Doc)})
		}
	}
	// apply the known-findings list: exact rule+construct matches only
	for i := range c.obs {
		o := &c.obs[i]
		if o.Verdict != "violation" {
			continue
		}
		for _, k := range known {
			if k.Property == p.ID && k.Rule == o.Rule && k.Construct == o.Construct {
				o.Verdict = "known"
				o.Detail = k.Text
			}
		}
	}
	sort.SliceStable(c.obs, func(i, j int) bool {
		if c.obs[i].Rule != c.obs[j].Rule {
			return c.obs[i].Rule < c.obs[j].Rule
		}
		return c.obs[i].Construct < c.obs[j].Construct
	})
	res.Obs = c.obs
	res.Paths = c.paths
	return res
}

type knownFinding struct {
	Property, Rule, Construct, Text string
}

func readKnown(path string) []knownFinding {
	b, err := os.ReadFile(path)
	if err != nil {
		return nil
	}
	var out []knownFinding
	for _, l := range strings.Split(string(b), "\n") {
		l = strings.TrimSpace(l)
		if !strings.HasPrefix(l, "finding:") {
			continue
		}
		f := strings.Fields(strings.TrimPrefix(l, "finding:"))
		k := knownFinding{}
		rest := []string{}
		for _, w := range f {
			switch {
			case strings.HasPrefix(w, "property=") && k.Property == "":
				k.Property = strings.TrimPrefix(w, "property=")
			case strings.HasPrefix(w, "rule=") && k.Rule == "":
				k.Rule = strings.TrimPrefix(w, "rule=")
			case strings.HasPrefix(w, "construct=") && k.Construct == "":
				k.Construct = strings.TrimPrefix(w, "construct=")
			default:
				rest = append(rest, w)
			}
		}
		k.Text = strings.Join(rest, " ")
		out = append(out, k)
	}
	return out
}

func writeViolations(path, id string, res *result) {
	os.MkdirAll(filepath.Dir(path), 0o755)
	var v []Obligation
	for _, o := range res.Obs {
		if o.Verdict == "violation" {
			v = append(v, o)
		}
	}
	b, _ := json.MarshalIndent(map[string]any{"property_id": id, "violations": v}, "", " ")
	os.WriteFile(path, append(b, '\n'), 0o644)
}

func writeEvidence(verif string, c *Ctx, p *property, res *result, st *selftestResult) error {
	type ruleInfo struct {
		Rule      string `json:"rule"`
		Applied   string `json:"applied"`
		Instances int    `json:"instances"`
		Floor     int    `json:"floor"`
	}
	var rules []ruleInfo
	for _, r := range p.Rules {
		rules = append(rules, ruleInfo{r.ID, r.Doc, res.Rules[r.ID], r.Floor})
	}
	samples := []Obligation{}
	perRule := map[string]int{}
	for _, o := range res.Obs {
		if o.Verdict != "ok" || perRule[o.Rule] < 3 {
			samples = append(samples, o)
			perRule[o.Rule]++
		}
	}
	distinct := map[string]bool{}
	for _, o := range res.Obs {
		distinct[o.Rule+"|"+o.Construct] = true
	}
	cov := map[string]any{
		"explanation": "Static analysis of the current source of the repository (go/packages type-checked syntax + go/ssa form of both packages; nothing executed). " +
			p.Explanation + "  NOT DECIDED by this check: " + p.NotDecided,
		"obligations":         len(res.Obs),
		"discharged":          res.count("ok"),
		"known_findings":      res.count("known"),
		"evaluations":         len(res.Obs),
		"distinct_nontrivial": len(distinct),
		"rule":                "one obligation per (rule, construct) instance found in the analysed program; an instance is distinct by its rule id and construct key (function + role), all are non-trivial (each names code that carries the property)",
		"rules":               rules,
		"samples":             samples,
		"functions_analysed":  len(c.Funcs),
		"packages":            c.pkgPaths(),
		"files":               c.nFiles,
		"paths_explored":      res.Paths,
		"build_config":        c.Config,
		"checker_cmd":         "bin/desynclint -property " + p.ID + " -tier " + c.Tier,
		"exhaustive":          false,
	}
	if st != nil {
		cov["selftest"] = st
	}
	if res.Configs != nil {
		cov["build_configs"] = res.Configs
	}
	ev := map[string]any{
		"property_id": p.ID,
		"tier":        c.Tier,
		"seed":        res.Seed,
		"level":       "other",
		"coverage":    cov,
		"assumptions": []string{
			"go/packages + go/types + go/ssa (golang.org/x/tools v0.29.0) represent the program the Go compiler builds for the analysed configuration",
			"only structural necessary conditions are decided; value-level behaviour is listed under NOT DECIDED",
			"path exploration is bounded (each block at most 2-4 times per path); reflection and cgo bodies are opaque",
		},
		"wall_s":     res.WallS,
		"violations": res.count("violation"),
	}
	b, err := json.MarshalIndent(ev, "", " ")
	if err != nil {
		return err
	}
	dir := filepath.Join(verif, "evidence")
	os.MkdirAll(dir, 0o755)
	return os.WriteFile(filepath.Join(dir, p.ID+".json"), append(b, '\n'), 0o644)
}

// ---------------------------------------------------------------------------------------
// reporting helpers used by the rules

func (c *Ctx) pos(p token.Pos) string {
	if !p.IsValid() {
		return "-"
	}
	pp := c.Fset.Position(p)
	rel, err := filepath.Rel(c.Repo, pp.Filename)
	if err != nil {
		rel = pp.Filename
	}
	return fmt.Sprintf("%s:%d", rel, pp.Line)
}

func (c *Ctx) ok(construct string, p token.Pos, detail string, a ...any) {
	c.obs = append(c.obs, Obligation{c.curRule, construct, c.pos(p), "ok", fmt.Sprintf(detail, a...)})
}

func (c *Ctx) bad(construct string, p token.Pos, detail string, a ...any) {
	c.obs = append(c.obs, Obligation{c.curRule, construct, c.pos(p), "violation", fmt.Sprintf(detail, a...)})
}

func (c *Ctx) info(construct string, p token.Pos, detail string, a ...any) {
	c.obs = append(c.obs, Obligation{c.curRule, construct, c.pos(p), "info", fmt.Sprintf(detail, a...)})
}

// verdict records ok when cond holds and a violation otherwise.
func (c *Ctx) verdict(cond bool, construct string, p token.Pos, okDetail, badDetail string) {
	if cond {
		c.ok(construct, p, "%s", okDetail)
	} else {
		c.bad(construct, p, "%s", badDetail)
	}
}
