package main

// index-in-range for the planning code: every slice access by a computed index in the seed
// matching and planning functions lies behind comparisons that bound the index by the length of
// *that* slice.  The matching loops walk two chunk lists at once (the target's and the seed's);
// a bound taken from the neighbouring list keeps every check in place and panics only when one
// list ends before the other (a target that is a prefix of a seed, a zero tail).

import (
	"fmt"
	"go/types"
	"strings"

	"golang.org/x/tools/go/ssa"
)

func (c *Ctx) indexInRange(files map[string]bool, skip map[string]string) {
	n := 0
	for _, f := range c.libFuncs() {
		file := c.Fset.Position(f.Pos()).Filename
		if !files[file[strings.LastIndex(file, "/")+1:]] {
			continue
		}
		instrs(f, func(_ *ssa.BasicBlock, _ int, ins ssa.Instruction) {
			v, ok := ins.(*ssa.IndexAddr)
			if !ok {
				return
			}
			if _, isSlice := v.X.Type().Underlying().(*types.Slice); !isSlice {
				return
			}
			if k, isK := v.Index.(*ssa.Const); isK && k.Value != nil {
				return
			}
			n++
			key := fmt.Sprintf("%s:index-in-range", fnKey(f))
			if why, ok := skip[fnKey(f)]; ok {
				c.info(key, ins.Pos(), "not judged: %s", why)
				return
			}
			d := linearB(v.Index, 0).add(linform{atoms: map[string]int{"len(" + batom(v.X, 0) + ")": 1}, ok: true}, -1)
			ub, found := provenUpperForm(ins, d)
			for a := range d.atoms {
				if strings.HasPrefix(a, "?") {
					found = false
				}
			}
			c.verdict(found && ub <= -1, key, ins.Pos(), "index < len of the indexed slice established by the dominating comparisons",
				fmt.Sprintf("no dominating comparison establishes index < len for the slice that is indexed (form %s): a bound taken from another slice or none at all panics with 'index out of range' when the lists differ in length", d))
		})
	}
}
