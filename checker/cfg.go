package main

// E-DOM helpers: cut-set reachability, condition shapes and value origins.

import (
	"fmt"
	"go/constant"
	"go/token"
	"go/types"
	"math"
	"sort"
	"strings"

	"golang.org/x/tools/go/ssa"
)

type edge struct{ from, to *ssa.BasicBlock }

// reachable returns the blocks reachable from the entry of fn when the given edges are removed.
func reachable(fn *ssa.Function, removed map[edge]bool) map[*ssa.BasicBlock]bool {
	return reachableFrom(fn.Blocks[0], removed)
}

func reachableFrom(start *ssa.BasicBlock, removed map[edge]bool) map[*ssa.BasicBlock]bool {
	seen := map[*ssa.BasicBlock]bool{start: true}
	work := []*ssa.BasicBlock{start}
	for len(work) > 0 {
		b := work[len(work)-1]
		work = work[:len(work)-1]
		for _, s := range b.Succs {
			if removed[edge{b, s}] || seen[s] {
				continue
			}
			seen[s] = true
			work = append(work, s)
		}
	}
	return seen
}

// acceptFn classifies an If: which of its two out-edges are "accepting" (the guard holds there).
type acceptFn func(iff *ssa.If) (onTrue, onFalse bool)

// acceptingEdges collects the accepting edges of fn.
func acceptingEdges(fn *ssa.Function, acc acceptFn) map[edge]bool {
	out := map[edge]bool{}
	for _, b := range fn.Blocks {
		if len(b.Instrs) == 0 {
			continue
		}
		iff, ok := b.Instrs[len(b.Instrs)-1].(*ssa.If)
		if !ok {
			continue
		}
		t, f := acc(iff)
		if t && f {
			continue // a condition that accepts on both sides guards nothing
		}
		if t {
			out[edge{b, b.Succs[0]}] = true
		}
		if f {
			out[edge{b, b.Succs[1]}] = true
		}
	}
	return out
}

// guarded reports whether instruction target can only be reached through an accepting edge
// (cut-set formulation: remove the accepting edges, the target's block must become
// unreachable from the entry).  n is the number of accepting edges found.
//
// New helper functions are looked through in both directions: a target that lies inside a helper
// is guarded if it is guarded inside the helper or if every call of the helper is guarded; and a
// branch on the boolean result of a helper is accepting when the helper can return that truth
// value only through accepting edges of its own (a predicate wrapper such as "authorized()").
func guarded(fn *ssa.Function, target ssa.Instruction, acc acceptFn) (ok bool, n int) {
	return guardedDepth(fn, target, acc, 0)
}

func guardedDepth(fn *ssa.Function, target ssa.Instruction, acc acceptFn, depth int) (bool, int) {
	owner := target.Parent()
	edges := acceptingEdgesDeep(owner, acc, depth)
	if len(edges) > 0 {
		if r := reachable(owner, edges); !r[target.Block()] {
			return true, len(edges)
		}
	}
	if owner != fn && newHelpers[owner] && depth < 4 && len(helperSites[owner]) > 0 {
		total := 0
		for _, cs := range helperSites[owner] {
			ok, n := guardedDepth(fn, cs, acc, depth+1)
			if !ok {
				return false, n
			}
			total += n
		}
		return true, total
	}
	return false, len(edges)
}

// acceptingEdgesDeep: the accepting edges of fn plus the edges of branches on the result of a
// predicate wrapper - a function of the analysed packages whose boolean (or error) result takes
// the value true (nil) only through accepting edges inside the wrapper.  Known wrappers such as
// validateWritable() and new helpers such as an extracted authorized() are treated alike, so a
// guard may be written inline or behind a wrapper.
func acceptingEdgesDeep(fn *ssa.Function, acc acceptFn, depth int) map[edge]bool {
	out := acceptingEdges(fn, acc)
	if depth > 3 {
		return out
	}
	for _, b := range fn.Blocks {
		iff := lastIf(b)
		if iff == nil {
			continue
		}
		// a flag: a boolean built from accepting comparisons elsewhere ("done := i >= n; for !done
		// { .., done = next() }" with next returning the comparison)
		if t, f := acc(iff); !t && !f {
			if _, isCmp := stripNot(iff.Cond).(*ssa.BinOp); !isCmp {
				onT, onF := flagAccepts(iff.Cond, acc, map[ssa.Value]bool{}, 0)
				if onT && !onF {
					out[edge{b, b.Succs[0]}] = true
				} else if onF && !onT {
					out[edge{b, b.Succs[1]}] = true
				}
			}
		}
		// the condition as "call result is GOOD" (true / nil) with a polarity
		cond, goodOnTrue := iff.Cond, true
		for {
			if u, ok := cond.(*ssa.UnOp); ok && u.Op == token.NOT {
				cond, goodOnTrue = u.X, !goodOnTrue
				continue
			}
			break
		}
		var resv ssa.Value = cond
		if bo, ok := cond.(*ssa.BinOp); ok && (bo.Op == token.EQL || bo.Op == token.NEQ) && (isNilConst(bo.X) || isNilConst(bo.Y)) {
			resv = bo.X
			if isNilConst(bo.X) {
				resv = bo.Y
			}
			if bo.Op == token.NEQ { // err != nil : true means BAD
				goodOnTrue = !goodOnTrue
			}
		}
		// the value itself (not looked through): a call result, possibly via a single-assignment local
		call, idx := callOf(resv)
		if call == nil {
			if u, ok := resv.(*ssa.UnOp); ok && u.Op == token.MUL {
				if al, ok := u.X.(*ssa.Alloc); ok {
					if sts := storesTo(al); len(sts) == 1 {
						call, idx = callOf(sts[0].Val)
					}
				}
			}
		}
		if call == nil {
			continue
		}
		h := directCallee(call)
		if h == nil || h.Blocks == nil || h == fn || topOf(h).Pkg == nil || !(strings.HasPrefix(topOf(h).Pkg.Pkg.Path(), libPath)) {
			continue
		}
		inner := acceptingEdgesDeep(h, acc, depth+1)
		reach := reachable(h, inner)
		goodGuarded := true // GOOD (true / nil) is returned only behind accepting edges
		sawGood := false
		for _, hb := range h.Blocks {
			ret, ok := hb.Instrs[len(hb.Instrs)-1].(*ssa.Return)
			if !ok || idx >= len(ret.Results) {
				continue
			}
			v := unspill(ret, ret.Results[idx])
			good, known := false, false
			if k, ok := v.(*ssa.Const); ok {
				known = true
				good = k.Value == nil || k.Value.ExactString() == "true"
				if k.Value != nil && k.Value.ExactString() != "true" && k.Value.ExactString() != "false" {
					known = false
				}
			} else if isErrorType(v.Type()) {
				// a constructed error is non-nil
				if _, isMk := v.(*ssa.MakeInterface); isMk {
					known, good = true, false
				} else if constructedNonNil(v, hb, 0) {
					known, good = true, false
				} else if nonNilAt(v, hb) {
					known, good = true, false // "if err != nil { return nil, err }"
				}
			}
			if !known && isBool(v.Type()) {
				// "return id, err == nil": the returned truth value is itself the accepting comparison
				if onTrue, onFalse := accOnValue(acc, v); onTrue && !onFalse {
					sawGood = true
					continue
				}
			}
			if good || (!known && !reach[hb]) {
				// (a value computed behind the accepting edges may be GOOD: "return store, ok")
				sawGood = true
			}
			if reach[hb] && (good || !known) {
				goodGuarded = false
			}
		}
		if !goodGuarded || !sawGood {
			continue
		}
		if goodOnTrue {
			out[edge{b, b.Succs[0]}] = true
		} else {
			out[edge{b, b.Succs[1]}] = true
		}
	}
	return out
}

// constructedNonNil: v is an error value that cannot be nil here: made by errors.New / fmt.Errorf /
// pkg/errors.New|Errorf, a concrete value put into the interface, or pkg/errors.Wrap* / WithStack /
// WithMessage* of such a value or of one that block b lies behind the non-nil test of.  (Wrap of
// nil is nil: "return errors.Wrap(err, msg)" with an err that was never tested proves nothing.)
func constructedNonNil(v ssa.Value, b *ssa.BasicBlock, depth int) bool {
	if depth > 4 {
		return false
	}
	if _, isMk := v.(*ssa.MakeInterface); isMk {
		return true
	}
	c3, _ := callOf(v)
	if c3 == nil {
		return nonNilAt(v, b)
	}
	switch name := callee(c3); {
	case name == "errors.New" || name == "fmt.Errorf" || name == "github.com/pkg/errors.New" || name == "github.com/pkg/errors.Errorf":
		return true
	case strings.HasPrefix(name, "github.com/pkg/errors.Wrap") || strings.HasPrefix(name, "github.com/pkg/errors.WithMessage") || name == "github.com/pkg/errors.WithStack":
		if len(c3.Call.Args) == 0 {
			return false
		}
		return constructedNonNil(c3.Call.Args[0], b, depth+1)
	}
	return nonNilAt(v, b) // the error result of some other call, returned behind its non-nil test
}

// cmp describes a comparison condition with NOT stripped: op applied to x,y; neg tells that the
// condition is the negation.
type cmp struct {
	op   token.Token
	x, y ssa.Value
}

// cmpOf returns the comparison behind cond, with truth = which If edge means "op holds".
func cmpOf(cond ssa.Value) (c cmp, truth bool, ok bool) {
	truth = true
	for {
		switch x := cond.(type) {
		case *ssa.UnOp:
			if x.Op == token.NOT {
				truth = !truth
				cond = x.X
				continue
			}
			return c, truth, false
		case *ssa.BinOp:
			switch x.Op {
			case token.EQL, token.NEQ, token.LSS, token.LEQ, token.GTR, token.GEQ:
				return normHugeConst(cmp{x.Op, x.X, x.Y}), truth, true
			}
			return c, truth, false
		case *ssa.Call, *ssa.Extract:
			// the comparison computed by a new helper and handed back as (one of) its results:
			// "start, end, hasBlock := alignedRange(...)" with a single "return s, e, s < e"
			idx := 0
			call, _ := x.(*ssa.Call)
			if ex, isEx := x.(*ssa.Extract); isEx {
				call, _ = ex.Tuple.(*ssa.Call)
				idx = ex.Index
			}
			if call == nil {
				return c, truth, false
			}
			h := call.Call.StaticCallee()
			if h == nil || !newHelpers[h] || len(h.Blocks) == 0 {
				return c, truth, false
			}
			rets := returnsOf(h)
			if len(rets) != 1 || idx >= len(rets[0].Results) {
				return c, truth, false
			}
			inner, t2, ok2 := cmpOf(rets[0].Results[idx])
			if !ok2 {
				return c, truth, false
			}
			return inner, truth == t2, true
		default:
			return c, truth, false
		}
	}
}

// normHugeConst rewrites a comparison with the constant 2^63 (one above what the int64 arithmetic
// of the linear forms holds) into the equivalent one with MaxInt64: x >= 1<<63 is x > MaxInt64,
// x < 1<<63 is x <= MaxInt64, and the same with the operands swapped.
func normHugeConst(c cmp) cmp {
	is63 := func(v ssa.Value) bool {
		k, ok := v.(*ssa.Const)
		return ok && k.Value != nil && k.Value.Kind() == constant.Int && k.Value.ExactString() == "9223372036854775808"
	}
	maxInt := func(like ssa.Value) ssa.Value {
		return ssa.NewConst(constant.MakeInt64(math.MaxInt64), like.Type())
	}
	switch {
	case is63(c.y) && c.op == token.GEQ:
		return cmp{token.GTR, c.x, maxInt(c.y)}
	case is63(c.y) && c.op == token.LSS:
		return cmp{token.LEQ, c.x, maxInt(c.y)}
	case is63(c.x) && c.op == token.LEQ:
		return cmp{token.LSS, maxInt(c.x), c.y}
	case is63(c.x) && c.op == token.GTR:
		return cmp{token.GEQ, maxInt(c.x), c.y}
	}
	return c
}

// mirrorOp is the operator of the comparison with its operands swapped; negOp the one of
// its negation.
func mirrorOp(op token.Token) token.Token {
	switch op {
	case token.LSS:
		return token.GTR
	case token.GTR:
		return token.LSS
	case token.LEQ:
		return token.GEQ
	case token.GEQ:
		return token.LEQ
	}
	return op
}

func negOp(op token.Token) token.Token {
	switch op {
	case token.LSS:
		return token.GEQ
	case token.GTR:
		return token.LEQ
	case token.LEQ:
		return token.GTR
	case token.GEQ:
		return token.LSS
	case token.EQL:
		return token.NEQ
	case token.NEQ:
		return token.EQL
	}
	return op
}

func relImplies(have, want token.Token) bool {
	if have == want {
		return true
	}
	switch want {
	case token.LEQ:
		return have == token.LSS || have == token.EQL
	case token.GEQ:
		return have == token.GTR || have == token.EQL
	case token.NEQ:
		return have == token.LSS || have == token.GTR
	}
	return false
}

// relAcc accepts the edges of an If on which "a op b" is known to hold, whatever the
// operand order and polarity the comparison is written in (a > b, b < a, !(a <= b) ...).
func relAcc(op token.Token, isA, isB func(ssa.Value) bool) acceptFn {
	return func(iff *ssa.If) (bool, bool) {
		cm, truth, ok := cmpOf(iff.Cond)
		if !ok {
			return false, false
		}
		o := cm.op
		switch {
		case isA(cm.x) && isB(cm.y):
		case isA(cm.y) && isB(cm.x):
			o = mirrorOp(o)
		default:
			return false, false
		}
		// on the "truth" edge a o b holds, on the other a negOp(o) b
		relT, relF := o, negOp(o)
		if !truth {
			relT, relF = relF, relT
		}
		return relImplies(relT, op), relImplies(relF, op)
	}
}

// vsite is one contribution to a value together with the place it enters from: the block p that
// stores/returns it, or the edge p->s that carries it into a phi.
type vsite struct {
	v    ssa.Value
	p, s *ssa.BasicBlock
}

// valueSites decomposes v, used at block p, into its contributions through phis and through
// the results of new helper functions.
func valueSites(v ssa.Value, p, s *ssa.BasicBlock, depth int) []vsite {
	if depth > 6 {
		return []vsite{{v, p, s}}
	}
	switch x := v.(type) {
	case *ssa.Phi:
		var out []vsite
		for i, e := range x.Edges {
			if e == v {
				continue
			}
			out = append(out, valueSites(e, x.Block().Preds[i], x.Block(), depth+1)...)
		}
		return out
	case *ssa.Call, *ssa.Extract:
		idx := 0
		call, _ := x.(*ssa.Call)
		if ex, isEx := x.(*ssa.Extract); isEx {
			call, _ = ex.Tuple.(*ssa.Call)
			idx = ex.Index
		}
		if call == nil {
			break
		}
		h := call.Call.StaticCallee()
		if h == nil || !newHelpers[h] || len(h.Blocks) == 0 {
			break
		}
		var out []vsite
		for _, r := range returnsOf(h) {
			if idx < len(r.Results) {
				out = append(out, valueSites(unspill(r, r.Results[idx]), r.Block(), nil, depth+1)...)
			}
		}
		return out
	}
	return []vsite{{v, p, s}}
}

// siteGuarded: the contribution can only be made behind an accepting edge.
func siteGuarded(vs vsite, acc acceptFn) bool {
	fn := vs.p.Parent()
	edges := acceptingEdgesDeep(fn, acc, 0)
	if vs.s != nil && edges[edge{vs.p, vs.s}] {
		return true
	}
	return len(edges) > 0 && !reachable(fn, edges)[vs.p]
}

// equalEdge tells, for an If on an (in)equality of two values satisfying px/py (in either
// order), which edge is the "equal" edge.  ok is false if the condition has another shape.
func equalEdge(iff *ssa.If, px, py func(ssa.Value) bool) (eqOnTrue bool, ok bool) {
	c, truth, isCmp := cmpOf(iff.Cond)
	if !isCmp || (c.op != token.EQL && c.op != token.NEQ) {
		return false, false
	}
	if !(px(c.x) && py(c.y)) && !(px(c.y) && py(c.x)) {
		return false, false
	}
	eq := c.op == token.EQL
	return eq == truth, true
}

// ---------------------------------------------------------------------------------------
// value origins

// origins returns descriptors of where a value comes from, looking through phis, conversions,
// slices, interface wrapping, tuple extraction and loads of local cells (flow-insensitive:
// every store to the cell in the function and its closures counts).
//
//	call:<callee>#<i>   result i of a call            field:<Type.f>      load of a struct field
//	param:<name>        parameter                     const:<v>           constant
//	len:<...>           len() of something            global:<name>       package-level variable
//	free:<name>         captured variable that is never stored in view
func origins(v ssa.Value) []string {
	set := map[string]bool{}
	originsInto(v, set, map[ssa.Value]bool{}, 0)
	var out []string
	for k := range set {
		out = append(out, k)
	}
	sort.Strings(out)
	return out
}

func originsInto(v ssa.Value, set map[string]bool, seen map[ssa.Value]bool, depth int) {
	if v == nil || seen[v] || depth > 12 {
		return
	}
	seen[v] = true
	switch x := v.(type) {
	case *ssa.Phi:
		for _, e := range x.Edges {
			originsInto(e, set, seen, depth+1)
		}
	case *ssa.ChangeType:
		originsInto(x.X, set, seen, depth+1)
	case *ssa.Convert:
		originsInto(x.X, set, seen, depth+1)
	case *ssa.ChangeInterface:
		originsInto(x.X, set, seen, depth+1)
	case *ssa.MakeInterface:
		originsInto(x.X, set, seen, depth+1)
	case *ssa.Slice:
		if x.Low != nil || x.High != nil {
			set["subslice"] = true
		}
		originsInto(x.X, set, seen, depth+1)
	case *ssa.SliceToArrayPointer:
		originsInto(x.X, set, seen, depth+1)
	case *ssa.Extract:
		if c, ok := x.Tuple.(*ssa.Call); ok {
			if rs := helperResults(c, x.Index); rs != nil {
				for _, r := range rs {
					originsInto(r, set, seen, depth+1)
				}
				return
			}
			set[fmt.Sprintf("call:%s#%d", callee(c), x.Index)] = true
			return
		}
		if ta, ok := x.Tuple.(*ssa.TypeAssert); ok && x.Index == 0 {
			originsInto(ta.X, set, seen, depth+1)
			return
		}
		if u, ok := x.Tuple.(*ssa.UnOp); ok && u.Op == token.ARROW && x.Index == 0 {
			for _, o := range origins(u.X) {
				set["recv:"+o] = true
			}
			return
		}
		set["tuple:"+x.Tuple.Name()] = true
	case *ssa.TypeAssert:
		originsInto(x.X, set, seen, depth+1)
	case *ssa.Call:
		name := callee(x)
		if name == "builtin:len" {
			for _, o := range origins(x.Call.Args[0]) {
				set["len:"+o] = true
			}
			return
		}
		if rs := helperResults(x, 0); rs != nil {
			for _, r := range rs {
				originsInto(r, set, seen, depth+1)
			}
			return
		}
		set[fmt.Sprintf("call:%s#0", name)] = true
	case *ssa.Parameter:
		if as := boundArgs(x); as != nil {
			for _, a := range as {
				originsInto(a, set, seen, depth+1)
			}
			return
		}
		set["param:"+x.Name()] = true
	case *ssa.Const:
		if x.Value == nil {
			set["const:nil"] = true
		} else {
			set["const:"+x.Value.ExactString()] = true
		}
	case *ssa.Global:
		set["global:"+x.Name()] = true
	case *ssa.Field:
		set["field:"+fieldOf(x)] = true
	case *ssa.FieldAddr:
		set["fieldaddr:"+fieldOf(x)] = true
	case *ssa.UnOp:
		switch x.Op {
		case token.MUL:
			switch a := x.X.(type) {
			case *ssa.FieldAddr:
				set["field:"+fieldOf(a)] = true
			case *ssa.Global:
				set["global:"+a.Name()] = true
			case *ssa.Alloc:
				for _, s := range storesTo(a) {
					originsInto(s.Val, set, seen, depth+1)
				}
			case *ssa.FreeVar:
				cells := captured(a)
				if len(cells) == 0 {
					set["free:"+a.Name()] = true
				}
				for _, cell := range cells {
					if al, ok := cell.(*ssa.Alloc); ok {
						for _, s := range storesTo(al) {
							originsInto(s.Val, set, seen, depth+1)
						}
					} else {
						originsInto(cell, set, seen, depth+1)
					}
				}
			case *ssa.IndexAddr:
				for _, o := range origins(a.X) {
					set["elem:"+o] = true
				}
			default:
				set["load:"+x.X.Name()] = true
			}
		case token.ARROW:
			for _, o := range origins(x.X) {
				set["recv:"+o] = true
			}
		default:
			set["unop:"+x.Op.String()] = true
		}
	case *ssa.BinOp:
		set["binop:"+x.Op.String()] = true
	case *ssa.Alloc:
		set["alloc:"+x.Name()] = true
	case *ssa.FreeVar:
		for _, cell := range captured(x) {
			originsInto(cell, set, seen, depth+1)
		}
	case *ssa.MakeSlice:
		set["makeslice"] = true
	case *ssa.Lookup:
		for _, o := range origins(x.X) {
			set["lookup:"+o] = true
		}
	case *ssa.Index:
		for _, o := range origins(x.X) {
			set["elem:"+o] = true
		}
	case *ssa.Next:
		set["next"] = true
	case *ssa.Function:
		set["func:"+fnKey(x)] = true
	case *ssa.MakeClosure:
		if f, ok := x.Fn.(*ssa.Function); ok {
			set["func:"+fnKey(f)] = true
		}
	default:
		set[fmt.Sprintf("other:%T", v)] = true
	}
}

// storesTo returns the stores to a local cell, in the declaring function and in every
// closure that captures the cell.
func storesTo(a *ssa.Alloc) []*ssa.Store {
	var out []*ssa.Store
	var visit func(v ssa.Value, depth int)
	visit = func(v ssa.Value, depth int) {
		if depth > 4 || v.Referrers() == nil {
			return
		}
		for _, r := range *v.Referrers() {
			switch r := r.(type) {
			case *ssa.Store:
				if r.Addr == v {
					out = append(out, r)
				}
			case *ssa.MakeClosure:
				fn := r.Fn.(*ssa.Function)
				for k, b := range r.Bindings {
					if b == v && k < len(fn.FreeVars) {
						visit(fn.FreeVars[k], depth+1)
					}
				}
			case ssa.CallInstruction:
				// the address handed to a function of the same package (go fill(&err), helper(&n)):
				// what that function stores through the parameter
				cal := r.Common().StaticCallee()
				if cal == nil || cal.Pkg != a.Parent().Pkg || len(cal.Blocks) == 0 || r.Common().IsInvoke() {
					continue
				}
				for k, arg := range r.Common().Args {
					if arg == v && k < len(cal.Params) {
						visit(cal.Params[k], depth+1)
					}
				}
			}
		}
	}
	visit(a, 0)
	return out
}

// captured returns the values bound to free variable fv at the MakeClosure sites of its function.
func captured(fv *ssa.FreeVar) []ssa.Value {
	fn := fv.Parent()
	idx := -1
	for i, x := range fn.FreeVars {
		if x == fv {
			idx = i
		}
	}
	if idx < 0 || fn.Parent() == nil {
		return nil
	}
	var out []ssa.Value
	var scan func(f *ssa.Function)
	scan = func(f *ssa.Function) {
		instrs(f, func(_ *ssa.BasicBlock, _ int, ins ssa.Instruction) {
			if mc, ok := ins.(*ssa.MakeClosure); ok && mc.Fn == fn && idx < len(mc.Bindings) {
				out = append(out, mc.Bindings[idx])
			}
		})
	}
	scan(fn.Parent())
	return out
}

func hasOrigin(v ssa.Value, pred func(string) bool) bool {
	for _, o := range origins(v) {
		if pred(o) {
			return true
		}
	}
	return false
}

func onlyOrigins(v ssa.Value, pred func(string) bool) bool {
	os := origins(v)
	if len(os) == 0 {
		return false
	}
	for _, o := range os {
		if !pred(o) {
			return false
		}
	}
	return true
}

func originHas(sub string) func(ssa.Value) bool {
	return func(v ssa.Value) bool {
		return hasOrigin(v, func(o string) bool { return strings.Contains(o, sub) })
	}
}

func anyValue(ssa.Value) bool { return true }

// isBool reports whether t is a boolean type.
func isBool(t types.Type) bool {
	b, ok := t.Underlying().(*types.Basic)
	return ok && b.Info()&types.IsBoolean != 0
}

// lastIf returns the If terminating block b, or nil.
func lastIf(b *ssa.BasicBlock) *ssa.If {
	if len(b.Instrs) == 0 {
		return nil
	}
	iff, _ := b.Instrs[len(b.Instrs)-1].(*ssa.If)
	return iff
}

// returnsOf lists the Return instructions of fn.
// returnsDeep lists the returns of fn, replacing a return that only forwards the results of a
// new helper ("return d.readTail(hdr, n, 1)") by the returns of that helper.
func returnsDeep(fn *ssa.Function, depth int) []*ssa.Return {
	var out []*ssa.Return
	for _, r := range returnsOf(fn) {
		var call *ssa.Call
		forwards := len(r.Results) > 0
		for i, res := range r.Results {
			var cl *ssa.Call
			switch x := res.(type) {
			case *ssa.Extract:
				if x.Index == i {
					cl, _ = x.Tuple.(*ssa.Call)
				}
			case *ssa.Call:
				if len(r.Results) == 1 {
					cl = x
				}
			}
			if cl == nil || (call != nil && cl != call) {
				forwards = false
				break
			}
			call = cl
		}
		if forwards && call != nil && depth < 4 {
			if h := directCallee(call); h != nil && newHelpers[h] && h.Blocks != nil {
				out = append(out, returnsDeep(h, depth+1)...)
				continue
			}
		}
		out = append(out, r)
	}
	return out
}

func returnsOf(fn *ssa.Function) []*ssa.Return {
	var out []*ssa.Return
	for _, b := range fn.Blocks {
		if len(b.Instrs) > 0 {
			if r, ok := b.Instrs[len(b.Instrs)-1].(*ssa.Return); ok {
				out = append(out, r)
			}
		}
	}
	return out
}

// ---------------------------------------------------------------------------------------
// loops

// loopOverLen finds the header of a loop whose condition compares an index with len(x) where
// x satisfies pred (for-range over a slice, or an explicit i < len(x) loop).  It returns the
// header block, the block entered for an iteration (body) and the len value.
func loopOverLen(fn *ssa.Function, pred func(sliceOrigins []string) bool) (header, body *ssa.BasicBlock, lenv ssa.Value) {
	// the loop may have been moved into a new helper function
	for _, f := range fnsDeep(fn) {
		if h, b, l := loopOverLenIn(f, pred); h != nil {
			return h, b, l
		}
	}
	return nil, nil, nil
}

// loopCountdownFromLen: the mirror image of loopOverLen - a loop "for r := len(x); r > 0; r--":
// the counter starts at len(x), the loop continues while it is positive and every iteration takes
// one off, so the body runs at most len(x) times.
func loopCountdownFromLen(fn *ssa.Function, pred func(sliceOrigins []string) bool) (header *ssa.BasicBlock) {
	for _, f := range fnsDeep(fn) {
		for _, b := range f.Blocks {
			iff := lastIf(b)
			if iff == nil {
				continue
			}
			p, ok := partitionOf(iff.Cond)
			if !ok || p.cmpv == nil {
				continue
			}
			// counter > 0 (any spelling): a single atom, lower part <= 0
			var phi *ssa.Phi
			for _, v := range []ssa.Value{p.cmpv.X, p.cmpv.Y} {
				if q, ok := stripConv(v).(*ssa.Phi); ok {
					phi = q
				}
			}
			if phi == nil || len(p.atoms) != 1 || p.t != 0 {
				continue
			}
			fromLen, dec := false, false
			for _, e := range phi.Edges {
				if call := lenCallOf(e); call != nil && pred(origins(call.Call.Args[0])) {
					fromLen = true
				} else if bo, ok := e.(*ssa.BinOp); ok && bo.Op == token.SUB && bo.X == ssa.Value(phi) {
					if k, ok := bo.Y.(*ssa.Const); ok && constInt64(k) == 1 {
						dec = true
					}
				}
			}
			if !fromLen || !dec {
				continue
			}
			// the positive side continues into the loop
			body := b.Succs[1]
			if (p.upper == p.truth) == true {
				body = b.Succs[0]
			}
			for a, n := range p.atoms {
				_ = a
				if n < 0 { // canonical sign flipped: the upper part of -counter is counter <= ...
					body = b.Succs[0]
					if (p.upper == p.truth) == true {
						body = b.Succs[1]
					}
				}
			}
			if reachableFrom(body, nil)[b] {
				return b
			}
		}
	}
	return nil
}

// fnsDeep: fn and the new helper functions it calls (transitively).
func fnsDeep(fn *ssa.Function) []*ssa.Function {
	out := []*ssa.Function{fn}
	if len(newHelpers) == 0 {
		return out
	}
	seen := map[*ssa.Function]bool{fn: true}
	for i := 0; i < len(out); i++ {
		for _, b := range out[i].Blocks {
			for _, ins := range b.Instrs {
				if ci, ok := ins.(ssa.CallInstruction); ok {
					if h := directCallee(ci); h != nil && newHelpers[h] && !seen[h] && h.Blocks != nil {
						seen[h] = true
						out = append(out, h)
					}
				}
			}
		}
	}
	return out
}

// lenCallOf finds the len() call behind a loop bound: the call itself, a conversion of it, or a
// local that was assigned from it once ("n := len(x)").
func lenCallOf(v ssa.Value) *ssa.Call {
	for d := 0; d < 6; d++ {
		switch x := v.(type) {
		case *ssa.Call:
			if callee(x) == "builtin:len" {
				return x
			}
			return nil
		case *ssa.Convert:
			v = x.X
		case *ssa.ChangeType:
			v = x.X
		case *ssa.UnOp:
			if x.Op != token.MUL {
				return nil
			}
			al, ok := x.X.(*ssa.Alloc)
			if !ok {
				return nil
			}
			sts := storesTo(al)
			if len(sts) != 1 {
				return nil
			}
			v = sts[0].Val
		default:
			return nil
		}
	}
	return nil
}

// loopOverLenIn: a loop of f whose header compares a counter with len(x) - written "i < len(x)",
// "len(x) > i", "!(i >= len(x))" or with the length hoisted into a local - and continues into
// the body exactly while counter < len(x).
func loopOverLenIn(fn *ssa.Function, pred func(sliceOrigins []string) bool) (header, body *ssa.BasicBlock, lenv ssa.Value) {
	for _, b := range fn.Blocks {
		iff := lastIf(b)
		if iff == nil {
			continue
		}
		cm, truth, ok := cmpOf(iff.Cond)
		if !ok {
			continue
		}
		call, counter := lenCallOf(cm.x), cm.y
		lenLeft := true
		if call == nil {
			call, counter, lenLeft = lenCallOf(cm.y), cm.x, false
		}
		if call == nil {
			continue
		}
		if _, isConst := stripConv(counter).(*ssa.Const); isConst {
			continue // len(x) compared with a constant is not a loop bound
		}
		// on which edge does "counter < len" hold?
		var ltOnOp bool // the operator holding means counter < len
		switch cm.op {
		case token.LSS: // x < y
			ltOnOp = !lenLeft // counter < len when len is on the right
		case token.GTR: // x > y
			ltOnOp = lenLeft
		case token.GEQ: // x >= y : counter >= len when len on the right -> negation is counter < len
			ltOnOp = false
			if lenLeft {
				continue // len >= counter: boundary differs (off by one), not a plain bound
			}
			truth = !truth
			ltOnOp = true
		case token.LEQ: // x <= y : len <= counter  <=>  !(counter < len)
			if !lenLeft {
				continue
			}
			truth = !truth
			ltOnOp = true
		default:
			continue
		}
		if !ltOnOp {
			continue
		}
		bodyBlk := b.Succs[1]
		if truth {
			bodyBlk = b.Succs[0]
		}
		if !pred(origins(call.Call.Args[0])) {
			continue
		}
		// must be a loop: the header is reachable from its body successor
		if !reachableFrom(bodyBlk, nil)[b] {
			continue
		}
		return b, bodyBlk, call
	}
	return nil, nil, nil
}

// bodyMustPass reports whether every path from the loop body entry back to the loop header
// passes one of the given edges (cut-set over the loop body).
func bodyMustPass(header, body *ssa.BasicBlock, edges map[edge]bool) bool {
	if body == header {
		return false
	}
	removed := map[edge]bool{}
	for e := range edges {
		removed[e] = true
	}
	return !reachableFrom(body, removed)[header]
}

// edgesWhere collects, over the blocks of fn, the out-edges selected by f for each If.
func edgesWhere(fn *ssa.Function, f acceptFn) map[edge]bool {
	out := map[edge]bool{}
	for _, g := range fnsDeep(fn) {
		for e := range acceptingEdges(g, f) {
			out[e] = true
		}
	}
	return out
}

func hasAll(os []string, want ...string) bool {
	for _, w := range want {
		found := false
		for _, o := range os {
			if o == w {
				found = true
			}
		}
		if !found {
			return false
		}
	}
	return true
}

func contains(os []string, sub string) bool {
	for _, o := range os {
		if strings.Contains(o, sub) {
			return true
		}
	}
	return false
}

// stripSlices removes slicing/conversion wrappers to compare buffer identities.
func stripSlices(v ssa.Value) ssa.Value {
	for {
		switch x := v.(type) {
		case *ssa.Slice:
			v = x.X
		case *ssa.ChangeType:
			v = x.X
		case *ssa.Convert:
			v = x.X
		default:
			return v
		}
	}
}

// leaves returns the values a value can come from, looking through phis, conversions,
// tuple extraction, type assertions and loads of local cells (flow-insensitive).
func leaves(v ssa.Value) []ssa.Value {
	var out []ssa.Value
	seen := map[ssa.Value]bool{}
	var walk func(v ssa.Value, depth int)
	walk = func(v ssa.Value, depth int) {
		if v == nil || seen[v] || depth > 14 {
			return
		}
		seen[v] = true
		switch x := v.(type) {
		case *ssa.Phi:
			for _, e := range x.Edges {
				walk(e, depth+1)
			}
		case *ssa.ChangeType:
			walk(x.X, depth+1)
		case *ssa.Convert:
			walk(x.X, depth+1)
		case *ssa.ChangeInterface:
			walk(x.X, depth+1)
		case *ssa.MakeInterface:
			walk(x.X, depth+1)
		case *ssa.TypeAssert:
			walk(x.X, depth+1)
		case *ssa.Extract:
			switch t := x.Tuple.(type) {
			case *ssa.TypeAssert:
				walk(t.X, depth+1)
			case *ssa.Call:
				if rs := helperResults(t, x.Index); rs != nil {
					for _, r := range rs {
						walk(r, depth+1)
					}
				} else {
					out = append(out, v)
				}
			default:
				out = append(out, v)
			}
		case *ssa.Call:
			if rs := helperResults(x, 0); rs != nil {
				for _, r := range rs {
					walk(r, depth+1)
				}
			} else {
				out = append(out, v)
			}
		case *ssa.Parameter:
			if as := boundArgs(x); as != nil {
				for _, a := range as {
					walk(a, depth+1)
				}
			} else {
				out = append(out, v)
			}
		case *ssa.UnOp:
			if x.Op == token.MUL {
				switch a := x.X.(type) {
				case *ssa.Alloc:
					sts := storesTo(a)
					if len(sts) == 0 {
						out = append(out, v)
					}
					for _, s := range sts {
						walk(s.Val, depth+1)
					}
					return
				case *ssa.FreeVar:
					cells := captured(a)
					if len(cells) == 0 {
						out = append(out, v)
					}
					for _, cell := range cells {
						if al, ok := cell.(*ssa.Alloc); ok {
							for _, s := range storesTo(al) {
								walk(s.Val, depth+1)
							}
						} else {
							walk(cell, depth+1)
						}
					}
					return
				}
			}
			out = append(out, v)
		default:
			out = append(out, v)
		}
	}
	walk(v, 0)
	return out
}

// callOf returns the call behind a leaf (a call value or an extract of a call tuple) and the
// result index.
func callOf(v ssa.Value) (*ssa.Call, int) {
	switch x := v.(type) {
	case *ssa.Call:
		return x, 0
	case *ssa.Extract:
		if c, ok := x.Tuple.(*ssa.Call); ok {
			return c, x.Index
		}
	}
	return nil, 0
}

// isParam reports whether v is (a copy of) parameter p of its function: the parameter itself
// or a load of the cell the parameter was spilled to.
func isParam(v ssa.Value, p *ssa.Parameter) bool {
	for _, l := range leaves(v) {
		if l != ssa.Value(p) {
			return false
		}
	}
	return len(leaves(v)) > 0
}

// nonNilAt: block b lies behind the non-nil edge of a test of v against nil.
func nonNilAt(v ssa.Value, b *ssa.BasicBlock) bool {
	fn := b.Parent()
	for _, tb := range fn.Blocks {
		iff := lastIf(tb)
		if iff == nil {
			continue
		}
		cm, truth, ok := cmpOf(iff.Cond)
		if !ok || (cm.op != token.EQL && cm.op != token.NEQ) || !(isNilConst(cm.x) || isNilConst(cm.y)) {
			continue
		}
		subj := cm.x
		if isNilConst(cm.x) {
			subj = cm.y
		}
		if subj != v {
			continue
		}
		nn := tb.Succs[1]
		if (cm.op == token.NEQ) == truth {
			nn = tb.Succs[0]
		}
		if len(nn.Preds) == 1 && (nn == b || nn.Dominates(b)) {
			return true
		}
	}
	return false
}

// accOnValue applies an edge classifier to a boolean value as if it were the condition of a branch.
func accOnValue(acc acceptFn, v ssa.Value) (onTrue, onFalse bool) {
	defer func() {
		if recover() != nil {
			onTrue, onFalse = false, false
		}
	}()
	return acc(&ssa.If{Cond: v})
}

// flagAccepts: onTrue - whenever the boolean v is true the accepting condition was established
// where v was computed; onFalse likewise.  Constants hold vacuously for the value they never take.
// v is followed through negation, phis, single local cells and the results of analysed functions.
func flagAccepts(v ssa.Value, acc acceptFn, seen map[ssa.Value]bool, depth int) (onTrue, onFalse bool) {
	if depth > 6 {
		return false, false
	}
	if seen[v] {
		return true, true
	}
	seen[v] = true
	all := func(vals []ssa.Value) (bool, bool) {
		if len(vals) == 0 {
			return false, false
		}
		t, f := true, true
		for _, x := range vals {
			xt, xf := flagAccepts(x, acc, seen, depth+1)
			t, f = t && xt, f && xf
		}
		return t, f
	}
	switch x := v.(type) {
	case *ssa.Const:
		if x.Value == nil || !isBool(x.Type()) {
			return false, false
		}
		isTrue := x.Value.ExactString() == "true"
		return !isTrue, isTrue
	case *ssa.BinOp:
		return accOnValue(acc, x)
	case *ssa.UnOp:
		if x.Op == token.NOT {
			t, f := flagAccepts(x.X, acc, seen, depth)
			return f, t
		}
		if x.Op == token.MUL {
			if al, ok := x.X.(*ssa.Alloc); ok {
				var vals []ssa.Value
				for _, st := range storesTo(al) {
					vals = append(vals, st.Val)
				}
				return all(vals)
			}
		}
	case *ssa.Phi:
		return all(x.Edges)
	case *ssa.Extract, *ssa.Call:
		call, idx := callOf(v)
		if call == nil {
			return false, false
		}
		h := directCallee(call)
		if h == nil || h.Blocks == nil || topOf(h).Pkg == nil || !strings.HasPrefix(topOf(h).Pkg.Pkg.Path(), libPath) {
			return false, false
		}
		var vals []ssa.Value
		for _, hb := range h.Blocks {
			if ret, ok := hb.Instrs[len(hb.Instrs)-1].(*ssa.Return); ok && idx < len(ret.Results) {
				vals = append(vals, unspill(ret, ret.Results[idx]))
			}
		}
		return all(vals)
	}
	return false, false
}
