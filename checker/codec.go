package main

// E-TABLE: agreement of FormatEncoder.Encode and FormatDecoder.Next on the order of the fields
// each element type is made of, extracted from the SSA form of both functions.

import (
	"fmt"
	"go/token"
	"go/types"
	"sort"
	"strings"

	"golang.org/x/tools/go/ssa"
)

// fieldsIn returns the names of the fields of struct type typ (by short name) that value v is
// computed from (through conversions, calls, arithmetic).
// fieldsEnv: parameter -> argument bindings of the helper call the codec extraction is inside of.
var fieldsEnv map[ssa.Value]ssa.Value

func fieldsIn(v ssa.Value, typ string, seen map[ssa.Value]bool, depth int) []string {
	if v == nil || seen[v] || depth > 8 {
		return nil
	}
	seen[v] = true
	var out []string
	add := func(f string) {
		if strings.HasPrefix(f, typ+".") {
			out = append(out, strings.TrimPrefix(f, typ+"."))
		}
	}
	switch x := v.(type) {
	case *ssa.Parameter:
		// inside a new helper: the argument of the call being followed stands for the parameter
		if r, ok := fieldsEnv[x]; ok && r != v {
			out = append(out, fieldsIn(r, typ, seen, depth+1)...)
		}
	case *ssa.Field:
		add(fieldOf(x))
		out = append(out, fieldsIn(x.X, typ, seen, depth+1)...)
	case *ssa.UnOp:
		if fa, ok := x.X.(*ssa.FieldAddr); ok && x.Op == token.MUL {
			add(fieldOf(fa))
		} else {
			out = append(out, fieldsIn(x.X, typ, seen, depth+1)...)
		}
	case *ssa.Convert:
		out = append(out, fieldsIn(x.X, typ, seen, depth+1)...)
	case *ssa.ChangeType:
		out = append(out, fieldsIn(x.X, typ, seen, depth+1)...)
	case *ssa.MakeInterface:
		out = append(out, fieldsIn(x.X, typ, seen, depth+1)...)
	case *ssa.BinOp:
		out = append(out, fieldsIn(x.X, typ, seen, depth+1)...)
		out = append(out, fieldsIn(x.Y, typ, seen, depth+1)...)
	case *ssa.Call:
		for _, a := range x.Call.Args {
			out = append(out, fieldsIn(a, typ, seen, depth+1)...)
		}
		if x.Call.IsInvoke() {
			out = append(out, fieldsIn(x.Call.Value, typ, seen, depth+1)...)
		}
	case *ssa.Extract:
		out = append(out, fieldsIn(x.Tuple, typ, seen, depth+1)...)
	case *ssa.Phi:
		for _, e := range x.Edges {
			out = append(out, fieldsIn(e, typ, seen, depth+1)...)
		}
	}
	return out
}

// variadicElems returns the values stored into the backing array of a variadic argument, in index order.
func variadicElems(arg ssa.Value) []ssa.Value {
	sl, ok := arg.(*ssa.Slice)
	if !ok {
		return nil
	}
	al, ok := sl.X.(*ssa.Alloc)
	if !ok {
		return nil
	}
	vals := map[int64]ssa.Value{}
	for _, ref := range *al.Referrers() {
		if ia, ok := ref.(*ssa.IndexAddr); ok {
			idx, isK := ia.Index.(*ssa.Const)
			if !isK {
				continue
			}
			for _, r2 := range *ia.Referrers() {
				if st, ok := r2.(*ssa.Store); ok {
					vals[constInt64(idx)] = st.Val
				}
			}
		}
	}
	var out []ssa.Value
	for i := int64(0); i < int64(len(vals)); i++ {
		out = append(out, vals[i])
	}
	return out
}

// scatterReads recognises a helper that reads one word per destination pointer it is given
// ("readUint64s(&e.UID, &e.Permissions)": for _, v := range dst { n, err := read(); *v = n }):
// the fields read are those the call site lists, in that order.
func scatterReads(call *ssa.Call, h *ssa.Function) ([]string, bool) {
	for k, p := range h.Params {
		st, isSlice := p.Type().Underlying().(*types.Slice)
		if !isSlice || k >= len(call.Call.Args) {
			continue
		}
		if _, isPtr := st.Elem().Underlying().(*types.Pointer); !isPtr {
			continue
		}
		elems := variadicElems(call.Call.Args[k])
		if len(elems) == 0 {
			continue
		}
		var reads []*ssa.Call
		other := false
		instrs(h, func(_ *ssa.BasicBlock, _ int, ins ssa.Instruction) {
			rc, ok := ins.(*ssa.Call)
			if !ok {
				return
			}
			switch callee(rc) {
			case "(desync.reader).ReadUint64", "(desync.reader).ReadID":
				reads = append(reads, rc)
			case "(*desync.FormatDecoder).readString", "(*desync.FormatDecoder).readBytes", "io.LimitReader", "io.ReadFull", "(desync.reader).ReadN":
				other = true
			}
		})
		if len(reads) != 1 || other || !inLoop(reads[0].Block()) || constTrips(reads[0].Block()) > 0 {
			continue
		}
		rc := reads[0]
		// the word read is stored through the destination taken from the parameter
		scattered := false
		for _, r := range *rc.Referrers() {
			ex, ok := r.(*ssa.Extract)
			if !ok || ex.Index != 0 || ex.Referrers() == nil {
				continue
			}
			for _, r2 := range *ex.Referrers() {
				sto, ok := r2.(*ssa.Store)
				if !ok || sto.Val != ssa.Value(ex) {
					continue
				}
				if ld, ok := sto.Addr.(*ssa.UnOp); ok && ld.Op == token.MUL {
					if ia, ok := ld.X.(*ssa.IndexAddr); ok && ia.X == ssa.Value(p) {
						scattered = true
					}
				}
			}
		}
		if !scattered {
			continue
		}
		prefix := ""
		if callee(rc) == "(desync.reader).ReadID" {
			prefix = "id:"
		}
		var toks []string
		for _, e := range elems {
			tok := ""
			if fa, ok := e.(*ssa.FieldAddr); ok {
				f := fieldOf(fa)
				if i := strings.Index(f, "."); i >= 0 {
					tok = f[i+1:]
				}
			}
			toks = append(toks, prefix+tok)
		}
		return toks, true
	}
	return nil, false
}

// region returns the blocks dominated by block b.
func region(fn *ssa.Function, b *ssa.BasicBlock) map[*ssa.BasicBlock]bool {
	out := map[*ssa.BasicBlock]bool{}
	for _, x := range fn.Blocks {
		if b.Dominates(x) {
			out[x] = true
		}
	}
	return out
}

func inLoop(b *ssa.BasicBlock) bool {
	for _, s := range b.Succs {
		if s == b || reachableFrom(s, nil)[b] {
			return true
		}
	}
	return false
}

type codecTables struct {
	enc, dec map[string][]string
	encPos   map[string]token.Pos
	decPos   map[string]token.Pos
}

func (c *Ctx) codec() *codecTables {
	t := &codecTables{enc: map[string][]string{}, dec: map[string][]string{}, encPos: map[string]token.Pos{}, decPos: map[string]token.Pos{}}
	// ---- encoder: type switch cases
	if fn := c.fn("FormatEncoder.Encode"); fn != nil {
		for _, b := range fn.Blocks {
			iff := lastIf(b)
			if iff == nil {
				continue
			}
			ex, ok := iff.Cond.(*ssa.Extract)
			if !ok || ex.Index != 1 {
				continue
			}
			ta, ok := ex.Tuple.(*ssa.TypeAssert)
			if !ok {
				continue
			}
			typ := strings.TrimPrefix(typeName(ta.AssertedType), "desync.")
			if !strings.HasPrefix(typ, "Format") {
				continue
			}
			reg := region(fn, b.Succs[0])
			type rec struct {
				pos token.Pos
				sub token.Pos
				tok string
			}
			var recs []rec
			// collectEnc walks the blocks of one case; a call of a new helper ("encodeWithBody(hdr, body)")
			// is descended into with the helper's parameters replaced by this call's arguments
			var collectEnc func(blocks map[*ssa.BasicBlock]bool, outerLoop string, base token.Pos, env map[ssa.Value]ssa.Value, depth int)
			collectEnc = func(blocks map[*ssa.BasicBlock]bool, outerLoop string, base token.Pos, env map[ssa.Value]ssa.Value, depth int) {
				subst := func(v ssa.Value) ssa.Value {
					for k := 0; k < 4; k++ {
						if r, ok := env[v]; ok {
							v = r
							continue
						}
						break
					}
					return v
				}
				for rb := range blocks {
					loop := outerLoop
					if inLoop(rb) {
						loop = "loop:"
					}
					for _, ins := range rb.Instrs {
						call, ok := ins.(*ssa.Call)
						if !ok {
							continue
						}
						fieldsEnv = env
						pos := call.Pos()
						sub := call.Pos()
						if base.IsValid() {
							pos = base
						}
						if h := directCallee(call); h != nil && newHelpers[h] && h.Blocks != nil && depth < 3 {
							hb := map[*ssa.BasicBlock]bool{}
							for _, x := range h.Blocks {
								hb[x] = true
							}
							env2 := map[ssa.Value]ssa.Value{}
							for k, v := range env {
								env2[k] = v
							}
							for k, p := range h.Params {
								if k < len(call.Call.Args) {
									env2[p] = subst(call.Call.Args[k])
								}
							}
							collectEnc(hb, loop, pos, env2, depth+1)
							continue
						}
						switch callee(call) {
						case "(desync.writer).WriteUint64":
							for i, el := range variadicElems(call.Call.Args[len(call.Call.Args)-1]) {
								el = substDeep(el, subst)
								tok := "?"
								fs := fieldsIn(el, typ, map[ssa.Value]bool{}, 0)
								if len(fs) == 0 {
									fs = fieldsIn(el, "FormatHeader", map[ssa.Value]bool{}, 0)
								}
								if len(fs) == 0 {
									for _, it := range []string{"FormatGoodbyeItem", "FormatTableItem"} {
										if f2 := fieldsIn(el, it, map[ssa.Value]bool{}, 0); len(f2) > 0 {
											fs = f2
										}
									}
								}
								switch {
								case len(fs) > 0:
									tok = fs[len(fs)-1]
								default:
									if k, ok := el.(*ssa.Const); ok && k.Value != nil {
										tok = "const:" + k.Value.ExactString()
									} else {
										tok = "expr"
									}
								}
								recs = append(recs, rec{pos, sub + token.Pos(i), loop + tok})
							}
						case "(desync.writer).WriteID":
							fs := fieldsIn(substDeep(call.Call.Args[len(call.Call.Args)-1], subst), "FormatTableItem", map[ssa.Value]bool{}, 0)
							recs = append(recs, rec{pos, sub, loop + "id:" + strings.Join(fs, "")})
						case "io.Copy":
							src := substDeep(call.Call.Args[1], subst)
							fs := fieldsIn(src, typ, map[ssa.Value]bool{}, 0)
							kind := "stream"
							if hasOriginDeep(src, "strings.NewReader") {
								kind = "str"
							} else if hasOriginDeep(src, "bytes.NewReader") {
								kind = "bytes"
							}
							recs = append(recs, rec{pos, sub, loop + kind + ":" + strings.Join(fs, "")})
						}
					}
				}
			}
			collectEnc(reg, "", token.NoPos, map[ssa.Value]ssa.Value{}, 0)
			sort.SliceStable(recs, func(i, j int) bool {
				if recs[i].pos != recs[j].pos {
					return recs[i].pos < recs[j].pos
				}
				return recs[i].sub < recs[j].sub
			})
			var toks []string
			for _, r := range recs {
				toks = append(toks, r.tok)
			}
			t.enc[typ] = toks
			t.encPos[typ] = ta.Pos()
		}
	}
	// ---- decoder: switch on hdr.Type
	if fn := c.fn("FormatDecoder.Next"); fn != nil {
		consts := map[string]string{}
		sc := c.Lib.Types.Scope()
		for _, n := range sc.Names() {
			if k, ok := sc.Lookup(n).(*types.Const); ok && strings.HasPrefix(n, "CaFormat") {
				consts[k.Val().ExactString()] = strings.TrimPrefix(n, "Ca")
			}
		}
		for _, b := range fn.Blocks {
			iff := lastIf(b)
			if iff == nil {
				continue
			}
			cm, truth, ok := cmpOf(iff.Cond)
			if !ok || cm.op != token.EQL || !truth {
				continue
			}
			k, isK := cm.y.(*ssa.Const)
			if !isK || k.Value == nil || !strings.HasSuffix(locKey(cm.x), ".Type") {
				continue
			}
			typ, known := consts[k.Value.ExactString()]
			if !known {
				continue
			}
			reg := region(fn, b.Succs[0])
			type rec struct {
				pos token.Pos
				sub token.Pos
				tok string
			}
			var recs []rec
			// collect walks a set of blocks; a call of a new helper is descended into (its reads happen
			// at the call site: same loop context, ordered at the call's position); reads inside a loop
			// with a small constant trip count ("for skip := 0; skip < 2; skip++") are counted that
			// many times instead of being marked as a data-dependent loop.
			var collect func(blocks map[*ssa.BasicBlock]bool, outerLoop string, outerTimes int, base token.Pos, depth int)
			collect = func(blocks map[*ssa.BasicBlock]bool, outerLoop string, outerTimes int, base token.Pos, depth int) {
				for rb := range blocks {
					loop, times := outerLoop, outerTimes
					if inLoop(rb) {
						if k := constTrips(rb); k > 0 && k <= 8 {
							times *= k
						} else {
							loop = "loop:"
						}
					}
					for _, ins := range rb.Instrs {
						call, ok := ins.(*ssa.Call)
						if !ok {
							continue
						}
						pos := call.Pos()
						if base.IsValid() {
							pos = base // inside a helper: ordered where the helper is called
						}
						add := func(tok string) {
							for k := 0; k < times; k++ {
								recs = append(recs, rec{pos, call.Pos(), loop + tok})
							}
						}
						if h := call.Call.StaticCallee(); h != nil && newHelpers[h] && h.Blocks != nil && depth < 3 {
							if toks, isScatter := scatterReads(call, h); isScatter {
								for _, tk := range toks {
									add(tk)
								}
								continue
							}
							hb := map[*ssa.BasicBlock]bool{}
							for _, x := range h.Blocks {
								hb[x] = true
							}
							collect(hb, loop, times, pos, depth+1)
							continue
						}
						switch callee(call) {
						case "(desync.reader).ReadUint64":
							add(storedField(call, 0))
						case "(desync.reader).ReadID":
							add("id:" + storedField(call, 0))
						case "(*desync.FormatDecoder).readString":
							add("str:" + storedField(call, 0))
						case "(*desync.FormatDecoder).readBytes":
							add("bytes:" + storedField(call, 0))
						case "io.LimitReader":
							add("stream:" + storedField(call, 0))
						case "io.ReadFull":
							// a buffer filled from the input and stored (as string or bytes) into a field
							buf := stripSlices(call.Call.Args[1])
							if mi, ok := buf.(*ssa.MakeInterface); ok {
								buf = stripSlices(mi.X)
							}
							if f, isStr := storedFieldOfValue(buf); f != "" {
								kind := "bytes:"
								if isStr {
									kind = "str:"
								}
								add(kind + f)
							}
						}
					}
				}
			}
			collect(reg, "", 1, token.NoPos, 0)
			sort.SliceStable(recs, func(i, j int) bool {
				if recs[i].pos != recs[j].pos {
					return recs[i].pos < recs[j].pos
				}
				return recs[i].sub < recs[j].sub
			})
			var toks []string
			for _, r := range recs {
				toks = append(toks, r.tok)
			}
			t.dec[typ] = rotatePrimedLoop(toks)
			t.decPos[typ] = iff.Pos()
			if !t.decPos[typ].IsValid() && len(recs) > 0 {
				t.decPos[typ] = recs[0].pos
			}
		}
	}
	return t
}

func hasOriginDeep(v ssa.Value, sub string) bool {
	seen := map[ssa.Value]bool{}
	var walk func(v ssa.Value, d int) bool
	walk = func(v ssa.Value, d int) bool {
		if v == nil || seen[v] || d > 6 {
			return false
		}
		seen[v] = true
		switch x := v.(type) {
		case *ssa.Call:
			if strings.Contains(callee(x), sub) {
				return true
			}
			for _, a := range x.Call.Args {
				if walk(a, d+1) {
					return true
				}
			}
		case *ssa.MakeInterface:
			return walk(x.X, d+1)
		case *ssa.ChangeInterface:
			return walk(x.X, d+1)
		case *ssa.Extract:
			return walk(x.Tuple, d+1)
		}
		return false
	}
	return walk(v, 0)
}

// storedField follows result idx of call forward (conversions, calls, slicing) to the struct
// field it is stored into and returns that field's name ("" if it is only tested or dropped).
func storedField(call *ssa.Call, idx int) string {
	var start ssa.Value = call
	if call.Call.Signature().Results().Len() > 1 {
		start = nil
		for _, r := range *call.Referrers() {
			if ex, ok := r.(*ssa.Extract); ok && ex.Index == idx {
				start = ex
			}
		}
	}
	if start == nil {
		return ""
	}
	seen := map[ssa.Value]bool{}
	found := ""
	var walk func(v ssa.Value, d int)
	walk = func(v ssa.Value, d int) {
		if v == nil || seen[v] || d > 8 || v.Referrers() == nil || found != "" {
			return
		}
		seen[v] = true
		for _, r := range *v.Referrers() {
			switch x := r.(type) {
			case *ssa.Store:
				if x.Val == v {
					if fa, ok := x.Addr.(*ssa.FieldAddr); ok {
						f := fieldOf(fa)
						if i := strings.Index(f, "."); i >= 0 && found == "" {
							found = f[i+1:]
						}
					} else if al, ok := x.Addr.(*ssa.Alloc); ok {
						// a local variable: follow its loads
						for _, r2 := range *al.Referrers() {
							if ld, ok := r2.(*ssa.UnOp); ok && ld.Op == token.MUL {
								walk(ld, d+1)
							}
						}
					}
				}
			case *ssa.Convert:
				walk(x, d+1)
			case *ssa.ChangeType:
				walk(x, d+1)
			case *ssa.Slice:
				walk(x, d+1)
			case *ssa.Call:
				walk(x, d+1)
			case *ssa.Phi:
				walk(x, d+1)
			case *ssa.BinOp:
				switch x.Op {
				case token.EQL, token.NEQ, token.LSS, token.GTR, token.LEQ, token.GEQ:
				default:
					walk(x, d+1)
				}
			case *ssa.MakeInterface:
				walk(x, d+1)
			}
		}
	}
	walk(start, 0)
	return found
}

// storedFieldOfValue follows a buffer forward to the struct field it ends up in; isStr tells
// whether it was converted to a string on the way.
func storedFieldOfValue(v ssa.Value) (field string, isStr bool) {
	seen := map[ssa.Value]bool{}
	var walk func(v ssa.Value, d int, str bool)
	walk = func(v ssa.Value, d int, str bool) {
		if v == nil || seen[v] || d > 8 || v.Referrers() == nil || field != "" {
			return
		}
		seen[v] = true
		for _, r := range *v.Referrers() {
			switch x := r.(type) {
			case *ssa.Store:
				if x.Val == v {
					if fa, ok := x.Addr.(*ssa.FieldAddr); ok {
						f := fieldOf(fa)
						if i := strings.Index(f, "."); i >= 0 && field == "" {
							field, isStr = f[i+1:], str
						}
					} else if al, ok := x.Addr.(*ssa.Alloc); ok {
						for _, r2 := range *al.Referrers() {
							if ld, ok := r2.(*ssa.UnOp); ok && ld.Op == token.MUL {
								walk(ld, d+1, str)
							}
						}
					}
				}
			case *ssa.Convert:
				walk(x, d+1, str || strings.Contains(x.Type().String(), "string"))
			case *ssa.Slice:
				walk(x, d+1, str)
			case *ssa.Phi:
				walk(x, d+1, str)
			case *ssa.ChangeType:
				walk(x, d+1, str)
			}
		}
	}
	walk(v, 0, false)
	return
}

// codecAgree compares the tables for the given element types and records one obligation each.
func (c *Ctx) codecAgree(typs []string) {
	t := c.codec()
	for _, typ := range typs {
		enc, okE := t.enc[typ]
		dec, okD := t.dec[typ]
		key := typ + ":codec"
		if !okE || !okD {
			c.bad(key, token.NoPos, "element type %s has no %s case", typ, map[bool]string{true: "decoder", false: "encoder"}[okE])
			continue
		}
		if len(enc) < 2 || enc[0] != "Size" || enc[1] != "Type" {
			c.bad(key, t.encPos[typ], "the encoder does not start %s with the (Size, Type) header: %v", typ, enc)
			continue
		}
		body := enc[2:]
		okAll := len(body) == len(dec)
		if okAll {
			for i := range body {
				if !tokenAgrees(body[i], dec[i]) {
					okAll = false
				}
			}
		}
		if okAll {
			c.ok(key, t.encPos[typ], "encoder writes %v; decoder reads the same sequence", enc)
		} else {
			c.bad(key, t.decPos[typ], "encoder and decoder of %s disagree on the field sequence: written %v, read %v - an archive/index written by desync is not read back as the same element", typ, body, dec)
		}
	}
}

func tokenAgrees(enc, dec string) bool {
	if enc == dec {
		return true
	}
	if strings.HasPrefix(enc, "stream:") && strings.HasPrefix(dec, "stream:") {
		return true
	}
	// a constant written, a checked-or-skipped word read
	if strings.Contains(enc, "const:") || strings.HasSuffix(enc, "expr") {
		return dec == "" || dec == "loop:" || strings.HasSuffix(dec, ":")
	}
	return false
}

func (c *Ctx) dumpCodec() string {
	t := c.codec()
	var names []string
	for n := range t.enc {
		names = append(names, n)
	}
	sort.Strings(names)
	var sb strings.Builder
	for _, n := range names {
		fmt.Fprintf(&sb, "%s\n  enc %v\n  dec %v\n", n, t.enc[n], t.dec[n])
	}
	return sb.String()
}

// constTrips: if block b lies in a counting loop "for i := 0; i < K; i++" with a constant K,
// the trip count K; otherwise 0.
func constTrips(b *ssa.BasicBlock) int {
	fn := b.Parent()
	for _, hb := range fn.Blocks {
		iff := lastIf(hb)
		if iff == nil {
			continue
		}
		cm, truth, ok := cmpOf(iff.Cond)
		if !ok || (cm.op != token.LSS && cm.op != token.LEQ) || !truth {
			continue
		}
		k, isK := cm.y.(*ssa.Const)
		if !isK || k.Value == nil {
			continue
		}
		inclusive := int64(0)
		if cm.op == token.LEQ {
			inclusive = 1 // "i <= K" runs once more than "i < K"
		}
		// counter: phi(0, phi+1) or its increment
		var phi *ssa.Phi
		switch x := cm.x.(type) {
		case *ssa.Phi:
			phi = x
		case *ssa.BinOp:
			if p, ok := x.X.(*ssa.Phi); ok && x.Op == token.ADD {
				phi = p
			}
		}
		if phi == nil {
			continue
		}
		zero, inc := false, false
		start := int64(0)
		for _, e := range phi.Edges {
			if c, ok := e.(*ssa.Const); ok && c.Value != nil {
				zero = true
				start = constInt64(c)
			} else if bo, ok := e.(*ssa.BinOp); ok && bo.Op == token.ADD && bo.X == ssa.Value(phi) {
				if c, ok := bo.Y.(*ssa.Const); ok && constInt64(c) == 1 {
					inc = true
				}
			}
		}
		if !zero || !inc {
			continue
		}
		body := hb.Succs[0]
		if !(body == b || reachableFrom(body, map[edge]bool{{hb, hb.Succs[1]}: true})[b]) || !reachableFrom(b, nil)[hb] {
			continue
		}
		// "for range K" style: phi starts at -1 and the incremented value is compared
		n := constInt64(k) - start + inclusive
		if _, isInc := cm.x.(*ssa.BinOp); isInc {
			n = constInt64(k) - (start + 1) + inclusive
		}
		if n > 0 && n < 64 {
			return int(n)
		}
	}
	return 0
}

// substDeep applies a parameter substitution to a value: the value itself, or - for a field read
// of a substituted struct parameter (hdr.Size with hdr := t.FormatHeader) - a value that the field
// walkers resolve the same way (the struct argument itself, whose fields are then looked up).
func substDeep(v ssa.Value, subst func(ssa.Value) ssa.Value) ssa.Value {
	if r := subst(v); r != v {
		return r
	}
	return v
}

// rotatePrimedLoop normalises a "priming read" loop:  x := read(); for x != 0 { y := read(); x = read() }
// reads X (Y X)*, which is the same sequence as the plain form (X Y)* X whose final X is the
// terminator read inside the loop.  Tokens: [X, loop:Y..., loop:X] -> [loop:X, loop:Y...].
func rotatePrimedLoop(toks []string) []string {
	for i := 0; i < len(toks); i++ {
		if strings.HasPrefix(toks[i], "loop:") {
			continue
		}
		// the run of loop tokens that follows
		j := i + 1
		for j < len(toks) && strings.HasPrefix(toks[j], "loop:") {
			j++
		}
		if j-i >= 3 && toks[j-1] == "loop:"+toks[i] {
			out := append([]string{}, toks[:i]...)
			out = append(out, toks[j-1])
			out = append(out, toks[i+1:j-1]...)
			out = append(out, toks[j:]...)
			return out
		}
	}
	return toks
}
