package main

import (
	"fmt"
	"go/token"
	"strings"

	"golang.org/x/tools/go/ssa"
)

func init() {
	register(&property{
		ID: "C16",
		Explanation: "C16.keep-set: in every Prune implementation (local, S3, SFTP, GCS; walk callbacks included) each removal is reachable only through the miss edge of the lookup of the parsed id in the keep map and the nil-error edge of the id parser; the removed object is named from that id. " +
			"C16.format-filter-by-option: every chunk-extension test that can skip a file is control-dependent on the store's Uncompressed option and tests the extension of that branch's format. C16.tmp-files: local prune removes files with the temp-chunk prefix independently of the extension filter. " +
			"C16.listing-errors: a failure of the listing/walk makes Prune return a non-nil error (never 'continue' to a successful end). C16.pool-reentrancy: SFTP/SSH methods holding a pool token call no method that takes another. " +
			"C16.verify: LocalStore.Verify reads every chunk through the verifying GetChunk, removes only on class ChunkInvalid and only with repair, reports other errors without removing; the walk feeds only names that parse as ids of the configured format.",
		NotDecided: "the resulting file sets, S3/GCS server behaviour, ordering of concurrent verify workers.",
		Rules: []rule{
			{"C16.keep-set", "removal only for parsed ids that miss in the keep set", 4, c16KeepSet},
			{"C16.format-filter-by-option", "extension filters depend on the Uncompressed option and match its branch", 5, c16FormatFilter},
			{"C16.tmp-files", "abandoned temp chunk files are removed before the extension filter (local store), and the SFTP store removes the leftovers of interrupted uploads", 2, func(c *Ctx) { c08Prefix(c); c16SFTPTemp(c) }},
			{"C16.listing-errors", "listing/walk errors fail Prune", 4, c16ListingErrors},
			{"C16.pool-reentrancy", "no nested pool token acquisition", 4, func(c *Ctx) { c.poolReentrancy("SFTPStore", "pool"); c.poolReentrancy("RemoteSSH", "pool") }},
			{"C16.name-roundtrip", "object-store idFromName undoes nameFromID (whole-string prefix and extension removal)", 3, c16NameRoundtrip},
			{"C16.ctor-verifies", "Verify relies on GetChunk: the verifying constructors reject unreadable data and the zero id", 2, c03CtorVerifies},
			{"C16.walk-complete", "Verify and Prune visit every file of the local store (no SkipDir)", 2, c16WalkComplete},
			{"C16.id-parse-exact", "a file name parses as a chunk id only if it is exactly 64 hex digits (shared with C20)", 1, c20IDParseExact},
			{"C16.compress-api", "the zstd codec is constructed without limiting options: every valid chunk a store holds can be decoded by verify (shared with C20)", 2, c20CompressAPI},
			{"C16.remove-completes", "RemoveChunk of every back end reports success only after its delete primitive succeeded", 4, func(c *Ctx) { c.writePrimitives("C16") }},
			{"C16.options-from-config", "every store built in cmd/desync gets its options from the config entry of its location (format, verification)", 12, func(c *Ctx) { c.storeOptionsFromConfig() }},
			{"C16.worker-error-private", "the verify workers do not share an error variable with each other or with the walk (shared with C07)", 1, func(c *Ctx) {
				c.sideGoroutineErrors(func(key string) bool { return strings.HasPrefix(key, "LocalStore.") })
			}},
			{"C16.lister-done", "a listing the context can stop is not taken for complete (shared with C07)", 1, c07ListerDone},
			{"C16.verify", "verify removes exactly the invalid chunks, only with repair", 3, c16Verify},
			{"C16.commands-propagate", "the prune and verify commands fail when Prune/Verify fails or is interrupted: success is reported only for a completed run (shared with C07)", 2, func(c *Ctx) {
				c.onlyCmds = map[string]bool{"cmd.runPrune": true, "cmd.runVerify": true}
				defer func() { c.onlyCmds = nil }()
				c07CommandsPropagate(c)
			}},
			{"C16.canonical-place", "local Verify and Prune treat a file as a chunk only where the store keeps that chunk (stray files with chunk-like names are left alone)", 2, c16CanonicalPlace},
		},
	})
}

var pruneImpls = []string{"LocalStore.Prune", "S3Store.Prune", "SFTPStore.Prune", "GCStore.Prune"}

func isRemoval(name string) bool {
	switch name {
	case "os.Remove", "(*github.com/pkg/sftp.Client).Remove", "(*github.com/minio/minio-go/v6.Client).RemoveObject", "(github.com/minio/minio-go/v6.Client).RemoveObject", "(*cloud.google.com/go/storage.ObjectHandle).Delete":
		return true
	}
	return strings.HasSuffix(name, ").RemoveChunk")
}

func c16KeepSet(c *Ctx) {
	for _, key := range pruneImpls {
		fn := c.mustFn(key)
		if fn == nil {
			continue
		}
		n := 0
		for _, f := range withClosures(fn) {
			for _, rm := range calls(f, isRemoval) {
				// the temp-file removal of the local store (behind the temp-prefix test) is decided by C16.tmp-files
				if callee(rm) == "os.Remove" {
					isTmp, _ := guarded(f, rm.(ssa.Instruction), func(iff *ssa.If) (bool, bool) {
						if cl, ok := stripNot(iff.Cond).(*ssa.Call); ok && callee(cl) == "strings.HasPrefix" &&
							onlyOrigins(cl.Call.Args[1], func(o string) bool { return o == "const:"+c.constVal("tmpChunkPrefix") }) {
							_, truth, _ := cmpOf(iff.Cond)
							return truth, !truth
						}
						return false, false
					})
					if isTmp {
						continue
					}
				}
				// the removal of an interrupted upload by the SFTP store: the file is removed under the
				// path it was found at, behind a predicate over that path that ties the name to a
				// chunk id and to the place the store keeps that chunk (decided by C16.tmp-files)
				if strings.HasSuffix(callee(rm), "sftp.Client).Remove") && len(rm.Common().Args) > 1 {
					// (inside a callback that a walk helper hands the path to, it is a parameter)
					isWalked := func(v ssa.Value) bool {
						return onlyOrigins(v, func(o string) bool { return strings.Contains(o, "Walker).Path#0") || strings.HasPrefix(o, "param:") })
					}
					if isWalked(rm.Common().Args[1]) {
						isTmp, _ := guarded(f, rm.(ssa.Instruction), func(iff *ssa.If) (bool, bool) {
							cl, ok := stripNot(iff.Cond).(*ssa.Call)
							if !ok {
								return false, false
							}
							pred := c.staticFn(cl)
							if pred == nil || pred.Blocks == nil {
								return false, false
							}
							onPath := false
							for _, a := range cl.Call.Args {
								if isWalked(a) {
									onPath = true
								}
							}
							parses, placed := false, false
							instrsAll(pred, func(_ *ssa.BasicBlock, _ int, in2 ssa.Instruction) {
								if c2, ok := in2.(*ssa.Call); ok {
									switch callee(c2) {
									case "desync.ChunkIDFromString":
										parses = true
									case "desync.isChunkPath":
										placed = true
									}
								}
							})
							if !onPath || !parses || !placed {
								return false, false
							}
							neg := stripNot(iff.Cond) != iff.Cond
							return !neg, neg
						})
						if isTmp {
							continue
						}
					}
				}
				n++
				k := fmt.Sprintf("%s:%s", fnKey(f), callee(rm))
				// miss edge of ids[id]
				miss, nm := guarded(f, rm.(ssa.Instruction), func(iff *ssa.If) (bool, bool) {
					okLk := false
					for _, l := range leaves(stripNot(iff.Cond)) {
						ex, isEx := l.(*ssa.Extract)
						if !isEx || ex.Index != 1 {
							continue
						}
						lk, isLk := ex.Tuple.(*ssa.Lookup)
						if !isLk {
							continue
						}
						isIDs := hasOrigin(lk.X, func(o string) bool { return o == "param:ids" })
						keyOK := hasOrigin(lk.Index, func(o string) bool {
							return o == "call:desync.ChunkIDFromString#0" || strings.HasSuffix(o, ").idFromName#0")
						})
						if isIDs && keyOK {
							okLk = true
						}
					}
					if !okLk {
						return false, false
					}
					_, truth, _ := cmpOf(iff.Cond)
					return !truth, truth
				})
				parsed, _ := guarded(f, rm.(ssa.Instruction), nilEdgeOf(func(o string) bool {
					return o == "call:desync.ChunkIDFromString#1" || strings.HasSuffix(o, ").idFromName#1")
				}))
				// what is removed is named from the parsed id
				idOK := false
				for _, a := range rm.Common().Args {
					if hasOrigin(a, func(o string) bool {
						return o == "call:desync.ChunkIDFromString#0" || strings.HasSuffix(o, ").idFromName#0") || strings.HasSuffix(o, ").nameFromID#0")
					}) {
						idOK = true
					}
				}
				c.verdict(miss && parsed && idOK, k, rm.Pos(), fmt.Sprintf("removal only on the miss edge of ids[id] (%d edge) for a successfully parsed id", nm),
					fmt.Sprintf("a removal is reachable without the parsed id having been looked up in the keep set and missed (miss-edge=%v parsed-ok=%v named-from-id=%v): referenced chunks or foreign files could be deleted", miss, parsed, idOK))
			}
		}
		if n == 0 {
			c.bad(key+":removal", fn.Pos(), "prune removes nothing")
		}
	}
}

// extFilters returns the Ifs on strings.HasSuffix(x, <chunk extension constant>) in f.
func extFilters(c *Ctx, f *ssa.Function) []*ssa.If {
	var out []*ssa.If
	for _, b := range f.Blocks {
		iff := lastIf(b)
		if iff == nil {
			continue
		}
		call, ok := stripNot(iff.Cond).(*ssa.Call)
		if !ok || callee(call) != "strings.HasSuffix" {
			continue
		}
		ext := call.Call.Args[1]
		if k, ok := ext.(*ssa.Const); ok && k.Value != nil {
			v := k.Value.ExactString()
			if v == c.constVal("CompressedChunkExt") || v == c.constVal("UncompressedChunkExt") {
				out = append(out, iff)
			}
		} else if onlyOrigins(ext, func(o string) bool {
			return o == "const:"+c.constVal("CompressedChunkExt") || o == "const:"+c.constVal("UncompressedChunkExt")
		}) {
			out = append(out, iff) // extension chosen into a variable first
		}
	}
	return out
}

func c16FormatFilter(c *Ctx) {
	comp, uncomp := c.constVal("CompressedChunkExt"), c.constVal("UncompressedChunkExt")
	var scope []*ssa.Function
	tops := map[*ssa.Function]string{}
	for _, top := range c.subjects() {
		if top.Pkg != c.LibSSA || top.Parent() != nil {
			continue
		}
		tk := fnKey(top)
		// only store code: Verify, Prune, idFromName
		if !(strings.HasSuffix(tk, ".Prune") || strings.HasSuffix(tk, ".Verify") || strings.HasSuffix(tk, ".idFromName")) {
			continue
		}
		for _, g := range fnsDeep(top) {
			for _, f := range withClosures(g) {
				if _, dup := tops[f]; !dup {
					tops[f] = tk
					scope = append(scope, f)
				}
			}
		}
	}
	for _, f := range scope {
		tk := tops[f]
		filters := extFilters(c, f)
		if len(filters) == 0 {
			continue
		}
		// the option tests
		isOpt := func(iff *ssa.If) bool {
			return onlyOrigins(stripNot(iff.Cond), func(o string) bool { return o == "field:StoreOptions.Uncompressed" })
		}
		for i, iff := range filters {
			key := fmt.Sprintf("%s:ext-filter%d", fnKey(f), i+1)
			call := stripNot(iff.Cond).(*ssa.Call)
			if _, isConst := call.Call.Args[1].(*ssa.Const); !isConst {
				// variable form: ext := <compressed>; if Uncompressed { ext = <uncompressed> } - as a phi, as
				// a captured variable assigned before a walk, or as the parameter of a helper
				okSel, why := extSelectedByOption(call.Call.Args[1], comp, uncomp)
				c.verdict(okSel, key, call.Pos(), "the tested extension is selected by the Uncompressed option (variable form)", "the extension tested by the filter is not selected by the store's Uncompressed option: "+why)
				continue
			}
			ext := call.Call.Args[1].(*ssa.Const).Value.ExactString()
			// remove both out-edges of every option test: the filter must become unreachable
			removed := map[edge]bool{}
			var optIfs []*ssa.If
			for _, b := range f.Blocks {
				if o := lastIf(b); o != nil && isOpt(o) {
					optIfs = append(optIfs, o)
					removed[edge{b, b.Succs[0]}] = true
					removed[edge{b, b.Succs[1]}] = true
				}
			}
			if len(optIfs) == 0 || reachable(f, removed)[iff.Block()] {
				c.bad(key, call.Pos(), "the extension filter HasSuffix(.., %s) does not depend on the store's Uncompressed option: in the other mode prune/verify would skip every chunk (or touch the other format's files)", ext)
				continue
			}
			// the branch matches: on the Uncompressed-true side the uncompressed extension is tested
			okBranch := false
			for _, o := range optIfs {
				_, truth, _ := cmpOf(o.Cond)
				tEdge, fEdge := edge{o.Block(), o.Block().Succs[0]}, edge{o.Block(), o.Block().Succs[1]}
				uncEdge, cmpEdge := tEdge, fEdge
				if !truth {
					uncEdge, cmpEdge = fEdge, tEdge
				}
				// reachable only via uncEdge?
				onlyVia := func(e edge) bool {
					rm := map[edge]bool{e: true}
					for _, o2 := range optIfs {
						if o2 != o {
							rm[edge{o2.Block(), o2.Block().Succs[0]}] = true
							rm[edge{o2.Block(), o2.Block().Succs[1]}] = true
						}
					}
					return !reachable(f, rm)[iff.Block()]
				}
				if ext == uncomp && onlyVia(uncEdge) && !onlyVia(cmpEdge) {
					okBranch = true
				}
				if ext == comp && onlyVia(cmpEdge) && !onlyVia(uncEdge) {
					okBranch = true
				}
			}
			c.verdict(okBranch, key, call.Pos(), fmt.Sprintf("HasSuffix(.., %s) lies on the matching side of the Uncompressed option", ext), fmt.Sprintf("the filter for extension %s lies on the wrong side of the Uncompressed option", ext))
			// in a loop (not a walk callback) skipping a file must continue with the next one, not end the operation
			if f.Parent() == nil && strings.HasSuffix(tk, ".Prune") {
				var header *ssa.BasicBlock
				for _, b := range f.Blocks {
					if b != iff.Block() && b.Dominates(iff.Block()) && reachableFrom(iff.Block(), nil)[b] {
						if header == nil || b.Dominates(header) {
							header = b
						}
					}
				}
				if header != nil {
					_, truth, _ := cmpOf(iff.Cond)
					skipTo := iff.Block().Succs[1] // suffix absent
					if !truth {
						skipTo = iff.Block().Succs[0]
					}
					cut := map[edge]bool{}
					for _, p := range header.Preds {
						cut[edge{p, header}] = true
					}
					early := false
					reach := map[*ssa.BasicBlock]bool{}
					if skipTo != header {
						reach = reachableFrom(skipTo, cut)
					}
					for b := range reach {
						if len(b.Instrs) > 0 {
							if _, isRet := b.Instrs[len(b.Instrs)-1].(*ssa.Return); isRet && b != header {
								early = true
							}
						}
					}
					c.verdict(!early, key+":skip-continues", call.Pos(), "a skipped file continues with the next one", "skipping a file of the other format ends the whole prune (return instead of continue): everything after it is left in place while success is reported")
				}
			}
		}
	}
}

// edgeMustFail explores from the given edge; every reachable return must yield a non-nil error.
func (c *Ctx) edgeMustFail(fn *ssa.Function, from, to *ssa.BasicBlock, seed func(st *State)) []string {
	var bad []string
	h := &Hooks{
		MaxVisits: 2,
		Return: func(st *State, ret *ssa.Return, results []Val) {
			for i, r := range ret.Results {
				if isErrorType(r.Type()) && results[i].N != NNon {
					bad = append(bad, fmt.Sprintf("return at %s can yield a nil error (trail %s)", c.pos(ret.Pos()), strings.Join(st.Trail, ">")))
				}
			}
		},
	}
	st := NewState()
	st.assumeDominating(from)
	if seed != nil {
		seed(st)
	}
	Explore(fn, to, 0, from, st, h)
	c.paths += h.Paths
	return bad
}

func c16ListingErrors(c *Ctx) {
	type spec struct {
		key    string
		origin func(o string) bool
	}
	specs := []spec{
		{"S3Store.Prune", func(o string) bool { return o == "field:ObjectInfo.Err" }},
		{"SFTPStore.Prune", func(o string) bool { return strings.Contains(o, "Walker).Err#0") }},
		{"GCStore.Prune", func(o string) bool { return strings.Contains(o, "ObjectIterator).Next#1") }},
		{"LocalStore.Prune", nil}, // nil: the error parameter of the filepath.Walk callback, whatever its name
		{"LocalStore.Verify", nil},
	}
	for _, sp := range specs {
		fn := c.mustFn(sp.key)
		if fn == nil {
			continue
		}
		n := 0
		// the function, its closures, and new helpers the loop may have been moved into
		var fam []*ssa.Function
		seenF := map[*ssa.Function]bool{}
		for _, f := range withClosures(fn) {
			for _, g := range fnsDeep(f) {
				for _, g2 := range withClosures(g) {
					if !seenF[g2] {
						seenF[g2] = true
						fam = append(fam, g2)
					}
				}
			}
		}
		helperChecked := map[*ssa.Function]bool{}
		for _, f := range fam {
			origin := sp.origin
			if origin == nil {
				var errParam string
				if ps := f.Params; len(ps) >= 3 && isErrorType(ps[len(ps)-1].Type()) && f.Signature.Results().Len() == 1 && isErrorType(f.Signature.Results().At(0).Type()) {
					errParam = "param:" + ps[len(ps)-1].Name()
				}
				origin = func(o string) bool { return errParam != "" && o == errParam }
			}
			for _, b := range f.Blocks {
				iff := lastIf(b)
				if iff == nil {
					continue
				}
				cm, truth, ok := cmpOf(iff.Cond)
				if !ok || (cm.op != token.EQL && cm.op != token.NEQ) || !(isNilConst(cm.x) || isNilConst(cm.y)) {
					continue
				}
				subj := cm.x
				if isNilConst(cm.x) {
					subj = cm.y
				}
				if !onlyOrigins(subj, origin) {
					continue
				}
				n++
				if top := topOf(f); top != fn && newHelpers[top] && f == top && !helperChecked[top] {
					// the listing loop lives in a new helper: its failure must fail the operation at every call site
					helperChecked[top] = true
					for _, cs := range helperSites[top] {
						site, isCall := cs.(*ssa.Call)
						if !isCall {
							continue
						}
						_, badH := errPropagates(c, site.Parent(), func(_ string, call *ssa.Call) bool { return call == site }, errPropOpts{})
						if len(badH) > 0 {
							c.bad(fnKey(site.Parent())+":listing-helper", site.Pos(), "the error of the listing helper %s is lost: %s", top.Name(), badH[0])
						}
					}
				}
				nonNilOnTrue := (cm.op == token.NEQ) == truth
				to := b.Succs[1]
				if nonNilOnTrue {
					to = b.Succs[0]
				}
				bad := c.edgeMustFail(f, b, to, func(st *State) {
					st.V[subj] = Val{N: NNon, Class: ClsOther}
					if u, ok := subj.(*ssa.UnOp); ok && u.Op == token.MUL {
						st.V[st.cell(u.X)] = Val{N: NNon, Class: ClsOther}
					}
				})
				key := fnKey(f) + ":listing-error"
				if len(bad) > 0 {
					c.bad(key, iff.Pos(), "a failed listing/walk step does not fail the operation: %s; unreferenced chunks beyond the failure would be left behind while success is reported", bad[0])
				} else {
					c.ok(key, iff.Pos(), "a listing/walk error is returned")
				}
			}
		}
		if n == 0 {
			c.bad(sp.key+":listing-error", fn.Pos(), "the listing/walk error is never tested")
		}
	}
}

func c16Verify(c *Ctx) {
	c16VerifyForcesCheck(c)
	c16LocalReadErrors(c)
	fn := c.mustFn("LocalStore.Verify")
	if fn == nil {
		return
	}
	var worker, walker *ssa.Function
	// the closures of Verify and of the new helpers it calls (a factory that builds the callback)
	var cands []*ssa.Function
	seenC := map[*ssa.Function]bool{}
	for _, f := range withClosures(fn) {
		for _, g := range fnsDeep(f) {
			for _, g2 := range withClosures(g) {
				if g2.Parent() != nil && !seenC[g2] {
					seenC[g2] = true
					cands = append(cands, g2)
				}
			}
		}
	}
	for _, cl := range cands {
		if len(calls(cl, suffixed("LocalStore).GetChunk"))) > 0 {
			worker = cl
		}
		if len(calls(cl, named("desync.ChunkIDFromString"))) > 0 {
			walker = cl
		}
	}
	if worker == nil || walker == nil {
		c.bad("LocalStore.Verify:shape", fn.Pos(), "worker (GetChunk) or walk callback (ChunkIDFromString) closure not found")
		return
	}
	var bad []string
	h := &Hooks{MaxVisits: 2}
	h.Fork = func(st *State, call *ssa.Call) []map[int]Val {
		n := callee(call)
		switch {
		case strings.HasSuffix(n, "LocalStore).GetChunk"):
			return []map[int]Val{
				{1: {N: NNil, Class: ClsNil, Sym: "get:nil"}},
				{1: {N: NNon, Class: ClsInvalid, Sym: "get:invalid"}},
				{1: {N: NNon, Class: ClsMissing, Sym: "get:missing"}},
				{1: {N: NNon, Class: ClsOther, Sym: "get:other"}},
			}
		case strings.HasSuffix(n, "LocalStore).RemoveChunk"):
			last := ""
			for _, e := range st.Events {
				if e.Kind == "outcome:get" {
					last = e.Arg
				}
			}
			rep := st.Flags["repair"]
			if last != "invalid" {
				bad = append(bad, fmt.Sprintf("RemoveChunk is reachable after GetChunk outcome %q: only chunks whose content does not match their id may be removed", last))
			}
			if rep != 1 {
				bad = append(bad, "RemoveChunk is reachable without the repair flag having been found true")
			}
			return []map[int]Val{{0: {N: NNil, Class: ClsNil}}, {0: {N: NNon, Class: ClsOther}}}
		}
		return nil
	}
	h.Branch = func(st *State, iff *ssa.If, taken bool) {
		if onlyOrigins(stripNot(iff.Cond), func(o string) bool { return o == "param:repair" }) {
			_, truth, _ := cmpOf(iff.Cond)
			if taken == truth {
				st.Flags["repair"] = 1
			} else {
				st.Flags["repair"] = 0
			}
		}
	}
	removed := false
	h.Call = func(st *State, call *ssa.Call) map[int]Val { return nil }
	Explore(worker, worker.Blocks[0], 0, nil, NewState(), h)
	c.paths += h.Paths
	removed = len(calls(worker, suffixed("LocalStore).RemoveChunk"))) > 0
	if !removed {
		bad = append(bad, "verify never removes an invalid chunk, even with repair")
	}
	c.report("LocalStore.Verify.worker:removal", worker, bad, fmt.Sprintf("%d path(s): RemoveChunk only for ChunkInvalid with repair", h.Paths))
	// the id removed is the id verified
	for _, rm := range calls(worker, suffixed("LocalStore).RemoveChunk")) {
		okID := false
		for _, g := range calls(worker, suffixed("LocalStore).GetChunk")) {
			ga, ra := g.Common().Args, rm.Common().Args
			if ga[len(ga)-1] == ra[len(ra)-1] {
				okID = true
			}
		}
		c.verdict(okID, "LocalStore.Verify.worker:same-id", rm.Pos(), "the removed id is the one that failed verification", "the removed id is not the id that was verified")
	}
	// the walker feeds only parsed ids
	n := 0
	instrs(walker, func(_ *ssa.BasicBlock, _ int, ins ssa.Instruction) {
		snd, ok := ins.(*ssa.Send)
		if !ok {
			return
		}
		n++
		okG, _ := guarded(walker, snd, nilEdgeOf(func(o string) bool { return o == "call:desync.ChunkIDFromString#1" }))
		// through a (new) parsing helper the failure paths contribute a zero ChunkID, which the guard excludes
		okV := hasOrigin(snd.X, func(o string) bool { return o == "call:desync.ChunkIDFromString#0" }) &&
			onlyOrigins(snd.X, func(o string) bool {
				return o == "call:desync.ChunkIDFromString#0" || strings.HasPrefix(o, "alloc:") || strings.HasPrefix(o, "const:")
			})
		c.verdict(okG && okV, "LocalStore.Verify.walk:feeds-parsed-ids", snd.Pos(), "only names that parse as chunk ids are verified", "the walk feeds something that is not a successfully parsed chunk id")
	})
	if n == 0 {
		c.bad("LocalStore.Verify.walk:feeds-parsed-ids", walker.Pos(), "the walk feeds no ids to the workers")
	}
}

// c16NameRoundtrip: object-store keys.  idFromName must undo exactly what nameFromID does:
// the key handed to strings.Split is TrimSuffix(TrimPrefix(name, s.prefix), <ext>) - the prefix
// and the extension are removed as whole strings.  In addition no strings.Trim/TrimLeft/
// TrimRight anywhere in the library is given a non-constant cut set (a cut set is a set of
// characters, not a prefix; with a store prefix such as "store/" it eats leading hex digits of
// the chunk directory and the object is then skipped as "not a chunk" and never pruned).
func c16NameRoundtrip(c *Ctx) {
	n := 0
	for _, key := range []string{"S3Store.idFromName", "GCStore.idFromName"} {
		fn := c.mustFn(key)
		if fn == nil {
			continue
		}
		// the key that is taken apart: what the id string handed to ChunkIDFromString is cut out
		// of - by strings.Split and indexing, or by slicing at a separator found in it
		parses := calls(fn, named("desync.ChunkIDFromString"))
		if len(parses) == 0 {
			c.bad(key+":shape", fn.Pos(), "idFromName does not parse an id with ChunkIDFromString")
			continue
		}
		var keys []ssa.Value
		seenK := map[ssa.Value]bool{}
		var trace func(v ssa.Value, depth int)
		trace = func(v ssa.Value, depth int) {
			if depth > 10 || seenK[v] {
				return
			}
			seenK[v] = true
			for _, l := range leaves(v) {
				switch x := l.(type) {
				case *ssa.Slice:
					trace(x.X, depth+1)
					continue
				case *ssa.UnOp:
					if ia, ok := x.X.(*ssa.IndexAddr); ok && x.Op == token.MUL {
						trace(ia.X, depth+1)
						continue
					}
				case *ssa.Call:
					if nm := callee(x); nm == "strings.Split" || nm == "strings.SplitN" {
						trace(x.Call.Args[0], depth+1)
						continue
					}
				case *ssa.Extract:
					if cc, ok := x.Tuple.(*ssa.Call); ok && callee(cc) == "strings.Cut" && x.Index < 2 {
						trace(cc.Call.Args[0], depth+1)
						continue
					}
				}
				keys = append(keys, l)
			}
		}
		trace(parses[0].Common().Args[0], 0)
		if len(keys) == 0 {
			c.bad(key+":shape", fn.Pos(), "the string parsed as chunk id has no recognisable source")
			continue
		}
		n++
		okAll, why := true, ""
		anchor := parses[0]
		for _, l := range keys {
			ts, _ := callOf(l)
			if ts == nil || callee(ts) != "strings.TrimSuffix" {
				okAll, why = false, "the key is not the result of strings.TrimSuffix: "+l.String()
				continue
			}
			for _, e := range leaves(ts.Call.Args[1]) {
				if _, isConst := e.(*ssa.Const); !isConst {
					okAll, why = false, "the extension removed is not one of the extension constants"
				}
			}
			for _, l2 := range leaves(ts.Call.Args[0]) {
				tp, _ := callOf(l2)
				if tp == nil || callee(tp) != "strings.TrimPrefix" {
					okAll, why = false, "the store prefix is not removed with strings.TrimPrefix: "+l2.String()
					continue
				}
				if !isParam(tp.Call.Args[0], fn.Params[1]) || !hasOrigin(tp.Call.Args[1], func(o string) bool { return strings.HasSuffix(o, ".prefix") }) {
					okAll, why = false, "TrimPrefix is not applied to (name, s.prefix)"
				}
			}
		}
		c.verdict(okAll, key+":inverse-of-nameFromID", anchor.Pos(), "id = TrimSuffix(TrimPrefix(name, s.prefix), ext) split at '/'", why+": idFromName no longer undoes nameFromID; listed chunks are skipped as 'not a chunk' and survive pruning")
	}
	cut := 0
	for _, fn := range c.subjects() {
		for _, call := range calls(fn, named("strings.Trim", "strings.TrimLeft", "strings.TrimRight", "bytes.Trim", "bytes.TrimLeft", "bytes.TrimRight")) {
			cut++
			a := call.Common().Args
			_, isConst := a[1].(*ssa.Const)
			c.verdict(isConst, fmt.Sprintf("%s:%s-cutset", fnKey(fn), callee(call)), call.Pos(), "constant cut set", "a variable is used as the cut set of "+callee(call)+": it is treated as a set of characters, not as a prefix/suffix, and removes more than the prefix")
		}
	}
	c.ok("name-roundtrip", 0, "%d idFromName implementation(s), %d cut-set calls", n, cut)
}

// c16WalkComplete: Verify and Prune of the local store visit every file below the store root:
// their walk callbacks never return filepath.SkipDir / SkipAll (a skipped directory hides all
// chunks below it - for a store rooted at "." or in a dot-directory that is the whole store).
func c16WalkComplete(c *Ctx) {
	n := 0
	for _, key := range []string{"LocalStore.Verify", "LocalStore.Prune"} {
		fn := c.mustFn(key)
		if fn == nil {
			continue
		}
		walks := 0
		for _, f := range withClosures(fn) {
			walks += len(calls(f, named("path/filepath.Walk", "path/filepath.WalkDir")))
			skips := 0
			instrs(f, func(_ *ssa.BasicBlock, _ int, ins ssa.Instruction) {
				for _, op := range ins.Operands(nil) {
					if g, ok := (*op).(*ssa.Global); ok && (g.Name() == "SkipDir" || g.Name() == "SkipAll") {
						skips++
						c.bad(fnKey(f)+":"+g.Name(), ins.Pos(), "the walk callback can return %s: whole directories of the store are left unvisited, their chunks are neither verified nor pruned", g.Name())
					}
				}
			})
			_ = skips
		}
		n += walks
		c.verdict(walks == 1, key+":walk", fn.Pos(), "one filepath.Walk over the store root; the callback never skips a directory", fmt.Sprintf("%d walks found", walks))
		// filepath.Walk lstats its root: handed a symlink to the store directory it visits the link
		// and nothing else - prune and verify then do nothing and report success.  The root that
		// is walked is the store location with symlinks resolved.
		var resolved func(v ssa.Value, depth int) bool
		resolved = func(v ssa.Value, depth int) bool {
			ls := leaves(v)
			if len(ls) == 0 || depth > 4 {
				return false
			}
			for _, l := range ls {
				call, idx := callOf(l)
				if call == nil || idx != 0 {
					return false
				}
				if callee(call) == "path/filepath.EvalSymlinks" {
					continue
				}
				g := call.Call.StaticCallee()
				if g == nil || len(g.Blocks) == 0 || g.Pkg != c.LibSSA {
					return false
				}
				for _, r := range returnsOf(g) {
					if len(r.Results) == 0 || !resolved(unspill(r, r.Results[0]), depth+1) {
						return false
					}
				}
			}
			return true
		}
		for _, f := range withClosures(fn) {
			for _, wk := range calls(f, named("path/filepath.Walk", "path/filepath.WalkDir")) {
				c.verdict(resolved(wk.Common().Args[0], 0), key+":walk-root", wk.Pos(), "the walk starts at the store location with symlinks resolved",
					"the walk starts at the store location as given: if that is a symlink to the store directory, filepath.Walk (which lstats its root) visits nothing - no chunk is verified or pruned and success is reported")
			}
		}
	}
	if n < 2 {
		c.bad("walk-complete", token.NoPos, "expected the walks of Verify and Prune")
	}
	// the SFTP store walks with a kr/fs Walker: its SkipDir() has the same effect, and the walker
	// also yields the root - a rule about directory *names* skips a whole store called ".cache"
	if fn := c.mustFn("SFTPStore.Prune"); fn != nil {
		skips := 0
		for _, g := range fnsDeep(fn) {
			for _, cs := range calls(g, suffixed("fs.Walker).SkipDir")) {
				skips++
				c.bad("SFTPStore.Prune:SkipDir", cs.Pos(), "the walk of the SFTP store can skip a directory: the chunks below it (the whole store, if the rule matches the root) are never pruned while success is reported")
			}
		}
		if skips == 0 {
			c.ok("SFTPStore.Prune:walk", fn.Pos(), "the SFTP walk never skips a directory")
		}
	}
}

// extSelectedByOption: every definition point of the extension value v assigns the uncompressed
// extension only behind the Uncompressed==true side of an option test and the compressed one only
// behind the false side (or as the initial default that the true side overwrites).
func extSelectedByOption(v ssa.Value, comp, uncomp string) (bool, string) {
	type defPoint struct {
		val string
		fn  *ssa.Function
		blk *ssa.BasicBlock // block that must lie behind the option side
		in  *edge           // phi: the incoming edge
	}
	var defs []defPoint
	seen := map[ssa.Value]bool{}
	okShape := true
	var walk func(v ssa.Value, d int)
	walk = func(v ssa.Value, d int) {
		if v == nil || seen[v] || d > 8 {
			return
		}
		seen[v] = true
		switch x := v.(type) {
		case *ssa.Const:
			okShape = false // a bare constant without a definition point is handled by the caller
		case *ssa.Phi:
			for k, e := range x.Edges {
				if kc, ok := e.(*ssa.Const); ok && kc.Value != nil {
					in := edge{x.Block().Preds[k], x.Block()}
					defs = append(defs, defPoint{kc.Value.ExactString(), x.Parent(), in.from, &in})
				} else {
					walk(e, d+1)
				}
			}
		case *ssa.UnOp:
			if x.Op != token.MUL {
				okShape = false
				return
			}
			var cell *ssa.Alloc
			switch a := x.X.(type) {
			case *ssa.Alloc:
				cell = a
			case *ssa.FreeVar:
				if cs := captured(a); len(cs) == 1 {
					cell, _ = cs[0].(*ssa.Alloc)
				}
			}
			if cell == nil {
				okShape = false
				return
			}
			for _, st := range storesTo(cell) {
				if kc, ok := st.Val.(*ssa.Const); ok && kc.Value != nil {
					defs = append(defs, defPoint{kc.Value.ExactString(), st.Parent(), st.Block(), nil})
				} else {
					walk(st.Val, d+1)
				}
			}
		case *ssa.Call:
			// the extension chosen by a (new) helper: each of its returns is a definition point
			h := x.Call.StaticCallee()
			if h == nil || !newHelpers[h] || h.Blocks == nil {
				okShape = false
				return
			}
			for _, hb := range h.Blocks {
				ret, ok := hb.Instrs[len(hb.Instrs)-1].(*ssa.Return)
				if !ok || len(ret.Results) == 0 {
					continue
				}
				rv := unspill(ret, ret.Results[0])
				if kc, ok := rv.(*ssa.Const); ok && kc.Value != nil {
					defs = append(defs, defPoint{kc.Value.ExactString(), h, hb, nil})
				} else {
					walk(rv, d+1)
				}
			}
		case *ssa.Parameter:
			as := boundArgs(x)
			if len(as) == 0 {
				okShape = false
			}
			for _, a := range as {
				if kc, ok := a.(*ssa.Const); ok && kc.Value != nil {
					okShape = false // a constant argument: the call site decides, not handled here
					_ = kc
				} else {
					walk(a, d+1)
				}
			}
		default:
			okShape = false
		}
	}
	walk(v, 0)
	if !okShape || len(defs) == 0 {
		return false, "the value is not built from the two extension constants under an option test"
	}
	sawU, sawC := false, false
	for _, d := range defs {
		unc, cmpE := optionEdges(d.fn)
		if len(unc) == 0 {
			return false, "no test of the Uncompressed option where the extension is chosen"
		}
		behind := func(side map[edge]bool) bool {
			if d.in != nil && side[*d.in] {
				return true
			}
			return !reachable(d.fn, side)[d.blk]
		}
		switch d.val {
		case uncomp:
			sawU = true
			if !behind(unc) {
				return false, "the uncompressed extension is chosen without the option being set"
			}
		case comp:
			sawC = true
			if !behind(cmpE) {
				// the initial default: its block dominates every option test of the function
				dom := true
				for e := range unc {
					if !(d.blk == e.from || d.blk.Dominates(e.from)) {
						dom = false
					}
				}
				if !dom {
					return false, "the compressed extension is chosen although the option is set"
				}
			}
		default:
			return false, "an extension other than the two chunk extensions: " + d.val
		}
	}
	if !sawU || !sawC {
		return false, "only one of the two extensions can be chosen"
	}
	return true, ""
}

// c16VerifyForcesCheck: LocalStore.Verify finds invalid chunks through the check GetChunk makes
// when it builds the chunk, and that check is switched off by StoreOptions.SkipVerify.  The
// options the verify command opens its store with come from the config file (per-location
// settings such as the storage format are needed), so the command must force SkipVerify to false
// before it constructs the store: otherwise "skip-verify": true in the config turns verify into
// a command that reads every chunk and reports none.
func c16VerifyForcesCheck(c *Ctx) {
	fn := c.mustFn("cmd.runVerify")
	if fn == nil {
		return
	}
	n := 0
	for _, g := range fnsDeep(fn) {
		for _, cs := range calls(g, named("desync.NewLocalStore")) {
			if cs.Parent() != g {
				continue
			}
			n++
			arg := cs.Common().Args[1]
			okF := false
			if ld, isLd := arg.(*ssa.UnOp); isLd && ld.Op == token.MUL {
				if cell, isCell := ld.X.(*ssa.Alloc); isCell && cell.Referrers() != nil {
					for _, ref := range *cell.Referrers() {
						fa, isFA := ref.(*ssa.FieldAddr)
						if !isFA || fieldOf(fa) != "StoreOptions.SkipVerify" || fa.Referrers() == nil {
							continue
						}
						var last *ssa.Store
						allFalse := true
						for _, r2 := range *fa.Referrers() {
							if st, isSt := r2.(*ssa.Store); isSt {
								if k, isK := st.Val.(*ssa.Const); !isK || k.Value == nil || k.Value.ExactString() != "false" {
									allFalse = false
								}
								last = st
							}
						}
						if last != nil && allFalse && instrDominates(last, ld) {
							okF = true
						}
					}
				}
			}
			c.verdict(okF, "cmd.runVerify:forces-verification", cs.Pos(), "the store is opened with SkipVerify forced to false",
				"the verify command opens its store with the SkipVerify setting of the config file: with \"skip-verify\": true for that location no chunk is checked and a store full of garbage is reported as fine")
		}
	}
	if n == 0 {
		c.bad("cmd.runVerify:forces-verification", fn.Pos(), "the verify command does not open a local store")
	}
}

// c16LocalReadErrors: Verify classifies a chunk by the error of LocalStore.GetChunk.  A chunk
// file that cannot be read (EMFILE with many workers, EACCES, EIO) is neither missing nor
// invalid: the error of the read must come back as it is, or "verify -r" removes valid chunks.
// Path rule: on every path on which ReadFile failed with something else than not-exist,
// GetChunk returns a non-nil error that is not ChunkInvalid/ChunkMissing built from nothing.
func c16LocalReadErrors(c *Ctx) {
	fn := c.mustFn("LocalStore.GetChunk")
	if fn == nil {
		return
	}
	sites := 0
	var bad []string
	h := &Hooks{MaxVisits: 2}
	h.Fork = func(st *State, call *ssa.Call) []map[int]Val {
		switch callee(call) {
		case "io/ioutil.ReadFile", "os.ReadFile":
			sites++
			return []map[int]Val{{0: {N: NNon}, 1: {N: NNil, Class: ClsNil}}, {1: {N: NNon, Class: ClsOther, Sym: "failed:read"}}}
		}
		return nil
	}
	h.Call = func(st *State, call *ssa.Call) map[int]Val {
		if callee(call) == "os.IsNotExist" {
			return map[int]Val{0: {B: BFalse}} // the interesting case: some other error
		}
		if strings.HasSuffix(callee(call), "desync.NewChunkFromStorage") && st.Has("outcome:failed") {
			st.Flags["built-from-failed-read"] = 1
		}
		return nil
	}
	h.Return = func(st *State, ret *ssa.Return, results []Val) {
		if !st.Has("outcome:failed") || len(results) != 2 {
			return
		}
		if st.Flags["built-from-failed-read"] == 1 {
			bad = append(bad, fmt.Sprintf("the chunk is built at %s from whatever a failed read returned", c.pos(ret.Pos())))
			return
		}
		if results[1].Sym != "failed:read" {
			bad = append(bad, fmt.Sprintf("return at %s does not hand back the error of the read (%v)", c.pos(ret.Pos()), results[1]))
		}
	}
	Explore(fn, fn.Blocks[0], 0, nil, NewState(), h)
	c.paths += h.Paths
	switch {
	case sites == 0:
		c.bad("LocalStore.GetChunk:read-errors", fn.Pos(), "GetChunk does not read the chunk file with ReadFile")
	case len(bad) > 0:
		c.bad("LocalStore.GetChunk:read-errors", fn.Pos(), "%s: an unreadable chunk (too many open files with many verify workers, permissions, I/O error) is classified invalid and removed by verify -r, or returned empty under skip-verify", bad[0])
	default:
		c.ok("LocalStore.GetChunk:read-errors", fn.Pos(), "a read error other than not-exist is returned as it is")
	}
}

// c16CanonicalPlace: a file is treated as a chunk of the local store only where the store keeps
// that chunk.  Verify and Prune derive the id from the base name alone; a file with a
// chunk-like name anywhere else under the store (a backup directory, a wrong prefix) made
// Verify report a chunk "missing" that the store never held and made Prune abort at
// RemoveChunk(id) with the unreferenced chunks still in place.  Handing the id on (to the verify
// workers, to RemoveChunk) therefore lies behind a test that involves the directory of the
// walked path.
func c16CanonicalPlace(c *Ctx) {
	acc := func(iff *ssa.If) (bool, bool) {
		cm, truth, ok := cmpOf(iff.Cond)
		if !ok || (cm.op != token.EQL && cm.op != token.NEQ) {
			return false, false
		}
		isDir := func(v ssa.Value) bool {
			return hasOrigin(v, func(o string) bool { return o == "call:path/filepath.Dir#0" })
		}
		if !isDir(cm.x) && !isDir(cm.y) {
			return false, false
		}
		eqOnTrue := (cm.op == token.EQL) == truth
		return eqOnTrue, !eqOnTrue
	}
	for _, key := range []string{"LocalStore.Verify", "LocalStore.Prune", "SFTPStore.Prune"} {
		fn := c.mustFn(key)
		if fn == nil {
			continue
		}
		n := 0
		seen := map[ssa.Instruction]bool{}
		// fn, its closures, the new helpers it calls and their closures: the walk callback may
		// have been moved into a helper that returns it
		instrsAll(fn, func(_ *ssa.BasicBlock, _ int, ins ssa.Instruction) {
			if seen[ins] {
				return
			}
			seen[ins] = true
			g := ins.Parent()
			sink, okText, badText := "", "", ""
			switch x := ins.(type) {
			case *ssa.Send:
				if key == "LocalStore.Verify" && typeName(x.X.Type()) == "desync.ChunkID" {
					sink = "the id is handed to the verify workers"
				}
			case *ssa.Call:
				switch {
				case key == "LocalStore.Prune" && strings.HasSuffix(callee(x), ".RemoveChunk"):
					sink = "RemoveChunk(id)"
				case key == "SFTPStore.Prune" && strings.HasSuffix(callee(x), "sftp.Client).Remove"):
					sink = "Remove(nameFromID(id))"
				}
			}
			if sink == "" {
				return
			}
			n++
			okText = sink + " only for a file found where the store keeps that chunk"
			badText = sink + " for any file whose base name parses as a chunk id, wherever it lies: a stray file with a chunk-like name makes verify report a chunk the store never held and makes prune fail at the removal with the unreferenced chunks still in place"
			okG, _ := guarded(g, ins, acc)
			c.verdict(okG, key+":canonical-place", ins.Pos(), okText, badText)
		})
		if n == 0 {
			c.bad(key+":canonical-place", fn.Pos(), "no site found at which the walk hands an id on")
		}
	}
}

// c16SFTPTemp: the SFTP store uploads a chunk as <name><number> and renames it when it is
// complete; a writer that dies in between leaves that file behind.  Prune of the SFTP store
// removes such files like the local store removes its .tmp-cacnk files: the walk loop removes a
// file *under the path it was found at* (not under a name built from a parsed id) on the edge of
// a predicate over that path.
func c16SFTPTemp(c *Ctx) {
	fn := c.mustFn("SFTPStore.Prune")
	if fn == nil {
		return
	}
	n := 0
	seen := map[ssa.Instruction]bool{}
	instrsAll(fn, func(_ *ssa.BasicBlock, _ int, ins ssa.Instruction) {
		x, ok := ins.(*ssa.Call)
		if !ok || seen[ins] || !strings.HasSuffix(callee(x), "sftp.Client).Remove") || len(x.Call.Args) < 2 {
			return
		}
		seen[ins] = true
		if onlyOrigins(x.Call.Args[1], func(o string) bool { return strings.Contains(o, "Walker).Path#0") || strings.HasPrefix(o, "param:") }) && hasOrigin(x.Call.Args[1], func(o string) bool { return strings.Contains(o, "Walker).Path#0") || strings.HasPrefix(o, "param:") }) {
			n++
			c.ok("SFTPStore.Prune:temp-files", ins.Pos(), "a file is removed under the path it was found at (abandoned temporary upload)")
		}
	})
	if n == 0 {
		c.bad("SFTPStore.Prune:temp-files", fn.Pos(), "SFTPStore.Prune removes files only under names built from a parsed chunk id: the <name><number> file an interrupted upload leaves behind is never removed, prune reports success with abandoned temporary chunk files still in the store")
	}
}
