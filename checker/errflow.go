package main

// E-ERR (path-sensitive form): the error result of selected calls must not be lost.

import (
	"fmt"
	"strings"

	"golang.org/x/tools/go/ssa"
)

// errResultIndex returns the index of the (last) error result of a call, or -1.
func errResultIndex(call ssa.CallInstruction) int {
	res := call.Common().Signature().Results()
	for i := res.Len() - 1; i >= 0; i-- {
		if isErrorType(res.At(i).Type()) {
			return i
		}
	}
	return -1
}

type errPropOpts struct {
	// inline closures handed to these callees (errgroup.Go etc.) are explored as functions of their own
	maxVisits int
	// accept is called for a path on which a matched call failed but the function returned a nil
	// error / has no error result; it returns true if the path handled the error in an accepted way.
	accept func(st *State, ret *ssa.Return) bool
}

// errPropagates explores every path of fn; each call whose callee satisfies match is forked
// into a nil and a non-nil error outcome.  On every path on which such a call failed, the
// function must return a non-nil error (or the path must be accepted by opts.accept).
// It returns the number of matched call sites and the list of violations.
func errPropagates(c *Ctx, fn *ssa.Function, match func(name string, call *ssa.Call) bool, opts errPropOpts) (sites int, bad []string) {
	siteSet := map[*ssa.Call]bool{}
	h := &Hooks{MaxVisits: opts.maxVisits}
	if h.MaxVisits == 0 {
		h.MaxVisits = 2
	}
	h.Fork = func(st *State, call *ssa.Call) []map[int]Val {
		name := callee(call)
		if !match(name, call) {
			return nil
		}
		ei := errResultIndex(call)
		if ei < 0 {
			return nil
		}
		siteSet[call] = true
		markEscapes(st, call)
		okRes := map[int]Val{ei: {N: NNil, Class: ClsNil}}
		// other pointer-like results are non-nil on success
		res := call.Call.Signature().Results()
		for i := 0; i < res.Len(); i++ {
			if i != ei && isPointerLike(res.At(i).Type()) {
				okRes[i] = Val{N: NNon}
			}
		}
		return []map[int]Val{okRes, {ei: {N: NNon, Class: ClsOther, Sym: "failed:" + name}}}
	}
	h.Instr = func(st *State, ins ssa.Instruction) {}
	h.Branch = func(st *State, iff *ssa.If, taken bool) {}
	h.Return = func(st *State, ret *ssa.Return, results []Val) {
		// did a matched call fail on this path, and was its error still "live" (not overwritten by a later success)?
		failed := ""
		for k, v := range st.V {
			_ = k
			if strings.HasPrefix(v.Sym, "failed:") && v.N == NNon {
				failed = strings.TrimPrefix(v.Sym, "failed:")
			}
		}
		if failed == "" {
			return
		}
		for i, r := range ret.Results {
			if isErrorType(r.Type()) {
				if results[i].N == NNon {
					return
				}
			}
		}
		if opts.accept != nil && opts.accept(st, ret) {
			return
		}
		bad = append(bad, fmt.Sprintf("a failure of %s does not make the function fail: return at %s yields a nil/unknown error (trail %s)", failed, c.pos(ret.Pos()), strings.Join(st.Trail, ">")))
	}
	Explore(fn, fn.Blocks[0], 0, nil, NewState(), h)
	c.paths += h.Paths
	if h.Truncated {
		bad = append(bad, "path exploration truncated")
	}
	return len(siteSet), bad
}
