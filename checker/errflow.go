package main

// E-ERR (path-sensitive form): the error result of selected calls must not be lost.

import (
	"fmt"
	"go/token"
	"strings"

	"golang.org/x/tools/go/ssa"
)

// errResultIndex returns the index of the (last) error result of a call, or -1.
func errResultIndex(call ssa.CallInstruction) int {
	res := call.Common().Signature().Results()
	for i := res.Len() - 1; i >= 0; i-- {
		if isErrorType(res.At(i).Type()) {
			return i
		}
	}
	return -1
}

type errPropOpts struct {
	// inline closures handed to these callees (errgroup.Go etc.) are explored as functions of their own
	maxVisits int
	// retryOK: a failed call may be repeated and a later success counts (retry loops)
	retryOK bool
	// accept is called for a path on which a matched call failed but the function returned a nil
	// error / has no error result; it returns true if the path handled the error in an accepted way.
	accept func(st *State, ret *ssa.Return) bool
}

// errPropagates explores every path of fn; each call whose callee satisfies match is forked
// into a nil and a non-nil error outcome.  On every path on which such a call failed, the
// function must return a non-nil error (or the path must be accepted by opts.accept).
// It returns the number of matched call sites and the list of violations.
func errPropagates(c *Ctx, fn *ssa.Function, match func(name string, call *ssa.Call) bool, opts errPropOpts) (sites int, bad []string) {
	siteSet := map[*ssa.Call]bool{}
	h := &Hooks{MaxVisits: opts.maxVisits}
	if h.MaxVisits == 0 {
		h.MaxVisits = 3 // two full iterations of a loop: "fail, then succeed and overwrite the error"
	}
	h.Fork = func(st *State, call *ssa.Call) []map[int]Val {
		name := callee(call)
		if !match(name, call) {
			return nil
		}
		ei := errResultIndex(call)
		if ei < 0 {
			return nil
		}
		siteSet[call] = true
		markEscapes(st, call)
		okRes := map[int]Val{ei: {N: NNil, Class: ClsNil}}
		// other pointer-like results are non-nil on success
		res := call.Call.Signature().Results()
		for i := 0; i < res.Len(); i++ {
			if i != ei && isPointerLike(res.At(i).Type()) {
				okRes[i] = Val{N: NNon}
			}
		}
		// the failure is an error of unknown class: type switches and assertions on it can go either way
		// ("if _, ok := err.(Interrupted); ok { return nil }" must be explored)
		return []map[int]Val{okRes, {ei: {N: NNon, Sym: "failed:" + name}}}
	}
	h.Instr = func(st *State, ins ssa.Instruction) {}
	h.Branch = func(st *State, iff *ssa.If, taken bool) {}
	h.Return = func(st *State, ret *ssa.Return, results []Val) {
		// did a matched call fail on this path, and was its error still "live" (not overwritten by a later success)?
		failed := ""
		for k, v := range st.V {
			_ = k
			if strings.HasPrefix(v.Sym, "failed:") && v.N == NNon {
				failed = strings.TrimPrefix(v.Sym, "failed:")
			}
		}
		// a failure in an earlier iteration of a loop over items stays a failure when a later
		// iteration succeeds and overwrites the error variable ("last error wins"); rules about
		// retry loops opt out
		if failed == "" && !opts.retryOK {
			for _, e := range st.Events {
				if e.Kind == "outcome:failed" {
					failed = e.Arg
				}
			}
		}
		if failed == "" {
			return
		}
		for i, r := range ret.Results {
			if isErrorType(r.Type()) {
				if results[i].N == NNon {
					return
				}
			}
		}
		if opts.accept != nil && opts.accept(st, ret) {
			return
		}
		bad = append(bad, fmt.Sprintf("a failure of %s does not make the function fail: return at %s yields a nil/unknown error (trail %s)", failed, c.pos(ret.Pos()), strings.Join(st.Trail, ">")))
	}
	Explore(fn, fn.Blocks[0], 0, nil, NewState(), h)
	c.paths += h.Paths
	if h.Truncated {
		bad = append(bad, "path exploration truncated")
	}
	return len(siteSet), bad
}

// errFamilies: callees whose error result must not be dropped, by property.
var errFamilies = map[string][]string{
	"C06": {").GetChunk", ").HasChunk", ").StoreChunk", ").RemoveChunk", "desync.NewChunkWithID", "desync.NewChunkFromStorage", "Chunk).Data", "Converters).toStorage", "Converters).fromStorage",
		"desync.ChopFile", "desync.Copy", "desync.ChunkStream", "desync.IndexFromFile", "desync.readChunkFromFile", "cmd.storeCaibxFile", "cmd.readCaibxFile"},
	"C04": {").GetIndex", ").StoreIndex", ").GetIndexReader", "desync.IndexFromReader", "Index).WriteTo", "cmd.storeCaibxFile", "cmd.readCaibxFile"},
	"C05": {"desync.Tar", "desync.UnTar", "desync.UnTarIndex", "desync.tar", "FormatEncoder).Encode", "FormatDecoder).Next", "ArchiveDecoder).Next", "FilesystemWriter).Create*", "LocalFS).Set*"},
	"C01": {"desync.AssembleFile", "SeedSegment).WriteInto", "SeedSegment).Validate", "Plan).Validate", "SeedSequencer).RegenerateInvalidSeeds", "desync.writeChunk", "Seed).RegenerateIndex"},
	"C17": {"desync.VerifyIndex", "fileSeedSegment).Validate"},
}

// dropped-error exceptions: (function key, callee suffix) -> reason
var errDropExceptions = map[string]string{
	"RemoteHTTPIndex.StoreIndex$|Index).WriteTo": "pipe-feeding goroutine: a failed encode closes the pipe early and surfaces as a short upload",
	"S3IndexStore.StoreIndex$|Index).WriteTo":    "pipe-feeding goroutine: a failed encode surfaces as a short upload",
	"SFTPIndexStore.StoreIndex$|Index).WriteTo":  "pipe-feeding goroutine: a failed encode surfaces as a short upload",
	"GCIndexStore.StoreIndex|Index).WriteTo":     "the writer's Close error reports the failed upload",
	"cmd.runInfo|).HasChunk":                     "reporting command: an unreachable cache counts as 'not cached'; no property anchors it",
}

// errorsNotDropped: every call of the property's callee families has its error result looked at
// (tested, returned, stored or passed on) - a purely structural "is the value used at all" rule.
func (c *Ctx) errorsNotDropped(prop string) {
	fams := errFamilies[prop]
	n := 0
	for _, fn := range c.subjects() {
		instrs(fn, func(_ *ssa.BasicBlock, _ int, ins ssa.Instruction) {
			ci, ok := ins.(ssa.CallInstruction)
			if !ok {
				return
			}
			name := callee(ci)
			fam := ""
			for _, f := range fams {
				if strings.HasSuffix(name, f) || (strings.HasSuffix(f, "*") && strings.Contains(name, strings.TrimSuffix(f, "*"))) {
					fam = f
				}
			}
			if fam == "" {
				return
			}
			ei := errResultIndex(ci)
			if ei < 0 {
				return
			}
			n++
			used := false
			switch x := ins.(type) {
			case *ssa.Call:
				if x.Call.Signature().Results().Len() == 1 {
					used = x.Referrers() != nil && len(*x.Referrers()) > 0
				} else {
					for _, r := range *x.Referrers() {
						if ex, ok := r.(*ssa.Extract); ok && ex.Index == ei && ex.Referrers() != nil && len(*ex.Referrers()) > 0 {
							used = true
						}
					}
				}
			case *ssa.Go, *ssa.Defer:
				used = false
			}
			key := fmt.Sprintf("%s:%s", fnKey(fn), name)
			if used {
				return
			}
			// exceptions are keyed by the enclosing top-level function ("F$" = any closure of F), not by closure index
			exKey := fnKey(fn)
			if i := strings.Index(exKey, "$"); i >= 0 {
				exKey = exKey[:i+1]
			}
			if why, ok := errDropExceptions[exKey+"|"+fam]; ok {
				c.info(key, ins.Pos(), "exception: %s", why)
				return
			}
			// the pipe-feeding pattern wherever it lives: the function encodes into an io.PipeWriter
			// and closes it - a failed encode ends the pipe early and surfaces as a short upload
			if fam == "Index).WriteTo" && feedsPipe(ins.Parent(), ci) {
				c.info(key, ins.Pos(), "exception: pipe-feeding function: a failed encode closes the pipe early and surfaces as a short upload")
				return
			}
			c.bad(key, ins.Pos(), "the error returned by %s is dropped (never tested, returned or stored): a failure of this operation is invisible", name)
		})
	}
	c.ok("error-results:"+prop, 0, "%d call sites of the error-returning operations this property depends on; none drops its error (besides the frozen exceptions)", n)
}

// exactReads: io.Reader.Read may return fewer bytes than asked for without an error.  (1) The
// decoding primitives (methods of reader, FormatDecoder, Protocol) never call Read directly -
// fixed-size fields go through io.ReadFull / io.CopyN / ReadN, which loop; (2) anywhere in the
// library the byte count returned by a direct Read call is used.  A short read that is taken for
// a full one decodes a wrong integer and shifts everything after it; it only happens on sources
// that deliver data in pieces (pipes, network bodies, the chunk pipe of untar -i).
func (c *Ctx) exactReads() {
	isRead := func(ci ssa.CallInstruction) bool {
		com := ci.Common()
		var name string
		if com.IsInvoke() {
			name = com.Method.Name()
		} else if f := com.StaticCallee(); f != nil {
			name = f.Name()
		}
		if name != "Read" {
			return false
		}
		sig := com.Signature()
		return sig.Params().Len() == 1 && sig.Params().At(0).Type().String() == "[]byte" && sig.Results().Len() == 2
	}
	direct, prim := 0, 0
	for _, fn := range c.libFuncs() {
		k := fnKey(fn)
		primitive := strings.HasPrefix(k, "reader.") || strings.HasPrefix(k, "FormatDecoder.") || strings.HasPrefix(k, "Protocol.")
		if primitive {
			prim++
		}
		instrs(fn, func(_ *ssa.BasicBlock, _ int, ins ssa.Instruction) {
			ci, ok := ins.(ssa.CallInstruction)
			if ok && strings.HasPrefix(k, "reader.") {
				// "at most n" readers hand back whatever was there without an error when the input ends
				// early: ReadN would return a short slice that every caller takes for n bytes
				switch callee(ci) {
				case "(*bytes.Buffer).ReadFrom", "io.Copy", "io.ReadAll", "io/ioutil.ReadAll", "io.CopyBuffer":
					// fine when the primitive itself insists on the full count: every "return .., nil" lies
					// behind the equal edge of a comparison of the byte count with the requested length
					call, isCall := ins.(*ssa.Call)
					exact := isCall
					nilReturns := 0
					if isCall {
						acc := func(iff *ssa.If) (bool, bool) {
							cm, truth, ok := cmpOf(iff.Cond)
							if !ok || (cm.op != token.EQL && cm.op != token.NEQ) {
								return false, false
							}
							isCount := func(v ssa.Value) bool {
								for _, l := range leaves(v) {
									if c2, idx := callOf(l); c2 == call && idx == 0 {
										return true
									}
								}
								return false
							}
							fromParam := func(v ssa.Value) bool {
								return hasOrigin(v, func(o string) bool { return strings.HasPrefix(o, "param:") })
							}
							if !(isCount(cm.x) && fromParam(cm.y)) && !(isCount(cm.y) && fromParam(cm.x)) {
								return false, false
							}
							eqOnTrue := (cm.op == token.EQL) == truth
							return eqOnTrue, !eqOnTrue
						}
						for _, r := range returnsOf(fn) {
							if n := len(r.Results); n > 0 && isErrorType(r.Results[n-1].Type()) && isNilConst(unspill(r, r.Results[n-1])) {
								nilReturns++
								if okG, _ := guarded(fn, r, acc); !okG {
									exact = false
								}
							}
						}
					}
					if exact && nilReturns > 0 {
						c.ok(k+":"+callee(ci), ins.Pos(), "%s is followed by a check of the byte count against the requested length on every success return", callee(ci))
					} else {
						c.bad(k+":"+callee(ci), ins.Pos(), "a decoding primitive fills its buffer with %s, which treats the end of the input as success: a truncated field is returned as if it were complete; use io.CopyN / io.ReadFull", callee(ci))
					}
				}
			}
			if !ok || !isRead(ci) {
				return
			}
			direct++
			key := k + ":Read"
			if primitive {
				c.bad(key, ins.Pos(), "a decoding primitive calls Read directly: a short read (pipe, network body, chunk boundary of untar -i) is taken for a full field; use io.ReadFull / io.CopyN")
				return
			}
			used := false
			if v, ok := ins.(ssa.Value); ok && v.Referrers() != nil {
				for _, r := range *v.Referrers() {
					if ex, ok := r.(*ssa.Extract); ok && ex.Index == 0 && ex.Referrers() != nil {
						for _, rr := range *ex.Referrers() {
							if _, dbg := rr.(*ssa.DebugRef); !dbg {
								used = true
							}
						}
					}
				}
			}
			c.verdict(used, key, ins.Pos(), "the byte count of the direct Read is used", "the byte count returned by Read is ignored: a short read is taken for a full buffer")
		})
	}
	c.ok("exact-reads", 0, "%d decoding primitive(s) without a direct Read; %d direct Read call(s) elsewhere in the library, byte count used", prim, direct)
}

// feedsPipe: call writes into an *io.PipeWriter that fn also closes (directly or deferred).
func feedsPipe(fn *ssa.Function, call ssa.CallInstruction) bool {
	args := call.Common().Args
	if len(args) < 2 {
		return false
	}
	isPipe := func(v ssa.Value) bool {
		for _, l := range leaves(v) {
			if strings.HasSuffix(l.Type().String(), "io.PipeWriter") {
				return true
			}
			if mi, ok := l.(*ssa.MakeInterface); ok && strings.HasSuffix(mi.X.Type().String(), "io.PipeWriter") {
				return true
			}
		}
		return false
	}
	if !isPipe(args[1]) {
		return false
	}
	closes := false
	instrs(fn, func(_ *ssa.BasicBlock, _ int, ins ssa.Instruction) {
		if ci, ok := ins.(ssa.CallInstruction); ok && ins.Parent() == fn {
			if n := callee(ci); n == "(*io.PipeWriter).Close" || n == "(*io.PipeWriter).CloseWithError" {
				closes = true
			}
		}
	})
	return closes
}
