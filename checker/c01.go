package main

import (
	"fmt"
	"go/token"
	"go/types"
	"sort"
	"strings"

	"golang.org/x/tools/go/ssa"
)

func init() {
	register(&property{
		ID: "C01",
		Explanation: "C01.lock-pairing / C01.guarded-by: lock-set data flow over FileSeed and selfSeed (every acquire released on every return; isInvalid, pos, written, cache only under mu). " +
			"C01.segment-bounds: the construction of an IndexSegment from the sequencer position happens only behind a comparison of that position with len(index.Chunks) (in the constructing function or in every caller). " +
			"C01.writechunk: every nil-returning path of writeChunk is (a) a successful self-seed copy, (b) the equal edge of compare(Digest.Sum(buffer read at c.Start, len c.Size), c.ID), or (c) WriteAt(Data() of GetChunk(c.ID)) at c.Start behind the equal edge of compare(c.Size, len(data)). " +
			"C01.seed-rehash: in the AssembleFile worker, between a seed WriteInto and selfSeed.add lies the range loop over the segment's chunks whose every iteration passes the hash-equal edge or a successful writeChunk. " +
			"C01.truncate: the first worker start is reached only after os.Truncate(name, idx.Length())==nil or on the block-device path. C01.null-skip: nullChunkSection.WriteInto writes nothing only on the isBlank edge, and isBlank is set only after the target was created or found empty. " +
			"C01.validate-first: the feeder sends jobs only behind plan.Validate()==nil; Plan.Validate submits every file-seed candidate; its worker validates and fails on error; fileSeedSegment.Validate re-hashes every chunk of the whole segment. " +
			"C01.plan-tiling: in SeedSequencer.Next first=current, last=current+advance-1, current'=current+advance with advance>=1 (linear forms over SSA). C01.errgroup: workers run under errgroup and success is returned only through g.Wait(). " +
			"C01.chunks-verified (shared with C03): writeChunk only compares sizes, so the output can equal the blob only if every Store.GetChunk returns data that hashes to the requested id: the verifying constructors and all store back ends are checked as under C03.",
		NotDecided: "byte equality of the output, clone-range arithmetic (FICLONERANGE), optimality/termination of re-planning, the self-seed's contiguous-prefix invariant beyond lock discipline, worker interleavings.",
		Rules: []rule{
			{"C01.lock-pairing", "every lock acquired in FileSeed/selfSeed methods is released on every return", 5, func(c *Ctx) { c.lockPairing("FileSeed", "selfSeed") }},
			{"C01.guarded-by", "FileSeed.isInvalid and selfSeed.{pos,written,cache} are accessed only under mu", 8, c01GuardedBy},
			{"C01.segment-bounds", "IndexSegment is built from the sequencer position only behind position < len(index.Chunks)", 1, c01SegmentBounds},
			{"C01.writechunk", "nil return of writeChunk only via self-seed copy, verified in-place reuse, or verified-size store write", 3, c01WriteChunk},
			{"C01.seed-rehash", "seed-copied segment is re-hashed chunk by chunk before it is added to the self seed", 4, c01SeedRehash},
			{"C01.truncate", "workers start only after Truncate(name, idx.Length()) succeeded or on the block-device path", 1, c01Truncate},
			{"C01.null-skip", "null sections are skipped only when the target is known blank", 3, c01NullSkip},
			{"C01.validate-first", "jobs are fed only after plan.Validate()==nil; Validate covers every file-seed candidate and re-hashes every chunk", 5, c01ValidateFirst},
			{"C01.plan-tiling", "plan segments tile the index: first=current, last=current+advance-1, current+=advance, advance>=1", 4, c01PlanTiling},
			{"C01.chunks-verified", "every chunk a store hands to the assembler was verified against the requested id (shared with C03)", 16, func(c *Ctx) { c03CtorVerifies(c); c03Backends(c) }},
			{"C01.cancel-not-success", "a cancelled assembly or plan validation never reports success", 2, func(c *Ctx) { c.doneIsErrorFor("AssembleFile", "Plan.Validate") }},
			{"C01.retry-observes-ctx", "the re-plan loop does not repeat an interrupted validation (assembly never spins; shared with C07)", 1, c07RetryObservesCtx},
			{"C01.errgroup", "assembly workers run under errgroup; success only through g.Wait()", 2, func(c *Ctx) { c.errgroupRule("AssembleFile", "Plan.Validate") }},
			{"C01.worker-errors", "a failed copy, read, write or chunk fetch fails the assembly worker", 1, c01WorkerErrors},
			{"C01.validate-marks-invalid", "every seed failure reported by Plan.Validate marks that seed invalid (re-planning terminates)", 2, c01MarksInvalid},
			{"C01.derived-state", "FileSeed.pos is rebuilt from scratch whenever FileSeed.index is replaced", 2, c01DerivedState},
			{"C01.workers-started", "every loop that starts pool workers starts one per unit of the worker count (none is skipped for n == 1)", 6, func(c *Ctx) { c.workersStarted() }},
			{"C01.feeder-watches-group", "the select that feeds pool workers watches the errgroup context, so a failed worker stops the feeder", 5, func(c *Ctx) { c.feederWatchesGroup() }},
			{"C01.validate-file-keys", "Plan.Validate stores and looks up the open seed files under the same key", 1, c01ValidateFileKeys},
			{"C01.clone-aligned", "block cloning is attempted only for ranges that hold a complete block (no wrapped or zero clone length, no partial copy beyond the range)", 6, c01CloneAligned},
			{"C01.index-in-range", "in the seed matching and planning code every computed slice index is bounded by the length of the slice it indexes", 4, func(c *Ctx) {
				c.indexInRange(map[string]bool{"fileseed.go": true, "selfseed.go": true, "nullseed.go": true, "sequencer.go": true, "seed.go": true}, map[string]string{
					"IndexSegment.start":             "first/last are bounded where the segment is built (C01.segment-bounds, C01.plan-tiling)",
					"IndexSegment.end":               "first/last are bounded where the segment is built (C01.segment-bounds, C01.plan-tiling)",
					"nullChunkSeed.LongestMatchWith": "n counts completed iterations of a range over the same slice; a counting argument, not a comparison",
					"selfSeed.add":                   "the cache holds segment ends taken from index segments; bounded where the segment is built",
				})
			}},
			{"C01.seed-dir-skips-target", "the seed-dir scan is told to skip the index that is being extracted, not the output file", 2, c01SeedDirs},
			{"C01.errors-not-dropped", "no error of the operations this property depends on is dropped", 1, func(c *Ctx) { c.errorsNotDropped("C01") }},
		},
	})
}

func c01GuardedBy(c *Ctx) {
	c.guardedBy(guardedField{"FileSeed", "isInvalid", "mu", "seed excluded from planning"}, nil)
	for _, f := range []string{"pos", "written", "cache"} {
		c.guardedBy(guardedField{"selfSeed", f, "mu", "self-seed prefix state"}, nil)
	}
}

// isLenOfChunks: len(x.Chunks)
func isLenOfChunks(v ssa.Value) bool {
	return hasOrigin(v, func(o string) bool { return o == "len:field:Index.Chunks" })
}

// boundCheck accepts the edge of an If on which  pos < len(index.Chunks)  holds, pos having origin posOrigin.
func boundCheck(posOrigin string) acceptFn {
	isPos := func(v ssa.Value) bool { return hasOrigin(v, func(o string) bool { return o == posOrigin }) }
	return func(iff *ssa.If) (bool, bool) {
		cm, truth, ok := cmpOf(iff.Cond)
		if !ok {
			return false, false
		}
		var holdsOnOp bool
		switch {
		case cm.op == token.LSS && isPos(cm.x) && isLenOfChunks(cm.y): // pos < len
			holdsOnOp = true
		case cm.op == token.GTR && isLenOfChunks(cm.x) && isPos(cm.y): // len > pos
			holdsOnOp = true
		case cm.op == token.GEQ && isPos(cm.x) && isLenOfChunks(cm.y): // pos >= len  (holds on false)
			holdsOnOp = false
		case cm.op == token.LEQ && isLenOfChunks(cm.x) && isPos(cm.y): // len <= pos  (holds on false)
			holdsOnOp = false
		default:
			return false, false
		}
		onTrue := holdsOnOp == truth
		return onTrue, !onTrue
	}
}

func c01SegmentBounds(c *Ctx) {
	// constructions of IndexSegment: stores to IndexSegment.first
	n := 0
	for _, fn := range c.subjects() {
		var site ssa.Instruction
		instrs(fn, func(_ *ssa.BasicBlock, _ int, ins ssa.Instruction) {
			if st, ok := ins.(*ssa.Store); ok {
				if fa, ok := st.Addr.(*ssa.FieldAddr); ok && fieldOf(fa) == "IndexSegment.first" {
					site = st
				}
			}
		})
		if site == nil {
			continue
		}
		n++
		key := fnKey(fn) + ":IndexSegment"
		acc := boundCheck("field:SeedSequencer.current")
		if ok, _ := guarded(fn, site, acc); ok {
			c.ok(key, site.Pos(), "segment built behind current < len(index.Chunks) in the same function")
			continue
		}
		// otherwise every in-package call site must be guarded in its caller
		callers, unguarded := 0, []string{}
		for _, caller := range c.subjects() {
			for _, call := range calls(caller, func(name string) bool { return true }) {
				if c.staticFn(call) != fn {
					continue
				}
				callers++
				if ok, _ := guarded(caller, call, acc); !ok {
					unguarded = append(unguarded, fmt.Sprintf("%s at %s", fnKey(caller), c.pos(call.Pos())))
				}
			}
		}
		switch {
		case callers == 0:
			c.bad(key, site.Pos(), "IndexSegment{first: current, ...} is built without a bound check against len(index.Chunks) and no caller establishes it: an index without chunks yields a segment that indexes out of range")
		case len(unguarded) > 0:
			c.bad(key, site.Pos(), "IndexSegment is built from the sequencer position without current < len(index.Chunks); unguarded caller: %s (an index without chunks makes the assembly worker panic)", unguarded[0])
		default:
			c.ok(key, site.Pos(), "all %d caller(s) establish current < len(index.Chunks) before the segment is built", callers)
		}
	}
	if n == 0 {
		c.bad("IndexSegment", token.NoPos, "no construction of IndexSegment found")
	}
}

// hashEqualEdges returns the edges on which compare(Digest.Sum(..), <chunk>.ID) is equal.
func hashEqualEdges(fn *ssa.Function) (eq, neq map[edge]bool, sites []*ssa.If) {
	eq, neq = map[edge]bool{}, map[edge]bool{}
	// the digest computed here and now - not a value that may also come from somewhere else (a
	// memo table keyed by the expected ID compares the ID with itself)
	isSum := func(v ssa.Value) bool {
		return onlyOrigins(v, func(o string) bool { return strings.Contains(o, "call:(desync.HashAlgorithm).Sum#0") })
	}
	isID := func(v ssa.Value) bool {
		return hasOrigin(v, func(o string) bool { return o == "field:IndexChunk.ID" || o == "elem:field:IndexChunk.ID" })
	}
	var blocks []*ssa.BasicBlock
	for _, g := range fnsDeep(fn) {
		blocks = append(blocks, g.Blocks...)
	}
	for _, b := range blocks {
		iff := lastIf(b)
		if iff == nil {
			continue
		}
		if eqOnTrue, ok := equalEdge(iff, isSum, isID); ok {
			sites = append(sites, iff)
			if eqOnTrue {
				eq[edge{b, b.Succs[0]}] = true
				neq[edge{b, b.Succs[1]}] = true
			} else {
				eq[edge{b, b.Succs[1]}] = true
				neq[edge{b, b.Succs[0]}] = true
			}
		}
	}
	// the comparison behind a predicate ("present, err := holdsChunk(f, c); if present") or a flag
	for _, g := range fnsDeep(fn) {
		for e := range acceptingEdgesDeep(g, hashEqualAcc, 0) {
			if eq[e] {
				continue
			}
			iff := lastIf(e.from)
			if iff == nil {
				continue
			}
			sites = append(sites, iff)
			eq[e] = true
			for _, s := range e.from.Succs {
				if s != e.to {
					neq[edge{e.from, s}] = true
				}
			}
		}
	}
	return
}

// hashEqualAcc: the edge on which Digest.Sum(..) equals the chunk's ID.
func hashEqualAcc(iff *ssa.If) (bool, bool) {
	// the digest computed here and now - not a value that may also come from somewhere else (a
	// memo table keyed by the expected ID compares the ID with itself)
	isSum := func(v ssa.Value) bool {
		return onlyOrigins(v, func(o string) bool { return strings.Contains(o, "call:(desync.HashAlgorithm).Sum#0") })
	}
	isID := func(v ssa.Value) bool {
		return hasOrigin(v, func(o string) bool { return o == "field:IndexChunk.ID" || o == "elem:field:IndexChunk.ID" })
	}
	eqOnTrue, ok := equalEdge(iff, isSum, isID)
	if !ok {
		return false, false
	}
	return eqOnTrue, !eqOnTrue
}

// rehashReads checks that the buffer hashed by Digest.Sum in fn was filled by ReadAt at the
// chunk's Start and allocated with the chunk's Size.
func (c *Ctx) rehashReads(fn *ssa.Function, key string) {
	sums := calls(fn, named("(desync.HashAlgorithm).Sum"))
	if len(sums) == 0 {
		c.bad(key+":rehash-buffer", fn.Pos(), "no Digest.Sum call")
		return
	}
	for _, s := range sums {
		buf := stripSlices(s.Common().Args[0])
		ok := false
		detail := "the hashed buffer is not read from the file at the chunk's offset"
		for _, r := range calls(fn, named("(*os.File).ReadAt")) {
			a := r.Common().Args
			if stripSlices(a[1]) != buf {
				continue
			}
			ms, isMake := buf.(*ssa.MakeSlice)
			if !isMake {
				detail = "the hashed buffer is not a fresh make([]byte, c.Size)"
				continue
			}
			sizeOK := hasOrigin(ms.Len, func(o string) bool { return strings.HasSuffix(o, "field:IndexChunk.Size") })
			offOK := hasOrigin(a[2], func(o string) bool { return strings.HasSuffix(o, "field:IndexChunk.Start") })
			if sizeOK && offOK && instrDominates(r, s.(ssa.Instruction)) {
				ok = true
			} else {
				detail = fmt.Sprintf("buffer size origins %v, read offset origins %v", origins(ms.Len), origins(a[2]))
			}
		}
		c.verdict(ok, key+":rehash-buffer", s.Pos(), "Digest.Sum hashes make([]byte, c.Size) filled by ReadAt(.., c.Start)", detail)
	}
}

func c01WriteChunk(c *Ctx) {
	fn := c.mustFn("writeChunk")
	if fn == nil {
		return
	}
	eq, _, sites := hashEqualEdges(fn)
	c.verdict(len(sites) >= 1, "writeChunk:hash-compare", fn.Pos(), "compare(Digest.Sum(b), c.ID) present", "writeChunk no longer compares the hash of the existing range with the chunk ID")
	c.rehashReads(fn, "writeChunk")
	// size compare
	sizeEq := edgesWhere(fn, func(iff *ssa.If) (bool, bool) {
		eqOnTrue, ok := equalEdge(iff, originHas("field:IndexChunk.Size"), originHas("len:call:(*desync.Chunk).Data#0"))
		if !ok {
			return false, false
		}
		return eqOnTrue, !eqOnTrue
	})
	var bad []string
	nilPaths := 0
	h := &Hooks{
		Fork: func(st *State, call *ssa.Call) []map[int]Val {
			name := callee(call)
			switch name {
			case "(desync.SeedSegment).WriteInto":
				return []map[int]Val{{2: {N: NNil, Class: ClsNil, Sym: "selfseed-ok"}}, {2: {N: NNon, Class: ClsOther}}}
			case "(*os.File).WriteAt":
				a := call.Call.Args
				// (a fetching helper contributes its nil failure results, which the error check excludes)
				dataOK := hasOrigin(a[1], func(o string) bool { return o == "call:(*desync.Chunk).Data#0" }) &&
					onlyOrigins(a[1], func(o string) bool { return o == "call:(*desync.Chunk).Data#0" || o == "const:nil" })
				offOK := hasOrigin(a[2], func(o string) bool { return o == "field:IndexChunk.Start" })
				sym := "store-write-ok"
				if !dataOK || !offOK {
					sym = "store-write-wrong-args"
				}
				return []map[int]Val{{1: {N: NNil, Class: ClsNil, Sym: sym}}, {1: {N: NNon, Class: ClsOther}}}
			case "(desync.Store).GetChunk":
				idOK := onlyOrigins(call.Call.Args[0], func(o string) bool { return o == "field:IndexChunk.ID" })
				sym := "get-ok"
				if !idOK {
					sym = "get-wrong-id"
				}
				return []map[int]Val{{0: {N: NNon, Sym: sym}, 1: {N: NNil, Class: ClsNil}}, {1: {N: NNon, Class: ClsOther}}}
			}
			return nil
		},
		Branch: func(st *State, iff *ssa.If, taken bool) {
			b := iff.Block()
			to := b.Succs[1]
			if taken {
				to = b.Succs[0]
			}
			if eq[edge{b, to}] {
				st.Flags["hash-equal"] = 1
			}
			if sizeEq[edge{b, to}] {
				st.Flags["size-equal"] = 1
			}
		},
		Return: func(st *State, ret *ssa.Return, results []Val) {
			if len(results) != 1 || results[0].N == NNon {
				return
			}
			nilPaths++
			syms := map[string]bool{}
			for _, v := range st.V {
				if v.Sym != "" {
					syms[v.Sym] = true
				}
			}
			switch {
			case syms["selfseed-ok"] && !syms["store-write-ok"] && st.Flags["hash-equal"] == 0:
				return
			case st.Flags["hash-equal"] == 1:
				return
			case syms["store-write-ok"] && syms["get-ok"] && st.Flags["size-equal"] == 1:
				return
			}
			bad = append(bad, fmt.Sprintf("writeChunk returns nil at %s on a path that is neither a self-seed copy, nor a verified in-place reuse, nor a size-checked write of the store's data for c.ID at c.Start (facts: %v hash-equal=%d size-equal=%d; trail %s)",
				c.pos(ret.Pos()), keysOf(syms), st.Flags["hash-equal"], st.Flags["size-equal"], strings.Join(st.Trail, ">")))
		},
	}
	Explore(fn, fn.Blocks[0], 0, nil, NewState(), h)
	c.paths += h.Paths
	switch {
	case len(bad) > 0:
		c.bad("writeChunk:nil-paths", fn.Pos(), "%s", bad[0])
	case nilPaths < 3:
		c.bad("writeChunk:nil-paths", fn.Pos(), "expected at least the three success paths (self seed, in place, store), found %d", nilPaths)
	default:
		c.ok("writeChunk:nil-paths", fn.Pos(), "%d success path(s), each justified (self-seed copy / hash-equal in-place reuse / size-equal store write)", nilPaths)
	}
}

func keysOf(m map[string]bool) []string {
	var out []string
	for k := range m {
		out = append(out, k)
	}
	return out
}

// assembleWorker returns the worker closure of AssembleFile (the closure handed to errgroup.Go
// that receives jobs).
func (c *Ctx) assembleWorker() *ssa.Function {
	fn := c.fn("AssembleFile")
	if fn == nil {
		return nil
	}
	for _, cl := range closures(fn) {
		if len(calls(cl, named("(desync.SeedSegment).WriteInto"))) > 0 {
			return cl
		}
	}
	return nil
}

func c01SeedRehash(c *Ctx) {
	w := c.assembleWorker()
	if w == nil {
		c.bad("AssembleFile:worker", token.NoPos, "worker closure of AssembleFile (the one calling SeedSegment.WriteInto) not found")
		return
	}
	key := "AssembleFile.worker"
	wi := calls(w, named("(desync.SeedSegment).WriteInto"))
	adds := calls(w, named("(*desync.selfSeed).add"))
	if len(wi) != 1 || len(adds) == 0 {
		c.bad(key+":shape", w.Pos(), "expected one seed WriteInto and at least one selfSeed.add in the worker, found %d / %d", len(wi), len(adds))
		return
	}
	W := wi[0].(ssa.Instruction)
	// the add that follows the seed copy
	var A ssa.Instruction
	for _, a := range adds {
		if instrDominates(W, a.(ssa.Instruction)) {
			A = a.(ssa.Instruction)
		}
	}
	if A == nil {
		c.bad(key+":shape", w.Pos(), "no selfSeed.add is dominated by the seed WriteInto")
		return
	}
	// WriteInto's error is checked: add only on its nil edge
	okG, _ := guarded(w, A, nilEdgeOf(func(o string) bool { return o == "call:(desync.SeedSegment).WriteInto#2" }))
	c.verdict(okG, key+":copy-error", A.Pos(), "selfSeed.add after a seed copy only on the nil-error edge of WriteInto", "the segment is added to the self seed although the seed copy failed")
	// the range loop over job.segment.chunks()
	header, body, _ := loopOverLen(w, func(os []string) bool {
		// the ranged slice is the segment's chunk list and nothing else (not nil or another list on some path)
		return len(os) == 1 && hasAll(os, "call:(desync.IndexSegment).chunks#0")
	})
	if header == nil {
		c.bad(key+":rehash-loop", A.Pos(), "no loop over the whole of job.segment.chunks() between the seed copy and selfSeed.add: copied data is trusted without re-hashing")
		return
	}
	hdrIf := lastIf(header)
	c.verdict(instrDominates(W, hdrIf) && (header.Parent() == A.Parent() && header.Dominates(A.Block()) || instrDominates(hdrIf, A)), key+":rehash-loop", hdrIf.Pos(),
		"the re-hash loop lies between the seed copy and selfSeed.add on every path", "selfSeed.add can be reached from the seed copy without passing the re-hash loop")
	eq, _, sites := hashEqualEdges(w)
	okW := edgesWhere(w, nilEdgeOf(func(o string) bool { return o == "call:desync.writeChunk#0" }))
	pass := map[edge]bool{}
	for e := range eq {
		pass[e] = true
	}
	for e := range okW {
		pass[e] = true
	}
	c.verdict(len(sites) > 0 && bodyMustPass(header, body, pass), key+":rehash-every-chunk", hdrIf.Pos(),
		"every iteration passes the hash-equal edge or a successful writeChunk before the next chunk", "an iteration of the re-hash loop can continue without the hash having been found equal and without a successful writeChunk: corrupted seed data would stay in the output")
	c.rehashReads(w, key)
}

func c01Truncate(c *Ctx) {
	fn := c.mustFn("AssembleFile")
	if fn == nil {
		return
	}
	var bad []string
	reached := 0
	h := &Hooks{
		MaxVisits: 2,
		Fork: func(st *State, call *ssa.Call) []map[int]Val {
			switch callee(call) {
			case "os.Truncate":
				a := call.Call.Args
				argsOK := onlyOrigins(a[0], func(o string) bool { return o == "param:name" }) && hasOrigin(a[1], func(o string) bool { return strings.Contains(o, "desync.Index).Length#0") })
				sym := "truncated"
				if !argsOK {
					sym = "truncated-wrong-args"
				}
				return []map[int]Val{{0: {N: NNil, Class: ClsNil, Sym: sym}}, {0: {N: NNon, Class: ClsOther}}}
			case "desync.isDevice":
				return []map[int]Val{{0: {B: BTrue, Sym: "is-device"}}, {0: {B: BFalse}}}
			}
			return nil
		},
		Call: func(st *State, call *ssa.Call) map[int]Val {
			if callee(call) == "(*golang.org/x/sync/errgroup.Group).Go" && st.Flags["go"] == 0 {
				st.Flags["go"] = 1
				reached++
				trunc, dev := false, false
				for _, v := range st.V {
					if v.Sym == "truncated" {
						trunc = true
					}
					if v.Sym == "is-device" && v.B == BTrue {
						dev = true
					}
				}
				if !trunc && !dev {
					bad = append(bad, fmt.Sprintf("the first worker is started at %s on a path without a successful os.Truncate(name, idx.Length()) although the target is not a block device (trail %s)", "assemble.go", strings.Join(st.Trail, ">")))
				}
			}
			return nil
		},
		Stop: func(st *State) bool { return st.Flags["go"] == 1 },
	}
	Explore(fn, fn.Blocks[0], 0, nil, NewState(), h)
	c.paths += h.Paths
	switch {
	case len(bad) > 0:
		c.bad("AssembleFile:truncate", fn.Pos(), "%s", bad[0])
	case reached == 0:
		c.bad("AssembleFile:truncate", fn.Pos(), "no worker start (errgroup.Go) reachable")
	default:
		c.ok("AssembleFile:truncate", fn.Pos(), "%d path(s) to the first worker start, each after Truncate(name, idx.Length())==nil or on the block-device path", reached)
	}
}

func c01NullSkip(c *Ctx) {
	// (a) nullChunkSection.WriteInto: a success return without copy/clone only on the isBlank edge
	if fn := c.mustFn("nullChunkSection.WriteInto"); fn != nil {
		n := 0
		for _, r := range returnsOf(fn) {
			if len(r.Results) != 3 || !isNilConst(r.Results[2]) {
				continue
			}
			// a return of constants = nothing was written
			if _, ok := r.Results[0].(*ssa.Const); !ok {
				continue
			}
			n++
			okG, _ := guarded(fn, r, func(iff *ssa.If) (bool, bool) {
				if _, isBin := iff.Cond.(*ssa.BinOp); isBin {
					return false, false
				}
				_, truth, _ := cmpOf(iff.Cond)
				if !onlyOrigins(stripNot(iff.Cond), func(o string) bool { return o == "param:isBlank" }) {
					return false, false
				}
				return truth, !truth
			})
			c.verdict(okG, "nullChunkSection.WriteInto:skip", r.Pos(), "the write-nothing return is reachable only on the isBlank edge", "a null section is skipped although the target range is not known to be blank: stale bytes of the old file would remain")
		}
		if n == 0 {
			c.info("nullChunkSection.WriteInto:skip", fn.Pos(), "no write-nothing return (every path copies or clones)")
			c.ok("nullChunkSection.WriteInto:skip", fn.Pos(), "no path skips the write")
		}
	}
	// (b) AssembleFile: isBlank = true only after create or on size==0
	fn := c.mustFn("AssembleFile")
	if fn == nil {
		return
	}
	var cell *ssa.Alloc
	instrs(fn, func(_ *ssa.BasicBlock, _ int, ins ssa.Instruction) {
		if a, ok := ins.(*ssa.Alloc); ok && a.Comment == "isBlank" {
			cell = a
		}
	})
	if cell == nil {
		c.bad("AssembleFile:isBlank", fn.Pos(), "variable isBlank not found")
		return
	}
	n := 0
	for _, st := range storesTo(cell) {
		if st.Parent() != fn {
			c.bad("AssembleFile:isBlank", st.Pos(), "isBlank is written outside AssembleFile's own body")
			continue
		}
		sites, okS := trueSources(st.Val, st, 0)
		if !okS {
			c.bad("AssembleFile:isBlank", st.Pos(), "isBlank is set from a value whose origin is not understood (neither a constant nor the result of a helper that returns constants)")
			n++
			continue
		}
		for _, site := range sites {
			n++
			created, _ := guarded(site.Parent(), site, func(iff *ssa.If) (bool, bool) {
				if hasOrigin(iff.Cond, func(o string) bool { return o == "call:os.IsNotExist#0" }) {
					_, truth, _ := cmpOf(iff.Cond)
					return truth, !truth
				}
				return false, false
			})
			createdOK := false
			if created {
				okC, _ := guarded(site.Parent(), site, nilEdgeOf(func(o string) bool { return o == "call:os.Create#1" }))
				createdOK = okC
			}
			empty, _ := guarded(site.Parent(), site, func(iff *ssa.If) (bool, bool) {
				eqOnTrue, ok := equalEdge(iff, originHas("FileInfo).Size#0"), func(v ssa.Value) bool { return hasOrigin(v, func(o string) bool { return o == "const:0" }) })
				if !ok {
					return false, false
				}
				return eqOnTrue, !eqOnTrue
			})
			c.verdict(createdOK || empty, "AssembleFile:isBlank", site.Pos(), "isBlank=true only after the target was created (IsNotExist + Create ok) or found empty (Size()==0)",
				"isBlank is set for a target that may hold old data: null sections and verified-reuse would be skipped over stale bytes")
		}
	}
	if n == 0 {
		c.bad("AssembleFile:isBlank", fn.Pos(), "isBlank is never set")
	}
}

// trueSources lists the places at which a boolean value becomes true: the store or return of the
// constant true, the jump into a phi that carries it, looking through locals and through the
// results of new helper functions.  ok is false when a contribution is not a constant.
func trueSources(v ssa.Value, at ssa.Instruction, depth int) (sites []ssa.Instruction, ok bool) {
	if depth > 6 {
		return nil, false
	}
	switch x := v.(type) {
	case *ssa.Const:
		if isTrueConst(x) {
			return []ssa.Instruction{at}, true
		}
		return nil, true
	case *ssa.Phi:
		for i, e := range x.Edges {
			pred := x.Block().Preds[i]
			if e == v || len(pred.Instrs) == 0 {
				continue
			}
			s, okE := trueSources(e, pred.Instrs[len(pred.Instrs)-1], depth+1)
			if !okE {
				return nil, false
			}
			sites = append(sites, s...)
		}
		return sites, true
	case *ssa.Extract:
		call, isCall := x.Tuple.(*ssa.Call)
		if !isCall {
			return nil, false
		}
		h := call.Call.StaticCallee()
		if h == nil || !newHelpers[h] || len(h.Blocks) == 0 {
			return nil, false
		}
		for _, r := range returnsOf(h) {
			if x.Index >= len(r.Results) {
				return nil, false
			}
			s, okR := trueSources(unspill(r, r.Results[x.Index]), r, depth+1)
			if !okR {
				return nil, false
			}
			sites = append(sites, s...)
		}
		return sites, true
	case *ssa.UnOp:
		if a, isAlloc := x.X.(*ssa.Alloc); isAlloc && x.Op == token.MUL {
			for _, st := range storesTo(a) {
				s, okS := trueSources(st.Val, st, depth+1)
				if !okS {
					return nil, false
				}
				sites = append(sites, s...)
			}
			return sites, true
		}
	}
	return nil, false
}

func stripNot(v ssa.Value) ssa.Value {
	for {
		u, ok := v.(*ssa.UnOp)
		if !ok || u.Op != token.NOT {
			return v
		}
		v = u.X
	}
}

func isTrueConst(c *ssa.Const) bool {
	return c.Value != nil && c.Value.ExactString() == "true"
}

func c01ValidateFirst(c *Ctx) {
	// 1. AssembleFile: jobs are sent only behind plan.Validate()==nil
	if fn := c.mustFn("AssembleFile"); fn != nil {
		n := 0
		instrs(fn, func(_ *ssa.BasicBlock, _ int, ins ssa.Instruction) {
			sel, ok := ins.(*ssa.Select)
			if !ok {
				return
			}
			for _, s := range sel.States {
				if s.Dir != 1 /* SendOnly */ || s.Send == nil {
					continue
				}
				n++
				okG, _ := guarded(fn, sel, nilEdgeOf(func(o string) bool { return o == "call:(desync.Plan).Validate#0" }))
				c.verdict(okG, "AssembleFile:feed-after-validate", sel.Pos(), "jobs are fed only behind the nil edge of plan.Validate", "jobs can be fed to the workers although the plan was not validated successfully")
			}
		})
		if n == 0 {
			c.bad("AssembleFile:feed-after-validate", fn.Pos(), "no job send found")
		}
	}
	// 2. Plan.Validate: every candidate is sent unless !isFileSeed()
	if fn := c.mustFn("Plan.Validate"); fn != nil {
		var send *ssa.Select
		instrs(fn, func(_ *ssa.BasicBlock, _ int, ins ssa.Instruction) {
			if sel, ok := ins.(*ssa.Select); ok {
				for _, s := range sel.States {
					if s.Send != nil {
						send = sel
					}
				}
			}
		})
		if send == nil {
			c.bad("Plan.Validate:feeds-every-fileseed", fn.Pos(), "no job send found in Plan.Validate")
		} else {
			// innermost loop header around the send
			var header *ssa.BasicBlock
			for _, b := range fn.Blocks {
				if b != send.Block() && b.Dominates(send.Block()) && reachableFrom(send.Block(), nil)[b] && lastIf(b) != nil {
					if header == nil || header.Dominates(b) {
						header = b
					}
				}
			}
			// the skip edge: !isFileSeed()
			skip := edgesWhere(fn, func(iff *ssa.If) (bool, bool) {
				if !hasOrigin(iff.Cond, func(o string) bool { return o == "call:(desync.SeedSegmentCandidate).isFileSeed#0" }) {
					return false, false
				}
				_, truth, _ := cmpOf(iff.Cond)
				return !truth, truth // accepted = isFileSeed false
			})
			// find outermost loop header instead (range loop): take the header that dominates all others
			for _, b := range fn.Blocks {
				if b != send.Block() && b.Dominates(send.Block()) && reachableFrom(send.Block(), nil)[b] && lastIf(b) != nil {
					if b.Dominates(header) && b != header {
						// keep the innermost loop that still contains the isFileSeed test
					}
				}
			}
			okLoop := false
			if header != nil {
				// find the range loop header: walk up dominators until a header whose body contains the isFileSeed test
				cand := header
				for cand != nil {
					if lastIf(cand) != nil && reachableFrom(send.Block(), nil)[cand] {
						pass := map[edge]bool{}
						for e := range skip {
							pass[e] = true
						}
						for _, s := range send.Block().Succs {
							pass[edge{send.Block(), s}] = true
						}
						for _, succ := range cand.Succs {
							if reachableFrom(succ, nil)[send.Block()] && succ != cand {
								if bodyMustPass(cand, succ, pass) && len(skip) > 0 {
									okLoop = true
								}
							}
						}
					}
					cand = cand.Idom()
				}
			}
			c.verdict(okLoop, "Plan.Validate:feeds-every-fileseed", send.Pos(), "every plan entry is submitted for validation or leaves through the !isFileSeed() edge",
				"a plan entry can be skipped without validation although it is a file seed")
		}
		// 3. the worker validates and propagates
		for _, cl := range closures(fn) {
			if len(calls(cl, named("(desync.SeedSegment).Validate"))) == 0 {
				continue
			}
			sites, bad := errPropagates(c, cl, func(name string, _ *ssa.Call) bool { return name == "(desync.SeedSegment).Validate" }, errPropOpts{maxVisits: 3})
			switch {
			case len(bad) > 0:
				c.bad("Plan.Validate.worker:errors", cl.Pos(), "%s", bad[0])
			default:
				c.ok("Plan.Validate.worker:errors", cl.Pos(), "%d Validate call(s); a failed validation fails the worker", sites)
			}
			// a failed validation marks the seed invalid
			marks := calls(cl, named("(desync.Seed).SetInvalid"))
			c.verdict(len(marks) > 0, "Plan.Validate.worker:set-invalid", cl.Pos(), "a failed validation marks the seed invalid", "the seed is not marked invalid after a failed validation: re-planning would choose it again")
		}
	}
	// 4. fileSeedSegment.Validate re-hashes every chunk of the whole segment
	c.validateRehashAll("C01")
}

// validateRehashAll: fileSeedSegment.Validate ranges over the whole of s.chunks, every iteration
// passes the hash-equal edge, and nil is returned only after the loop.
func (c *Ctx) validateRehashAll(prefix string) {
	fn := c.mustFn("fileSeedSegment.Validate")
	if fn == nil {
		return
	}
	key := "fileSeedSegment.Validate"
	header, body, _ := loopOverLen(fn, func(os []string) bool { return len(os) == 1 && hasAll(os, "field:fileSeedSegment.chunks") })
	if header == nil {
		c.bad(key+":loop", fn.Pos(), "no loop over the whole of s.chunks: not every chunk of the segment is re-hashed")
		return
	}
	eq, _, sites := hashEqualEdges(fn)
	// the comparison may sit behind a helper whose nil result is reached only through the equal edge
	for e := range acceptingEdgesDeep(fn, hashEqualAcc, 0) {
		eq[e] = true
	}
	c.verdict(len(sites) > 0 && bodyMustPass(header, body, eq), key+":every-chunk", lastIf(header).Pos(), "every iteration passes the hash-equal edge", "an iteration can continue although the chunk's hash was not found equal to its ID")
	okRet := true
	n := 0
	for _, r := range returnsOf(fn) {
		if len(r.Results) == 1 && isNilConst(r.Results[0]) {
			n++
			if !header.Dominates(r.Block()) || reachableFrom(body, nil)[r.Block()] && !reachableFrom(header.Succs[1], nil)[r.Block()] {
				okRet = false
			}
			// the nil return must not be reachable from inside the body without going through the header
			removed := map[edge]bool{}
			for _, s := range header.Succs {
				if s != body {
					removed[edge{header, s}] = true
				}
			}
			if reachableFrom(body, removed)[r.Block()] {
				okRet = false
			}
		}
	}
	c.verdict(okRet && n > 0, key+":nil-after-loop", fn.Pos(), "nil is returned only when the loop is exhausted", "Validate can return nil before every chunk was compared")
	c.rehashReads(fn, key)
}

// ---------------------------------------------------------------------------------------
// linear forms over SSA integers

type linform struct {
	atoms map[string]int
	k     int64
	ok    bool
}

func (l linform) String() string {
	var parts []string
	for a, n := range l.atoms {
		if n != 0 {
			parts = append(parts, fmt.Sprintf("%d*%s", n, a))
		}
	}
	sort.Strings(parts)
	return fmt.Sprintf("%v%+d", parts, l.k)
}

func (l linform) equal(o linform) bool {
	if !l.ok || !o.ok || l.k != o.k {
		return false
	}
	for a, n := range l.atoms {
		if o.atoms[a] != n {
			return false
		}
	}
	for a, n := range o.atoms {
		if l.atoms[a] != n {
			return false
		}
	}
	return true
}

func (l linform) add(o linform, sign int) linform {
	r := linform{atoms: map[string]int{}, k: l.k + int64(sign)*o.k, ok: l.ok && o.ok}
	for a, n := range l.atoms {
		r.atoms[a] += n
	}
	for a, n := range o.atoms {
		r.atoms[a] += sign * n
	}
	return r
}

// linear computes the linear form of an integer SSA value: constants, +, -, conversions;
// field loads are atoms named by their field, phis and everything else atoms by identity
// (naming function atomName can give stable names).
func linear(v ssa.Value, atomName func(ssa.Value) string, depth int) linform {
	switch x := v.(type) {
	case *ssa.Const:
		if x.Value != nil {
			if !constFitsInt64(x) {
				// an unsigned constant above MaxInt64 (math.MaxUint64): not a number the int64
				// arithmetic of the forms can hold - "n > MaxUint64" bounds nothing
				return linform{atoms: map[string]int{"const:" + x.Value.ExactString(): 1}, ok: true}
			}
			return linform{atoms: map[string]int{}, k: constInt64(x), ok: true}
		}
	case *ssa.BinOp:
		if depth < 8 && (x.Op == token.ADD || x.Op == token.SUB) {
			a, b := linear(x.X, atomName, depth+1), linear(x.Y, atomName, depth+1)
			if x.Op == token.ADD {
				return a.add(b, 1)
			}
			return a.add(b, -1)
		}
	case *ssa.Convert:
		return linear(x.X, atomName, depth+1)
	case *ssa.ChangeType:
		return linear(x.X, atomName, depth+1)
	}
	return linform{atoms: map[string]int{atomName(v): 1}, ok: true}
}

func c01PlanTiling(c *Ctx) {
	fn := c.mustFn("SeedSequencer.Next")
	if fn == nil {
		return
	}
	atom := func(v ssa.Value) string {
		if u, ok := v.(*ssa.UnOp); ok && u.Op == token.MUL {
			if fa, ok := u.X.(*ssa.FieldAddr); ok {
				return "field:" + fieldOf(fa)
			}
		}
		if p, ok := v.(*ssa.Phi); ok {
			return "phi:" + p.Comment
		}
		return fmt.Sprintf("%s@%p", v.Name(), v)
	}
	var first, last, cur linform
	var curStore *ssa.Store
	var firstStore *ssa.Store
	instrs(fn, func(_ *ssa.BasicBlock, _ int, ins ssa.Instruction) {
		st, ok := ins.(*ssa.Store)
		if !ok {
			return
		}
		fa, ok := st.Addr.(*ssa.FieldAddr)
		if !ok {
			return
		}
		switch fieldOf(fa) {
		case "IndexSegment.first":
			first = linear(st.Val, atom, 0)
			firstStore = st
		case "IndexSegment.last":
			last = linear(st.Val, atom, 0)
		case "SeedSequencer.current":
			cur = linear(st.Val, atom, 0)
			curStore = st
		}
	})
	if !first.ok || !last.ok || !cur.ok || curStore == nil || firstStore == nil {
		c.bad("SeedSequencer.Next:forms", fn.Pos(), "cannot find the stores to IndexSegment.first/last and SeedSequencer.current")
		return
	}
	current := linform{atoms: map[string]int{"field:SeedSequencer.current": 1}, ok: true}
	c.verdict(first.equal(current), "SeedSequencer.Next:first", firstStore.Pos(), "first = current", "segment.first is not the sequencer position: "+first.String())
	// advance := last - first + 1 must be a single atom with coefficient 1 (the phi 'advance')
	adv := last.add(first, -1).add(linform{atoms: map[string]int{}, k: 1, ok: true}, 1)
	nz, name := 0, ""
	for a, n := range adv.atoms {
		if n != 0 {
			nz++
			name = a
			if n != 1 {
				nz = 99
			}
		}
	}
	c.verdict(adv.ok && adv.k == 0 && nz == 1 && strings.HasPrefix(name, "phi:"), "SeedSequencer.Next:last", firstStore.Pos(), "last = current + advance - 1", "segment.last is not current+advance-1: last-first+1 = "+adv.String())
	// current' - current == advance
	step := cur.add(current, -1)
	c.verdict(step.equal(adv), "SeedSequencer.Next:advance", curStore.Pos(), "current' = current + advance (the next segment starts where this one ends)", fmt.Sprintf("the sequencer advances by %s but the segment covers %s chunk(s): positions would be skipped or repeated", step, adv))
	// the segment literal uses the position before it is advanced
	c.verdict(instrDominates(firstStore, curStore), "SeedSequencer.Next:order", curStore.Pos(), "the segment is built before the position is advanced", "the position is advanced before the segment is built")
	// advance >= 1: phi edges are const 1 or a value guarded by n > 0
	var phi *ssa.Phi
	instrs(fn, func(_ *ssa.BasicBlock, _ int, ins ssa.Instruction) {
		if p, ok := ins.(*ssa.Phi); ok && "phi:"+p.Comment == name {
			phi = p
		}
	})
	if phi == nil {
		c.bad("SeedSequencer.Next:advance-positive", fn.Pos(), "advance is not a phi of the loop")
		return
	}
	okAdv := true
	detail := ""
	var checkEdge func(v ssa.Value, depth int)
	checkEdge = func(v ssa.Value, depth int) {
		switch x := v.(type) {
		case *ssa.Const:
			if constInt64(x) < 1 {
				okAdv = false
				detail = "advance can be " + x.Value.ExactString()
			}
		case *ssa.Phi:
			if depth > 4 {
				return
			}
			if x == phi && depth > 0 {
				return
			}
			for _, e := range x.Edges {
				checkEdge(e, depth+1)
			}
		default:
			// must be guarded by v > 0 where it is chosen: find the If on v > 0 that dominates the phi's incoming block
			found := false
			for _, b := range fn.Blocks {
				iff := lastIf(b)
				if iff == nil {
					continue
				}
				cm, truth, ok := cmpOf(iff.Cond)
				if ok && cm.op == token.GTR && cm.x == v && truth {
					if cst, ok := cm.y.(*ssa.Const); ok && constInt64(cst) >= 0 {
						found = true
					}
				}
			}
			if !found {
				okAdv = false
				detail = "advance takes a value that is not known to be positive: " + v.String()
			}
		}
	}
	for _, e := range phi.Edges {
		checkEdge(e, 0)
	}
	c.verdict(okAdv, "SeedSequencer.Next:advance-positive", phi.Pos(), "advance is 1 or a match length guarded by n > 0", detail)
}

func c01WorkerErrors(c *Ctx) {
	w := c.assembleWorker()
	if w == nil {
		c.bad("AssembleFile.worker:errors", token.NoPos, "worker closure not found")
		return
	}
	sites, bad := errPropagates(c, w, func(name string, _ *ssa.Call) bool {
		switch name {
		case "desync.writeChunk", "(desync.SeedSegment).WriteInto", "(*os.File).ReadAt":
			return true
		}
		return false
	}, errPropOpts{maxVisits: 3})
	switch {
	case sites < 3:
		c.bad("AssembleFile.worker:errors", w.Pos(), "expected the worker to call writeChunk, WriteInto and ReadAt (found %d fallible call sites)", sites)
	case len(bad) > 0:
		c.bad("AssembleFile.worker:errors", w.Pos(), "%s", bad[0])
	default:
		c.ok("AssembleFile.worker:errors", w.Pos(), "%d fallible call site(s); each failure fails the worker (and through errgroup the assembly)", sites)
	}
	// writeChunk itself
	if fn := c.fn("writeChunk"); fn != nil {
		sites, bad := errPropagates(c, fn, func(name string, _ *ssa.Call) bool {
			switch name {
			case "(desync.Store).GetChunk", "(*desync.Chunk).Data", "(*os.File).WriteAt", "(desync.SeedSegment).WriteInto", "(*os.File).ReadAt":
				return true
			}
			return false
		}, errPropOpts{})
		if len(bad) > 0 {
			c.bad("writeChunk:errors", fn.Pos(), "%s", bad[0])
		} else {
			c.ok("writeChunk:errors", fn.Pos(), "%d fallible call site(s); each failure is returned", sites)
		}
	}
}

// c01MarksInvalid: the re-plan loop of AssembleFile terminates only if every validation failure
// excludes a seed from the next plan.
func c01MarksInvalid(c *Ctx) {
	fn := c.mustFn("Plan.Validate")
	if fn == nil {
		return
	}
	for _, f := range withClosures(fn) {
		var bad []string
		sites := 0
		h := &Hooks{
			MaxVisits: 2,
			Fork: func(st *State, call *ssa.Call) []map[int]Val {
				name := callee(call)
				if name == "os.Open" || name == "(desync.SeedSegment).Validate" {
					sites++
					ei := errResultIndex(call)
					okv := map[int]Val{ei: {N: NNil, Class: ClsNil}}
					if ei > 0 {
						okv[0] = Val{N: NNon}
					}
					return []map[int]Val{okv, {ei: {N: NNon, Class: ClsOther, Sym: "seed-failed"}}}
				}
				return nil
			},
			Call: func(st *State, call *ssa.Call) map[int]Val {
				if callee(call) == "(desync.Seed).SetInvalid" && st.Eval(call.Call.Args[0]).B == BTrue {
					st.Flags["marked"] = 1
				}
				return nil
			},
			Return: func(st *State, ret *ssa.Return, results []Val) {
				failed := false
				for _, v := range st.V {
					if v.Sym == "seed-failed" && v.N == NNon {
						failed = true
					}
				}
				if failed && st.Flags["marked"] == 0 {
					bad = append(bad, fmt.Sprintf("a seed failure is reported at %s without SetInvalid(true) on the path: the next plan would choose the same seed again and AssembleFile would never finish", c.pos(ret.Pos())))
				}
			},
		}
		Explore(f, f.Blocks[0], 0, nil, NewState(), h)
		c.paths += h.Paths
		if sites == 0 {
			continue
		}
		if len(bad) > 0 {
			c.bad(fnKey(f)+":marks-invalid", f.Pos(), "%s", bad[0])
		} else {
			c.ok(fnKey(f)+":marks-invalid", f.Pos(), "every path on which opening or validating a seed failed calls SetInvalid(true)")
		}
	}
}

func c01DerivedState(c *Ctx) {
	n := 0
	for _, fn := range c.subjects() {
		var idxStore, posStore *ssa.Store
		instrs(fn, func(_ *ssa.BasicBlock, _ int, ins ssa.Instruction) {
			if st, ok := ins.(*ssa.Store); ok {
				if fa, ok := st.Addr.(*ssa.FieldAddr); ok {
					switch fieldOf(fa) {
					case "FileSeed.index":
						idxStore = st
					case "FileSeed.pos":
						if _, isMake := st.Val.(*ssa.MakeMap); isMake {
							posStore = st
						}
					}
				}
			}
		})
		if idxStore == nil {
			continue
		}
		n++
		c.verdict(posStore != nil, fnKey(fn)+":pos-reset", idxStore.Pos(), "FileSeed.pos is replaced by a fresh map where FileSeed.index is assigned",
			"FileSeed.index is replaced but the position map derived from it is not rebuilt from an empty map: stale positions index past the new chunk list")
	}
	if n == 0 {
		c.bad("FileSeed:pos-reset", token.NoPos, "no assignment of FileSeed.index found")
	}
}

// c01ValidateFileKeys: Plan.Validate opens every seed file once and keeps the handles in a map;
// the feeder then hands each candidate the handle looked up under its file name.  Store key and
// lookup key must be the same expression of the segment (both FileName()): a key that is
// normalised on one side only makes the lookup miss for some spellings of the path, and a nil
// *os.File is handed to Validate (every read fails: a valid seed is reported invalid, or with
// "regenerate" the plan is rebuilt for ever).
func c01ValidateFileKeys(c *Ctx) {
	fn := c.mustFn("Plan.Validate")
	if fn == nil {
		return
	}
	isFileMap := func(v ssa.Value) bool {
		mt, ok := v.Type().Underlying().(*types.Map)
		return ok && strings.HasSuffix(mt.Elem().String(), "os.File")
	}
	keyShape := func(v ssa.Value) string {
		os := origins(v)
		sort.Strings(os)
		return strings.Join(os, ",")
	}
	stores, lookups := map[string]token.Pos{}, map[string]token.Pos{}
	for _, g := range append(fnsDeep(fn), closures(fn)...) {
		instrs(g, func(_ *ssa.BasicBlock, _ int, ins ssa.Instruction) {
			switch x := ins.(type) {
			case *ssa.MapUpdate:
				if isFileMap(x.Map) {
					stores[keyShape(x.Key)] = x.Pos()
				}
			case *ssa.Lookup:
				if isFileMap(x.X) && !x.CommaOk {
					lookups[keyShape(x.Index)] = x.Pos()
				}
			}
		})
	}
	if len(stores) == 0 || len(lookups) == 0 {
		c.info("Plan.Validate:file-keys", fn.Pos(), "no map of open seed files (handles are passed differently)")
		c.ok("Plan.Validate:file-keys", fn.Pos(), "no keyed hand-over of file handles")
		return
	}
	okK := true
	var detail []string
	for k, pos := range lookups {
		if _, same := stores[k]; !same {
			okK = false
			detail = append(detail, fmt.Sprintf("looked up at %s under [%s]", c.pos(pos), k))
		}
	}
	for k, pos := range stores {
		detail = append(detail, fmt.Sprintf("stored at %s under [%s]", c.pos(pos), k))
	}
	sort.Strings(detail)
	c.verdict(okK, "Plan.Validate:file-keys", fn.Pos(), "the seed file handles are stored and looked up under the same key expression",
		"the map of open seed files is filled under one key and read under another ("+strings.Join(detail, "; ")+"): for some seed paths the lookup yields a nil file, a valid seed fails validation")
}

// c01CloneAligned: the clone paths (file systems with block cloning) split a range into a part
// before the first block boundary, whole blocks, and a part after the last boundary:
// alignStart = (off/bs + 1)*bs, alignEnd = (off+len)/bs*bs.  A range that holds no complete
// block has alignStart >= alignEnd: the unsigned length alignEnd-alignStart wraps around or is 0
// (which FICLONERANGE takes for "to the end of the source"), and the partial copies
// alignStart-off / off+len-alignEnd reach beyond the range.  Every subtraction that involves one
// of the two aligned values, and every CloneRange call, lies behind the alignStart < alignEnd
// edge.  (Cannot be exercised on the file systems of this sandbox; the arithmetic is decided
// from the code.)
func c01CloneAligned(c *Ctx) {
	n := 0
	for _, key := range []string{"fileSeedSegment.clone", "nullChunkSection.clone"} {
		fn := c.mustFn(key)
		if fn == nil {
			continue
		}
		var bs *ssa.Parameter
		for _, p := range fn.Params {
			if p.Name() == "blocksize" {
				bs = p
			}
		}
		if bs == nil && len(fn.Params) > 0 {
			bs = fn.Params[len(fn.Params)-1]
		}
		var isBS func(v ssa.Value) bool
		isBS = func(v ssa.Value) bool {
			if bs != nil && isParam(v, bs) {
				return true
			}
			// the block size handed on to a new helper ("nextBlockStart(offset, blocksize)")
			if pr, ok := v.(*ssa.Parameter); ok && newHelpers[pr.Parent()] {
				as := boundArgs(pr)
				for _, a := range as {
					if !isBS(a) {
						return false
					}
				}
				return len(as) > 0
			}
			return false
		}
		// alignKind: 1 = the first block boundary behind a position, (x/bs+1)*bs or x-x%bs+bs;
		// 2 = the last boundary at or before a position, x/bs*bs or x-x%bs; also as the single
		// result of a new helper
		var alignKind func(v ssa.Value, depth int) int
		alignKind = func(v ssa.Value, depth int) int {
			if depth > 4 {
				return 0
			}
			switch x := v.(type) {
			case *ssa.BinOp:
				switch x.Op {
				case token.MUL:
					inner := x.X
					if isBS(x.X) {
						inner = x.Y
					} else if !isBS(x.Y) {
						return 0
					}
					if q, ok := inner.(*ssa.BinOp); ok {
						if q.Op == token.QUO && isBS(q.Y) {
							return 2
						}
						if q.Op == token.ADD {
							if k, isK := q.Y.(*ssa.Const); isK && k.Value != nil && constInt64(k) == 1 {
								if q2, ok := q.X.(*ssa.BinOp); ok && q2.Op == token.QUO && isBS(q2.Y) {
									return 1
								}
							}
						}
					}
				case token.ADD:
					if isBS(x.Y) && alignKind(x.X, depth+1) == 2 {
						return 1
					}
					if isBS(x.X) && alignKind(x.Y, depth+1) == 2 {
						return 1
					}
				case token.SUB:
					if r, ok := x.Y.(*ssa.BinOp); ok && r.Op == token.REM && isBS(r.Y) && sameValue(r.X, x.X) {
						return 2
					}
				}
			case *ssa.Call, *ssa.Extract:
				idx := 0
				call, _ := x.(*ssa.Call)
				if ex, isEx := x.(*ssa.Extract); isEx {
					call, _ = ex.Tuple.(*ssa.Call)
					idx = ex.Index
				}
				if call == nil {
					return 0
				}
				if h := call.Call.StaticCallee(); h != nil && newHelpers[h] && len(h.Blocks) > 0 {
					kind := -1
					for _, r := range returnsOf(h) {
						if idx >= len(r.Results) {
							return 0
						}
						k := alignKind(r.Results[idx], depth+1)
						if kind >= 0 && k != kind {
							return 0
						}
						kind = k
					}
					if kind > 0 {
						return kind
					}
				}
			}
			return 0
		}
		isStart := func(v ssa.Value) bool { return alignKind(v, 0) == 1 }
		isEnd := func(v ssa.Value) bool { return alignKind(v, 0) == 2 }
		acc := relAcc(token.LSS, isStart, isEnd)
		m := 0
		instrs(fn, func(_ *ssa.BasicBlock, _ int, ins ssa.Instruction) {
			if ins.Parent() != fn {
				return
			}
			what := ""
			switch x := ins.(type) {
			case *ssa.BinOp:
				if x.Op == token.SUB && isUnsigned(x.Type()) && (isStart(x.X) || isStart(x.Y) || isEnd(x.X) || isEnd(x.Y)) {
					what = "a length computed from an aligned bound"
				}
			case *ssa.Call:
				if callee(x) == "desync.CloneRange" {
					what = "CloneRange"
				}
			}
			if what == "" {
				return
			}
			m++
			n++
			okG, _ := guarded(fn, ins, acc)
			c.verdict(okG, fmt.Sprintf("%s:aligned-op%d", key, m), ins.Pos(), what+" only where the range holds a complete block (alignStart < alignEnd)",
				what+" is reachable although the range may hold no complete block: the unsigned length alignEnd-alignStart wraps around (clone fails, a valid seed makes the extract fail) or is 0 (FICLONERANGE clones to the end of the source: the target grows, success is reported), and the partial copies write beyond both ends of the range")
		})
		if m == 0 {
			c.bad(key+":aligned-ops", fn.Pos(), "no aligned arithmetic or CloneRange call found in the clone function")
		}
	}
	if n == 0 {
		c.bad("clone-aligned", token.NoPos, "clone functions not found")
	}
}

// c01SeedDirs: the scan of --seed-dir skips the index that is being extracted (it lies next to
// the target, which is incomplete or stale while the extraction runs - used as a seed it fails
// the up-front validation or, with -k, is the target itself).  The skip compares every index
// found with one parameter of readSeedDirs; the command has to hand the index file to that
// parameter and the output file to the other.  Both are plain strings, so swapping them compiles.
func c01SeedDirs(c *Ctx) {
	rs := c.mustFn("cmd.readSeedDirs")
	run := c.mustFn("cmd.runExtract")
	if rs == nil || run == nil {
		return
	}
	// the parameter that the skip test compares with
	skipParam := -1
	for _, g := range withClosures(rs) {
		instrs(g, func(_ *ssa.BasicBlock, _ int, ins ssa.Instruction) {
			b, ok := ins.(*ssa.BinOp)
			if !ok || (b.Op != token.EQL && b.Op != token.NEQ) || !types.Identical(b.X.Type().Underlying(), types.Typ[types.String]) {
				return
			}
			for _, side := range []ssa.Value{b.X, b.Y} {
				for i, p := range rs.Params {
					for _, l := range leaves(side) {
						cl, _ := callOf(l)
						if cl != nil && callee(cl) == "path/filepath.Abs" && isParam(cl.Call.Args[0], p) {
							skipParam = i
						}
						if l == ssa.Value(p) {
							skipParam = i
						}
					}
				}
			}
		})
	}
	if skipParam < 0 {
		c.bad("cmd.readSeedDirs:skips-target-index", rs.Pos(), "the scan of the seed directories no longer compares the indexes it finds with a file named by the caller: the index being extracted is taken for a seed")
		return
	}
	c.ok("cmd.readSeedDirs:skips-target-index", rs.Pos(), "indexes found are compared with parameter %s", rs.Params[skipParam].Name())
	same := func(a, b ssa.Value) bool {
		if a == b {
			return true
		}
		key := func(v ssa.Value) string {
			if u, ok := v.(*ssa.UnOp); ok && u.Op == token.MUL {
				if ia, ok := u.X.(*ssa.IndexAddr); ok {
					if k, ok := ia.Index.(*ssa.Const); ok && k.Value != nil {
						return fmt.Sprintf("%s[%d]", lockKey(ia.X), constInt64(k))
					}
				}
			}
			return ""
		}
		return key(a) != "" && key(a) == key(b)
	}
	var indexFiles []ssa.Value
	for _, ci := range calls(run, named("cmd.readCaibxFile")) {
		indexFiles = append(indexFiles, ci.Common().Args[0])
	}
	var targets []ssa.Value
	for _, ci := range calls(run, func(n string) bool { return n == "cmd.writeInplace" || n == "cmd.writeWithTmpFile" }) {
		for _, a := range ci.Common().Args {
			if types.Identical(a.Type().Underlying(), types.Typ[types.String]) {
				targets = append(targets, a)
				break
			}
		}
	}
	for _, ci := range calls(run, named("cmd.readSeedDirs")) {
		a := ci.Common().Args
		isIdx, isTarget := false, false
		for _, f := range indexFiles {
			if same(a[skipParam], f) {
				isIdx = true
			}
		}
		for _, t := range targets {
			if same(a[skipParam], t) {
				isTarget = true
			}
		}
		c.verdict(isIdx && !isTarget, "cmd.runExtract:seed-dir-skip-arg", ci.Pos(), "readSeedDirs is told to skip the index file the command reads", "the file readSeedDirs is told to skip is not the index that is being extracted (it is "+map[bool]string{true: "the output file", false: "something else"}[isTarget]+"): the index next to the target is taken for a seed of its own extraction")
	}
}
