package main

import (
	"fmt"
	"go/token"
	"go/types"
	"math"
	"strings"

	"golang.org/x/tools/go/ssa"
)

func init() {
	register(&property{
		ID: "C19",
		Explanation: "Values read from the input (results of reader.ReadUint64 / ReadHeader, binary.*Endian.Uint64 and everything computed from them, through local cells, parameters and results of library functions) are tainted. " +
			"C19.bounded-alloc: no tainted value is the length/capacity of a make, the argument of bytes.Buffer.Grow or of a slice/array pre-allocation, unless a dominating comparison bounds it by a constant (memory must follow the bytes actually read: io.CopyN / append-while-reading are the accepted idioms). " +
			"C19.size-floor: every subtraction 'size - k' on a tainted size is dominated by a comparison establishing size >= k (linear forms over memory locations, because go/ssa reloads struct fields). " +
			"C19.slice-guards: every slice expression with a constant or len-derived bound on bytes read from the input (b[:len(b)-1], b[0:8], Body[40:], Body[8:40]) is dominated by a comparison that establishes the needed length, or the buffer is the result of ReadN(n) with a proven lower bound n >= needed. " +
			"C19.signed-length: where a tainted unsigned value is converted to a signed integer and used as the byte count of io.CopyN / io.LimitReader / io.NewSectionReader / Seek, a dominating comparison rejects values above MaxInt64 (a negative count makes these functions read nothing and report success, so a size field >= 2^63 would be accepted with no data). " +
			"C19.tainted-loops: a loop whose bound is tainted reads from the input in every iteration and leaves on a read error. C19.fixed-size: the Entry and Device elements are rejected unless their size field equals the fixed size.",
		NotDecided: "allocation inside bufio, bytes.Buffer growth policy and zstd; proportionality constants; panics inside library code.",
		Rules: []rule{
			{"C19.bounded-alloc", "no allocation is sized by an unbounded value read from the input", 1, c19BoundedAlloc},
			{"C19.size-floor", "size - k only behind size >= k", 4, c19SizeFloor},
			{"C19.slice-guards", "fixed-offset slicing of input bytes only behind a sufficient length", 5, c19SliceGuards},
			{"C19.index-guards", "constant-index access to input-dependent slices and strings only behind a sufficient length", 1, c19IndexGuards},
			{"C19.search-bounds", "a bound taken from an Index/LastIndex search is used only where -1 was excluded", 1, c19SearchBounds},
			{"C19.signed-length", "an input value converted to a signed length (io.CopyN, io.LimitReader) is first bounded by MaxInt64", 2, c19SignedLength},
			{"C19.tainted-loops", "loops bounded by an input value consume input each iteration", 1, c19TaintedLoops},
			{"C19.exact-reads", "fixed-size fields are read completely (no direct Read in the decoding primitives; byte counts used)", 1, func(c *Ctx) { c.exactReads() }},
			{"C19.fixed-size", "fixed-size elements check their size field", 2, c19FixedSize},
			{"C19.payload-complete", "a payload that ends before its announced size is an error, not the end of the stream", 1, c19PayloadComplete},
			{"C19.archive-ends-clean", "the archive decoder reports the end only between entries and with every directory closed", 1, c19ArchiveEndsClean},
			{"C19.header-eof", "an end of the stream inside an element header is an error, not the regular end", 1, c19HeaderEOF},
		},
	})
}

func (c *Ctx) libFuncs() []*ssa.Function {
	var out []*ssa.Function
	for _, f := range c.subjects() {
		if f.Pkg == c.LibSSA {
			out = append(out, f)
		}
	}
	return out
}

// libFuncsAll: every function of the library package, new helper functions included (for rules
// that scan the whole library rather than start from anchored functions).
func (c *Ctx) libFuncsAll() []*ssa.Function {
	var out []*ssa.Function
	for _, f := range c.Funcs {
		if f.Pkg == c.LibSSA || (topOf(f).Pkg == c.LibSSA) {
			out = append(out, f)
		}
	}
	return out
}

// upperBounded reports whether a dominating comparison bounds expr from above by a constant.
func upperBounded(fn *ssa.Function, at ssa.Instruction, expr ssa.Value) bool {
	return upperBoundedBy(fn, at, expr, 1<<30)
}

// upperBoundedBy: a dominating comparison bounds expr from above by a constant <= maxK.
func upperBoundedBy(fn *ssa.Function, at ssa.Instruction, expr ssa.Value, maxK int64) bool {
	if ub, ok := provenUpper(at, expr); ok && ub <= maxK {
		return true
	}
	return upperBoundedByLoc(fn, at, expr, maxK)
}

func upperBoundedByLoc(fn *ssa.Function, at ssa.Instruction, expr ssa.Value, maxK int64) bool {
	e := linearLoc(expr)
	if !e.ok {
		return false
	}
	if len(nonZero(e.atoms)) == 0 {
		return true
	}
	for _, b := range fn.Blocks {
		iff := lastIf(b)
		if iff == nil {
			continue
		}
		cm, truth, ok := cmpOf(iff.Cond)
		if !ok {
			continue
		}
		var L, R ssa.Value
		var onTrue bool
		switch cm.op {
		case token.LSS, token.LEQ:
			L, R, onTrue = cm.x, cm.y, truth
		case token.GTR, token.GEQ:
			L, R, onTrue = cm.x, cm.y, !truth
		case token.EQL:
			L, R, onTrue = cm.x, cm.y, truth
		case token.NEQ:
			L, R, onTrue = cm.x, cm.y, !truth
		default:
			continue
		}
		to := b.Succs[1]
		if onTrue {
			to = b.Succs[0]
		}
		if !(to.Dominates(at.Block()) && len(to.Preds) == 1) {
			continue
		}
		l, r := linearLoc(L), linearLoc(R)
		if !l.ok || !r.ok || len(nonZero(r.atoms)) != 0 || r.k > maxK || r.k < 0 {
			continue // the bound must be a (sane) constant: n <= MaxInt64 bounds nothing
		}
		d := e.add(l, -1)
		if len(nonZero(d.atoms)) == 0 {
			return true
		}
	}
	return false
}

func c19BoundedAlloc(c *Ctx) {
	fns := c.libFuncs()
	t := computeTaint(c, fns)
	if t.sources < 8 {
		c.bad("taint:sources", token.NoPos, "only %d input-reading call sites found: the decoders are not recognised any more", t.sources)
		return
	}
	sinks, tainted := 0, 0
	for _, f := range fns {
		instrs(f, func(_ *ssa.BasicBlock, _ int, ins ssa.Instruction) {
			var lens []ssa.Value
			what := ""
			switch x := ins.(type) {
			case *ssa.MakeSlice:
				lens = []ssa.Value{x.Len, x.Cap}
				what = "make(" + x.Type().String() + ", n)"
			case *ssa.MakeMap:
				if x.Reserve != nil {
					lens = []ssa.Value{x.Reserve}
					what = "make(map, n)"
				}
			case *ssa.MakeChan:
				lens = []ssa.Value{x.Size}
				what = "make(chan, n)"
			case *ssa.Call:
				switch callee(x) {
				case "(*bytes.Buffer).Grow", "(*strings.Builder).Grow":
					lens = []ssa.Value{x.Call.Args[1]}
					what = callee(x)
				case "slices.Grow":
					lens = []ssa.Value{x.Call.Args[1]}
					what = callee(x)
				}
			}
			if len(lens) == 0 {
				return
			}
			sinks++
			for _, l := range lens {
				if l == nil || !t.val[l] {
					continue
				}
				tainted++
				key := fmt.Sprintf("%s:%s", fnKey(f), what)
				if upperBounded(f, ins, l) {
					c.ok(key, ins.Pos(), "input-derived size bounded by a constant before the allocation")
				} else {
					c.bad(key, ins.Pos(), "%s is sized by a value read from the input (%s) without a constant upper bound: a few bytes of input can demand an arbitrary allocation (or panic with 'len out of range')", what, l.String())
				}
			}
		})
	}
	c.ok("taint:coverage", token.NoPos, "%d input-reading call sites, %d allocation sites inspected in %d library functions, %d sized by input values", t.sources, sinks, len(fns), tainted)
}

func c19SizeFloor(c *Ctx) {
	fns := c.libFuncs()
	t := computeTaint(c, fns)
	n := 0
	for _, f := range fns {
		instrs(f, func(_ *ssa.BasicBlock, _ int, ins ssa.Instruction) {
			bo, ok := ins.(*ssa.BinOp)
			if !ok || bo.Op != token.SUB || !t.val[bo.X] {
				return
			}
			// unsigned (or later converted) sizes only
			if !strings.Contains(bo.Type().String(), "uint") {
				return
			}
			n++
			key := fmt.Sprintf("%s:%s", fnKey(f), strings.ReplaceAll(locKey(bo.X), " ", ""))
			lb, ok := lowerBound(f, bo, bo)
			if ok && lb >= 0 {
				c.ok(key+"-minus", bo.Pos(), "subtraction behind a guard proving the result >= %d", lb)
			} else {
				c.bad(key+"-minus", bo.Pos(), "%s is computed from an input value without a dominating check that it cannot underflow: sizes below the header length wrap to huge values (allocation / 'slice bounds out of range')", bo.String())
			}
		})
	}
	if n == 0 {
		c.bad("size-floor", token.NoPos, "no size arithmetic on input values found")
	}
}

// readNLower: if v is the result of reader.ReadN(n) (possibly through the error check), the
// proven lower bound of n.
func readNLower(fn *ssa.Function, v ssa.Value, at ssa.Instruction) (int64, bool) {
	// v as the result of one particular call of a shared new helper: the constant arguments of that
	// call are known values of the helper's parameters ("readAtLeast(hdr, hdrLen, 1)")
	known := map[string]int64{}
	if cs, _ := callOf(stripSlices(v)); cs != nil {
		if h := directCallee(cs); h != nil && newHelpers[h] {
			for k, a := range cs.Call.Args {
				if kc, ok := a.(*ssa.Const); ok && kc.Value != nil && k < len(h.Params) && isIntegerType(a.Type()) {
					known[fmt.Sprintf("param#%d", k)] = constInt64(kc)
				}
			}
		}
	}
	best, found := int64(0), false
	for _, l := range leaves(v) {
		// the nil a helper returns together with an error: not the value that is sliced when the
		// use lies behind the nil-error edge of that helper call
		if k, isK := l.(*ssa.Const); isK && k.Value == nil && at != nil {
			if cs, idx := callOf(stripSlices(v)); cs != nil && idx == 0 && errResultIndex(cs) > 0 {
				ei := errResultIndex(cs)
				okG, _ := guarded(fn, at, func(iff *ssa.If) (bool, bool) {
					cm, truth, ok := cmpOf(iff.Cond)
					if !ok || (cm.op != token.EQL && cm.op != token.NEQ) || !(isNilConst(cm.x) || isNilConst(cm.y)) {
						return false, false
					}
					subj := cm.x
					if isNilConst(cm.x) {
						subj = cm.y
					}
					if c2, i2 := callOf(subj); c2 != cs || i2 != ei {
						return false, false
					}
					nilOnTrue := (cm.op == token.EQL) == truth
					return nilOnTrue, !nilOnTrue
				})
				if okG {
					continue
				}
			}
		}
		call, idx := callOf(l)
		if call != nil && idx == 0 && callee(call) != "(desync.reader).ReadN" {
			// a function of the library that hands on what it read with ReadN ("readBytes(hdr,
			// hdrLen)" returns ReadN(hdr.Size - hdrLen)): the amount, in terms of this call's arguments
			if e, okW := readWrapperAmount(call); okW {
				lb, okL := provenLowerLin(call, e, known)
				if !okL {
					return 0, false
				}
				if !found || lb < best {
					best, found = lb, true
				}
				continue
			}
		}
		if call == nil || idx != 0 || callee(call) != "(desync.reader).ReadN" {
			return 0, false
		}
		arg := call.Call.Args[len(call.Call.Args)-1]
		lb, ok := lowerBound(fn, call, arg)
		if lb2, ok2 := provenLowerWith(call, arg, known); ok2 && (!ok || lb2 > lb) {
			lb, ok = lb2, true
		}
		if !ok {
			return 0, false
		}
		if !found || lb < best {
			best, found = lb, true
		}
	}
	return best, found
}

// readWrapperAmount: call is a call of a library function every successful return of which
// yields the result of reader.ReadN(A); the linear form of A with the function's parameters
// replaced by the arguments of this call.
func readWrapperAmount(call *ssa.Call) (linform, bool) {
	g := call.Call.StaticCallee()
	if g == nil || len(g.Blocks) == 0 || g.Signature.Results().Len() != 2 {
		return linform{}, false
	}
	var amount *linform
	for _, r := range returnsOf(g) {
		if len(r.Results) != 2 {
			return linform{}, false
		}
		if ev := unspill(r, r.Results[1]); !isNilConst(ev) {
			// "return r.ReadN(n)": data and error of the same read, passed on together
			rc0, i0 := callOf(unspill(r, r.Results[0]))
			rc1, i1 := callOf(ev)
			if !(rc0 != nil && rc0 == rc1 && i0 == 0 && i1 == 1) {
				continue // an error return
			}
		}
		for _, l := range leaves(unspill(r, r.Results[0])) {
			rc, idx := callOf(l)
			if rc == nil || idx != 0 || callee(rc) != "(desync.reader).ReadN" || rc.Parent() != g {
				return linform{}, false
			}
			e := linearB(rc.Call.Args[len(rc.Call.Args)-1], 0)
			if !e.ok {
				return linform{}, false
			}
			if amount != nil && !amount.equal(e) {
				return linform{}, false
			}
			amount = &e
		}
	}
	if amount == nil {
		return linform{}, false
	}
	// parameters -> arguments
	out := linform{atoms: map[string]int{}, k: amount.k, ok: true}
	for a, n := range amount.atoms {
		if n == 0 {
			continue
		}
		if strings.HasPrefix(a, "param#") {
			k := 0
			fmt.Sscanf(a, "param#%d", &k)
			if k >= len(call.Call.Args) {
				return linform{}, false
			}
			sub := linearB(call.Call.Args[k], 0)
			if !sub.ok {
				return linform{}, false
			}
			for sa, sn := range sub.atoms {
				out.atoms[sa] += n * sn
			}
			out.k += int64(n) * sub.k
			continue
		}
		out.atoms[a] += n
	}
	return out, true
}

func c19SliceGuards(c *Ctx) {
	fns := c.libFuncs()
	inputFiles := map[string]bool{"format.go": true, "reader.go": true, "protocol.go": true, "protocolserver.go": true, "index.go": true, "archive.go": true}
	n := 0
	for _, f := range fns {
		file := c.Fset.Position(f.Pos()).Filename
		if !inputFiles[file[strings.LastIndex(file, "/")+1:]] {
			continue
		}
		instrs(f, func(_ *ssa.BasicBlock, _ int, ins ssa.Instruction) {
			sl, ok := ins.(*ssa.Slice)
			if !ok {
				return
			}
			// only byte slices / strings of input data
			if !strings.Contains(sl.X.Type().String(), "byte") && !strings.Contains(sl.X.Type().String(), "string") {
				return
			}
			if al, isArr := stripSlices(sl.X).(*ssa.Alloc); isArr {
				_ = al
				return // slicing a fixed-size array allocated here: bounds are checked by the compiler/type
			}
			// the length needed: max constant bound, or len(x)-k for High
			need := int64(-1)
			lenMinus := int64(0)
			for _, bnd := range []ssa.Value{sl.Low, sl.High} {
				if bnd == nil {
					continue
				}
				lf := linearLoc(bnd)
				if !lf.ok {
					continue
				}
				nz := nonZero(lf.atoms)
				switch {
				case len(nz) == 0:
					if lf.k > need {
						need = lf.k
					}
				case len(nz) == 1 && strings.HasPrefix(nz[0], "len(") && lf.atoms[nz[0]] == 1 && lf.k < 0:
					// len(b) - k: needs len(b) >= k
					if -lf.k > lenMinus {
						lenMinus = -lf.k
					}
				}
			}
			if need <= 0 && lenMinus == 0 {
				return
			}
			if lenMinus > need {
				need = lenMinus
			}
			n++
			key := fmt.Sprintf("%s:slice-%d", fnKey(f), need)
			// (a) a dominating guard on len(x)
			lenCall := &ssa.Call{}
			_ = lenCall
			guardOK := false
			// build a synthetic check: find dominating comparisons whose left side is len(<same location>)
			want := "len(" + locKey(sl.X) + ")"
			for _, b := range f.Blocks {
				iff := lastIf(b)
				if iff == nil {
					continue
				}
				cm, truth, ok := cmpOf(iff.Cond)
				if !ok {
					continue
				}
				var onTrue bool
				var L, R ssa.Value
				strict := false
				switch cm.op {
				case token.LSS:
					L, R, onTrue = cm.x, cm.y, !truth
				case token.GEQ:
					L, R, onTrue = cm.x, cm.y, truth
				case token.GTR:
					L, R, onTrue, strict = cm.x, cm.y, truth, true
				case token.LEQ:
					L, R, onTrue, strict = cm.x, cm.y, !truth, true
				default:
					continue
				}
				if locKey(L) != want {
					continue
				}
				to := b.Succs[1]
				if onTrue {
					to = b.Succs[0]
				}
				if !(to.Dominates(sl.Block()) && len(to.Preds) == 1) {
					continue
				}
				r := linearLoc(R)
				if r.ok && len(nonZero(r.atoms)) == 0 {
					v := r.k
					if strict {
						v++
					}
					if v >= need {
						guardOK = true
					}
				}
			}
			// (a') the same through the partition engine: any spelling of the comparison, guards in the
			// caller of a new helper, a hoisted "body := m.Body"
			if !guardOK {
				lenOf := &lenProbe{x: sl.X}
				if lb, ok := provenLowerLen(sl, lenOf.x); ok && lb >= need {
					guardOK = true
				}
			}
			// (c) a buffer allocated here with a sufficient constant part: make([]byte, len(x)+40)
			if ms, ok := stripSlices(sl.X).(*ssa.MakeSlice); ok && !guardOK {
				lf := linearLoc(ms.Len)
				okLen := lf.ok && lf.k >= need
				for _, a := range nonZero(lf.atoms) {
					if !strings.HasPrefix(a, "len(") || lf.atoms[a] < 0 {
						okLen = false
					}
				}
				if okLen {
					guardOK = true
				}
			}
			// (b) the buffer is the result of ReadN(n) with n >= need
			if !guardOK {
				if lb, ok := readNLower(f, sl.X, sl); ok && lb >= need {
					guardOK = true
				}
			}
			c.verdict(guardOK, key, sl.Pos(), fmt.Sprintf("slicing needs %d byte(s); established by a dominating length check or by ReadN's proven size", need),
				fmt.Sprintf("%s needs at least %d byte(s) but no dominating check establishes that length: malformed input panics with 'slice bounds out of range'", sl.String(), need))
		})
	}
	if n == 0 {
		c.bad("slice-guards", token.NoPos, "no fixed-offset slicing of input bytes found")
	}
}

func c19TaintedLoops(c *Ctx) {
	fns := c.libFuncs()
	t := computeTaint(c, fns)
	n := 0
	for _, f := range fns {
		for _, b := range f.Blocks {
			iff := lastIf(b)
			if iff == nil {
				continue
			}
			cm, _, ok := cmpOf(iff.Cond)
			if !ok || !(t.val[cm.x] || t.val[cm.y]) {
				continue
			}
			// a loop bound: a counter (phi of this block) compared with the input value
			isCounter := func(v ssa.Value) bool {
				p, ok := stripSlices(v).(*ssa.Phi)
				return ok && p.Block() == b
			}
			if !(isCounter(cm.x) && t.val[cm.y]) && !(isCounter(cm.y) && t.val[cm.x]) {
				continue
			}
			// a loop header: reachable from one of its successors
			var body *ssa.BasicBlock
			for _, s := range b.Succs {
				if s != b && reachableFrom(s, nil)[b] {
					body = s
				}
			}
			if body == nil {
				continue
			}
			n++
			// every path from the body back to the header passes the nil edge of an input read
			pass := edgesWhere(f, nilEdgeOf(func(o string) bool {
				return strings.HasPrefix(o, "call:(desync.reader).Read") || strings.HasPrefix(o, "call:io.ReadFull") || strings.HasPrefix(o, "call:io.CopyN")
			}))
			c.verdict(len(pass) > 0 && bodyMustPass(b, body, pass), fnKey(f)+":input-bounded-loop", iff.Pos(),
				"every iteration reads from the input and continues only if that succeeded", "a loop whose bound comes from the input can iterate (and allocate) without consuming input: memory is not proportional to the input")
		}
	}
	if n == 0 {
		c.info("tainted-loops", token.NoPos, "no loop is bounded by an input value")
		c.ok("tainted-loops", token.NoPos, "no loop is bounded by an input value")
	}
}

func c19FixedSize(c *Ctx) {
	fn := c.mustFn("FormatDecoder.Next")
	if fn == nil {
		return
	}
	// Path rule: on every path on which the header's type was found equal to the constant of a
	// fixed-size element, no element data is read before the header's size was found equal to
	// that element's size.  The comparison may be written inline, hoisted before the switch or
	// taken from a lookup helper - the explorer evaluates the integers.
	type elem struct {
		name string
		size int64
	}
	for _, el := range []elem{{"CaFormatEntry", 64}, {"CaFormatDevice", 32}} {
		typeConst := c.constVal(el.name)
		isHdrField := func(st *State, v ssa.Value, field string) bool {
			return hasOrigin(st.Resolve(v), func(o string) bool { return o == "field:FormatHeader."+field })
		}
		var bad []string
		reads := 0
		h := &Hooks{MaxVisits: 2, MaxPaths: 200000}
		h.Branch = func(st *State, iff *ssa.If, taken bool) {
			cm, truth, ok := cmpOf(iff.Cond)
			if !ok || (cm.op != token.EQL && cm.op != token.NEQ) {
				return
			}
			equal := (cm.op == token.EQL) == (taken == truth)
			for _, pr := range [][2]ssa.Value{{cm.x, cm.y}, {cm.y, cm.x}} {
				subj, other := pr[0], pr[1]
				if isHdrField(st, subj, "Type") {
					if k, isK := st.Resolve(other).(*ssa.Const); isK && k.Value != nil && equal {
						if k.Value.ExactString() == typeConst {
							st.Flags["type"] = 1
						} else {
							st.Flags["othertype"] = 1
						}
					}
				}
				if isHdrField(st, subj, "Size") && equal {
					if ov := st.Eval(other); ov.Int != nil && *ov.Int == el.size {
						st.Flags["size"] = 1
					}
				}
			}
		}
		h.Call = func(st *State, call *ssa.Call) map[int]Val {
			name := callee(call)
			if strings.HasPrefix(name, "(desync.reader).Read") && name != "(desync.reader).ReadHeader" && st.Flags["type"] == 1 && st.Flags["done"] == 0 {
				reads++
				st.Flags["done"] = 1
				if st.Flags["size"] == 0 {
					bad = append(bad, fmt.Sprintf("%s reads element data at %s although the size field was not found equal to %d (trail %s)", el.name, c.pos(call.Pos()), el.size, strings.Join(st.Trail, ">")))
				}
			}
			return nil
		}
		h.Stop = func(st *State) bool { return st.Flags["done"] == 1 || st.Flags["othertype"] == 1 }
		Explore(fn, fn.Blocks[0], 0, nil, NewState(), h)
		c.paths += h.Paths
		key := fmt.Sprintf("FormatDecoder.Next:fixed-size-%d", el.size)
		switch {
		case h.Truncated:
			c.bad(key, fn.Pos(), "path exploration truncated")
		case len(bad) > 0:
			c.bad(key, fn.Pos(), "no rejecting check of the size field against %d: %s", el.size, bad[0])
		case reads == 0:
			c.bad(key, fn.Pos(), "no path decodes %s", el.name)
		default:
			c.ok(key, fn.Pos(), "an element of fixed size %d (%s) is decoded only after its size field was found equal to %d (%d path(s))", el.size, el.name, el.size, h.Paths)
		}
	}
}

// c19SignedLength: see the property explanation.
func c19SignedLength(c *Ctx) {
	fns := c.libFuncs()
	t := computeTaint(c, fns)
	sinks := map[string]int{"io.CopyN": 2, "io.LimitReader": 1, "io.NewSectionReader": 2, "(*os.File).Seek": 1, "(*bytes.Buffer).Grow": 1}
	n := 0
	for _, f := range fns {
		instrs(f, func(_ *ssa.BasicBlock, _ int, ins ssa.Instruction) {
			call, ok := ins.(*ssa.Call)
			if !ok {
				return
			}
			ai, ok := sinks[callee(call)]
			if !ok || ai >= len(call.Call.Args) {
				return
			}
			for _, l := range leavesNoConv(call.Call.Args[ai]) {
				cv, ok := l.(*ssa.Convert)
				if !ok || !t.val[cv.X] {
					continue
				}
				from, _ := cv.X.Type().Underlying().(*types.Basic)
				to, _ := cv.Type().Underlying().(*types.Basic)
				if from == nil || to == nil || from.Info()&types.IsUnsigned == 0 || to.Info()&types.IsUnsigned != 0 {
					continue
				}
				n++
				key := fmt.Sprintf("%s:%s", fnKey(f), callee(call))
				c.verdict(upperBoundedBy(f, cv, cv.X, math.MaxInt64), key, call.Pos(), "the input-derived count is rejected above MaxInt64 before it is converted to a signed length",
					fmt.Sprintf("a value read from the input is converted to a signed %s and used as the byte count of %s without a dominating check against MaxInt64: for a size field >= 2^63 the count is negative, nothing is read and no error is reported (empty data for a huge declared size; callers slice the empty result)", to.Name(), callee(call)))
			}
		})
	}
	c.ok("signed-length", token.NoPos, "%d signed conversions of input values used as byte counts", n)
}

// leavesNoConv is leaves() without looking through conversions.
func leavesNoConv(v ssa.Value) []ssa.Value {
	var out []ssa.Value
	seen := map[ssa.Value]bool{}
	var walk func(v ssa.Value)
	walk = func(v ssa.Value) {
		if v == nil || seen[v] {
			return
		}
		seen[v] = true
		if phi, ok := v.(*ssa.Phi); ok {
			for _, e := range phi.Edges {
				walk(e)
			}
			return
		}
		out = append(out, v)
	}
	walk(v)
	return out
}

type lenProbe struct{ x ssa.Value }

// provenLowerLen: proven lower bound of len(x) at instruction at.
func provenLowerLen(at ssa.Instruction, x ssa.Value) (int64, bool) {
	atom := "len(" + batom(x, 0) + ")"
	best, found := int64(0), false
	fn := at.Parent()
	pos := at
	for depth := 0; depth < 4; depth++ {
		for _, b := range fn.Blocks {
			iff := lastIf(b)
			if iff == nil {
				continue
			}
			p, ok := partitionOf(iff.Cond)
			if !ok || len(p.atoms) != 1 {
				continue
			}
			n, has := p.atoms[atom]
			if !has {
				continue
			}
			for _, taken := range []bool{true, false} {
				to := b.Succs[1]
				if taken {
					to = b.Succs[0]
				}
				if !(len(to.Preds) == 1 && (to == pos.Block() || to.Dominates(pos.Block()))) {
					continue
				}
				upperHere := (p.upper == p.truth) == taken
				var v int64
				switch {
				case n == 1 && upperHere:
					v = p.t + 1
				case n == -1 && !upperHere:
					v = -p.t
				default:
					continue
				}
				if !found || v > best {
					best, found = v, true
				}
			}
		}
		if !(newHelpers[fn] && len(helperSites[fn]) == 1) {
			break
		}
		cs := helperSites[fn][0]
		// the slice operand as the caller sees it
		atom = "len(" + batom(x, 0) + ")"
		fn = cs.Parent()
		pos = cs
	}
	return best, found
}

// c19IndexGuards: the sibling of slice-guards for single elements - x[k] with a constant k on a
// slice or string whose length depends on the input (the pieces of a strings.Split, a message
// body, a decoded name) needs len(x) > k established first, by a dominating length comparison, a
// sufficient make() or ReadN's proven size.  Arrays have their bounds checked by the compiler.
func c19IndexGuards(c *Ctx) {
	inputFiles := map[string]bool{"format.go": true, "reader.go": true, "protocol.go": true, "protocolserver.go": true, "index.go": true, "archive.go": true, "types.go": true}
	n, nVar := 0, 0
	var tnt *taintResult
	for _, f := range c.libFuncs() {
		file := c.Fset.Position(f.Pos()).Filename
		if !inputFiles[file[strings.LastIndex(file, "/")+1:]] {
			continue
		}
		instrs(f, func(_ *ssa.BasicBlock, _ int, ins ssa.Instruction) {
			var x, idx ssa.Value
			switch v := ins.(type) {
			case *ssa.IndexAddr:
				if _, isSlice := v.X.Type().Underlying().(*types.Slice); !isSlice {
					return
				}
				x, idx = v.X, v.Index
			case *ssa.Index:
				if b, isStr := v.X.Type().Underlying().(*types.Basic); !isStr || b.Info()&types.IsString == 0 {
					return
				}
				x, idx = v.X, v.Index
			default:
				return
			}
			k, isK := idx.(*ssa.Const)
			if !isK || k.Value == nil {
				// a variable index is this rule's business when its value comes from the input (a
				// count or offset that was read, not a loop counter): then index < len(x) has to
				// be established by a dominating comparison of the two
				if tnt == nil {
					tnt = computeTaint(c, c.libFuncs())
				}
				if !tnt.val[idx] {
					return
				}
				nVar++
				d := linearB(idx, 0).add(linform{atoms: map[string]int{"len(" + batom(x, 0) + ")": 1}, ok: true}, -1)
				ub, found := provenUpperForm(ins, d)
				for a := range d.atoms {
					if strings.HasPrefix(a, "?") {
						found = false // a value the forms cannot name is not compared with anything
					}
				}
				c.verdict(found && ub <= -1, fmt.Sprintf("%s:index-from-input", fnKey(f)), ins.Pos(), "an index computed from an input value is used only where it was found smaller than the length of the slice",
					"a slice is indexed by a value computed from the input (a count or size field) and no dominating check establishes index < len: the slice holds what was actually read, the field says what was announced - malformed input panics with 'index out of range'")
				return
			}
			need := constInt64(k) + 1
			n++
			key := fmt.Sprintf("%s:index-%d", fnKey(f), constInt64(k))
			ok := false
			if lb, found := provenLowerLen(ins, x); found && lb >= need {
				ok = true
			}
			if ms, isMk := stripSlices(x).(*ssa.MakeSlice); isMk && !ok {
				lf := linearLoc(ms.Len)
				ok = lf.ok && lf.k >= need
				for _, a := range nonZero(lf.atoms) {
					if !strings.HasPrefix(a, "len(") || lf.atoms[a] < 0 {
						ok = false
					}
				}
			}
			if !ok {
				if lb, found := readNLower(f, x, ins); found && lb >= need {
					ok = true
				}
			}
			// a slice of a fixed-size array, or a slice expression with sufficient constant bounds
			if !ok {
				if sl, isSl := x.(*ssa.Slice); isSl {
					if hi, isC := sl.High.(*ssa.Const); isC && hi.Value != nil {
						lo := int64(0)
						if l, isC := sl.Low.(*ssa.Const); isC && l.Value != nil {
							lo = constInt64(l)
						}
						ok = constInt64(hi)-lo >= need
					}
					if p, isPtr := sl.X.Type().Underlying().(*types.Pointer); isPtr && sl.High == nil && sl.Low == nil {
						if arr, isArr := p.Elem().Underlying().(*types.Array); isArr && arr.Len() >= need {
							ok = true
						}
					}
				}
			}
			// strings.Split and friends return at least one piece
			if !ok && need == 1 {
				all := true
				for _, l := range leaves(x) {
					call, _ := callOf(l)
					if call == nil {
						all = false
						continue
					}
					switch callee(call) {
					case "strings.Split", "strings.SplitAfter", "bytes.Split":
					case "strings.SplitN", "strings.SplitAfterN", "bytes.SplitN":
						if cnt, isC := call.Call.Args[2].(*ssa.Const); !isC || cnt.Value == nil || constInt64(cnt) == 0 {
							all = false
						}
					default:
						all = false
					}
				}
				ok = all
			}
			c.verdict(ok, key, ins.Pos(), fmt.Sprintf("element %d is read only where len > %d is established", constInt64(k), constInt64(k)),
				fmt.Sprintf("element %d of a slice or string of input-dependent length is read but no dominating check establishes len > %d: malformed input panics with 'index out of range'", constInt64(k), constInt64(k)))
		})
	}
	c.info("index-guards:from-input", token.NoPos, "%d slice access(es) indexed by a value computed from the input", nVar)
	if n == 0 {
		c.info("index-guards", token.NoPos, "no constant-index access to a slice or string in the decoders")
		c.ok("index-guards", token.NoPos, "no constant-index access to a slice or string of input-dependent length in the decoders")
	}
}

// c19SearchBounds: strings.Index, bytes.LastIndexByte and their relatives answer -1 when the
// thing looked for is absent.  A slice bound or index taken from such a result is usable only
// behind a comparison of that result that excludes -1 (>= 0, != -1, > k ...): in the decoders
// the absence is an input the peer or the archive chooses.
func c19SearchBounds(c *Ctx) {
	inputFiles := map[string]bool{"format.go": true, "reader.go": true, "protocol.go": true, "protocolserver.go": true, "index.go": true, "archive.go": true, "types.go": true}
	isSearch := func(name string) bool {
		for _, p := range []string{"strings.Index", "strings.LastIndex", "bytes.Index", "bytes.LastIndex"} {
			if strings.HasPrefix(name, p) {
				return true
			}
		}
		return false
	}
	n := 0
	for _, f := range c.libFuncs() {
		file := c.Fset.Position(f.Pos()).Filename
		if !inputFiles[file[strings.LastIndex(file, "/")+1:]] {
			continue
		}
		instrs(f, func(_ *ssa.BasicBlock, _ int, ins ssa.Instruction) {
			var bounds []ssa.Value
			switch x := ins.(type) {
			case *ssa.Slice:
				bounds = []ssa.Value{x.Low, x.High}
			case *ssa.IndexAddr:
				bounds = []ssa.Value{x.Index}
			case *ssa.Index:
				bounds = []ssa.Value{x.Index}
			default:
				return
			}
			for _, bnd := range bounds {
				if bnd == nil {
					continue
				}
				// the search result inside the bound expression (idx, idx+1, ...)
				var search *ssa.Call
				var walk func(v ssa.Value, d int)
				walk = func(v ssa.Value, d int) {
					if d > 4 || search != nil {
						return
					}
					switch y := v.(type) {
					case *ssa.Call:
						if isSearch(callee(y)) {
							search = y
						}
					case *ssa.BinOp:
						walk(y.X, d+1)
						walk(y.Y, d+1)
					case *ssa.Convert:
						walk(y.X, d+1)
					case *ssa.Phi:
						for _, e := range y.Edges {
							walk(e, d+1)
						}
					}
				}
				walk(bnd, 0)
				if search == nil {
					continue
				}
				n++
				key := fmt.Sprintf("%s:bound-from-%s", fnKey(f), callee(search))
				// behind a comparison of the search result that excludes -1
				okG, _ := guarded(f, ins, func(iff *ssa.If) (bool, bool) {
					cm, truth, ok := cmpOf(iff.Cond)
					if !ok {
						return false, false
					}
					var k *ssa.Const
					var swapped bool
					switch {
					case cm.x == ssa.Value(search):
						k, _ = cm.y.(*ssa.Const)
					case cm.y == ssa.Value(search):
						k, _ = cm.x.(*ssa.Const)
						swapped = true
					}
					if k == nil || k.Value == nil {
						return false, false
					}
					kv := constInt64(k)
					op := cm.op
					if swapped { // k op idx  ->  idx op' k
						switch op {
						case token.LSS:
							op = token.GTR
						case token.LEQ:
							op = token.GEQ
						case token.GTR:
							op = token.LSS
						case token.GEQ:
							op = token.LEQ
						}
					}
					// which edge implies idx >= 0 ?
					var holdsMeansNonNeg, failsMeansNonNeg bool
					switch op {
					case token.EQL:
						holdsMeansNonNeg, failsMeansNonNeg = kv >= 0, kv == -1
					case token.NEQ:
						holdsMeansNonNeg, failsMeansNonNeg = kv == -1, kv >= 0
					case token.GEQ:
						holdsMeansNonNeg = kv >= 0
					case token.GTR:
						holdsMeansNonNeg = kv >= -1
					case token.LSS:
						failsMeansNonNeg = kv >= 0 && kv <= 0 // !(idx < 0)
					case token.LEQ:
						failsMeansNonNeg = kv == -1 // !(idx <= -1)
					}
					onTrue := (holdsMeansNonNeg && truth) || (failsMeansNonNeg && !truth)
					onFalse := (holdsMeansNonNeg && !truth) || (failsMeansNonNeg && truth)
					return onTrue, onFalse
				})
				c.verdict(okG, key, ins.Pos(), "the search result is used as a bound only where it was found not to be -1",
					"a slice bound or index is taken from a search result without excluding -1: input in which the byte or substring is absent panics with 'slice bounds out of range'")
			}
		})
	}
	if n == 0 {
		// nothing searched for at all (a split done with strings.Cut has no -1 case): nothing to
		// guard; a search whose result is used in a way this rule does not follow is reported
		searches := 0
		for _, f := range c.libFuncsAll() {
			file := c.Fset.Position(f.Pos()).Filename
			if !inputFiles[file[strings.LastIndex(file, "/")+1:]] {
				continue
			}
			searches += len(calls(f, isSearch))
		}
		if searches == 0 {
			c.ok("search-bounds", token.NoPos, "the decoders take no slice bound from a search result (no strings/bytes Index call in them)")
		} else {
			c.bad("search-bounds", token.NoPos, "the decoders search their input (%d Index call(s)) but no bound taken from a search result was recognised", searches)
		}
	}
}

// c19HeaderEOF: a stream that ends inside an element header is not a regular end.
// FormatDecoder.Next takes io.EOF from ReadHeader for "no more elements"; ReadHeader reads two
// words, and only an end before the first one is an end between elements.  An io.EOF of the
// second read that reached the caller as io.EOF made a catar cut 8 bytes into a header decode
// without an error (truncations of valid files are in the property's quantifier).
func c19HeaderEOF(c *Ctx) {
	fn := c.mustFn("reader.ReadHeader")
	if fn == nil {
		return
	}
	var bad []string
	eofPaths := 0
	h := &Hooks{MaxVisits: 2, MaxPaths: 10000}
	h.Fork = func(st *State, call *ssa.Call) []map[int]Val {
		if callee(call) != "(desync.reader).ReadUint64" {
			return nil
		}
		st.Emit("word", "", call)
		if st.Count("word") < 2 {
			return []map[int]Val{{1: {N: NNil, Class: ClsNil}}, {1: {N: NNon, Class: ClsOther, Sym: "first-word-failed"}}}
		}
		return []map[int]Val{{1: {N: NNil, Class: ClsNil}}, {1: {N: NNon, Class: ClsOther, Sym: "is:io.EOF"}}}
	}
	h.Return = func(st *State, ret *ssa.Return, results []Val) {
		mid := false
		for _, v := range st.V {
			if v.Sym == "is:io.EOF" {
				mid = true
			}
		}
		if !mid || len(results) == 0 {
			return
		}
		eofPaths++
		r := results[len(results)-1]
		if r.Sym == "is:io.EOF" || r.N != NNon {
			bad = append(bad, fmt.Sprintf("return at %s yields %s after the second word of the header met the end of the stream", c.pos(ret.Pos()), r))
		}
	}
	Explore(fn, fn.Blocks[0], 0, nil, NewState(), h)
	c.paths += h.Paths
	switch {
	case eofPaths == 0:
		c.bad("reader.ReadHeader:mid-header-eof", fn.Pos(), "no path found on which the second word of a header fails")
	case len(bad) > 0:
		c.bad("reader.ReadHeader:mid-header-eof", fn.Pos(), "%s: FormatDecoder.Next takes io.EOF for the regular end of the stream, a catar or index cut in the middle of an element header decodes without an error", bad[0])
	default:
		c.ok("reader.ReadHeader:mid-header-eof", fn.Pos(), "on %d path(s) an end of the stream inside the header is returned as an error other than io.EOF", eofPaths)
	}
}

// holdsAtZero: does "x op k" hold for x == 0 (k a constant)?  ok=false when k is not a constant.
func holdsAtZero(op token.Token, k ssa.Value, xOnLeft bool) (bool, bool) {
	kc, isK := k.(*ssa.Const)
	if !isK || kc.Value == nil {
		return false, false
	}
	kv := constInt64(kc)
	l, r := int64(0), kv
	if !xOnLeft {
		l, r = kv, 0
	}
	switch op {
	case token.EQL:
		return l == r, true
	case token.NEQ:
		return l != r, true
	case token.LSS:
		return l < r, true
	case token.LEQ:
		return l <= r, true
	case token.GTR:
		return l > r, true
	case token.GEQ:
		return l >= r, true
	}
	return false, false
}

// zeroEdgeOf returns an acceptFn for comparisons of a value selected by isX with a constant:
// the accepting edge is the one consistent with x == 0.
func zeroEdgeOf(isX func(ssa.Value) bool) acceptFn {
	return func(iff *ssa.If) (bool, bool) {
		cm, truth, ok := cmpOf(iff.Cond)
		if !ok {
			return false, false
		}
		var holds, known bool
		switch {
		case isX(cm.x):
			holds, known = holdsAtZero(cm.op, cm.y, true)
		case isX(cm.y):
			holds, known = holdsAtZero(cm.op, cm.x, false)
		}
		if !known {
			return false, false
		}
		onTrue := holds == truth
		return onTrue, !onTrue
	}
}

// c19PayloadComplete: a payload that ends before the announced size is an error.  The payload
// of a file is handed out as a reader limited to the size field; whoever copies it sees a clean
// end when the stream is cut inside it, and the decoder's next header read sees a clean end too -
// a catar truncated inside a file body unpacked without an error, with a short file.  The next
// header is therefore read only when no payload is pending, or the pending one has no byte
// outstanding.
func c19PayloadComplete(c *Ctx) {
	fn := c.mustFn("FormatDecoder.Next")
	if fn == nil {
		return
	}
	isAdvance := func(v ssa.Value) bool {
		return hasOrigin(v, func(o string) bool { return o == "field:FormatDecoder.advance" })
	}
	isRemaining := func(v ssa.Value) bool {
		return hasOrigin(v, func(o string) bool { return o == "field:LimitedReader.N" })
	}
	zero := zeroEdgeOf(isRemaining)
	acc := func(iff *ssa.If) (bool, bool) {
		// no payload pending
		if cm, truth, ok := cmpOf(iff.Cond); ok && (cm.op == token.EQL || cm.op == token.NEQ) {
			isNil := func(v ssa.Value) bool { k, ok := v.(*ssa.Const); return ok && k.Value == nil }
			if (isAdvance(cm.x) && isNil(cm.y)) || (isAdvance(cm.y) && isNil(cm.x)) {
				eqOnTrue := (cm.op == token.EQL) == truth
				return eqOnTrue, !eqOnTrue
			}
		}
		// the pending reader is not a limited reader (never the case: Next stores nothing else)
		if ex, ok := stripNot(iff.Cond).(*ssa.Extract); ok && ex.Index == 1 {
			if ta, ok := ex.Tuple.(*ssa.TypeAssert); ok && ta.CommaOk && isAdvance(ta.X) {
				neg := iff.Cond != ssa.Value(ex)
				return neg, !neg
			}
		}
		return zero(iff)
	}
	n := 0
	for _, ci := range calls(fn, named("(desync.reader).ReadHeader")) {
		n++
		okG, _ := guarded(fn, ci.(ssa.Instruction), acc)
		c.verdict(okG, "FormatDecoder.Next:payload-complete", ci.Pos(), "the next header is read only when no payload is pending or the pending payload has no byte outstanding", "the next element header is read although a pending payload may have ended before its announced size (no test of the limited reader's remaining count): a catar cut inside a file body decodes without an error and leaves a short file")
	}
	if n == 0 {
		c.bad("FormatDecoder.Next:payload-complete", fn.Pos(), "FormatDecoder.Next does not read element headers through reader.ReadHeader")
	}
}

// c19ArchiveEndsClean: the archive decoder reports the end of the archive only between entries
// and with every directory closed.  A catar cut at an element boundary (after an entry header,
// after a filename, before a goodbye) is a truncated archive, not a shorter one.
func c19ArchiveEndsClean(c *Ctx) {
	fn := c.mustFn("ArchiveDecoder.Next")
	if fn == nil {
		return
	}
	isEntryPtr := func(v ssa.Value) bool {
		p, ok := v.Type().Underlying().(*types.Pointer)
		return ok && typeName(p.Elem()) == "desync.FormatEntry"
	}
	entryNil := func(iff *ssa.If) (bool, bool) {
		cm, truth, ok := cmpOf(iff.Cond)
		if !ok || (cm.op != token.EQL && cm.op != token.NEQ) {
			return false, false
		}
		isNil := func(v ssa.Value) bool { k, ok := v.(*ssa.Const); return ok && k.Value == nil }
		if !((isEntryPtr(cm.x) && isNil(cm.y)) || (isEntryPtr(cm.y) && isNil(cm.x))) {
			return false, false
		}
		eqOnTrue := (cm.op == token.EQL) == truth
		return eqOnTrue, !eqOnTrue
	}
	elemNil := func(iff *ssa.If) (bool, bool) {
		cm, truth, ok := cmpOf(iff.Cond)
		if !ok || (cm.op != token.EQL && cm.op != token.NEQ) {
			return false, false
		}
		isNil := func(v ssa.Value) bool { k, ok := v.(*ssa.Const); return ok && k.Value == nil }
		isElem := func(v ssa.Value) bool {
			it, ok := v.Type().Underlying().(*types.Interface)
			return ok && it.NumMethods() == 0
		}
		if !((isElem(cm.x) && isNil(cm.y)) || (isElem(cm.y) && isNil(cm.x))) {
			return false, false
		}
		eqOnTrue := (cm.op == token.EQL) == truth
		return eqOnTrue, !eqOnTrue
	}
	depthZero := zeroEdgeOf(func(v ssa.Value) bool {
		return hasOrigin(v, func(o string) bool { return strings.HasPrefix(o, "field:ArchiveDecoder.") }) && types.Identical(v.Type().Underlying(), types.Typ[types.Int])
	})
	n := 0
	instrsAll(fn, func(_ *ssa.BasicBlock, _ int, ins ssa.Instruction) {
		ret, ok := ins.(*ssa.Return)
		if !ok || ins.Parent() != fn || len(ret.Results) != 2 {
			return
		}
		for _, r := range ret.Results {
			if k, isK := r.(*ssa.Const); !isK || k.Value != nil {
				return
			}
		}
		// only the return taken for "the decoder has no more elements" (the nil case of the
		// type switch on the decoded element); the return that closes the function behind the
		// four node kinds is not an end-of-archive report
		if okE, _ := guarded(fn, ins, elemNil); !okE {
			return
		}
		n++
		ok1, _ := guarded(fn, ins, entryNil)
		ok2, _ := guarded(fn, ins, depthZero)
		switch {
		case !ok1:
			c.bad("ArchiveDecoder.Next:end-between-entries", ins.Pos(), "the end of the archive is reported although an entry may be pending (no test that the entry read so far is nil): a catar cut after an entry header decodes without an error and the entry is dropped")
		case !ok2:
			c.bad("ArchiveDecoder.Next:end-between-entries", ins.Pos(), "the end of the archive is reported without a test that every directory entered was left again (no comparison of a directory counter with 0): a catar cut before a goodbye element decodes without an error")
		default:
			c.ok("ArchiveDecoder.Next:end-between-entries", ins.Pos(), "the end of the archive is reported only with no entry pending and the directory counter at 0")
		}
	})
	if n == 0 {
		c.bad("ArchiveDecoder.Next:end-between-entries", fn.Pos(), "no return that reports the end of the archive found")
	}
}
