package main

// error-values-used: an error that is assigned to a named variable and never read.
//
// The typical way in is shadowing: `c, err := f()` inside a loop or an `if` declares a second
// `err`; the statement that was meant to hand the failure on (`err = wrap(err); break`,
// `_, err = w.Write(b)`) assigns to the inner variable, the test that follows the block reads
// the outer one, which is still nil, and the operation carries on as if nothing had failed.  The
// compiler accepts it (the inner variable is used elsewhere), the suite runs with -vet=off, and
// every guard, call and comparison of the mechanism is still in place - only the value they look
// at is the wrong one.  On the SSA form the slip is exact: the error result of the call has no
// use at all (the variable was lifted to a register and this definition reaches no read).
//
// The rule is attached to every property and reports the sites in the source files the
// property's other rules anchor in; the reference tree has none in non-test code.

import (
	"fmt"
	"go/ast"
	"go/token"
	"go/types"
	"path/filepath"
	"sort"
	"strings"

	"golang.org/x/tools/go/packages"
	"golang.org/x/tools/go/ssa"
)

type deadErr struct {
	file string // relative to the repository
	pos  token.Pos
	fn   string
	what string
}

type deadErrScan struct {
	sites  map[string]int // assignments of an error to a named local examined, per file
	dead   []deadErr
	defers map[string]int // defer statements with arguments examined, per file
	stale  []deadErr      // deferred calls whose argument variable is assigned again later
}

var errorType = types.Universe.Lookup("error").Type()

func (c *Ctx) scanDeadErrors() *deadErrScan {
	if c.deadErrs != nil {
		return c.deadErrs
	}
	res := &deadErrScan{sites: map[string]int{}, defers: map[string]int{}}
	c.deadErrs = res
	// calls by the position of their opening parenthesis
	byPos := map[token.Pos][]ssa.Value{}
	fnOf := map[token.Pos]*ssa.Function{}
	for _, fn := range c.Funcs {
		if fn.Synthetic != "" {
			continue
		}
		for _, b := range fn.Blocks {
			for _, ins := range b.Instrs {
				if call, ok := ins.(*ssa.Call); ok && call.Pos().IsValid() {
					byPos[call.Pos()] = append(byPos[call.Pos()], call)
					fnOf[call.Pos()] = fn
				}
			}
		}
	}
	used := func(v ssa.Value) bool {
		refs := v.Referrers()
		if refs == nil {
			return true
		}
		for _, r := range *refs {
			if _, dbg := r.(*ssa.DebugRef); !dbg {
				return true
			}
		}
		return false
	}
	resultUsed := func(call ssa.Value, idx, n int) bool {
		if n == 1 {
			return used(call)
		}
		refs := call.Referrers()
		if refs == nil {
			return true
		}
		for _, r := range *refs {
			if ex, ok := r.(*ssa.Extract); ok && ex.Index == idx && used(ex) {
				return true
			}
		}
		return false
	}
	for _, pkg := range []*packages.Package{c.Lib, c.Cmd} {
		if pkg == nil {
			continue
		}
		for _, f := range pkg.Syntax {
			name := c.Fset.Position(f.Pos()).Filename
			if strings.HasSuffix(name, "_test.go") {
				continue
			}
			rel, err := filepath.Rel(c.Repo, name)
			if err != nil {
				rel = name
			}
			c.scanStaleDefers(pkg, f, rel, res)
			ast.Inspect(f, func(n ast.Node) bool {
				as, ok := n.(*ast.AssignStmt)
				if !ok || len(as.Rhs) == 0 {
					return true
				}
				for i, lhs := range as.Lhs {
					id, ok := lhs.(*ast.Ident)
					if !ok || id.Name == "_" {
						continue
					}
					var obj types.Object
					if o := pkg.TypesInfo.Defs[id]; o != nil {
						obj = o
					} else {
						obj = pkg.TypesInfo.Uses[id]
					}
					v, ok := obj.(*types.Var)
					if !ok || v.IsField() || !types.Identical(v.Type(), errorType) || v.Parent() == nil || v.Parent() == pkg.Types.Scope() {
						continue
					}
					// the call that produces the value
					var rhs ast.Expr
					idx, nres := 0, 1
					if len(as.Rhs) == len(as.Lhs) {
						rhs = as.Rhs[i]
					} else if len(as.Rhs) == 1 {
						rhs, idx, nres = as.Rhs[0], i, len(as.Lhs)
					} else {
						continue
					}
					ce, ok := ast.Unparen(rhs).(*ast.CallExpr)
					if !ok {
						continue
					}
					calls := byPos[ce.Lparen]
					if len(calls) == 0 {
						continue // conversion, builtin, or code the SSA builder dropped as unreachable
					}
					res.sites[rel]++
					dead := true
					for _, cv := range calls {
						if resultUsed(cv, idx, nres) {
							dead = false
						}
					}
					if dead {
						what := types.ExprString(ce.Fun)
						res.dead = append(res.dead, deadErr{rel, as.Pos(), fnKey(fnOf[ce.Lparen]), fmt.Sprintf("the error of %s(...) is assigned to %s and never read", what, id.Name)})
					}
				}
				return true
			})
		}
	}
	sort.Slice(res.dead, func(i, j int) bool { return res.dead[i].pos < res.dead[j].pos })
	return res
}

// scanStaleDefers: `defer f(x)` evaluates x where the defer statement stands.  When x is a local
// variable that is assigned again between the defer statement and the end of the function, the
// deferred call sees the old value (typically the nil error or zero count of the declaration),
// although it reads as if it reported the outcome.  A closure (`defer func() { f(x) }()`) or a
// pointer argument sees the final value and is not reported.
func (c *Ctx) scanStaleDefers(pkg *packages.Package, f *ast.File, rel string, res *deadErrScan) {
	var bodies []*ast.BlockStmt
	ast.Inspect(f, func(n ast.Node) bool {
		switch x := n.(type) {
		case *ast.FuncDecl:
			if x.Body != nil {
				bodies = append(bodies, x.Body)
			}
		case *ast.FuncLit:
			bodies = append(bodies, x.Body)
		}
		return true
	})
	for _, body := range bodies {
		ast.Inspect(body, func(n ast.Node) bool {
			if fl, ok := n.(*ast.FuncLit); ok && fl.Body != body {
				return false // a nested function literal is a body of its own
			}
			ds, ok := n.(*ast.DeferStmt)
			if !ok || len(ds.Call.Args) == 0 {
				return true
			}
			res.defers[rel]++
			for _, a := range ds.Call.Args {
				id, ok := ast.Unparen(a).(*ast.Ident)
				if !ok {
					continue
				}
				v, ok := pkg.TypesInfo.Uses[id].(*types.Var)
				if !ok || v.IsField() || v.Parent() == nil || v.Parent() == pkg.Types.Scope() {
					continue
				}
				// an assignment to the same variable after the defer statement, in the same body
				// (nested literals included: they run before the function returns or not at all)
				var later token.Pos
				ast.Inspect(body, func(m ast.Node) bool {
					as, ok := m.(*ast.AssignStmt)
					if !ok || as.Pos() < ds.End() {
						return true
					}
					for _, l := range as.Lhs {
						if li, ok := l.(*ast.Ident); ok && pkg.TypesInfo.Uses[li] == types.Object(v) && !later.IsValid() {
							later = as.Pos()
						}
					}
					return true
				})
				if later.IsValid() {
					res.stale = append(res.stale, deadErr{rel, ds.Pos(), "", fmt.Sprintf("defer %s(... %s ...) evaluates %s at the defer statement; %s is assigned again at line %d and the deferred call never sees that value", types.ExprString(ds.Call.Fun), id.Name, id.Name, id.Name, c.Fset.Position(later).Line)})
				}
			}
			return true
		})
	}
}

// errValuesUsed is the last rule of every property: it looks at the files the rules before it
// reported positions in.
func errValuesUsed(c *Ctx) {
	files := map[string]bool{}
	for _, o := range c.obs {
		if i := strings.LastIndex(o.Pos, ":"); i > 0 {
			files[o.Pos[:i]] = true
		}
	}
	// the command glue of the property: the files of cmd/desync that drive the anchored library
	// code (no library rule reports a position there when the command only forwards)
	if len(c.curRule) >= 3 {
		for _, f := range glueFiles[c.curRule[:3]] {
			files["cmd/desync/"+f] = true
		}
	}
	scan := c.scanDeadErrors()
	n := 0
	for f := range files {
		n += scan.sites[f]
	}
	bad := 0
	for _, d := range scan.dead {
		if !files[d.file] {
			continue
		}
		bad++
		c.bad(d.fn+":error-never-read", d.pos, "%s: the statement that follows tests another variable of the same name (a shadowed err) or nothing at all, and the failure is lost", d.what)
	}
	nd := 0
	for f := range files {
		nd += scan.defers[f]
	}
	staleN := 0
	for _, d := range scan.stale {
		if !files[d.file] {
			continue
		}
		staleN++
		c.bad(fmt.Sprintf("%s:deferred-args-stale", d.file), d.pos, "%s", d.what)
	}
	if staleN == 0 {
		c.ok("deferred-args-current", token.NoPos, "%d defer statements with arguments in the files of this property: no argument variable is assigned again after the defer statement", nd)
	}
	if bad == 0 {
		c.ok("error-values-used", token.NoPos, "%d assignments of a call's error result to a named variable in %d files of this property: every one reaches a read", n, len(files))
	}
}

var glueFiles = map[string][]string{
	"C01": {"extract.go", "store.go", "location.go"},
	"C02": {"make.go"},
	"C03": {"store.go", "chunkserver.go", "pull.go"},
	"C04": {"make.go", "info.go", "list.go", "store.go"},
	"C05": {"tar.go", "untar.go", "mtree.go"},
	"C06": {"make.go", "chop.go", "cache.go", "tar.go"},
	"C07": {"extract.go", "make.go", "chop.go", "cache.go", "tar.go", "untar.go", "verifyindex.go", "cat.go", "main.go"},
	"C08": {"extract.go", "untar.go"},
	"C09": {"cat.go", "mount-index.go"},
	"C10": {"mount-index.go"},
	"C11": {"store.go", "location.go", "config.go"},
	"C12": {"store.go"},
	"C13": {"tar.go"},
	"C14": {"chunkserver.go", "indexserver.go", "pull.go", "store.go"},
	"C15": {"chunkserver.go", "indexserver.go", "options.go"},
	"C16": {"prune.go", "verify.go", "store.go"},
	"C17": {"verifyindex.go"},
	"C18": {"untar.go"},
	"C19": {"untar.go", "info.go", "inspectchunks.go"},
	"C20": {"store.go", "chunk.go"},
}

func init() {
	// appended after all property files have registered (init order: file names; this file
	// sorts after cNN.go but before main.go's use of the registry)
	deferredRegistrations = append(deferredRegistrations, func() {
		for _, p := range registry {
			p.Rules = append(p.Rules, rule{p.ID + ".error-values-used", "no error result is assigned to a named variable and never read (shadowed err) in the files the property's rules anchor in", 1, errValuesUsed})
		}
	})
}
