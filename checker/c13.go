package main

import (
	"fmt"
	"go/token"
	"go/types"
	"regexp"
	"sort"
	"strconv"
	"strings"

	"golang.org/x/tools/go/ssa"
)

func init() {
	register(&property{
		ID: "C13",
		Explanation: "BST shape for every fan-out, SipHash values and casync acceptance are value-level and NOT decided. Decided: " +
			"C13.size-fields: for every element tar() builds, the declared FormatHeader.Size equals, as a linear form over len(.) atoms, the number of bytes FormatEncoder.Encode writes for that type (8 bytes per word of the encoder's field table, len+1 for NUL-terminated strings with len(a+b)=len(a)+len(b), 24 bytes per goodbye item with len(append(s,x))=len(s)+1); the goodbye tail item's Size equals the goodbye element's Size; Payload (16+f.Size vs. a stream) is a frozen exception. " +
			"C13.goodbye: the tail item with CaFormatGoodbyeTailMarker is appended before encoding; every item's Hash is SipHash of the same name value written in the preceding FormatFilename, its Offset/Size come from the byte counter taken before the filename and after the entry; offsets are converted to back-offsets from the goodbye start; makeGoodbyeBST sorts by (Hash, Offset) before laying out the tree; SipHash uses casync's two key constants. " +
			"C13.byte-counter: after every Encode / recursive tar call the returned byte count is added to the running counter before the next element or a successful return. " +
			"C13.grammar: the success paths of tar() for a given entry emit element words matching Entry XAttr* (Payload | Symlink | Device | (Filename Child)* Goodbye) and never the empty word. C13.codec: every element type has agreeing encoder and decoder tables (shared with C05).",
		NotDecided: "the BST layout produced by bst() for each fan-out, the SipHash-2-4 value itself, acceptance by casync.",
		Rules: []rule{
			{"C13.tar-index-needs-tar", "tar -i stores its index only when desync.Tar succeeded; a failed Tar never ends in success (shared with C06)", 1, func(c *Ctx) { c.tarIndexNeedsTar() }},
			{"C13.size-fields", "declared element sizes equal the bytes the encoder writes (linear forms)", 7, c13SizeFields},
			{"C13.goodbye", "goodbye items: hash of the written name, offsets from the byte counter, tail marker, sorted before layout", 7, c13Goodbye},
			{"C13.byte-counter", "every encoded element's byte count is added to the running offset", 6, c13ByteCounter},
			{"C13.encode-counts", "the encoder counts every byte it writes", 20, c13EncodeCounts},
			{"C13.outputs-truncated", "output files are created truncating (shared with C04/C05)", 10, func(c *Ctx) { c.outputsTruncated() }},
			{"C13.no-stdout-in-library", "the library never prints to standard output (the archive may be written there)", 1, func(c *Ctx) { c.noStdoutInLibrary() }},
			{"C13.mode-tables", "entry modes: file types compared under the type mask, conversions mutual inverses (shared with C05)", 3, c05ModeTables},
			{"C13.grammar", "tar() emits Entry XAttr* (Payload|Symlink|Device|(Filename Child)* Goodbye)", 1, c13Grammar},
			{"C13.string-terminator", "readString takes exactly the one terminating byte off a string element (shared with C05)", 1, c05StringTerminator},
			{"C13.field-mapping", "what is packed is read from the entry being packed; the disk reader hands out clean paths (shared with C05)", 20, c05FieldMapping},
			{"C13.wrapper-order", "a wrapping writer (bufio, tar) is flushed/closed before the pipe or file underneath it is closed (shared with C05)", 1, func(c *Ctx) { c.wrapperOrder() }},
			{"C13.codec", "encoder and decoder agree on every element type", 15, func(c *Ctx) { c.codecAgree(allElementTypes) }},
		},
	})
}

var allElementTypes = []string{"FormatEntry", "FormatUser", "FormatGroup", "FormatXAttr", "FormatSELinux", "FormatFilename", "FormatSymlink", "FormatDevice", "FormatPayload", "FormatFCaps", "FormatACLUser", "FormatACLGroup", "FormatACLGroupObj", "FormatACLDefault", "FormatGoodbye"}

// lenAtoms: linear form of the length of a string/slice value.
func lenForm(v ssa.Value, depth int) linform {
	one := func(k int64) linform { return linform{atoms: map[string]int{}, k: k, ok: true} }
	if depth > 8 {
		return linform{}
	}
	switch x := v.(type) {
	case *ssa.Const:
		if x.Value != nil && x.Value.Kind().String() == "String" {
			s := x.Value.ExactString()
			// ExactString is quoted
			if u, err := unquote(s); err == nil {
				return one(int64(len(u)))
			}
		}
		if x.Value == nil {
			return one(0)
		}
	case *ssa.BinOp:
		if x.Op == token.ADD {
			return lenForm(x.X, depth+1).add(lenForm(x.Y, depth+1), 1)
		}
	case *ssa.Convert:
		return lenForm(x.X, depth+1) // string <-> []byte keep the length
	case *ssa.ChangeType:
		return lenForm(x.X, depth+1)
	case *ssa.Call:
		// a new helper that returns the slice: the length of what it returns
		if h := directCallee(x); h != nil && newHelpers[h] && h.Blocks != nil && h.Signature.Results().Len() == 1 {
			var f linform
			n := 0
			for _, r := range returnsOf(h) {
				g := lenForm(unspill(r, r.Results[0]), depth+1)
				if n > 0 && !f.equal(g) {
					return linform{atoms: map[string]int{fmt.Sprintf("len(%s)", valueID(v)): 1}, ok: true}
				}
				f = g
				n++
			}
			if n > 0 {
				return f
			}
		}
		if callee(x) == "builtin:append" && len(x.Call.Args) == 2 {
			// append(s, one element) : the variadic part is a slice of a 1-element array
			if sl, ok := x.Call.Args[1].(*ssa.Slice); ok {
				if al, ok := sl.X.(*ssa.Alloc); ok {
					if arr, ok := al.Type().Underlying().(*types.Pointer).Elem().Underlying().(*types.Array); ok {
						return lenForm(x.Call.Args[0], depth+1).add(one(arr.Len()), 1)
					}
				}
			}
		}
	case *ssa.UnOp:
		// a local slice variable kept in memory (its address is taken somewhere): the value of the
		// one store that reaches this load
		if st := reachingStore(x); st != nil {
			return lenForm(st.Val, depth+1)
		}
	case *ssa.Phi:
		// all edges must agree
		var f linform
		for i, e := range x.Edges {
			g := lenForm(e, depth+1)
			if i == 0 {
				f = g
			} else if !f.equal(g) {
				return linform{atoms: map[string]int{fmt.Sprintf("len(%s)", valueID(v)): 1}, ok: true}
			}
		}
		return f
	}
	return linform{atoms: map[string]int{fmt.Sprintf("len(%s)", valueID(v)): 1}, ok: true}
}

func unquote(s string) (string, error) {
	var out []byte
	if len(s) < 2 {
		return "", fmt.Errorf("not quoted")
	}
	// Go syntax
	u, err := strconvUnquote(s)
	if err != nil {
		return "", err
	}
	out = []byte(u)
	return string(out), nil
}

// valueID names a value for len() atoms: loads of the same local cell count as one value.
func valueID(v ssa.Value) string {
	v = stripSlices(v)
	if u, ok := v.(*ssa.UnOp); ok && u.Op == token.MUL {
		return "*" + lockKey(u.X)
	}
	return fmt.Sprintf("%s@%p", v.Name(), v)
}

// sizeForm: linear form of an integer expression with len(x) atoms, +, -, * const.
func sizeForm(v ssa.Value, depth int) linform {
	if depth > 10 {
		return linform{}
	}
	switch x := v.(type) {
	case *ssa.Const:
		if x.Value != nil {
			return linform{atoms: map[string]int{}, k: constInt64(x), ok: true}
		}
	case *ssa.Convert:
		return sizeForm(x.X, depth+1)
	case *ssa.ChangeType:
		return sizeForm(x.X, depth+1)
	case *ssa.BinOp:
		a, b := sizeForm(x.X, depth+1), sizeForm(x.Y, depth+1)
		switch x.Op {
		case token.ADD:
			return a.add(b, 1)
		case token.SUB:
			return a.add(b, -1)
		case token.MUL:
			if len(nonZero(b.atoms)) == 0 && b.ok {
				return scale(a, int(b.k))
			}
			if len(nonZero(a.atoms)) == 0 && a.ok {
				return scale(b, int(a.k))
			}
		}
	case *ssa.Call:
		if callee(x) == "builtin:len" {
			return lenForm(x.Call.Args[0], depth+1)
		}
	}
	return linform{atoms: map[string]int{valueID(v): 1}, ok: true}
}

func scale(l linform, k int) linform {
	r := linform{atoms: map[string]int{}, k: l.k * int64(k), ok: l.ok}
	for a, n := range l.atoms {
		r.atoms[a] = n * k
	}
	return r
}

// literal describes one composite literal of an element type in a function: the stores to its fields.
type literal struct {
	typ    string
	alloc  *ssa.Alloc
	fields map[string]ssa.Value
	pos    token.Pos
}

func elementLiterals(fn *ssa.Function) []literal {
	byAlloc := map[*ssa.Alloc]*literal{}
	var order []*ssa.Alloc
	instrs(fn, func(_ *ssa.BasicBlock, _ int, ins ssa.Instruction) {
		st, ok := ins.(*ssa.Store)
		if !ok {
			return
		}
		fa, ok := st.Addr.(*ssa.FieldAddr)
		if !ok {
			return
		}
		base := baseAlloc(fa)
		if base == nil {
			return
		}
		typ := strings.TrimPrefix(typeName(base.Type()), "desync.")
		if !strings.HasPrefix(typ, "Format") {
			return
		}
		l := byAlloc[base]
		if l == nil {
			l = &literal{typ: typ, alloc: base, fields: map[string]ssa.Value{}, pos: base.Pos()}
			byAlloc[base] = l
			order = append(order, base)
		}
		f := fieldOf(fa)
		l.fields[f[strings.Index(f, ".")+1:]] = st.Val
	})
	var out []literal
	for _, a := range order {
		out = append(out, *byAlloc[a])
	}
	return out
}

func c13SizeFields(c *Ctx) {
	fn := c.mustFn("tar")
	if fn == nil {
		return
	}
	t := c.codec()
	n := 0
	var goodbyeSize linform
	var tailSize linform
	for _, l := range elementLiterals(fn) {
		enc, ok := t.enc[l.typ]
		if !ok {
			if l.typ == "FormatHeader" || l.typ == "FormatGoodbyeItem" {
				if l.typ == "FormatGoodbyeItem" {
					if h, ok := l.fields["Hash"].(*ssa.Const); ok && h.Value != nil && h.Value.ExactString() == c.constVal("CaFormatGoodbyeTailMarker") {
						tailSize = sizeForm(l.fields["Size"], 0)
					}
				}
				continue
			}
			c.bad("tar:"+l.typ+":size", l.pos, "tar() builds %s but the encoder has no case for it", l.typ)
			continue
		}
		size, has := l.fields["Size"]
		if !has {
			continue
		}
		n++
		key := "tar:" + l.typ + ":size"
		declared := sizeForm(size, 0)
		// expected from the encoder's table
		expected := linform{atoms: map[string]int{}, ok: true}
		exception := ""
		for _, tok := range enc {
			switch {
			case strings.HasPrefix(tok, "loop:"):
				// items: each loop token is one word per item
				items, ok := l.fields["Items"]
				if !ok {
					exception = "loop without Items field"
					continue
				}
				expected = expected.add(scale(lenForm(items, 0), 8), 1)
			case strings.HasPrefix(tok, "str:"):
				v, ok := l.fields[strings.TrimPrefix(tok, "str:")]
				if !ok {
					exception = "string field not set"
					continue
				}
				expected = expected.add(lenForm(v, 0), 1)
				expected.k++
			case strings.HasPrefix(tok, "bytes:"):
				v, ok := l.fields[strings.TrimPrefix(tok, "bytes:")]
				if ok {
					expected = expected.add(lenForm(v, 0), 1)
				}
			case strings.HasPrefix(tok, "stream:"):
				exception = "payload: the declared size 16+f.Size describes a stream whose length is a runtime quantity"
			default:
				expected.k += 8
			}
		}
		if l.typ == "FormatGoodbye" {
			goodbyeSize = declared
		}
		switch {
		case exception != "" && l.typ == "FormatPayload":
			// frozen exception; still: 16 + something derived from File.Size
			okP := declared.k == 16 && len(nonZero(declared.atoms)) == 1 && hasOrigin(size, func(o string) bool { return true })
			c.verdict(okP, key, l.pos, "Payload size = 16 + f.Size (exception: stream length is a runtime quantity)", "Payload size is not 16 + the file size: "+declared.String())
		case exception != "":
			c.bad(key, l.pos, "cannot compare sizes of %s: %s", l.typ, exception)
		case declared.equal(expected):
			c.ok(key, l.pos, "declared %s == written %s", declared, expected)
		default:
			c.bad(key, l.pos, "%s declares Size %s but the encoder writes %s bytes for it: readers that trust the size field lose synchronisation", l.typ, declared, expected)
		}
	}
	if n < 6 {
		c.bad("tar:element-literals", fn.Pos(), "expected tar() to build at least six kinds of elements, found %d", n)
	}
	c.verdict(tailSize.ok && goodbyeSize.ok && tailSize.equal(goodbyeSize), "tar:goodbye-tail-size", fn.Pos(), fmt.Sprintf("tail item Size %s equals the goodbye element's Size", tailSize), fmt.Sprintf("the tail item's Size %s differs from the goodbye element's Size %s", tailSize, goodbyeSize))
}

func c13Goodbye(c *Ctx) {
	fn := c.mustFn("tar")
	if fn == nil {
		return
	}
	lits := elementLiterals(fn)
	var filenameName ssa.Value
	var items []literal
	for _, l := range lits {
		switch l.typ {
		case "FormatFilename":
			filenameName = l.fields["Name"]
		case "FormatGoodbyeItem":
			items = append(items, l)
		}
	}
	marker := c.constVal("CaFormatGoodbyeTailMarker")
	var tail, item *literal
	for i := range items {
		if h, ok := items[i].fields["Hash"].(*ssa.Const); ok && h.Value != nil && h.Value.ExactString() == marker {
			tail = &items[i]
		} else {
			item = &items[i]
		}
	}
	if item == nil || tail == nil || filenameName == nil {
		c.bad("tar:goodbye-items", fn.Pos(), "tar() does not build a filename element, per-child goodbye items and a tail item with CaFormatGoodbyeTailMarker")
		return
	}
	// hash of the same name
	hashOK := false
	for _, l := range leaves(item.fields["Hash"]) {
		if call, _ := callOf(l); call != nil && callee(call) == "desync.SipHash" {
			arg := call.Call.Args[0]
			for _, a := range leaves(stripConv(arg)) {
				for _, b := range leaves(filenameName) {
					if a == b {
						hashOK = true
					}
				}
			}
		}
	}
	c.verdict(hashOK, "tar:goodbye-hash", item.pos, "item.Hash = SipHash of the name written in the filename element", "the goodbye item's hash is not computed from the name that was written in the preceding filename element")
	// offsets: Offset = start, Size = n - start with start = n loaded before the filename element
	sizeOK := false
	if bo, ok := stripConv(item.fields["Size"]).(*ssa.BinOp); ok && bo.Op == token.SUB {
		if sameValue(bo.Y, stripConv(item.fields["Offset"])) && isCounterLoad(bo.X) {
			sizeOK = true
		}
	}
	c.verdict(sizeOK, "tar:goodbye-item-extent", item.pos, "item = {Offset: start, Size: n - start}", "the goodbye item's Offset/Size are not (start, n-start) of the running byte counter")
	// start is taken before the filename is encoded
	startOK := false
	start := stripConv(item.fields["Offset"])
	starts := []ssa.Value{start}
	if p, isParam := start.(*ssa.Parameter); isParam {
		// the item is built in a helper: the start offset is what its callers pass
		starts = nil
		for _, a := range boundArgs(p) {
			starts = append(starts, stripConv(a))
		}
	}
	for _, l := range starts {
		if ld, ok := l.(*ssa.UnOp); ok && isCounterLoad(ld) {
			for _, e := range encodeSites(fn) {
				if typeName(e.typ) == "desync.FormatFilename" && instrDominates(ld, e.at) {
					startOK = true
				}
			}
		}
	}
	c.verdict(startOK, "tar:goodbye-start-before-filename", item.pos, "the item starts at the filename element", "the item's start offset is not taken before its filename element is written")
	// back-offsets: a loop storing n - items[i].Offset into items[i].Offset
	backOK := false
	instrs(fn, func(_ *ssa.BasicBlock, _ int, ins ssa.Instruction) {
		st, ok := ins.(*ssa.Store)
		if !ok {
			return
		}
		fa, ok := st.Addr.(*ssa.FieldAddr)
		if !ok || fieldOf(fa) != "FormatGoodbyeItem.Offset" {
			return
		}
		if _, isIdx := fa.X.(*ssa.IndexAddr); !isIdx {
			return
		}
		if bo, ok := stripConv(st.Val).(*ssa.BinOp); ok && bo.Op == token.SUB && isCounterLoad(stripConv(bo.X)) &&
			hasOrigin(bo.Y, func(o string) bool { return o == "field:FormatGoodbyeItem.Offset" }) {
			backOK = true
		}
	})
	c.verdict(backOK, "tar:goodbye-back-offsets", item.pos, "offsets are rewritten as distances back from the goodbye element", "item offsets are not converted to back-offsets (n - start) from the goodbye element")
	// tail offset = n ; appended before the goodbye literal uses items
	c.verdict(isCounterLoad(stripConv(tail.fields["Offset"])), "tar:goodbye-tail-offset", tail.pos, "tail.Offset = bytes since the directory's entry (n)", "the tail item's offset is not the running byte counter")
	// makeGoodbyeBST is applied before the tail is appended, and the result is what is encoded
	bstOK := false
	for _, b := range calls(fn, named("desync.makeGoodbyeBST")) {
		for _, l := range lits {
			if l.typ == "FormatGoodbye" {
				if hasOrigin(l.fields["Items"], func(o string) bool { return o == "call:builtin:append#0" }) {
					for _, lf := range leaves(l.fields["Items"]) {
						if ap, _ := callOf(lf); ap != nil && callee(ap) == "builtin:append" {
							if hasOrigin(ap.Call.Args[0], func(o string) bool { return o == "call:desync.makeGoodbyeBST#0" }) {
								bstOK = true
							}
						}
					}
				}
			}
		}
		_ = b
	}
	c.verdict(bstOK, "tar:goodbye-bst-then-tail", fn.Pos(), "Items = append(makeGoodbyeBST(items), tail)", "the encoded goodbye items are not the BST layout followed by the tail item")
	// makeGoodbyeBST: sort.Slice dominates bst(); comparator compares Hash then Offset
	if m := c.mustFn("makeGoodbyeBST"); m != nil {
		sorts := calls(m, named("sort.Slice", "sort.SliceStable"))
		bsts := calls(m, named("desync.bst"))
		okS := len(sorts) == 1 && len(bsts) >= 1 && instrDominates(sorts[0].(ssa.Instruction), bsts[0].(ssa.Instruction))
		cmpOK := false
		for _, cl := range closures(m) {
			hashLess, offLess := false, false
			instrs(cl, func(_ *ssa.BasicBlock, _ int, ins ssa.Instruction) {
				if bo, ok := ins.(*ssa.BinOp); ok && (bo.Op == token.LSS || bo.Op == token.GTR) {
					if hasOrigin(bo.X, func(o string) bool { return o == "field:FormatGoodbyeItem.Hash" }) && hasOrigin(bo.Y, func(o string) bool { return o == "field:FormatGoodbyeItem.Hash" }) {
						hashLess = true
					}
					if hasOrigin(bo.X, func(o string) bool { return o == "field:FormatGoodbyeItem.Offset" }) && hasOrigin(bo.Y, func(o string) bool { return o == "field:FormatGoodbyeItem.Offset" }) {
						offLess = true
					}
				}
			})
			if hashLess && offLess {
				cmpOK = true
			}
		}
		c.verdict(okS && cmpOK, "makeGoodbyeBST:sorted-first", m.Pos(), "items are sorted by (Hash, Offset) before the tree is laid out", "the goodbye items are not sorted by hash (then offset) before the BST layout: lookups by hash fail")
	}
	if m := c.fn("makeGoodbyeBST"); m != nil {
		// the result is the array laid out by bst(); returning the (sorted) input itself is only a BST
		// layout for at most one element
		okR := true
		why := ""
		for _, r := range returnsOf(m) {
			for _, l := range leaves(r.Results[0]) {
				l = stripSlices(l)
				if ms, ok := l.(*ssa.MakeSlice); ok {
					// must be the buffer handed to bst
					used := false
					for _, b := range calls(m, named("desync.bst")) {
						if stripSlices(b.Common().Args[1]) == ssa.Value(ms) {
							used = true
						}
					}
					if !used {
						okR, why = false, "the returned array is not the one filled by bst()"
					}
					continue
				}
				if _, isParam := l.(*ssa.Parameter); isParam {
					lb := false
					// allowed only behind len(in) <= 1
					okG, _ := guarded(m, r, func(iff *ssa.If) (bool, bool) {
						cm, truth, ok := cmpOf(iff.Cond)
						if !ok {
							return false, false
						}
						call, isLen := cm.x.(*ssa.Call)
						k, isK := cm.y.(*ssa.Const)
						if !isLen || !isK || callee(call) != "builtin:len" {
							return false, false
						}
						switch {
						case cm.op == token.LEQ && constInt64(k) <= 1, cm.op == token.LSS && constInt64(k) <= 2, cm.op == token.EQL && constInt64(k) <= 1:
							return truth, !truth
						}
						return false, false
					})
					lb = okG
					if !lb {
						okR, why = false, "the sorted input is returned as is for more than one item; the array form of a 2-node search tree is [larger, smaller]"
					}
					continue
				}
				if k, ok := l.(*ssa.Const); ok && k.Value == nil {
					continue
				}
				okR, why = false, "unexpected result "+l.String()
			}
		}
		c.verdict(okR, "makeGoodbyeBST:returns-layout", m.Pos(), "the result is the array laid out by bst()", "makeGoodbyeBST does not return the BST layout: "+why)
	}
	if s := c.mustFn("SipHash"); s != nil {
		okK := false
		for _, call := range calls(s, suffixed("siphash.Hash")) {
			a := call.Common().Args
			k0, ok0 := a[0].(*ssa.Const)
			k1, ok1 := a[1].(*ssa.Const)
			if ok0 && ok1 && k0.Value.ExactString() == c.constVal("CaFormatGoodbyeHashKey0") && k1.Value.ExactString() == c.constVal("CaFormatGoodbyeHashKey1") {
				okK = true
			}
		}
		c.verdict(okK, "SipHash:keys", s.Pos(), "SipHash-2-4 with casync's two key constants", "SipHash is not keyed with CaFormatGoodbyeHashKey0/1")
	}
}

func stripConv(v ssa.Value) ssa.Value {
	for {
		switch x := v.(type) {
		case *ssa.Convert:
			v = x.X
		case *ssa.ChangeType:
			v = x.X
		default:
			return v
		}
	}
}

func sameValue(a, b ssa.Value) bool {
	a, b = stripConv(a), stripConv(b)
	if a == b {
		return true
	}
	la, lb := leaves(a), leaves(b)
	for _, x := range la {
		for _, y := range lb {
			if x == y {
				return true
			}
		}
	}
	return false
}

// isCounterLoad: a load of the running byte counter of tar - its first (named) result, whatever
// it is called - or, inside a new helper, a parameter that is bound to such a load at the call.
func isCounterLoad(v ssa.Value) bool {
	v = stripConv(v)
	if p, ok := v.(*ssa.Parameter); ok {
		as := boundArgs(p)
		if len(as) == 0 {
			return false
		}
		for _, a := range as {
			if !isCounterLoad(a) {
				return false
			}
		}
		return true
	}
	counterName := func(fn *ssa.Function) string {
		if fn == nil || fn.Signature.Results().Len() == 0 {
			return ""
		}
		return fn.Signature.Results().At(0).Name()
	}
	u, ok := v.(*ssa.UnOp)
	if !ok || u.Op != token.MUL {
		// the counter may be an SSA register when no defer spills it
		if p, ok := v.(*ssa.Phi); ok && p.Comment != "" && p.Comment == counterName(p.Parent()) {
			return true
		}
		return false
	}
	if al, ok := u.X.(*ssa.Alloc); ok {
		return al.Comment != "" && al.Comment == counterName(al.Parent())
	}
	return counterCellOf(u.X) != nil
}

// encodedType returns the static type of the element passed to Encode.
func encodedType(call ssa.CallInstruction) types.Type {
	a := call.Common().Args
	v := a[len(a)-1]
	if mi, ok := v.(*ssa.MakeInterface); ok {
		return mi.X.Type()
	}
	return v.Type()
}

// encodedTypeAt is encodedType on a path of the explorer: an element that reaches Encode through
// the parameter of an inlined wrapper ("emit(x)") is traced back to the value the caller passed.
func encodedTypeAt(st *State, call ssa.CallInstruction) types.Type {
	a := call.Common().Args
	v := a[len(a)-1]
	for d := 0; d < 8; d++ {
		if mi, ok := v.(*ssa.MakeInterface); ok {
			return mi.X.Type()
		}
		if w, ok := st.Args[v]; ok {
			v = w
			continue
		}
		if phi, ok := v.(*ssa.Phi); ok {
			if w, ok := st.Sel[phi]; ok {
				v = w
				continue
			}
		}
		break
	}
	return v.Type()
}

// phiLeaves: the non-phi values a phi can take.
func phiLeaves(v ssa.Value) []ssa.Value {
	var out []ssa.Value
	seen := map[ssa.Value]bool{}
	var walk func(v ssa.Value)
	walk = func(v ssa.Value) {
		if seen[v] {
			return
		}
		seen[v] = true
		if phi, ok := v.(*ssa.Phi); ok {
			for _, e := range phi.Edges {
				walk(e)
			}
			return
		}
		out = append(out, v)
	}
	walk(v)
	return out
}

// encodeSite is one element written from tar(): where it happens in tar() and the element type.
type encodeSite struct {
	at  ssa.Instruction
	typ types.Type
}

// encodeSites lists the Encode calls of fn, including those made through a new wrapper (a helper
// or local closure that passes its parameter on to Encode), attributed to the wrapper's call.
func encodeSites(fn *ssa.Function) []encodeSite {
	var out []encodeSite
	isEnc := func(n string) bool { return strings.HasSuffix(n, "FormatEncoder).Encode") }
	for _, g := range withClosures(fn) {
		if newHelpers[g] {
			continue
		}
		for _, b := range g.Blocks {
			for _, ins := range b.Instrs {
				call, ok := ins.(*ssa.Call)
				if !ok {
					continue
				}
				if isEnc(callee(call)) {
					// one call that writes "whichever element was built above" (a phi of elements)
					// stands for an element of each of these types
					a := call.Call.Args
					if phi, isPhi := a[len(a)-1].(*ssa.Phi); isPhi {
						seenT := map[string]bool{}
						for _, l := range phiLeaves(phi) {
							if mi, isMI := l.(*ssa.MakeInterface); isMI && !seenT[mi.X.Type().String()] {
								seenT[mi.X.Type().String()] = true
								out = append(out, encodeSite{call, mi.X.Type()})
							}
						}
						if len(seenT) > 0 {
							continue
						}
					}
					out = append(out, encodeSite{call, encodedType(call)})
					continue
				}
				h := directCallee(call)
				if h == nil || !newHelpers[h] {
					continue
				}
				for _, inner := range calls(h, isEnc) {
					ia := inner.Common().Args
					if p, ok := ia[len(ia)-1].(*ssa.Parameter); ok {
						for k, q := range h.Params {
							if q == p && k < len(call.Call.Args) {
								v := call.Call.Args[k]
								t := v.Type()
								if mi, ok := v.(*ssa.MakeInterface); ok {
									t = mi.X.Type()
								}
								out = append(out, encodeSite{call, t})
							}
						}
					} else if ic, ok := inner.(*ssa.Call); ok {
						// the helper builds the element itself
						out = append(out, encodeSite{ic, encodedType(ic)})
					}
				}
			}
		}
	}
	return out
}

func c13ByteCounter(c *Ctx) {
	fn := c.mustFn("tar")
	if fn == nil {
		return
	}
	isCounted := func(ins ssa.Instruction) bool {
		call, ok := ins.(*ssa.Call)
		if !ok {
			return false
		}
		n := callee(call)
		if strings.HasSuffix(n, "FormatEncoder).Encode") || (n == "desync.tar" && call.Parent() == fn) {
			return true
		}
		// a new helper that encodes elements and returns their byte count
		if h := call.Call.StaticCallee(); h != nil && newHelpers[h] && h.Signature.Results().Len() > 0 {
			if b, ok := h.Signature.Results().At(0).Type().Underlying().(*types.Basic); ok && b.Kind() == types.Int64 {
				return len(calls(h, suffixed("FormatEncoder).Encode"))) > 0
			}
		}
		return false
	}
	isAdd := func(ins ssa.Instruction) bool {
		// the counter as an SSA register (no defer spills it): counter' = counter + nn
		if bo, ok := ins.(*ssa.BinOp); ok && bo.Op == token.ADD {
			for _, op := range []ssa.Value{bo.X, bo.Y} {
				if p, isPhi := stripConv(op).(*ssa.Phi); isPhi && isCounterLoad(p) {
					return true
				}
			}
		}
		st, ok := ins.(*ssa.Store)
		if !ok {
			return false
		}
		if counterCellOf(st.Addr) == nil {
			return false
		}
		bo, ok := st.Val.(*ssa.BinOp)
		return ok && bo.Op == token.ADD && (isCounterLoad(bo.X) || isCounterLoad(bo.Y))
	}
	n := 0
	var allBlocks []*ssa.BasicBlock
	for _, g := range fnsDeep(fn) {
		allBlocks = append(allBlocks, g.Blocks...)
	}
	for _, b := range allBlocks {
		for i, ins := range b.Instrs {
			if !isCounted(ins) {
				continue
			}
			call := ins.(*ssa.Call)
			// the very first call (f == nil delegation) returns the callee's count directly
			if callee(call) == "desync.tar" {
				direct := false
				for _, r := range *call.Referrers() {
					if ex, ok := r.(*ssa.Extract); ok && ex.Referrers() != nil {
						for _, r2 := range *ex.Referrers() {
							if _, ok := r2.(*ssa.Return); ok {
								direct = true
							}
							if st, ok := r2.(*ssa.Store); ok {
								if al, ok := st.Addr.(*ssa.Alloc); ok && isCounterCell(al) && st.Val == ssa.Value(ex) {
									direct = true
								}
							}
						}
					}
				}
				if direct {
					continue
				}
			}
			n++
			// an element encoded in a wrapper stands for every use of the wrapper
			if g := b.Parent(); g != fn && newHelpers[g] && len(helperSites[g]) > 1 {
				for _, cs := range helperSites[g][1:] {
					n++
					c.ok("tar:count-via-"+g.Name(), cs.Pos(), "element encoded through the counting wrapper %s", g.Name())
				}
			}
			key := fmt.Sprintf("tar:count-after-%s", strings.TrimPrefix(typeName(encodedType(call)), "desync."))
			if callee(call) == "desync.tar" {
				key = "tar:count-after-child"
			}
			// forward search: before the next counted call or a nil-error return an add must happen
			type pt struct {
				b *ssa.BasicBlock
				i int
			}
			seen := map[pt]bool{}
			work := []pt{{b, i + 1}}
			bad := ""
			for len(work) > 0 && bad == "" {
				p := work[len(work)-1]
				work = work[:len(work)-1]
				if seen[p] {
					continue
				}
				seen[p] = true
				stopped := false
				for k := p.i; k < len(p.b.Instrs); k++ {
					x := p.b.Instrs[k]
					if isAdd(x) {
						stopped = true
						break
					}
					if isCounted(x) {
						bad = "the next element is encoded at " + c.pos(x.Pos())
						stopped = true
						break
					}
					if r, ok := x.(*ssa.Return); ok {
						// reached without passing through the non-nil edge of an error test: a success return
						bad = "tar returns at " + c.pos(r.Pos())
						stopped = true
						break
					}
				}
				if !stopped {
					skip := -1
					if iff := lastIf(p.b); iff != nil {
						// the non-nil edge of an error test leaves with a partial count: allowed
						if cm, truth, ok := cmpOf(iff.Cond); ok && (cm.op == token.NEQ || cm.op == token.EQL) && (isNilConst(cm.x) || isNilConst(cm.y)) {
							subj := cm.x
							if isNilConst(cm.x) {
								subj = cm.y
							}
							if isErrorType(subj.Type()) {
								if (cm.op == token.NEQ) == truth {
									skip = 0
								} else {
									skip = 1
								}
							}
						}
					}
					for k, s := range p.b.Succs {
						if k == skip {
							continue
						}
						work = append(work, pt{s, 0})
					}
				}
			}
			if bad != "" {
				c.bad(key, call.Pos(), "the bytes written by this element are not added to the running counter before %s: every later goodbye offset and size is short by that amount", bad)
			} else {
				c.ok(key, call.Pos(), "n += count before the next element")
			}
		}
	}
	// elements written through a counting wrapper ("emit(x)": Encode + add inside the wrapper) are
	// covered by the wrapper's own check above; count them as well
	if sites := len(encodeSites(fn)); sites > n {
		n = sites
	}
	if n < 6 {
		c.bad("tar:counted-calls", fn.Pos(), "expected at least 6 encoded elements in tar(), found %d", n)
	}
}

var grammarRe = regexp.MustCompile(`^Entry( XAttr)*( Payload| Symlink| Device|( Filename Child)* Goodbye)$`)

func c13Grammar(c *Ctx) {
	fn := c.mustFn("tar")
	if fn == nil {
		return
	}
	var fParam *ssa.Parameter
	for _, p := range fn.Params {
		if typeName(p.Type()) == "desync.File" {
			fParam = p
		}
	}
	words := map[string]bool{}
	var bad []string
	h := &Hooks{MaxVisits: 3}
	h.Fork = func(st *State, call *ssa.Call) []map[int]Val {
		n := callee(call)
		switch {
		case strings.HasSuffix(n, "FormatEncoder).Encode"):
			st.Emit("el", strings.TrimPrefix(typeName(encodedTypeAt(st, call)), "desync.Format"), call)
			return []map[int]Val{{1: {N: NNil, Class: ClsNil}}}
		case n == "desync.tar":
			st.Emit("el", "Child", call)
			return []map[int]Val{{1: {N: NNil, Class: ClsNil}}}
		case n == "(*desync.fsBufReader).Next":
			return []map[int]Val{{0: {N: NNon}, 1: {N: NNil, Class: ClsNil}}, {1: {N: NNon, Class: ClsOther, Sym: "next:eof"}}}
		}
		return nil
	}
	h.Return = func(st *State, ret *ssa.Return, results []Val) {
		if len(results) != 2 || results[1].N == NNon {
			return
		}
		var w []string
		for _, e := range st.Events {
			if e.Kind == "el" {
				w = append(w, e.Arg)
			}
		}
		word := strings.Join(w, " ")
		if !words[word] {
			words[word] = true
			if !grammarRe.MatchString(word) {
				bad = append(bad, fmt.Sprintf("a success path of tar() for an entry emits %q, outside the catar grammar Entry XAttr* (Payload | Symlink | Device | (Filename Child)* Goodbye)", word))
			}
		}
	}
	st := NewState()
	if fParam != nil {
		st.V[fParam] = Val{N: NNon}
	}
	Explore(fn, fn.Blocks[0], 0, nil, st, h)
	c.paths += h.Paths
	if h.Truncated {
		bad = append(bad, "exploration truncated")
	}
	var ws []string
	for w := range words {
		ws = append(ws, w)
	}
	sort.Strings(ws)
	if len(ws) < 4 {
		bad = append(bad, fmt.Sprintf("only %d distinct element words found", len(ws)))
	}
	c.report("tar:element-order", fn, bad, fmt.Sprintf("%d success path(s), %d distinct words, all in the grammar (e.g. %q)", h.Paths, len(ws), ws[len(ws)-1]))
}

func strconvUnquote(s string) (string, error) { return strconv.Unquote(s) }

// counterCellOf resolves the address of a store/load to the counter cell it denotes: the cell
// itself or, inside a closure that captured it, the captured cell.
func counterCellOf(addr ssa.Value) *ssa.Alloc {
	switch a := addr.(type) {
	case *ssa.Alloc:
		if isCounterCell(a) {
			return a
		}
	case *ssa.FreeVar:
		for _, cell := range captured(a) {
			if al, ok := cell.(*ssa.Alloc); ok && isCounterCell(al) {
				return al
			}
		}
	}
	return nil
}

// isCounterCell: the cell of tar's first named result (the byte counter).
func isCounterCell(al *ssa.Alloc) bool {
	fn := al.Parent()
	return fn != nil && fn.Signature.Results().Len() > 0 && al.Comment != "" && al.Comment == fn.Signature.Results().At(0).Name()
}

// reachingStore: for a load of a local cell, the store in the same function that dominates the
// load when no other write to the cell (a store, or a call that is handed the cell's address) can
// happen between the two; nil if there is no such unique store.
func reachingStore(ld *ssa.UnOp) *ssa.Store {
	if ld.Op != token.MUL {
		return nil
	}
	al, ok := ld.X.(*ssa.Alloc)
	if !ok || al.Referrers() == nil {
		return nil
	}
	var writes []ssa.Instruction
	for _, r := range *al.Referrers() {
		switch x := r.(type) {
		case *ssa.Store:
			if x.Addr == ssa.Value(al) {
				writes = append(writes, x)
			} else {
				return nil // the address itself is stored somewhere
			}
		case *ssa.UnOp, *ssa.DebugRef:
		case ssa.CallInstruction:
			writes = append(writes, x)
		default:
			return nil // captured, sliced, field-addressed ...
		}
	}
	var best *ssa.Store
	for _, w := range writes {
		st, isStore := w.(*ssa.Store)
		if !isStore || !instrDominates(st, ld) {
			continue
		}
		if best == nil || instrDominates(best, st) {
			best = st
		}
	}
	if best == nil {
		return nil
	}
	// no other write on a path from the chosen store to the load
	succReach := func(b *ssa.BasicBlock) map[*ssa.BasicBlock]bool {
		out := map[*ssa.BasicBlock]bool{}
		for _, s := range b.Succs {
			for k := range reachableFrom(s, nil) {
				out[k] = true
			}
		}
		return out
	}
	afterBest := succReach(best.Block())
	for _, w := range writes {
		if w == ssa.Instruction(best) {
			continue
		}
		wb := w.Block()
		after := wb == best.Block() && instrIndex(w) > instrIndex(best) || afterBest[wb]
		before := wb == ld.Block() && instrIndex(w) < instrIndex(ld) || succReach(wb)[ld.Block()]
		if after && before {
			return nil
		}
	}
	return best
}

func instrIndex(ins ssa.Instruction) int {
	for i, x := range ins.Block().Instrs {
		if x == ins {
			return i
		}
	}
	return -1
}

// c13EncodeCounts: tar() computes every goodbye offset and size from the byte counts Encode
// returns, so Encode must count everything it writes: in FormatEncoder.Encode (and the helpers
// and writer methods it uses) the byte count of every write - WriteUint64, WriteID, io.Copy,
// Write, WriteString - is returned or added to the count that is returned.  A write whose count
// is dropped shortens every later offset by that many bytes while the bytes on the wire stay
// correct, so sequential readers never notice.
func c13EncodeCounts(c *Ctx) {
	fn := c.mustFn("FormatEncoder.Encode")
	if fn == nil {
		return
	}
	isWrite := func(ci ssa.CallInstruction) bool {
		com := ci.Common()
		name := callee(ci)
		if com.IsInvoke() {
			name = com.Method.Name()
			return name == "Write" || name == "WriteString"
		}
		switch {
		case name == "io.Copy", name == "io.CopyN", name == "io.WriteString", name == "io.CopyBuffer":
			return true
		case strings.HasPrefix(name, "(desync.writer).Write"), strings.HasSuffix(name, ").Write"), strings.HasSuffix(name, ").WriteString"):
			return true
		case strings.HasPrefix(name, "fmt.Fprint"):
			return true
		}
		return false
	}
	var fns []*ssa.Function
	fns = append(fns, fnsDeep(fn)...)
	for _, k := range []string{"writer.WriteUint64", "writer.WriteID"} {
		if w := c.fn(k); w != nil {
			fns = append(fns, w)
		}
	}
	n := 0
	for _, f := range fns {
		for _, b := range f.Blocks {
			for _, ins := range b.Instrs {
				ci, ok := ins.(ssa.CallInstruction)
				if !ok || !isWrite(ci) {
					continue
				}
				n++
				key := fmt.Sprintf("%s:count-of-%s", fnKey(f), strings.TrimPrefix(callee(ci), "(desync.writer)."))
				v, isVal := ins.(ssa.Value)
				counted := false
				if isVal && v.Referrers() != nil {
					for _, r := range *v.Referrers() {
						switch x := r.(type) {
						case *ssa.Return:
							counted = true // "return io.Copy(...)"
						case *ssa.Extract:
							if x.Index != 0 || x.Referrers() == nil {
								continue
							}
							for _, rr := range *x.Referrers() {
								switch y := rr.(type) {
								case *ssa.DebugRef:
								case *ssa.BinOp:
									counted = counted || y.Op == token.ADD
								case *ssa.Return, *ssa.Store, *ssa.Convert, *ssa.Phi:
									counted = true
								}
							}
						}
					}
				}
				c.verdict(counted, key, ins.Pos(), "the byte count of the write is returned or added to the returned count",
					"bytes are written to the archive but their count is dropped: Encode reports fewer bytes than it wrote and every goodbye offset and size computed from it is short")
			}
		}
	}
	if n < 10 {
		c.bad("FormatEncoder.Encode:writes", fn.Pos(), "only %d writes found in the encoder", n)
	}
}
