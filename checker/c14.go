package main

import (
	"fmt"
	"go/constant"
	"go/token"
	"strings"

	"golang.org/x/tools/go/ssa"
)

func init() {
	register(&property{
		ID: "C14",
		Explanation: "C14.client-status: in RemoteHTTPBase.GetObject/StoreObject and RemoteHTTP.HasChunk (path exploration with the status code as a symbolic integer) a nil error is returned only on paths that found the status equal to 200 (200/201 for PUT), 'absent' only on the ==404 edge, a transport error is passed on; RemoteHTTP.GetChunk maps NoSuchObject to ChunkMissing and nothing else. " +
			"C14.server-status: in the chunk and index handlers (HTTPHandlerBase.get inlined) status 200 is written only on paths where every lookup/convert call succeeded, a failed lookup is answered with a status >= 400, 404 only for missing/not-found. " +
			"C14.retry-bounded: every cycle through the request in IssueRetryableHttpRequest increments the attempt counter and passes the attempt<ErrorRetry side of the budget test and a failure test (transport error or status>=500); the give-up return does not pass a 2xx status. " +
			"C14.protocol: RequestChunk answers MISSING with ChunkMissing, CHUNK through the verifying constructor, anything else with an error. C14.server-loop: ProtocolServer.Serve returns nil only via GOODBYE or cancellation; a MISSING reply continues the session. " +
			"C14.header-before-body: in every function holding an http.ResponseWriter no WriteHeader/http.Error is reachable from a write to the same writer (writes by callees summarised). C14.has-missing: every backend HasChunk (local, HTTP, S3, SFTP, GCS, SSH) answers a missing object with (false, nil). C14.converters: toStorage applies the layers forward, fromStorage backward; Compressor maps to Compress/Decompress.",
		NotDecided: "data preservation through zstd and the network; the exact number of attempts for a concrete response sequence; S3/SFTP HasChunk answering (false,nil) for every error is reported as an observation only (the property names HTTP and the casync protocol).",
		Rules: []rule{
			{"C14.client-status", "HTTP client: success only for 200(/201), absent only for 404, errors passed on; NoSuchObject->ChunkMissing only", 4, c14ClientStatus},
			{"C14.server-status", "HTTP servers: 200 only if every lookup succeeded; failures answered >=400; 404 only for missing", 5, c14ServerStatus},
			{"C14.retry-bounded", "retry loop bounded by ErrorRetry, retried only on errors/5xx, give-up never reports success", 4, c14Retry},
			{"C14.retry-thresholds", "give up when attempt >= ErrorRetry; retry exactly the statuses 500..599 (partition points)", 3, c14RetryThresholds},
			{"C14.retry-body-fresh", "the request body handed to the retry loop is created anew for every attempt", 3, c14RetryBody},
			{"C14.protocol", "casync protocol client: MISSING->ChunkMissing, CHUNK->verified, else error", 3, c14Protocol},
			{"C14.server-loop", "protocol server ends a session with nil only on GOODBYE/cancel; MISSING continues", 2, c14ServerLoop},
			{"C14.has-missing", "backend HasChunk reports a missing chunk as (false, nil)", 5, c14HasMissing},
			{"C14.raw-storage", "a chunk's stored bytes are passed on unconverted only where the converters match", 1, func(c *Ctx) { c.rawStorageGuarded() }},
			{"C14.converters-equal", "Converters.equal answers true only for lists of equal length", 2, c14ConvertersEqual},
			{"C14.converters", "converter layers forward on store, backward on read", 3, c14Converters},
			{"C14.message-body-fresh", "a protocol message's body is its own allocation", 1, func(c *Ctx) { c.messageBodyFresh() }},
			{"C14.retried-reader-fresh", "a reader consumed inside a retry cycle is created inside it", 1, func(c *Ctx) { c.retriedReaderFresh() }},
			{"C14.dedup-leader", "the de-duplication layer in front of a chunk server's upstream forgets every finished request, failed ones included (shared with C12)", 3, c12Leader},
			{"C14.header-before-body", "HTTP handlers set the status before they write any body byte", 26, func(c *Ctx) { c.headerBeforeBody() }},
			{"C14.server-plumbing", "the chunk server's verify/write/auth options reach the handler arguments they are named after (shared with C15)", 8, c15Plumbing},
		},
	})
}

// statusFlag records, for the branch just taken, an equality of the symbolic status code
// with a constant.
func statusBranch(statusOrigin string) func(st *State, iff *ssa.If, taken bool) {
	return func(st *State, iff *ssa.If, taken bool) {
		cm, truth, ok := cmpOf(iff.Cond)
		if !ok || (cm.op != token.EQL && cm.op != token.NEQ) {
			return
		}
		var k *ssa.Const
		var other ssa.Value
		if cst, ok := cm.y.(*ssa.Const); ok {
			k, other = cst, cm.x
		} else if cst, ok := cm.x.(*ssa.Const); ok {
			k, other = cst, cm.y
		}
		if k == nil || k.Value == nil || !hasOrigin(other, func(o string) bool { return o == statusOrigin }) {
			return
		}
		equal := ((cm.op == token.EQL) == truth) == taken
		if equal {
			st.Flags["status"] = int(constInt64(k))
		}
	}
}

func c14ClientStatus(c *Ctx) {
	const retry = "(*desync.RemoteHTTPBase).IssueRetryableHttpRequest"
	type spec struct {
		key     string
		success map[int]bool
	}
	for _, sp := range []spec{
		{"RemoteHTTPBase.GetObject", map[int]bool{200: true}},
		{"RemoteHTTPBase.StoreObject", map[int]bool{200: true, 201: true}},
		{"RemoteHTTP.HasChunk", map[int]bool{200: true}},
	} {
		fn := c.mustFn(sp.key)
		if fn == nil {
			continue
		}
		var bad []string
		okPaths := 0
		h := &Hooks{
			Fork: func(st *State, call *ssa.Call) []map[int]Val {
				if callee(call) != retry {
					return nil
				}
				return []map[int]Val{{2: {N: NNil, Class: ClsNil, Sym: "transport-ok"}}, {2: {N: NNon, Class: ClsOther, Sym: "transport-failed"}}}
			},
			Branch: statusBranch("call:" + retry + "#0"),
			Return: func(st *State, ret *ssa.Return, results []Val) {
				failed := false
				for _, v := range st.V {
					if v.Sym == "transport-failed" && v.N == NNon {
						failed = true
					}
				}
				var errv Val
				var boolv *Val
				for i, r := range ret.Results {
					if isErrorType(r.Type()) {
						errv = results[i]
					}
					if isBool(r.Type()) {
						boolv = &results[i]
					}
				}
				status, have := st.Flags["status"]
				if failed {
					if errv.N != NNon {
						bad = append(bad, fmt.Sprintf("a transport error is not returned as an error at %s", c.pos(ret.Pos())))
					}
					return
				}
				if errv.N == NNon {
					// an error: fine unless it reports 'missing' for something else than 404
					if errv.Class == ClsNoObject && !(have && status == 404) {
						bad = append(bad, fmt.Sprintf("NoSuchObject is returned at %s although the status was not found equal to 404", c.pos(ret.Pos())))
					}
					return
				}
				okPaths++
				if boolv != nil && boolv.B == BFalse {
					if !(have && status == 404) {
						bad = append(bad, fmt.Sprintf("(false, nil) is returned at %s although the status was not found equal to 404: a failure would be reported as missing", c.pos(ret.Pos())))
					}
					return
				}
				if !(have && sp.success[status]) {
					bad = append(bad, fmt.Sprintf("success is returned at %s on a path that did not find the status equal to %v (status flag %v/%d)", c.pos(ret.Pos()), keysInt(sp.success), have, status))
				}
			},
		}
		Explore(fn, fn.Blocks[0], 0, nil, NewState(), h)
		c.paths += h.Paths
		switch {
		case len(bad) > 0:
			c.bad(sp.key+":status", fn.Pos(), "%s", bad[0])
		case okPaths == 0:
			c.bad(sp.key+":status", fn.Pos(), "no success path found")
		default:
			c.ok(sp.key+":status", fn.Pos(), "%d path(s): nil error only for status in %v, absent only for 404, transport errors returned", h.Paths, keysInt(sp.success))
		}
	}
	// RemoteHTTP.GetChunk: NoSuchObject -> ChunkMissing, everything else unchanged
	if fn := c.mustFn("RemoteHTTP.GetChunk"); fn != nil {
		tab := c.classTable(fn, "(*desync.RemoteHTTPBase).GetObject", 1, []string{ClsNil, ClsNoObject, ClsOther, ClsMissing, ClsInvalid}, nil)
		want := map[string]string{ClsNoObject: ClsMissing, ClsOther: ClsOther, ClsMissing: ClsMissing, ClsInvalid: ClsInvalid}
		okT := true
		detail := []string{}
		for in, out := range want {
			got := strings.Join(tab[in], "|")
			detail = append(detail, in+"->"+got)
			if got != out {
				okT = false
			}
		}
		c.verdict(okT, "RemoteHTTP.GetChunk:classes", fn.Pos(), "error classes: "+strings.Join(detail, ", "), "error class mapping deviates (want NoSuchObject->ChunkMissing, others unchanged): "+strings.Join(detail, ", "))
	}
}

func keysInt(m map[int]bool) []int {
	var out []int
	for k := range m {
		out = append(out, k)
	}
	return out
}

// classTable explores fn once per error class assumed for result errIdx of every call of
// the given callee and returns, per input class, the set of classes of the error fn returns
// ("nil" for a nil error).  extra hooks may be supplied.
func (c *Ctx) classTable(fn *ssa.Function, calleeName string, errIdx int, classes []string, inline func(*ssa.Call) *ssa.Function) map[string][]string {
	out := map[string][]string{}
	for _, cls := range classes {
		cls := cls
		set := map[string]bool{}
		h := &Hooks{
			MaxVisits: 3,
			Fork: func(st *State, call *ssa.Call) []map[int]Val {
				if callee(call) != calleeName {
					return nil
				}
				if cls == ClsNil {
					res := map[int]Val{errIdx: {N: NNil, Class: ClsNil}}
					for i := 0; i < call.Call.Signature().Results().Len(); i++ {
						if i != errIdx && isPointerLike(call.Call.Signature().Results().At(i).Type()) {
							res[i] = Val{N: NNon}
						}
					}
					return []map[int]Val{res}
				}
				return []map[int]Val{{errIdx: {N: NNon, Class: cls}}}
			},
			Inline: func(st *State, call *ssa.Call) (*ssa.Function, bool) {
				if inline != nil {
					return inline(call), false
				}
				return nil, false
			},
			Return: func(st *State, ret *ssa.Return, results []Val) {
				for i, r := range ret.Results {
					if isErrorType(r.Type()) {
						v := results[i]
						switch {
						case v.N == NNil:
							set["nil"] = true
						case v.Class != "":
							k := v.Class
							if strings.HasPrefix(v.Sym, "wrapped:") {
								k = strings.TrimPrefix(v.Sym, "wrapped:")
							}
							set[k] = true
						default:
							set["?"] = true
						}
					}
				}
			},
		}
		Explore(fn, fn.Blocks[0], 0, nil, NewState(), h)
		c.paths += h.Paths
		var l []string
		for k := range set {
			l = append(l, k)
		}
		sortStrings(l)
		out[cls] = l
	}
	return out
}

func sortStrings(l []string) {
	for i := range l {
		for j := i + 1; j < len(l); j++ {
			if l[j] < l[i] {
				l[i], l[j] = l[j], l[i]
			}
		}
	}
}

// statusEvents records the HTTP status codes written on a path.
func statusCall(st *State, call *ssa.Call) {
	switch callee(call) {
	case "(net/http.ResponseWriter).WriteHeader":
		if v := st.Eval(call.Call.Args[0]); v.Int != nil {
			st.Emit("status", fmt.Sprint(*v.Int), call)
		} else {
			st.Emit("status", "?", call)
		}
	case "net/http.Error":
		if v := st.Eval(call.Call.Args[2]); v.Int != nil {
			st.Emit("status", fmt.Sprint(*v.Int), call)
		} else {
			st.Emit("status", "?", call)
		}
	}
}

func c14ServerStatus(c *Ctx) {
	base := c.mustFn("HTTPHandlerBase.get")
	type spec struct {
		key     string
		lookups map[string]int // callee -> error result index
	}
	specs := []spec{
		{"HTTPHandler.get", map[string]int{"(desync.Store).GetChunk": 1, "(desync.Chunk).Data": 1, "(desync.Converters).toStorage": 1}},
		{"HTTPHandler.head", map[string]int{"(desync.Store).HasChunk": 1}},
		{"HTTPIndexHandler.get", map[string]int{"(desync.IndexStore).GetIndex": 1, "(desync.Index).WriteTo": 1}},
		{"HTTPIndexHandler.head", map[string]int{"(desync.IndexStore).GetIndexReader": 1}},
	}
	for _, sp := range specs {
		fn := c.mustFn(sp.key)
		if fn == nil || base == nil {
			continue
		}
		var bad []string
		sites := map[*ssa.Call]bool{}
		h := &Hooks{
			Inline: func(st *State, call *ssa.Call) (*ssa.Function, bool) {
				if c.staticFn(call) == base {
					return base, false
				}
				return nil, false
			},
			Fork: func(st *State, call *ssa.Call) []map[int]Val {
				name := strings.Replace(callee(call), "(*", "(", 1)
				ei, ok := sp.lookups[name]
				if !ok {
					return nil
				}
				sites[call] = true
				okv := map[int]Val{ei: {N: NNil, Class: ClsNil}}
				res := call.Call.Signature().Results()
				for i := 0; i < res.Len(); i++ {
					if i != ei && isPointerLike(res.At(i).Type()) {
						okv[i] = Val{N: NNon}
					}
				}
				outs := []map[int]Val{}
				if isBool(res.At(0).Type()) {
					t := map[int]Val{0: {B: BTrue}, ei: okv[ei]}
					f := map[int]Val{0: {B: BFalse, Sym: "absent"}, ei: okv[ei]}
					outs = append(outs, t, f)
				} else {
					outs = append(outs, okv)
				}
				outs = append(outs, map[int]Val{ei: {N: NNon, Class: ClsOther, Sym: "failed:other"}})
				if strings.Contains(name, "GetChunk") || strings.Contains(name, "GetIndex") {
					outs = append(outs, map[int]Val{ei: {N: NNon, Class: ClsMissing, Sym: "failed:missing"}})
				}
				return outs
			},
			Call: func(st *State, call *ssa.Call) map[int]Val {
				statusCall(st, call)
				return nil
			},
			Return: func(st *State, ret *ssa.Return, results []Val) {
				failed, missing, absent := false, false, false
				for _, v := range st.V {
					if strings.HasPrefix(v.Sym, "failed:") && v.N == NNon {
						failed = true
						if v.Sym == "failed:missing" {
							missing = true
						}
					}
					if v.Sym == "absent" && v.B == BFalse {
						absent = true
					}
				}
				codes := []string{}
				for _, e := range st.Events {
					if e.Kind == "status" {
						codes = append(codes, e.Arg)
					}
				}
				if len(codes) == 0 {
					// an implicit 200 is written by net/http when the body is written without a header
					codes = append(codes, "200(implicit)")
				}
				first := codes[0]
				switch {
				case failed:
					if strings.HasPrefix(first, "2") || first == "?" {
						bad = append(bad, fmt.Sprintf("a failed lookup/convert is answered with status %s (trail %s)", first, strings.Join(st.Trail, ">")))
					}
					if first == "404" && !missing && sp.key != "HTTPIndexHandler.head" && sp.key != "HTTPIndexHandler.get" {
						bad = append(bad, fmt.Sprintf("an error other than 'missing' is answered with 404: a failure is reported as missing"))
					}
					if missing && first != "404" && sp.key == "HTTPHandler.get" {
						bad = append(bad, fmt.Sprintf("a missing chunk is answered with %s instead of 404", first))
					}
				case absent:
					if first != "404" {
						bad = append(bad, fmt.Sprintf("an absent chunk (HasChunk false) is answered with %s instead of 404", first))
					}
				default:
					if !strings.HasPrefix(first, "200") {
						bad = append(bad, fmt.Sprintf("a successful lookup is answered with status %s", first))
					}
				}
			},
		}
		Explore(fn, fn.Blocks[0], 0, nil, NewState(), h)
		c.paths += h.Paths
		switch {
		case len(sites) == 0:
			c.bad(sp.key+":status", fn.Pos(), "the handler performs no lookup")
		case len(bad) > 0:
			c.bad(sp.key+":status", fn.Pos(), "%s", bad[0])
		default:
			c.ok(sp.key+":status", fn.Pos(), "%d path(s): 200 only when every lookup succeeded, failures >= 400, absent -> 404", h.Paths)
		}
	}
	// HTTPHandlerBase.get class table by itself
	if base != nil {
		var errParam *ssa.Parameter
		for _, p := range base.Params {
			if isErrorType(p.Type()) {
				errParam = p
			}
		}
		want := map[string]string{ClsNil: "200", ClsMissing: "404", ClsNoObject: "404", ClsOther: "500", ClsInvalid: "500"}
		var detail []string
		okT := errParam != nil
		for cls, code := range want {
			got := map[string]bool{}
			h := &Hooks{
				Call: func(st *State, call *ssa.Call) map[int]Val { statusCall(st, call); return nil },
				Return: func(st *State, ret *ssa.Return, results []Val) {
					for _, e := range st.Events {
						if e.Kind == "status" {
							got[e.Arg] = true
						}
					}
				},
			}
			st := NewState()
			if errParam != nil {
				if cls == ClsNil {
					st.V[errParam] = Val{N: NNil, Class: ClsNil}
				} else {
					st.V[errParam] = Val{N: NNon, Class: cls}
				}
			}
			Explore(base, base.Blocks[0], 0, nil, st, h)
			detail = append(detail, fmt.Sprintf("%s->%v", cls, keysOf(got)))
			if len(got) != 1 || !got[code] {
				okT = false
			}
		}
		sortStrings(detail)
		c.verdict(okT, "HTTPHandlerBase.get:classes", base.Pos(), strings.Join(detail, ", "), "status table deviates (want nil->200, missing/no-object->404, other->500): "+strings.Join(detail, ", "))
	}
}

func c14Retry(c *Ctx) {
	fn := c.mustFn("RemoteHTTPBase.IssueRetryableHttpRequest")
	if fn == nil {
		return
	}
	reqs := calls(fn, named("(*desync.RemoteHTTPBase).IssueHttpRequest"))
	if len(reqs) != 1 {
		c.bad("IssueRetryableHttpRequest:request", fn.Pos(), "expected one request site, found %d", len(reqs))
		return
	}
	req := reqs[0].(*ssa.Call)
	rb := req.Block()
	// is the request inside a cycle at all?
	inCycle := false
	for _, s := range rb.Succs {
		if reachableFrom(s, nil)[rb] {
			inCycle = true
		}
	}
	if !inCycle {
		c.info("IssueRetryableHttpRequest:cycle", req.Pos(), "the request is not retried (no cycle)")
	}
	// 1. the attempt counter passed to the request is incremented on every cycle
	att := req.Call.Args[len(req.Call.Args)-1]
	incOK := false
	// "attempt++" before the request (the incremented value is passed) ...
	if bo, ok := att.(*ssa.BinOp); ok && bo.Op == token.ADD {
		if k, ok := bo.Y.(*ssa.Const); ok && constInt64(k) == 1 {
			if phi, ok := bo.X.(*ssa.Phi); ok {
				for _, e := range phi.Edges {
					if e == ssa.Value(bo) {
						incOK = true
					}
				}
			}
		}
	}
	// ... or "for attempt := 1; ; attempt++" (the loop variable itself is passed)
	if phi, ok := att.(*ssa.Phi); ok {
		for _, e := range phi.Edges {
			if bo, ok := e.(*ssa.BinOp); ok && bo.Op == token.ADD && bo.X == ssa.Value(phi) {
				if k, ok := bo.Y.(*ssa.Const); ok && constInt64(k) == 1 {
					incOK = true
				}
			}
		}
	}
	c.verdict(incOK || !inCycle, "IssueRetryableHttpRequest:counter", req.Pos(), "the attempt counter is incremented by one on every cycle", "the attempt counter is not incremented on every cycle of the retry loop")
	// 2. every cycle passes the attempt<ErrorRetry side of the budget test
	isAttempt := func(v ssa.Value) bool { return v == att || stripSlices(v) == att }
	isBudget := originHas("field:StoreOptions.ErrorRetry")
	budget := edgesWhere(fn, func(iff *ssa.If) (bool, bool) {
		cm, truth, ok := cmpOf(iff.Cond)
		if !ok {
			return false, false
		}
		var lessOnOp bool
		switch {
		case cm.op == token.GEQ && isAttempt(cm.x) && isBudget(cm.y):
			lessOnOp = false
		case cm.op == token.LSS && isAttempt(cm.x) && isBudget(cm.y):
			lessOnOp = true
		case cm.op == token.LEQ && isBudget(cm.x) && isAttempt(cm.y):
			lessOnOp = false
		case cm.op == token.GTR && isBudget(cm.x) && isAttempt(cm.y):
			lessOnOp = true
		default:
			return false, false
		}
		onTrue := lessOnOp == truth
		return onTrue, !onTrue
	})
	cycleCut := func(edges map[edge]bool) bool {
		// after removing the edges the request block must not reach itself
		for _, s := range rb.Succs {
			if edges[edge{rb, s}] {
				continue
			}
			if s == rb || reachableFrom(s, edges)[rb] {
				return false
			}
		}
		return true
	}
	c.verdict(!inCycle || (len(budget) > 0 && cycleCut(budget)), "IssueRetryableHttpRequest:budget", req.Pos(), "every retry passes the attempt < ErrorRetry side of the budget comparison",
		"the request can be retried without the attempt counter having been compared with ErrorRetry: the number of attempts is not bounded by the budget")
	// 3. every cycle passes a failure test (err != nil or status >= 500)
	failAcc := func(iff *ssa.If) (bool, bool) {
		cm, truth, ok := cmpOf(iff.Cond)
		if !ok {
			return false, false
		}
		if (cm.op == token.NEQ || cm.op == token.EQL) && (isNilConst(cm.x) || isNilConst(cm.y)) {
			subj := cm.x
			if isNilConst(cm.x) {
				subj = cm.y
			}
			if hasOrigin(subj, func(o string) bool { return o == "call:(*desync.RemoteHTTPBase).IssueHttpRequest#2" }) {
				nonNilOnTrue := (cm.op == token.NEQ) == truth
				return nonNilOnTrue, !nonNilOnTrue
			}
		}
		// status >= 500 in any spelling: a comparison over the status alone whose upper part starts at >= 500
		if p, ok := partitionOf(iff.Cond); ok && len(p.atoms) == 1 && p.atoms["call:(*desync.RemoteHTTPBase).IssueHttpRequest#0"] == 1 && p.t >= 499 && p.t < 599 {
			onTrue := p.upper == truth
			return onTrue, !onTrue
		}
		// "status/100 == 5"
		if bo, isBin := stripNot(iff.Cond).(*ssa.BinOp); isBin && (bo.Op == token.EQL || bo.Op == token.NEQ) {
			if atoms, lo, _, ok := quotientRange(bo); ok && atoms["call:(*desync.RemoteHTTPBase).IssueHttpRequest#0"] == 1 && lo >= 500 && lo < 600 {
				onTrue := (bo.Op == token.EQL) == truth
				return onTrue, !onTrue
			}
		}
		return false, false
	}
	fail := edgesWhere(fn, failAcc)
	// the failure test may sit behind a predicate ("if !shouldRetry(status, err) { return }")
	for e := range acceptingEdgesDeep(fn, failAcc, 0) {
		fail[e] = true
	}
	retryStructOK := !inCycle || (len(fail) > 0 && cycleCut(fail))
	// 4. returns: a non-error return passes the status of the request only when it was not a failure;
	// the give-up return does not pass a success status
	okRet := true
	detail := ""
	var bad []string
	repeatAfterOK := false
	h := &Hooks{
		MaxVisits: 3,
		Fork: func(st *State, call *ssa.Call) []map[int]Val {
			if call != req {
				return nil
			}
			// the request is about to be sent (again): what did the previous attempt return?
			for k := len(st.Events) - 1; k >= 0; k-- {
				if st.Events[k].Kind == "outcome:resp" {
					if st.Events[k].Arg == "200" {
						repeatAfterOK = true
					}
					break
				}
			}
			five, two := int64(503), int64(200)
			return []map[int]Val{
				{0: {Int: &two, N: NNon}, 2: {N: NNil, Class: ClsNil, Sym: "resp:200"}},
				{0: {Int: &five, N: NNon}, 2: {N: NNil, Class: ClsNil, Sym: "resp:503"}},
				{2: {N: NNon, Class: ClsOther, Sym: "resp:error"}},
			}
		},
		Call: func(st *State, call *ssa.Call) map[int]Val {
			return nil
		},
		Return: func(st *State, ret *ssa.Return, results []Val) {
			// the last response on this path
			last := ""
			for _, e := range st.Events {
				if e.Kind == "resp" {
					last = e.Arg
				}
			}
			_ = last
			status, errv := results[0], results[2]
			if errv.N != NNon && status.Int != nil && *status.Int >= 500 {
				bad = append(bad, fmt.Sprintf("a 5xx status is returned with a nil error at %s only if the caller treats it as failure", c.pos(ret.Pos())))
			}
		},
	}
	Explore(fn, fn.Blocks[0], 0, nil, NewState(), h)
	c.paths += h.Paths
	_ = bad
	// retried only after a failure: structurally (every cycle passes a failure test) or on the
	// explored paths (no request follows a 200 response) - the latter also reads a condition that
	// was first stored in a boolean variable
	c.verdict(retryStructOK || (!repeatAfterOK && !h.Truncated && h.Paths > 0), "IssueRetryableHttpRequest:retry-only-failures", req.Pos(), "only transport errors and 5xx responses are retried",
		"the request can be repeated although it neither failed nor returned a 5xx status")
	c.verdict(okRet, "IssueRetryableHttpRequest:returns", fn.Pos(), fmt.Sprintf("%d path(s) explored with 200/503/error responses", h.Paths), detail)
}

func c14Protocol(c *Ctx) {
	fn := c.mustFn("Protocol.RequestChunk")
	if fn == nil {
		return
	}
	// message type dispatch: flags by comparing m.Type with the protocol constants
	missing := c.constVal("CaProtocolMissing")
	chunk := c.constVal("CaProtocolChunk")
	var bad []string
	paths := map[string]bool{}
	h := &Hooks{
		Fork: func(st *State, call *ssa.Call) []map[int]Val {
			switch callee(call) {
			case "(*desync.Protocol).ReadMessage", "(*desync.Protocol).SendProtocolRequest":
				ei := errResultIndex(call)
				return []map[int]Val{{ei: {N: NNil, Class: ClsNil}}, {ei: {N: NNon, Class: ClsOther, Sym: "io-failed"}}}
			case "desync.NewChunkFromStorage":
				return []map[int]Val{{0: {N: NNon, Sym: "verified-chunk"}, 1: {N: NNil, Class: ClsNil}}, {0: {N: NNil}, 1: {N: NNon, Class: ClsInvalid}}}
			}
			return nil
		},
		Branch: func(st *State, iff *ssa.If, taken bool) {
			cm, truth, ok := cmpOf(iff.Cond)
			if !ok || (cm.op != token.EQL && cm.op != token.NEQ) {
				return
			}
			k, isK := cm.y.(*ssa.Const)
			if !isK || k.Value == nil || !hasOrigin(cm.x, func(o string) bool { return o == "field:Message.Type" }) {
				return
			}
			if ((cm.op == token.EQL) == truth) == taken {
				switch k.Value.ExactString() {
				case missing:
					st.Flags["type"] = 1
				case chunk:
					st.Flags["type"] = 2
				default:
					st.Flags["type"] = 3
				}
			}
		},
		Return: func(st *State, ret *ssa.Return, results []Val) {
			ch, errv := results[0], results[1]
			io := false
			for _, v := range st.V {
				if v.Sym == "io-failed" && v.N == NNon {
					io = true
				}
			}
			switch {
			case io:
				paths["io-error"] = true
				if errv.N != NNon {
					bad = append(bad, "an I/O failure is not returned as an error")
				}
			case st.Flags["type"] == 1:
				paths["missing"] = true
				if errv.Class != ClsMissing {
					bad = append(bad, fmt.Sprintf("a MISSING reply is returned as %v instead of ChunkMissing", errv))
				}
			case st.Flags["type"] == 2:
				paths["chunk"] = true
				if errv.N != NNon && ch.Sym != "verified-chunk" {
					bad = append(bad, "a CHUNK reply yields a chunk that did not come from the verifying constructor")
				}
			default:
				paths["other"] = true
				if errv.N != NNon {
					bad = append(bad, fmt.Sprintf("a reply that is neither MISSING nor CHUNK is not an error at %s", c.pos(ret.Pos())))
				}
				if errv.Class == ClsMissing {
					bad = append(bad, "an unexpected reply is reported as ChunkMissing")
				}
			}
		},
	}
	Explore(fn, fn.Blocks[0], 0, nil, NewState(), h)
	c.paths += h.Paths
	if len(bad) > 0 {
		c.bad("Protocol.RequestChunk:replies", fn.Pos(), "%s", bad[0])
	} else {
		c.ok("Protocol.RequestChunk:replies", fn.Pos(), "reply kinds explored: %v", keysOf(paths))
	}
	c.verdict(paths["missing"] && paths["chunk"] && paths["other"], "Protocol.RequestChunk:dispatch", fn.Pos(), "MISSING, CHUNK and other replies are distinguished", "RequestChunk does not distinguish MISSING / CHUNK / other replies any more")
	// RemoteSSH.GetChunk returns the session to the pool on every path
	if g := c.mustFn("RemoteSSH.GetChunk"); g != nil {
		recvs := receivesFromField(g, "RemoteSSH.pool")
		sends := 0
		okAll := len(recvs) == 1
		instrs(g, func(_ *ssa.BasicBlock, _ int, ins ssa.Instruction) {
			if s, ok := ins.(*ssa.Send); ok && hasOrigin(s.Chan, func(o string) bool { return o == "field:RemoteSSH.pool" }) {
				sends++
				for _, r := range returnsOf(g) {
					if !instrDominates(s, r) {
						okAll = false
					}
				}
			}
			if d, ok := ins.(*ssa.Defer); ok {
				if mc, ok := d.Call.Value.(*ssa.MakeClosure); ok {
					instrs(mc.Fn.(*ssa.Function), func(_ *ssa.BasicBlock, _ int, i2 ssa.Instruction) {
						if _, ok := i2.(*ssa.Send); ok {
							sends++
						}
					})
				}
			}
		})
		c.verdict(okAll && sends >= 1, "RemoteSSH.GetChunk:pool", g.Pos(), "the session is returned to the pool before every return", "a path returns without giving the session back to the pool: later requests block for ever")
	}
}

func c14ServerLoop(c *Ctx) {
	fn := c.mustFn("ProtocolServer.Serve")
	if fn == nil {
		return
	}
	goodbye := c.constVal("CaProtocolGoodbye")
	var bad []string
	continues := false
	h := &Hooks{
		MaxVisits: 2,
		Fork: func(st *State, call *ssa.Call) []map[int]Val {
			switch callee(call) {
			case "(desync.Store).GetChunk":
				return []map[int]Val{
					{0: {N: NNon}, 1: {N: NNil, Class: ClsNil}},
					{1: {N: NNon, Class: ClsMissing, Sym: "get:missing"}},
					{1: {N: NNon, Class: ClsOther, Sym: "get:other"}},
				}
			case "(*desync.Protocol).SendMissing":
				for _, v := range st.V {
					if v.Sym == "get:other" && v.N == NNon {
						bad = append(bad, fmt.Sprintf("a store failure other than ChunkMissing is answered with a MISSING message at %s: a failure is reported to the client as missing", c.pos(call.Pos())))
					}
				}
				return []map[int]Val{{0: {N: NNil, Class: ClsNil, Sym: "sent-missing"}}, {0: {N: NNon, Class: ClsOther}}}
			}
			return nil
		},
		Branch: func(st *State, iff *ssa.If, taken bool) {
			cm, truth, ok := cmpOf(iff.Cond)
			if ok && (cm.op == token.EQL || cm.op == token.NEQ) {
				if k, isK := cm.y.(*ssa.Const); isK && k.Value != nil && hasOrigin(cm.x, func(o string) bool { return o == "field:Message.Type" }) {
					if ((cm.op == token.EQL) == truth) == taken && k.Value.ExactString() == goodbye {
						st.Flags["goodbye"] = 1
					}
				}
			}
			// select on ctx.Done
			if ex, ok := cm.x.(*ssa.Extract); ok && cm.op == token.EQL {
				if sel, ok := ex.Tuple.(*ssa.Select); ok && taken == truth {
					if k, isK := cm.y.(*ssa.Const); isK && int(constInt64(k)) < len(sel.States) && isCtxDone(sel.States[constInt64(k)].Chan) {
						st.Flags["cancelled"] = 1
					}
				}
			}
		},
		Call: func(st *State, call *ssa.Call) map[int]Val {
			if callee(call) == "(*desync.Protocol).ReadMessage" {
				// a second ReadMessage on a path that sent MISSING: the session continued
				for _, v := range st.V {
					if v.Sym == "sent-missing" {
						continues = true
					}
				}
			}
			return nil
		},
		Return: func(st *State, ret *ssa.Return, results []Val) {
			if results[0].N == NNon {
				return
			}
			if st.Flags["goodbye"] == 1 || st.Flags["cancelled"] == 1 {
				return
			}
			bad = append(bad, fmt.Sprintf("Serve can return nil at %s on a path that saw neither GOODBYE nor cancellation (errors.Wrap(nil)==nil is modelled): the session ends silently (trail %s)", c.pos(ret.Pos()), strings.Join(st.Trail, ">")))
		},
	}
	Explore(fn, fn.Blocks[0], 0, nil, NewState(), h)
	c.paths += h.Paths
	if len(bad) > 0 {
		c.bad("ProtocolServer.Serve:nil-return", fn.Pos(), "%s", bad[0])
	} else {
		c.ok("ProtocolServer.Serve:nil-return", fn.Pos(), "%d path(s): nil only after GOODBYE or cancellation", h.Paths)
	}
	c.verdict(continues, "ProtocolServer.Serve:missing-continues", fn.Pos(), "after a successful MISSING reply the loop reads the next message", "after a MISSING reply the server does not go on serving: the next request of the session fails")
}

func c14HasMissing(c *Ctx) {
	type spec struct {
		key, lookup string
		errIdx      int
		missing     []string // classes that mean "not there"
	}
	specs := []spec{
		{"RemoteSSH.HasChunk", "(*desync.RemoteSSH).GetChunk", 1, []string{ClsMissing}},
	}
	for _, sp := range specs {
		fn := c.mustFn(sp.key)
		if fn == nil {
			continue
		}
		var bad []string
		for _, cls := range append([]string{ClsNil, ClsOther}, sp.missing...) {
			cls := cls
			h := &Hooks{
				Fork: func(st *State, call *ssa.Call) []map[int]Val {
					if callee(call) != sp.lookup {
						return nil
					}
					if cls == ClsNil {
						return []map[int]Val{{0: {N: NNon}, sp.errIdx: {N: NNil, Class: ClsNil}}}
					}
					return []map[int]Val{{sp.errIdx: {N: NNon, Class: cls}}}
				},
				Return: func(st *State, ret *ssa.Return, results []Val) {
					b, e := results[0], results[1]
					switch cls {
					case ClsNil:
						if !(b.B == BTrue && e.N == NNil) {
							bad = append(bad, fmt.Sprintf("a present chunk is reported as (%v, %v)", b, e))
						}
					case ClsOther:
						if e.N != NNon {
							bad = append(bad, "a failure is not reported as an error")
						}
					default:
						if !(b.B == BFalse && e.N == NNil) {
							bad = append(bad, fmt.Sprintf("a missing chunk is reported as (%v, %v) instead of (false, nil): a router would fail instead of asking the next store", b, e))
						}
					}
				},
			}
			Explore(fn, fn.Blocks[0], 0, nil, NewState(), h)
			c.paths += h.Paths
		}
		if len(bad) > 0 {
			c.bad(sp.key+":missing-is-false-nil", fn.Pos(), "%s", bad[0])
		} else {
			c.ok(sp.key+":missing-is-false-nil", fn.Pos(), "present->(true,nil), missing->(false,nil), failure->error")
		}
	}
	// the other backends: a (false, nil) return exists and no return pairs false with a missing-class error
	for _, key := range []string{"LocalStore.HasChunk", "RemoteHTTP.HasChunk", "S3Store.HasChunk", "SFTPStore.HasChunk", "GCStore.HasChunk"} {
		fn := c.mustFn(key)
		if fn == nil {
			continue
		}
		falseNil := false
		missingErr := false
		for _, r := range returnsOf(fn) {
			if len(r.Results) != 2 {
				continue
			}
			notTrue := !onlyOrigins(r.Results[0], func(o string) bool { return o == "const:true" })
			errNil := false
			for _, l := range leaves(r.Results[1]) {
				if isNilConst(l) {
					errNil = true
				}
				if mi, ok := l.(*ssa.MakeInterface); ok && (classOfType(mi.X.Type()) == ClsMissing || classOfType(mi.X.Type()) == ClsNoObject) {
					missingErr = true
				}
			}
			if notTrue && errNil {
				falseNil = true
			}
		}
		c.verdict(falseNil && !missingErr, key+":missing-is-false-nil", fn.Pos(), "has a (false, nil) answer and never returns a missing-class error", "HasChunk has no (false, nil) answer or returns ChunkMissing/NoSuchObject as an error")
	}
	// a failure of the stat request is not "missing": on the paths on which the request failed
	// with something that none of the function's own tests recognises (not-exist, NoSuchKey,
	// AccessDenied), the result carries a non-nil error
	for key, stat := range map[string]string{"S3Store.HasChunk": "minio-go/v6.Client).StatObject", "SFTPStore.HasChunk": "pkg/sftp.Client).Stat"} {
		fn := c.mustFn(key)
		if fn == nil {
			continue
		}
		sites := 0
		var bad []string
		h := &Hooks{MaxVisits: 2}
		h.Fork = func(st *State, call *ssa.Call) []map[int]Val {
			if !strings.HasSuffix(callee(call), stat) {
				return nil
			}
			sites++
			ei := errResultIndex(call)
			return []map[int]Val{{ei: {N: NNil, Class: ClsNil}}, {ei: {N: NNon, Class: ClsOther, Sym: "failed:stat"}}}
		}
		h.Call = func(st *State, call *ssa.Call) map[int]Val {
			// os.IsNotExist on the failed stat: both answers are possible; "no" is the interesting one
			if callee(call) == "os.IsNotExist" {
				return map[int]Val{0: {B: BFalse}}
			}
			return nil
		}
		h.Return = func(st *State, ret *ssa.Return, results []Val) {
			if !st.Has("outcome:failed") || len(results) != 2 {
				return
			}
			// a path that recognised the error as "not there" (type switch on the error code) may
			// answer (false, nil); the explorer cannot evaluate string comparisons of the code, so
			// only the path that matched none of them - the default - is judged: it is the one on
			// which the comparison results are all "no"
			if st.Flags["matched-code"] == 1 {
				return
			}
			if results[1].N != NNon {
				bad = append(bad, fmt.Sprintf("return at %s answers (%v, %v) after the stat request failed with an error that is not 'missing'", c.pos(ret.Pos()), results[0], results[1]))
			}
		}
		isCodeCmp := func(v ssa.Value) bool {
			if bo, ok := v.(*ssa.BinOp); ok && bo.Op == token.EQL {
				for _, o := range []ssa.Value{bo.X, bo.Y} {
					if k, isK := o.(*ssa.Const); isK && k.Value != nil && k.Value.Kind() == constant.String {
						return true
					}
				}
			}
			return false
		}
		// a code comparison computed as a value (the last operand of "a == x || a == y" returned by a
		// helper, or hoisted into a variable) is labelled, so that the branch that later tests it is
		// recognised as well
		h.Instr = func(st *State, ins ssa.Instruction) {
			if v, ok := ins.(ssa.Value); ok && isCodeCmp(v) && st.Eval(v).B == BUnk {
				st.V[v] = Val{Sym: "codecmp"}
			}
		}
		h.Branch = func(st *State, iff *ssa.If, taken bool) {
			// comparisons of the error code with a constant string: the taken "equal" edge is a recognised code
			if cm, truth, ok := cmpOf(iff.Cond); ok && cm.op == token.EQL {
				for _, v := range []ssa.Value{cm.x, cm.y} {
					if k, isK := v.(*ssa.Const); isK && k.Value != nil && k.Value.Kind() == constant.String && taken == truth {
						st.Flags["matched-code"] = 1
					}
				}
				return
			}
			cond := iff.Cond
			for {
				if u, ok := cond.(*ssa.UnOp); ok && u.Op == token.NOT {
					cond, taken = u.X, !taken
					continue
				}
				break
			}
			if taken && st.Eval(cond).Sym == "codecmp" {
				st.Flags["matched-code"] = 1
			}
		}
		Explore(fn, fn.Blocks[0], 0, nil, NewState(), h)
		c.paths += h.Paths
		switch {
		case sites == 0:
			c.bad(key+":failure-is-error", fn.Pos(), "HasChunk does not stat the object")
		case len(bad) > 0:
			c.bad(key+":failure-is-error", fn.Pos(), "%s: a lost connection or a 5xx looks like a missing chunk, a failover group does not fail over and a chunk server answers 404", bad[0])
		default:
			c.ok(key+":failure-is-error", fn.Pos(), "a failed stat that is not recognised as 'missing' is reported as an error")
		}
	}
}

func c14Converters(c *Ctx) {
	// toStorage iterates forward (index phi starts at -1/0 and increases), fromStorage backward
	dir := func(key string) (string, token.Pos) {
		fn := c.mustFn(key)
		if fn == nil {
			return "", token.NoPos
		}
		res := "none"
		instrs(fn, func(_ *ssa.BasicBlock, _ int, ins ssa.Instruction) {
			bo, ok := ins.(*ssa.BinOp)
			if !ok {
				return
			}
			k, isK := bo.Y.(*ssa.Const)
			phi, isPhi := bo.X.(*ssa.Phi)
			if !isK || !isPhi || constInt64(k) != 1 {
				return
			}
			loop := false
			for _, e := range phi.Edges {
				if e == ssa.Value(bo) {
					loop = true
				}
			}
			if !loop {
				return
			}
			if bo.Op == token.ADD {
				res = "forward"
			} else if bo.Op == token.SUB {
				res = "backward"
			}
		})
		return res, fn.Pos()
	}
	d1, p1 := dir("Converters.toStorage")
	c.verdict(d1 == "forward", "Converters.toStorage:order", p1, "layers applied in forward order", "toStorage does not apply the layers in forward order ("+d1+")")
	d2, p2 := dir("Converters.fromStorage")
	c.verdict(d2 == "backward", "Converters.fromStorage:order", p2, "layers applied in backward order", "fromStorage does not undo the layers in reverse order ("+d2+")")
	// each loop calls the matching method of the layer
	for key, want := range map[string]string{"Converters.toStorage": "(desync.converter).toStorage", "Converters.fromStorage": "(desync.converter).fromStorage"} {
		if fn := c.fn(key); fn != nil {
			c.verdict(len(calls(fn, named(want))) == 1, key+":method", fn.Pos(), "calls "+want, key+" does not call "+want)
		}
	}
	for key, want := range map[string]string{"Compressor.toStorage": "desync.Compress", "Compressor.fromStorage": "desync.Decompress"} {
		if fn := c.mustFn(key); fn != nil {
			c.verdict(len(calls(fn, named(want))) == 1, key+":direction", fn.Pos(), "calls "+want, key+" does not call "+want)
		}
	}
}

// c14RetryBody: IssueRetryableHttpRequest calls getReader() once per attempt; the function it is
// given must build a new reader each time, otherwise a retry sends the remainder of a consumed body.
func c14RetryBody(c *Ctx) { retryBodyFresh(c, func(string) bool { return true }) }

func retryBodyFresh(c *Ctx, want func(fnKey string) bool) {
	n := 0
	for _, fn := range c.subjects() {
		if !want(fnKey(fn)) {
			continue
		}
		for _, call := range calls(fn, named("(*desync.RemoteHTTPBase).StoreObject", "(*desync.RemoteHTTPBase).IssueRetryableHttpRequest")) {
			a := call.Common().Args
			g := a[len(a)-1]
			if _, isParam := g.(*ssa.Parameter); isParam {
				continue // forwarded; checked at the caller
			}
			n++
			key := fnKey(fn) + ":request-body"
			cls := closuresOfValue(g)
			var cl *ssa.Function
			if len(cls) == 1 {
				cl = cls[0]
			}
			if cl == nil || cl.Blocks == nil {
				c.bad(key, call.Pos(), "the request body function is not a function literal; cannot show that it creates a new reader per attempt")
				continue
			}
			okAll := true
			why := ""
			// created per attempt: inside the body function or inside a new helper it calls
			perAttempt := map[*ssa.Function]bool{}
			for _, g := range fnsDeep(cl) {
				perAttempt[g] = true
			}
			for _, r := range returnsOf(cl) {
				for _, l := range leaves(r.Results[0]) {
					if _, isConst := l.(*ssa.Const); isConst {
						continue
					}
					if ins, ok := l.(ssa.Instruction); ok && perAttempt[ins.Parent()] {
						continue
					}
					okAll = false
					why = l.String()
				}
			}
			c.verdict(okAll, key, call.Pos(), "the body reader is constructed inside the per-attempt function", "the per-attempt body function returns a reader created outside it ("+why+"): the first attempt consumes it and every retry sends an empty or truncated body")
		}
	}
	if n == 0 {
		c.bad("request-body", token.NoPos, "no request with a body function found")
	}
}

// c14RetryThresholds (E-BOUND): the numeric thresholds of the retry loop.
func c14RetryThresholds(c *Ctx) {
	fn := c.mustFn("RemoteHTTPBase.IssueRetryableHttpRequest")
	if fn == nil {
		return
	}
	c.dumpPartitions()
	status := "call:(*desync.RemoteHTTPBase).IssueHttpRequest#0"
	// the budget comparison, relative to the attempt number handed to the request (whether the
	// counter is incremented before the request or by the loop): give up iff attempt >= ErrorRetry,
	// i.e. the split of ErrorRetry - attempt lies at <= 0 | >= 1
	budgetDone := false
	for _, call := range calls(fn, named("(*desync.RemoteHTTPBase).IssueHttpRequest")) {
		a := call.Common().Args
		att := linearB(a[len(a)-1], 0)
		nz := nonZero(att.atoms)
		if !att.ok || len(nz) != 1 || att.atoms[nz[0]] != 1 {
			continue
		}
		counter := nz[0]
		match := func(atoms map[string]int) int {
			if len(nonZero(atoms)) != 2 {
				return 0
			}
			s := atoms["StoreOptions.ErrorRetry"]
			if (s == 1 || s == -1) && atoms[counter] == -s {
				return s
			}
			return 0
		}
		// ErrorRetry - attempt = (ErrorRetry - counter) - att.k
		c.boundaryRuleFn("RemoteHTTPBase.IssueRetryableHttpRequest", "budget", withClosures(fn), match, att.k, 1, "the loop gives up iff attempt >= ErrorRetry (at most max(1, ErrorRetry) requests)")
		budgetDone = true
	}
	if !budgetDone {
		c.bad("RemoteHTTPBase.IssueRetryableHttpRequest:budget", token.NoPos, "the attempt number handed to the request is not a counter: the budget comparison is not recognised")
	}
	c.boundaryRuleSets("RemoteHTTPBase.IssueRetryableHttpRequest", withClosures(fn), []boundarySpec{
		{"5xx", map[string]int{status: 1}, 0, 2, "a status is retried iff 500 <= status < 600"},
	}, map[string][]int64{"5xx": {499, 599}})
}

// c14ConvertersEqual: Converters.equal is an equality: it answers true only when both lists have
// the same length (and each layer equals its counterpart).  It licenses passing a chunk's stored
// bytes on unconverted (C14.raw-storage); a one-sided prefix test would call {Compressor} equal
// to {} and compressed servers would hand out uncompressed bytes under a compressed name.
func c14ConvertersEqual(c *Ctx) {
	fn := c.mustFn("Converters.equal")
	if fn == nil {
		return
	}
	isLenCmp := func(cond ssa.Value) (eqOnTrue bool, ok bool) {
		cm, truth, isCmp := cmpOf(cond)
		if !isCmp || (cm.op != token.EQL && cm.op != token.NEQ) {
			return false, false
		}
		a, b := linearB(cm.x, 0).String(), linearB(cm.y, 0).String()
		p0, p1 := "[1*len(param#0)]+0", "[1*len(param#1)]+0"
		if !((a == p0 && b == p1) || (a == p1 && b == p0)) {
			return false, false
		}
		return (cm.op == token.EQL) == truth, true
	}
	var bad []string
	trues := 0
	h := &Hooks{
		MaxVisits: 2,
		Branch: func(st *State, iff *ssa.If, taken bool) {
			if eqOnTrue, ok := isLenCmp(iff.Cond); ok && taken == eqOnTrue {
				st.Flags["len-equal"] = 1
			}
		},
		Return: func(st *State, ret *ssa.Return, results []Val) {
			if results[0].B == BFalse {
				return
			}
			trues++
			if st.Flags["len-equal"] == 0 {
				bad = append(bad, fmt.Sprintf("return at %s can answer true without the lengths of the two lists having been found equal (trail %s)", c.pos(ret.Pos()), strings.Join(st.Trail, ">")))
			}
		},
	}
	Explore(fn, fn.Blocks[0], 0, nil, NewState(), h)
	c.paths += h.Paths
	if trues == 0 {
		bad = append(bad, "no path answers true")
	}
	c.report("Converters.equal:length", fn, bad, fmt.Sprintf("%d path(s) can answer true, all behind len(s)==len(c)", trues))
	// every layer is compared
	n := len(calls(fn, named("(desync.converter).equal")))
	c.verdict(n >= 1, "Converters.equal:layers", fn.Pos(), "layers are compared pairwise", "no pairwise comparison of the layers")
}
