package main

import (
	"fmt"
	"go/token"
	"go/types"
	"strings"

	"golang.org/x/tools/go/ssa"
)

func init() {
	register(&property{
		ID: "C20",
		Explanation: "C20.names: nameFromID of every backend (local, S3, GCS, SFTP, HTTP) builds <base>/<hex[0:4]>/<hex> from id.String() and appends the '.cacnk' extension exactly on the compressed side of the store's Uncompressed option (constant values checked: '.cacnk' and ''). " +
			"C20.one-switch: StoreOptions.converters() adds the Compressor layer exactly on the !Uncompressed edge - the same option that selects the extension - so a '.cacnk' file always holds a compressed frame and a suffix-less file raw bytes. " +
			"C20.write-format: LocalStore.StoreChunk writes the output of its own converters' toStorage (raw storage bytes of a chunk only behind a converters-equal test); GetChunk decodes with the store's converters; every path handed to the filesystem comes from nameFromID. " +
			"C20.filters: the extension filters of Verify/Prune depend on the option (shared with C16). C20.compress-api: Compress/Decompress exist with the signatures the converter layer uses in the analysed build configuration (the thorough tier also loads the datadog build).",
		NotDecided: "the zstd frame format and cross-decoder compatibility (klauspost vs. libzstd), which are properties of the libraries' output bytes.",
		Rules: []rule{
			{"C20.names", "file names are <base>/<id[0:4]>/<id> + extension chosen by the Uncompressed option", 5, c20Names},
			{"C20.one-switch", "the Compressor layer is selected by the same option as the extension", 1, c20OneSwitch},
			{"C20.write-format", "the local store writes and reads through its own converters and names", 3, c20WriteFormat},
			{"C20.filters", "verify/prune extension filters follow the option", 5, c16FormatFilter},
			{"C20.prune-own-format", "prune removes objects named from the parsed id (the store's own format), only on a keep-set miss", 4, c16KeepSet},
			{"C20.raw-storage", "a chunk's stored bytes are passed on unconverted only where the converters match", 1, func(c *Ctx) { c.rawStorageGuarded() }},
			{"C20.converters-equal", "Converters.equal answers true only for lists of equal length (it licenses passing stored bytes on)", 2, c14ConvertersEqual},
			{"C20.compress-api", "Compress/Decompress present with the expected signatures", 2, c20CompressAPI},
			{"C20.pooled-memory", "nothing taken from a sync.Pool and given back by a function leaves that function (compressed output is the chunk's own memory)", 1, func(c *Ctx) { c.pooledMemoryEscapes() }},
			{"C20.verify-own-store", "local Verify and Prune read and remove chunks through the store they were called on (its names, its converters)", 2, c20VerifyOwnStore},
			{"C20.id-parse-exact", "a file name parses as a chunk id only if it is exactly 64 hex digits", 1, c20IDParseExact},
			{"C20.options-from-config", "every store built in cmd/desync gets its options (incl. the storage format) from the config entry of its location", 12, func(c *Ctx) { c.storeOptionsFromConfig() }},
		},
	})
}

// optionEdges returns the true-side and false-side edges of tests of StoreOptions.Uncompressed in f.
func optionEdges(f *ssa.Function) (unc, comp map[edge]bool) {
	unc, comp = map[edge]bool{}, map[edge]bool{}
	for _, b := range f.Blocks {
		iff := lastIf(b)
		if iff == nil || !onlyOrigins(stripNot(iff.Cond), func(o string) bool { return o == "field:StoreOptions.Uncompressed" }) {
			continue
		}
		if _, isBin := stripNot(iff.Cond).(*ssa.BinOp); isBin {
			continue
		}
		_, truth, _ := cmpOf(iff.Cond)
		t, fl := edge{b, b.Succs[0]}, edge{b, b.Succs[1]}
		if truth {
			unc[t], comp[fl] = true, true
		} else {
			unc[fl], comp[t] = true, true
		}
	}
	return
}

func c20Names(c *Ctx) {
	compExt, uncExt := c.constVal("CompressedChunkExt"), c.constVal("UncompressedChunkExt")
	c.verdict(compExt == `".cacnk"` && uncExt == `""`, "constants:extensions", token.NoPos, "CompressedChunkExt=\".cacnk\", UncompressedChunkExt=\"\"", fmt.Sprintf("chunk extension constants changed: %s / %s (casync uses .cacnk and no suffix)", compExt, uncExt))
	for _, key := range []string{"LocalStore.nameFromID", "S3Store.nameFromID", "GCStore.nameFromID", "SFTPStoreBase.nameFromID", "RemoteHTTP.nameFromID"} {
		fn := c.mustFn(key)
		if fn == nil {
			continue
		}
		var bad []string
		// id.String()
		strs := calls(fn, suffixed("desync.ChunkID).String"))
		if len(strs) == 0 {
			bad = append(bad, "the name is not built from id.String()")
		}
		// the 4-character prefix directory: a slice [0:4] of that string
		prefixOK := false
		instrs(fn, func(_ *ssa.BasicBlock, _ int, ins ssa.Instruction) {
			if sl, ok := ins.(*ssa.Slice); ok && hasOrigin(sl.X, func(o string) bool { return strings.HasSuffix(o, "desync.ChunkID).String#0") }) {
				lowOK := sl.Low == nil
				if k, ok := sl.Low.(*ssa.Const); ok && constInt64(k) == 0 {
					lowOK = true
				}
				if k, ok := sl.High.(*ssa.Const); ok && constInt64(k) == 4 && lowOK {
					prefixOK = true
				}
			}
		})
		if !prefixOK {
			bad = append(bad, "the directory is not the first four hex digits id[0:4]")
		}
		// extension appends
		unc, comp := optionEdges(fn)
		// the extension may be chosen first (a variable or a small helper) and appended once
		selectedVar := false
		instrs(fn, func(_ *ssa.BasicBlock, _ int, ins ssa.Instruction) {
			if bo, ok := ins.(*ssa.BinOp); ok && bo.Op == token.ADD && ins.Parent() == fn {
				if _, isConst := bo.Y.(*ssa.Const); !isConst && bo.Y.Type().String() == "string" {
					if ok, _ := extSelectedByOption(bo.Y, compExt, uncExt); ok {
						selectedVar = true
					}
				}
			}
		})
		if len(unc) == 0 && !selectedVar {
			bad = append(bad, "the extension does not depend on the Uncompressed option")
		}
		nComp := 0
		if selectedVar {
			nComp = 1
		}
		instrs(fn, func(b *ssa.BasicBlock, _ int, ins ssa.Instruction) {
			bo, ok := ins.(*ssa.BinOp)
			if !ok || bo.Op != token.ADD {
				return
			}
			k, ok := bo.Y.(*ssa.Const)
			if !ok || k.Value == nil {
				return
			}
			switch k.Value.ExactString() {
			case compExt:
				nComp++
				if reachable(fn, comp)[b] {
					bad = append(bad, "'.cacnk' is appended on a path that did not take the compressed side of the option")
				}
			case uncExt:
				if reachable(fn, unc)[b] {
					bad = append(bad, "the empty extension is appended on a path that did not take the uncompressed side of the option")
				}
			}
		})
		if nComp == 0 {
			bad = append(bad, "no '.cacnk' extension is appended")
		}
		// the full hex id follows the prefix: the result contains the id string twice (prefix + name)
		c.report(key+":layout", fn, bad, "<base>/<id[0:4]>/<id> + '.cacnk' iff !Uncompressed")
	}
}

func c20OneSwitch(c *Ctx) {
	fn := c.mustFn("StoreOptions.converters")
	if fn == nil {
		return
	}
	unc, comp := optionEdges(fn)
	n := 0
	var bad []string
	instrs(fn, func(b *ssa.BasicBlock, _ int, ins ssa.Instruction) {
		mi, ok := ins.(*ssa.MakeInterface)
		if !ok || typeName(mi.X.Type()) != "desync.Compressor" {
			return
		}
		n++
		if len(comp) == 0 || reachable(fn, comp)[b] {
			bad = append(bad, "the Compressor layer is added on a path that did not take the !Uncompressed side of the option")
		}
	})
	_ = unc
	if n == 0 {
		bad = append(bad, "converters() never adds the Compressor layer")
	}
	// the result on the uncompressed side has no layers: the only append is the Compressor one
	c.report("StoreOptions.converters:compressor-iff-compressed", fn, bad, "Compressor{} is added exactly on the !Uncompressed edge")
}

func c20WriteFormat(c *Ctx) {
	if fn := c.mustFn("LocalStore.StoreChunk"); fn != nil {
		n := 0
		for _, w := range calls(fn, suffixed("File).Write", "ioutil.WriteFile", "os.WriteFile")) {
			n++
			var data ssa.Value
			for _, a := range w.Common().Args {
				if s, ok := a.Type().Underlying().(*types.Slice); ok && types.Identical(s.Elem(), types.Typ[types.Byte]) {
					data = a
				}
			}
			if data == nil {
				continue
			}
			okAll := true
			why := ""
			for _, l := range leaves(data) {
				call, idx := callOf(l)
				if call != nil && callee(call) == "(desync.Converters).toStorage" && idx == 0 && hasOrigin(call.Call.Args[0], func(o string) bool { return o == "field:LocalStore.converters" }) {
					continue
				}
				// raw storage bytes only behind a converters-equal test
				if hasOrigin(l, func(o string) bool { return o == "field:Chunk.storage" }) {
					okG, _ := guarded(fn, w.(ssa.Instruction), func(iff *ssa.If) (bool, bool) {
						if cl, ok := stripNot(iff.Cond).(*ssa.Call); ok && callee(cl) == "(desync.Converters).equal" {
							_, truth, _ := cmpOf(iff.Cond)
							return truth, !truth
						}
						return false, false
					})
					if okG {
						continue
					}
				}
				okAll = false
				why = fmt.Sprint(origins(l))
			}
			c.verdict(okAll, "LocalStore.StoreChunk:written-bytes", w.Pos(), "the bytes written are s.converters.toStorage(chunk.Data())", "the bytes written to the store do not come from the store's own converters ("+why+"): a file's content can disagree with its extension")
		}
		if n == 0 {
			c.bad("LocalStore.StoreChunk:written-bytes", fn.Pos(), "StoreChunk writes nothing")
		}
	}
	if fn := c.mustFn("LocalStore.GetChunk"); fn != nil {
		for _, call := range calls(fn, named("desync.NewChunkFromStorage")) {
			a := call.Common().Args
			c.verdict(onlyOrigins(a[2], func(o string) bool { return o == "field:LocalStore.converters" }), "LocalStore.GetChunk:decodes-with-own-converters", call.Pos(), "chunks are decoded with the store's converters", "chunks are not decoded with the store's own converters")
		}
	}
	// all filesystem calls of the chunk methods use names from nameFromID
	for _, key := range []string{"LocalStore.GetChunk", "LocalStore.HasChunk", "LocalStore.RemoveChunk", "LocalStore.GetChunkSize"} {
		fn := c.mustFn(key)
		if fn == nil {
			continue
		}
		okAll, n := true, 0
		for _, call := range calls(fn, func(name string) bool { return strings.HasPrefix(name, "os.") || strings.HasPrefix(name, "io/ioutil.") }) {
			a := call.Common().Args
			if len(a) == 0 || !types.Identical(a[0].Type(), types.Typ[types.String]) {
				continue
			}
			n++
			if !onlyOrigins(a[0], func(o string) bool { return strings.HasSuffix(o, "LocalStore).nameFromID#1") }) {
				okAll = false
			}
		}
		c.verdict(okAll && n > 0, key+":path", fn.Pos(), "every file access uses the name computed by nameFromID", "a file is accessed under a name that does not come from nameFromID: the client could see the other format's files")
	}
}

func c20CompressAPI(c *Ctx) {
	for _, name := range []string{"Compress", "Decompress"} {
		obj, ok := c.Lib.Types.Scope().Lookup(name).(*types.Func)
		if !ok {
			c.bad(name+":signature", token.NoPos, "function %s is missing in this build configuration (%s)", name, c.Config)
			continue
		}
		sig := obj.Type().(*types.Signature)
		want := 1
		if name == "Decompress" {
			want = 2
		}
		okSig := sig.Params().Len() == want && sig.Results().Len() == 2 && isErrorType(sig.Results().At(1).Type())
		c.verdict(okSig, name+":signature", obj.Pos(), fmt.Sprintf("%s%s in %s", name, strings.TrimPrefix(sig.String(), "func"), c.Config), "unexpected signature "+sig.String())
	}
	// the shared zstd encoder/decoder are built without options: every option of the decoder
	// (WithDecoderMaxMemory, WithDecoderMaxWindow, ...) makes it refuse frames that are valid
	// zstd and that casync or an older desync wrote; encoder options change what others must accept.
	var fns []*ssa.Function
	fns = append(fns, c.libFuncs()...)
	if init := c.LibSSA.Func("init"); init != nil {
		dup := false
		for _, f := range fns {
			if f == init {
				dup = true
			}
		}
		if !dup {
			fns = append(fns, init)
		}
	}
	ctors := 0
	for _, fn := range fns {
		for _, call := range calls(fn, func(n string) bool {
			return strings.HasSuffix(n, "compress/zstd.NewReader") || strings.HasSuffix(n, "compress/zstd.NewWriter")
		}) {
			ctors++
			a := call.Common().Args
			opts := a[len(a)-1]
			k, isConst := opts.(*ssa.Const)
			c.verdict(isConst && k.Value == nil, "zstd:"+callee(call)+":options", call.Pos(), "constructed without options",
				callee(call)+" is given options: a limited or re-parameterised codec refuses or produces frames that the other implementations (casync, older desync, the datadog build) do not agree on")
		}
	}
	if strings.Contains(c.Config, "datadog") {
		return
	}
	if ctors < 2 {
		c.bad("zstd:constructors", token.NoPos, "found %d zstd constructor call(s), expected the shared encoder and decoder", ctors)
	}
}

// c20IDParseExact: the uncompressed chunk extension is the empty string, so in an uncompressed
// store the only thing that keeps "<id>.cacnk", temp files and foreign files out of Verify and
// Prune is that their names do not parse as a chunk id.  ChunkIDFromString must therefore accept
// exactly 64 hex digits: every nil-error return lies behind the equal edge of a comparison of the
// length of the whole input (64) or of its whole decoded form (32) - "at least 64, rest ignored"
// is not enough.
func c20IDParseExact(c *Ctx) {
	fn := c.mustFn("ChunkIDFromString")
	slice := c.mustFn("ChunkIDFromSlice")
	if fn == nil || slice == nil {
		return
	}
	param := fn.Params[0]
	wholeInput := func(st *State, v ssa.Value) (int64, bool) {
		// len(v) where v is the parameter (64) or hex.DecodeString(parameter) (32), possibly through
		// conversions and the parameter of the inlined ChunkIDFromSlice
		v = st.ArgOf(v)
		for _, l := range leaves(v) {
			l = st.ArgOf(l)
			if isParam(l, param) {
				return 64, true
			}
			if call, idx := callOf(l); call != nil && idx == 0 && callee(call) == "encoding/hex.DecodeString" {
				for _, a := range leaves(call.Call.Args[0]) {
					if isParam(st.ArgOf(a), param) {
						return 32, true
					}
				}
			}
		}
		return 0, false
	}
	var bad []string
	okPaths := 0
	h := &Hooks{MaxVisits: 2}
	h.Inline = func(st *State, call *ssa.Call) (*ssa.Function, bool) {
		if c.staticFn(call) == slice {
			return slice, false
		}
		return nil, false
	}
	h.Fork = func(st *State, call *ssa.Call) []map[int]Val {
		if strings.HasPrefix(callee(call), "encoding/hex.Decode") {
			ei := errResultIndex(call)
			return []map[int]Val{{ei: {N: NNil, Class: ClsNil}}, {ei: {N: NNon, Class: ClsOther}}}
		}
		return nil
	}
	h.Branch = func(st *State, iff *ssa.If, taken bool) {
		cm, truth, ok := cmpOf(iff.Cond)
		if !ok || (cm.op != token.EQL && cm.op != token.NEQ) {
			return
		}
		equal := (cm.op == token.EQL) == (taken == truth)
		if !equal {
			return
		}
		for _, pr := range [][2]ssa.Value{{cm.x, cm.y}, {cm.y, cm.x}} {
			lc := lenCallOf(pr[0])
			if lc == nil {
				continue
			}
			want, isWhole := wholeInput(st, lc.Call.Args[0])
			if !isWhole {
				continue
			}
			if k := st.Eval(pr[1]); k.Int != nil && *k.Int == want {
				st.Flags["exact"] = 1
			}
		}
	}
	h.Return = func(st *State, ret *ssa.Return, results []Val) {
		if len(results) != 2 || results[1].N != NNil {
			return
		}
		okPaths++
		if st.Flags["exact"] == 0 {
			bad = append(bad, fmt.Sprintf("return at %s accepts the input without having found its length equal to 64 hex digits (32 bytes) (trail %s)", c.pos(ret.Pos()), strings.Join(st.Trail, ">")))
		}
	}
	Explore(fn, fn.Blocks[0], 0, nil, NewState(), h)
	c.paths += h.Paths
	switch {
	case len(bad) > 0:
		c.bad("ChunkIDFromString:exact-length", fn.Pos(), "a name that merely starts with a chunk id parses as that id: %s; in an uncompressed store (extension \"\") Verify and Prune then treat <id>.cacnk and other foreign files as chunks", bad[0])
	case okPaths == 0:
		c.bad("ChunkIDFromString:exact-length", fn.Pos(), "no accepting path found")
	default:
		c.ok("ChunkIDFromString:exact-length", fn.Pos(), "%d accepting path(s), each behind len == 64 (or 32 decoded bytes)", okPaths)
	}
}

// c20VerifyOwnStore: Verify and Prune of the local store read and remove chunks through the
// store they were called on (or a store built from its options).  A second LocalStore built
// inside with other options - StoreOptions{} to "switch verification on" - is a compressed
// client whatever the receiver is: an uncompressed store's chunks are looked up under the wrong
// name, reported missing, and a .cacnk twin is verified (and with repair deleted) in their place.
func c20VerifyOwnStore(c *Ctx) {
	for _, key := range []string{"LocalStore.Verify", "LocalStore.Prune"} {
		fn := c.mustFn(key)
		if fn == nil {
			continue
		}
		n := 0
		seen := map[ssa.Instruction]bool{}
		for _, g := range withClosures(fn) {
			instrsAll(g, func(_ *ssa.BasicBlock, _ int, ins ssa.Instruction) {
				call, ok := ins.(*ssa.Call)
				if !ok || seen[ins] {
					return
				}
				seen[ins] = true
				name := callee(call)
				if name != "(desync.LocalStore).GetChunk" && name != "(desync.LocalStore).RemoveChunk" && name != "(desync.LocalStore).nameFromID" {
					return
				}
				n++
				recv := call.Call.Args[0]
				okR := true
				why := ""
				for _, l := range leaves(recv) {
					switch x := l.(type) {
					case *ssa.Parameter:
						if x != topOf(g).Params[0] {
							okR, why = false, "parameter "+x.Name()
						}
					case *ssa.FreeVar:
						// the captured receiver
						for _, cv := range captured(x) {
							for _, l2 := range leaves(cv) {
								if p, isP := l2.(*ssa.Parameter); !isP || p != fn.Params[0] {
									if cl, _ := callOf(l2); cl != nil && callee(cl) == "desync.NewLocalStore" && hasOrigin(cl.Call.Args[1], func(o string) bool { return o == "field:LocalStore.Opt" }) {
										continue
									}
									okR, why = false, fmt.Sprintf("captured value of origins %v", origins(cv))
								}
							}
						}
					default:
						if cl, _ := callOf(l); cl != nil && callee(cl) == "desync.NewLocalStore" {
							if !hasOrigin(cl.Call.Args[1], func(o string) bool { return o == "field:LocalStore.Opt" }) {
								okR, why = false, fmt.Sprintf("a LocalStore built with options of origins %v", origins(cl.Call.Args[1]))
							}
						} else {
							okR, why = false, fmt.Sprintf("%T", l)
						}
					}
				}
				c.verdict(okR, key+":own-store", ins.Pos(), "chunks are read and removed through the store the method was called on", "chunks are read or removed through "+why+", not through the store the method was called on: names and converters follow other options (an uncompressed store is treated as a compressed one)")
			})
		}
		if n == 0 {
			c.info(key+":own-store", fn.Pos(), "no chunk access through a LocalStore method")
		}
	}
}
