package main

import (
	"fmt"
	"go/token"
	"sort"
	"strings"

	"golang.org/x/tools/go/ssa"
)

func init() {
	register(&property{
		ID: "C08",
		Explanation: "C08.store-typestate: every path of LocalStore.StoreChunk that reaches os.Rename has created the temp file with tempfile.NewMode(<dir result of nameFromID>, tmpChunkPrefix, ..) in the directory of the final name, written the converted data with a nil error, closed the file and only then renamed tmp.Name() onto the final name; on a write error the temp file is removed and the error returned; the final name is used by no other call. " +
			"C08.sole-writer: across both packages a path obtained from LocalStore.nameFromID reaches only read-only calls (ReadFile, Stat, Remove, Open) and the one Rename. C08.prefix-agree: Prune removes files by the same tmpChunkPrefix constant StoreChunk creates them with, before any extension filter. " +
			"C08.extract: writeWithTmpFile renames only on the nil edge of the assembly, keeps the temp file in the destination directory and removes it on failure; AssembleFile never reports a cancellation as success (so a killed/interrupted extract is not renamed over the destination). C08.resume: writeChunk keeps an existing range only on the hash-equal edge (re-run in place does not refetch verified ranges and never keeps wrong ones).",
		NotDecided: "kernel rename atomicity (assumed, POSIX), the tempfile package, power loss (the property speaks of process death: no fsync obligation), number of chunk requests of a re-run.",
		Rules: []rule{
			{"C08.store-typestate", "create temp in the final directory -> write ok -> close -> rename; write error removes the temp file", 3, c08Typestate},
			{"C08.sole-writer", "no other code writes to a chunk's final name", 5, c08SoleWriter},
			{"C08.prefix-agree", "prune removes abandoned temp files by the prefix StoreChunk uses, before the extension filter", 2, c08Prefix},
			{"C08.extract", "temp-file extract: rename only after successful assembly; cancellation is never success", 5, c08Extract},
			{"C08.in-place-by-flag-only", "the destination is assembled in place only when --in-place was given", 2, c08InPlaceByFlagOnly},
			{"C08.flag-defaults", "extract goes through a temp file unless --in-place is given", 1, func(c *Ctx) {
				c.flagDefaults(map[string]flagSpec{"in-place": {"false", "extractOptions.inPlace", 1}})
			}},
			{"C08.destination-uses", "in extract the destination name reaches only the seed readers and the two assembly paths", 4, c08DestinationUses},
			{"C08.commands-propagate", "an interrupted or failed assembly makes the extract helpers fail, so the temp file is never renamed into place (shared with C07)", 15, c07CommandsPropagate},
			{"C08.resume", "in-place re-run keeps only ranges that hash to their chunk id", 3, c01WriteChunk},
		},
	})
}

func c08Typestate(c *Ctx) {
	fn := c.mustFn("LocalStore.StoreChunk")
	if fn == nil {
		return
	}
	names := calls(fn, named("(desync.LocalStore).nameFromID"))
	if len(names) != 1 {
		c.bad("LocalStore.StoreChunk:names", fn.Pos(), "expected one nameFromID call, found %d", len(names))
		return
	}
	nameCall := names[0].(*ssa.Call)
	isDir := func(v ssa.Value) bool {
		for _, l := range leaves(v) {
			if cl, idx := callOf(l); cl != nameCall || idx != 0 {
				return false
			}
		}
		return len(leaves(v)) > 0
	}
	isFinal := func(v ssa.Value) bool {
		for _, l := range leaves(v) {
			if cl, idx := callOf(l); cl != nameCall || idx != 1 {
				return false
			}
		}
		return len(leaves(v)) > 0
	}
	isTmpName := func(v ssa.Value) bool {
		return hasOrigin(v, func(o string) bool {
			return strings.Contains(o, "tempfile.File).Name#0") || strings.Contains(o, "os.File).Name#0")
		})
	}
	prefix := c.constVal("tmpChunkPrefix")
	var bad []string
	renamed := 0
	h := &Hooks{}
	h.Fork = func(st *State, call *ssa.Call) []map[int]Val {
		n := callee(call)
		switch {
		case strings.HasSuffix(n, "tempfile.NewMode") || strings.HasSuffix(n, "tempfile.New") || n == "os.CreateTemp":
			a := call.Call.Args
			dirOK := isDir(a[0])
			preOK := onlyOrigins(a[1], func(o string) bool { return o == "const:"+prefix })
			label := "ok"
			if !dirOK {
				label = "other-dir"
			} else if !preOK {
				label = "other-prefix"
			}
			return []map[int]Val{{0: {N: NNon, Sym: "create:" + label}, 1: {N: NNil, Class: ClsNil}}, {1: {N: NNon, Class: ClsOther}}}
		case strings.HasSuffix(n, "File).Write"):
			dataOK := hasOrigin(call.Call.Args[1], func(o string) bool { return o == "call:(desync.Converters).toStorage#0" })
			label := "ok"
			if !dataOK {
				label = "ok-other-data"
			}
			return []map[int]Val{{1: {N: NNil, Class: ClsNil, Sym: "write:" + label}}, {1: {N: NNon, Class: ClsOther, Sym: "write:failed"}}}
		case n == "os.Rename":
			a := call.Call.Args
			label := "ok"
			if !isTmpName(a[0]) || !isFinal(a[1]) {
				label = "wrong-args"
			}
			return []map[int]Val{{0: {N: NNil, Class: ClsNil, Sym: "rename:" + label}}, {0: {N: NNon, Class: ClsOther, Sym: "rename:" + label}}}
		}
		return nil
	}
	h.Call = func(st *State, call *ssa.Call) map[int]Val {
		n := callee(call)
		switch {
		case strings.HasSuffix(n, "File).Close"):
			st.Emit("outcome:close", "x", call)
		case n == "os.Remove":
			if isTmpName(call.Call.Args[0]) {
				st.Emit("outcome:remove", "tmp", call)
			} else {
				st.Emit("outcome:remove", "other", call)
			}
		}
		return nil
	}
	h.Return = func(st *State, ret *ssa.Return, results []Val) {
		var word []string
		for _, e := range st.Events {
			if strings.HasPrefix(e.Kind, "outcome:") {
				word = append(word, strings.TrimPrefix(e.Kind, "outcome:")+"="+e.Arg)
			}
		}
		w := strings.Join(word, " ")
		if strings.Contains(w, "rename=") {
			renamed++
			if !strings.HasPrefix(w, "create=ok write=ok close=x rename=ok") {
				bad = append(bad, fmt.Sprintf("a path reaches os.Rename with the event order %q; required: create=ok write=ok close=x rename=ok (temp file in the final directory with the temp prefix, successful write of the converted data, close, then rename(temp, final))", w))
			}
			return
		}
		if strings.Contains(w, "write=failed") {
			if !strings.Contains(w, "remove=tmp") {
				bad = append(bad, fmt.Sprintf("after a failed write the temp file is not removed (%q)", w))
			}
			if results[0].N != NNon {
				bad = append(bad, fmt.Sprintf("a failed write is not reported (%q)", w))
			}
		}
		if results[0].N != NNon {
			// (paths through a successful rename returned above)
			bad = append(bad, fmt.Sprintf("StoreChunk can return nil without the chunk having been renamed into place (events %q, return at %s): an existing - possibly invalid - file under the chunk's name is left as it is, or nothing is stored", w, c.pos(ret.Pos())))
		}
	}
	Explore(fn, fn.Blocks[0], 0, nil, NewState(), h)
	c.paths += h.Paths
	if renamed == 0 {
		bad = append(bad, "no path reaches os.Rename: chunks are not put in place by rename")
	}
	c.report("LocalStore.StoreChunk:order", fn, bad, fmt.Sprintf("%d path(s), %d reach the rename, all as create->write ok->close->rename; write errors remove the temp file", h.Paths, renamed))
	// the final name is used by exactly one call: the rename
	uses := 0
	instrs(fn, func(_ *ssa.BasicBlock, _ int, ins ssa.Instruction) {
		ci, ok := ins.(ssa.CallInstruction)
		if !ok || ins == ssa.Instruction(nameCall) {
			return
		}
		if h := directCallee(ci); h != nil && newHelpers[h] {
			return // handed to a new helper: the uses inside it are looked at (its parameter resolves to the name)
		}
		for _, a := range ci.Common().Args {
			if isFinal(a) {
				uses++
				c.verdict(callee(ci) == "os.Rename", "LocalStore.StoreChunk:final-name-use", ins.Pos(), "the final chunk name is only the target of os.Rename", "the final chunk name is passed to "+callee(ci)+": a partially written file can become visible under a chunk name")
			}
		}
	})
	if uses == 0 {
		c.bad("LocalStore.StoreChunk:final-name-use", fn.Pos(), "the final chunk name is never used")
	}
	// errors of Data/toStorage/MkdirAll are returned
	sites, eb := errPropagates(c, fn, func(name string, _ *ssa.Call) bool {
		return name == "(*desync.Chunk).Data" || name == "(desync.Converters).toStorage" || name == "os.MkdirAll" || name == "os.Rename"
	}, errPropOpts{})
	if len(eb) > 0 {
		c.bad("LocalStore.StoreChunk:errors", fn.Pos(), "%s", eb[0])
	} else {
		c.ok("LocalStore.StoreChunk:errors", fn.Pos(), "%d fallible call site(s); failures are returned", sites)
	}
}

func c08SoleWriter(c *Ctx) {
	readOnly := map[string]bool{"io/ioutil.ReadFile": true, "os.ReadFile": true, "os.Stat": true, "os.Lstat": true, "os.Remove": true, "os.Open": true}
	n := 0
	for _, fn := range c.subjects() {
		for _, nc := range calls(fn, named("(desync.LocalStore).nameFromID", "(*desync.LocalStore).nameFromID")) {
			nameCall := nc.(*ssa.Call)
			instrs(fn, func(_ *ssa.BasicBlock, _ int, ins ssa.Instruction) {
				ci, ok := ins.(ssa.CallInstruction)
				if !ok || ins == ssa.Instruction(nameCall) {
					return
				}
				if h := directCallee(ci); h != nil && newHelpers[h] {
					return // the uses inside the new helper are looked at
				}
				for i, a := range ci.Common().Args {
					derived := false
					for _, l := range leaves(a) {
						if cl, idx := callOf(l); cl == nameCall && idx == 1 {
							derived = true
						}
					}
					if !derived {
						continue
					}
					n++
					name := callee(ci)
					key := fmt.Sprintf("%s:%s", fnKey(fn), name)
					switch {
					case readOnly[name]:
						c.ok(key, ins.Pos(), "final chunk name passed to read-only call")
					case name == "os.Rename" && i == 1 && fnKey(fn) == "LocalStore.StoreChunk":
						c.ok(key, ins.Pos(), "final chunk name is the rename target in StoreChunk")
					default:
						c.bad(key, ins.Pos(), "the final name of a chunk is passed to %s (argument %d): only StoreChunk's rename may create it", name, i)
					}
				}
			})
		}
	}
	if n == 0 {
		c.bad("LocalStore.nameFromID:uses", token.NoPos, "no use of LocalStore.nameFromID found")
	}
}

func c08Prefix(c *Ctx) {
	fn := c.fn("LocalStore.Prune")
	if fn == nil {
		c.bad("LocalStore.Prune:tmp-prefix", token.NoPos, "LocalStore.Prune not found")
		return
	}
	prefix := c.constVal("tmpChunkPrefix")
	// the writing side names its temp files with the prefix prune looks for
	if sc := c.mustFn("LocalStore.StoreChunk"); sc != nil {
		n := 0
		for _, mk := range callsAll(sc, func(name string) bool {
			return strings.HasSuffix(name, "tempfile.NewMode") || strings.HasSuffix(name, "tempfile.New") || name == "os.CreateTemp" || name == "io/ioutil.TempFile"
		}) {
			n++
			a := mk.Common().Args
			c.verdict(len(a) >= 2 && onlyOrigins(a[1], func(o string) bool { return o == "const:"+prefix }), "LocalStore.StoreChunk:tmp-prefix", mk.Pos(), "temp chunk files carry the prefix prune removes",
				"StoreChunk names its temp file with something else than tmpChunkPrefix: a temp file left by an interrupted write is not recognised by prune and stays in the store for ever")
		}
		if n == 0 {
			c.bad("LocalStore.StoreChunk:tmp-prefix", sc.Pos(), "StoreChunk creates no temp file")
		}
	}
	found := false
	for _, cl := range withClosures(fn) {
		for _, hp := range calls(cl, named("strings.HasPrefix")) {
			a := hp.Common().Args
			if !onlyOrigins(a[1], func(o string) bool { return o == "const:"+prefix }) {
				continue
			}
			found = true
			// the removal behind its true edge
			remOK := false
			for _, rm := range calls(cl, named("os.Remove")) {
				okG, _ := guarded(cl, rm.(ssa.Instruction), func(iff *ssa.If) (bool, bool) {
					if stripNot(iff.Cond) == ssa.Value(hp.(*ssa.Call)) {
						_, truth, _ := cmpOf(iff.Cond)
						return truth, !truth
					}
					return false, false
				})
				if okG && hasOrigin(rm.Common().Args[0], func(o string) bool { return o == "param:path" }) {
					remOK = true
				}
			}
			c.verdict(remOK, "LocalStore.Prune:tmp-remove", hp.Pos(), "files named with the temp prefix are removed", "files carrying the temp-chunk prefix are not removed by prune")
			// reachable without passing a has-suffix edge (temp files carry no chunk extension)
			// (the test may sit in a predicate helper: then its call sites are what has to be reached)
			var sitesOf func(at ssa.Instruction, depth int) []ssa.Instruction
			sitesOf = func(at ssa.Instruction, depth int) []ssa.Instruction {
				owner := at.Parent()
				if depth < 4 && newHelpers[owner] && owner.Parent() == nil && len(helperSites[owner]) > 0 {
					var out []ssa.Instruction
					for _, cs := range helperSites[owner] {
						out = append(out, sitesOf(cs, depth+1)...)
					}
					return out
				}
				return []ssa.Instruction{at}
			}
			before := true
			for _, site := range sitesOf(hp.(ssa.Instruction), 0) {
				suffixEdges := edgesWhere(site.Parent(), func(iff *ssa.If) (bool, bool) {
					call, ok := stripNot(iff.Cond).(*ssa.Call)
					if !ok || callee(call) != "strings.HasSuffix" {
						return false, false
					}
					_, truth, _ := cmpOf(iff.Cond)
					return truth, !truth
				})
				if !reachable(site.Parent(), suffixEdges)[site.Block()] {
					before = false
				}
			}
			c.verdict(before, "LocalStore.Prune:tmp-before-filter", hp.Pos(), "the temp-file test is reached before/independently of the chunk-extension filter",
				"the temp-file test lies behind the chunk-extension filter: abandoned .tmp-cacnk files (which carry no chunk extension) are never removed in compressed mode")
			// the tested name is the base name of the walked path
			c.verdict(hasOrigin(a[0], func(o string) bool { return o == "call:path/filepath.Base#0" || o == "param:path" }), "LocalStore.Prune:tmp-name", hp.Pos(), "the prefix is tested on the file's base name", "the temp prefix is not tested on the file's base name")
		}
	}
	if !found {
		c.bad("LocalStore.Prune:tmp-prefix", fn.Pos(), "prune does not test for the temp-chunk prefix %s that StoreChunk uses", prefix)
	}
}

func c08Extract(c *Ctx) {
	c07TmpRename(c)
	c.doneIsErrorFor("AssembleFile")
	// polling of ctx.Err() in AssembleFile must not end in success either
	saved := c.obs
	c.obs = nil
	c07ErrIsError(c)
	all := c.obs
	c.obs = saved
	for _, o := range all {
		if strings.HasPrefix(o.Construct, "AssembleFile") || strings.HasPrefix(o.Construct, "cmd.writeWithTmpFile") || strings.HasPrefix(o.Construct, "cmd.runExtract") {
			o.Rule = c.curRule
			c.obs = append(c.obs, o)
		}
	}
	// runExtract returns the error of writeWithTmpFile / writeInplace
	if fn := c.mustFn("cmd.runExtract"); fn != nil {
		sites, bad := errPropagates(c, fn, func(name string, _ *ssa.Call) bool {
			return name == "cmd.writeWithTmpFile" || name == "cmd.writeInplace"
		}, errPropOpts{})
		if len(bad) > 0 {
			c.bad("cmd.runExtract:errors", fn.Pos(), "%s", bad[0])
		} else {
			c.ok("cmd.runExtract:errors", fn.Pos(), "%d assembly call site(s); failures reach the CLI", sites)
		}
	}
}

// c08InPlaceByFlagOnly: the destination is written in place only when the user asked for it
// (--in-place); otherwise assembly goes to a temp file that is renamed.  The call of
// writeInplace lies behind the true edge of a test of opt.inPlace, and nothing but the flag
// parser writes that field.
func c08InPlaceByFlagOnly(c *Ctx) {
	fn := c.mustFn("cmd.runExtract")
	if fn == nil {
		return
	}
	isFlag := func(o string) bool { return o == "field:extractOptions.inPlace" }
	acc := func(iff *ssa.If) (bool, bool) {
		if !onlyOrigins(iff.Cond, isFlag) {
			return false, false
		}
		if u, ok := iff.Cond.(*ssa.UnOp); ok && u.Op == token.NOT {
			return false, true
		}
		return true, false
	}
	inPlaceFn := func(f *ssa.Function) bool {
		k := fnKey(f)
		return k == "cmd.writeInplace" || k == "AssembleFile"
	}
	sites := 0
	for _, call := range calls(fn, func(string) bool { return true }) {
		if call.Parent() != fn {
			continue
		}
		if f := call.Common().StaticCallee(); f != nil {
			if !inPlaceFn(f) {
				continue
			}
			sites++
			okG, _ := guarded(fn, call, acc)
			c.verdict(okG, "cmd.runExtract:writeInplace", call.Pos(), "in-place assembly only behind the true edge of opt.inPlace",
				"assembly directly into the destination is reachable without opt.inPlace being set: an interrupted extract leaves a partial file under the destination name")
			continue
		}
		if call.Common().IsInvoke() {
			continue
		}
		// a call through a function variable ("write := writeWithTmpFile; if opt.inPlace { write = AssembleFile }"):
		// the in-place alternative may only be chosen behind the flag
		for _, def := range funcValueDefs(call.Common().Value) {
			if def.fn == nil || !inPlaceFn(def.fn) {
				continue
			}
			sites++
			okSel := false
			if def.at != nil {
				okSel, _ = guarded(fn, def.at, acc)
			} else if def.in != nil {
				edges := acceptingEdgesDeep(fn, acc, 0)
				okSel = edges[*def.in] || !reachable(fn, edges)[def.in.from]
			}
			c.verdict(okSel, "cmd.runExtract:writeInplace", call.Pos(), "the in-place alternative of the assembly function is selected only behind opt.inPlace",
				"assembly directly into the destination can be selected without opt.inPlace being set: an interrupted extract leaves a partial file under the destination name")
		}
	}
	if sites == 0 {
		c.bad("cmd.runExtract:writeInplace", fn.Pos(), "no in-place assembly path found in runExtract")
	}
	stores := 0
	for _, f := range c.subjects() {
		instrs(f, func(_ *ssa.BasicBlock, _ int, ins ssa.Instruction) {
			st, ok := ins.(*ssa.Store)
			if !ok {
				return
			}
			if fa, ok := st.Addr.(*ssa.FieldAddr); ok && fieldOf(fa) == "extractOptions.inPlace" {
				stores++
				c.bad(fnKey(f)+":inPlace-store", st.Pos(), "opt.inPlace is assigned by the program (only the --in-place flag may set it): extraction may write directly into the destination although the user did not ask for it")
			}
		})
	}
	c.ok("extractOptions.inPlace:flag-only", 0, "%d program stores to opt.inPlace", stores)
}

// c08DestinationUses: who may touch the destination name in extract.  In runExtract the
// destination (args[1]) is handed only to the seed readers (which compare it), to writeInplace
// and to writeWithTmpFile, or to calls that cannot create or change a file (Stat/Lstat,
// filepath.*, path.*, string comparison).  Anything else (os.Create, os.OpenFile, os.Truncate,
// os.WriteFile, os.Remove ...) would make a file appear, change or vanish under the destination
// name outside the temp-file-then-rename protocol.
var c08DestinationAllowed = map[string]string{
	"cmd.readSeeds":        "skips a seed that is the destination itself (comparison only)",
	"cmd.readSeedDirs":     "skips index files describing the destination (comparison only)",
	"cmd.writeInplace":     "assembly in place, only behind --in-place (C08.in-place-by-flag-only)",
	"desync.AssembleFile":  "the in-place wrapper inlined: assembly in place, only behind --in-place (C08.in-place-by-flag-only)",
	"cmd.writeWithTmpFile": "assembly into a temp file that is renamed onto the destination",
	"os.Stat":              "read-only",
	"os.Lstat":             "read-only",
}

func c08DestinationUses(c *Ctx) {
	fn := c.mustFn("cmd.runExtract")
	if fn == nil {
		return
	}
	var args *ssa.Parameter
	for _, p := range fn.Params {
		if p.Name() == "args" || strings.HasPrefix(p.Type().String(), "[]string") {
			args = p
		}
	}
	if args == nil {
		c.bad("cmd.runExtract:destination", fn.Pos(), "no []string parameter found")
		return
	}
	// loads of args[1]
	isDest := func(v ssa.Value) bool {
		for _, l := range leaves(v) {
			u, ok := l.(*ssa.UnOp)
			if !ok || u.Op != token.MUL {
				continue
			}
			ia, ok := u.X.(*ssa.IndexAddr)
			if !ok || !isParam(ia.X, args) {
				continue
			}
			if k, ok := ia.Index.(*ssa.Const); ok && constInt64(k) == 1 {
				return true
			}
		}
		return false
	}
	uses := 0
	for _, f := range withClosures(fn) {
		instrs(f, func(_ *ssa.BasicBlock, _ int, ins ssa.Instruction) {
			ci, ok := ins.(ssa.CallInstruction)
			if !ok {
				return
			}
			for _, a := range ci.Common().Args {
				if a.Type().String() != "string" || !isDest(a) {
					continue
				}
				uses++
				name := callee(ci)
				if name == "" && !ci.Common().IsInvoke() {
					// call through a function variable: every function it can hold must be allowed
					var names []string
					allOK := true
					for _, def := range funcValueDefs(ci.Common().Value) {
						if def.fn == nil {
							allOK = false
							continue
						}
						n := "cmd." + strings.TrimPrefix(fnKey(def.fn), "cmd.")
						if def.fn.Pkg == c.LibSSA {
							n = "desync." + fnKey(def.fn)
						}
						names = append(names, n)
						if _, ok := c08DestinationAllowed[n]; !ok && n != "desync.AssembleFile" {
							allOK = false
						}
					}
					sort.Strings(names)
					key := "cmd.runExtract:destination->" + strings.Join(names, "|")
					c.verdict(allOK && len(names) > 0, key, ins.Pos(), "function variable holding only the two assembly paths (the in-place one is checked by C08.in-place-by-flag-only)",
						"the destination name is passed to a function variable that can hold something else than the two assembly paths")
					continue
				}
				key := "cmd.runExtract:destination->" + name
				why, ok := c08DestinationAllowed[name]
				switch {
				case ok:
					c.ok(key, ins.Pos(), "allowed: %s", why)
				case strings.HasPrefix(name, "path/filepath.") || strings.HasPrefix(name, "path.") || strings.HasPrefix(name, "strings.") || strings.HasPrefix(name, "fmt."):
					c.ok(key, ins.Pos(), "pure function of the name")
				default:
					c.bad(key, ins.Pos(), "the destination name is passed to %s before/outside the temp-file protocol: a file can be created, changed or removed under the destination name although the extract has not succeeded", name)
				}
			}
		})
	}
	if uses < 3 {
		c.bad("cmd.runExtract:destination", fn.Pos(), "only %d uses of the destination argument found", uses)
	}
	// inside the temp-file path the destination name is only looked at (directory, base name) and is
	// the target of the final rename: nothing may be created, truncated or removed under it
	tf := c.mustFn("cmd.writeWithTmpFile")
	if tf == nil {
		return
	}
	var nameParam *ssa.Parameter
	for _, p := range tf.Params {
		if p.Type().String() == "string" && nameParam == nil {
			nameParam = p
		}
	}
	if nameParam == nil {
		c.bad("cmd.writeWithTmpFile:destination", tf.Pos(), "no string parameter found")
		return
	}
	isName := func(v ssa.Value) bool {
		for _, l := range leaves(v) {
			if isParam(l, nameParam) {
				return true
			}
			if p, ok := l.(*ssa.Parameter); ok {
				for _, a := range boundArgs(p) {
					for _, l2 := range leaves(a) {
						if isParam(l2, nameParam) {
							return true
						}
					}
				}
			}
		}
		return false
	}
	renames := 0
	seenF := map[*ssa.Function]bool{}
	for _, f0 := range fnsDeep(tf) {
		for _, f := range withClosures(f0) {
			if seenF[f] {
				continue
			}
			seenF[f] = true
			for _, b := range f.Blocks {
				for _, ins := range b.Instrs {
					ci, ok := ins.(ssa.CallInstruction)
					if !ok {
						continue
					}
					for k, a := range ci.Common().Args {
						if a.Type().String() != "string" || !isName(a) {
							continue
						}
						name := callee(ci)
						key := "cmd.writeWithTmpFile:destination->" + name
						switch {
						case name == "os.Rename" && k == 1:
							renames++
							c.ok(key, ins.Pos(), "the destination is the target of the final rename")
						case strings.HasPrefix(name, "path/filepath.") || strings.HasPrefix(name, "path.") || strings.HasPrefix(name, "strings.") || strings.HasPrefix(name, "fmt."):
							c.ok(key, ins.Pos(), "pure function of the name")
						case directCallee(ci) != nil && newHelpers[directCallee(ci)]:
							// followed into the helper
						default:
							c.bad(key, ins.Pos(), "the destination name is passed to %s inside the temp-file path: the destination can be created, changed or removed before (or without) the atomic rename", name)
						}
					}
				}
			}
		}
	}
	if renames == 0 {
		c.bad("cmd.writeWithTmpFile:destination", tf.Pos(), "the destination is not the target of an os.Rename")
	}
}

// funcValueDefs lists what a function-typed value can be: for a phi each incoming function with its
// edge, for a local variable each stored function with its store.
type funcDef struct {
	fn *ssa.Function
	at ssa.Instruction // the store that assigns it (variable form)
	in *edge           // the phi edge that brings it
}

func funcValueDefs(v ssa.Value) []funcDef {
	var out []funcDef
	seen := map[ssa.Value]bool{}
	var walk func(v ssa.Value, in *edge, at ssa.Instruction, d int)
	walk = func(v ssa.Value, in *edge, at ssa.Instruction, d int) {
		if v == nil || seen[v] || d > 6 {
			return
		}
		seen[v] = true
		switch x := v.(type) {
		case *ssa.Function:
			out = append(out, funcDef{x, at, in})
		case *ssa.MakeClosure:
			if f, ok := x.Fn.(*ssa.Function); ok {
				out = append(out, funcDef{f, at, in})
			}
		case *ssa.ChangeType:
			walk(x.X, in, at, d+1)
		case *ssa.Phi:
			for k, e := range x.Edges {
				ed := edge{x.Block().Preds[k], x.Block()}
				walk(e, &ed, nil, d+1)
			}
		case *ssa.UnOp:
			if al, ok := x.X.(*ssa.Alloc); ok && x.Op == token.MUL {
				for _, st := range storesTo(al) {
					walk(st.Val, nil, st, d+1)
				}
				return
			}
			out = append(out, funcDef{nil, at, in})
		default:
			out = append(out, funcDef{nil, at, in})
		}
	}
	walk(v, nil, nil, 0)
	return out
}
