package main

import (
	"fmt"
	"go/token"
	"go/types"
	"strings"

	"golang.org/x/tools/go/ssa"
)

func init() {
	register(&property{
		ID: "C12",
		Explanation: "C12.publish-before-close: request.markDone stores data and err before close(done); request.wait receives from done before it loads them (the Go memory model then hands the result over). " +
			"C12.leader-path: in DedupQueue.GetChunk/HasChunk and WriteDedupQueue.StoreChunk every path on which loadOrStore answered 'not in flight' performs exactly one upstream call for the same id, exactly one markDone carrying that call's results (the chunk being written for StoreChunk), exactly one queue.delete(id) after the upstream call, and returns the upstream results; no path returns without markDone (lost wake-up) or without delete (result handed out for ever). " +
			"C12.follower-path: the in-flight branch waits and performs no upstream call. C12.map-lock: queue.requests only under queue.mu, lookup and insert of loadOrStore in one critical section, lock pairing. C12.write-first: WriteDedupQueue.GetChunk delegates to the read queue only on the not-in-flight edge of its lookup in the write queue.",
		NotDecided: "linearizability and 'at most one upstream request in flight' as temporal statements over interleavings; these rules decide the per-path protocol each caller follows.",
		Rules: []rule{
			{"C12.chunk-data-owned", "a chunk that a de-duplicated write publishes to overlapping readers is built from memory of its own (shared with C03)", 6, func(c *Ctx) { c.chunkDataOwned() }},
			{"C12.shared-request", "loadOrStore hands leader and followers the same request pointer that is kept in the map", 1, c12SharedRequest},
			{"C12.deferred-args", "no deferred call is handed an error variable that is assigned only after the defer statement", 1, func(c *Ctx) { c.deferredErrorArgs() }},
			{"C12.publish-before-close", "results are stored before close(done); wait receives before loading", 2, c12Publish},
			{"C12.leader-path", "leader: one upstream call, one markDone with its results, one delete, same results returned", 3, c12Leader},
			{"C12.follower-path", "follower: wait() only, no upstream call", 3, c12Follower},
			{"C12.wait-returns-result", "waiters receive exactly the published data and error", 1, c12WaitReturnsResult},
			{"C12.map-lock", "queue.requests guarded by queue.mu; loadOrStore atomic; lock pairing", 6, c12MapLock},
			{"C12.write-first", "reads consult the in-flight write queue first", 1, c12WriteFirst},
		},
	})
}

func c12Publish(c *Ctx) {
	// every close(done) is preceded (dominated) by the stores of data and err of that request, and
	// every load of data/err outside such a publishing sequence is preceded by a receive from done -
	// wherever these are written (helper methods or their call sites)
	closes, loads := 0, 0
	for _, fn := range c.Funcs {
		if fn.Pkg != c.LibSSA && topOf(fn).Pkg != c.LibSSA {
			continue
		}
		var cls, recvs, lds []ssa.Instruction
		stores := map[string][]ssa.Instruction{}
		own := func(ins ssa.Instruction) bool { return ins.Parent() == fn }
		instrs(fn, func(_ *ssa.BasicBlock, _ int, ins ssa.Instruction) {
			if !own(ins) {
				return
			}
			switch {
			case isCloseDone(ins):
				cls = append(cls, ins)
			case isRecvDone(ins):
				recvs = append(recvs, ins)
			case isResultLoad(ins):
				lds = append(lds, ins)
			}
			for f := range resultStores(ins) {
				stores[f] = append(stores[f], ins)
			}
		})
		for _, cl := range cls {
			closes++
			okP := true
			for _, f := range []string{"request.data", "request.err"} {
				dom := false
				for _, st := range stores[f] {
					if instrDominates(st, cl) {
						dom = true
					}
				}
				if !dom {
					okP = false
				}
			}
			c.verdict(okP, fnKey(fn)+":publish-order", cl.Pos(), "data and err are stored before close(done)", "close(done) is not preceded by the stores of both data and err: a waiter can wake up and read a result that is not there yet")
		}
		for _, l := range lds {
			loads++
			dom := false
			for _, r := range recvs {
				if instrDominates(r, l) {
					dom = true
				}
			}
			c.verdict(dom, fnKey(fn)+":wait-order", l.Pos(), "the receive from done precedes the load of the result", "the result of a request is read before (or without) receiving from done")
		}
	}
	if closes == 0 || loads == 0 {
		c.bad("request:hand-over", token.NoPos, "found %d close(done) and %d result loads: the hand-over of results to waiters is not recognised", closes, loads)
	}
}

type leaderSpec struct {
	key      string
	upstream string // callee of the upstream call
	queue    string // field of the queue used
	dataFrom string // "upstream" (result 0 of the upstream call) or "param" (the chunk parameter)
}

var c12Leaders = []leaderSpec{
	{"DedupQueue.GetChunk", "(desync.Store).GetChunk", "DedupQueue.getChunkQueue", "upstream"},
	{"DedupQueue.HasChunk", "(desync.Store).HasChunk", "DedupQueue.hasChunkQueue", "upstream"},
	{"WriteDedupQueue.StoreChunk", "(desync.WriteStore).StoreChunk", "WriteDedupQueue.storeChunkQueue", "param"},
}

func c12Leader(c *Ctx) {
	for _, sp := range c12Leaders {
		fn := c.mustFn(sp.key)
		if fn == nil {
			continue
		}
		var bad []string
		leaderPaths := 0
		h := &Hooks{
			Fork: func(st *State, call *ssa.Call) []map[int]Val {
				switch callee(call) {
				case "(*desync.queue).loadOrStore":
					return []map[int]Val{{0: {N: NNon}, 1: {B: BTrue, Sym: "in-flight"}}, {0: {N: NNon}, 1: {B: BFalse, Sym: "leader"}}}
				case sp.upstream:
					st.Emit("upstream", "", call)
					ei := errResultIndex(call)
					okv := map[int]Val{ei: {N: NNil, Class: ClsNil}}
					if ei > 0 {
						okv[0] = Val{N: NNon}
					}
					return []map[int]Val{okv, {ei: {N: NNon, Class: ClsOther}}}
				}
				return nil
			},
			Call: func(st *State, call *ssa.Call) map[int]Val {
				switch callee(call) {
				case "(*desync.request).markDone":
					st.Emit("markDone", "", call)
				case "(*desync.queue).delete":
					st.Emit("delete", "", call)
				case "(*desync.request).wait":
					st.Emit("wait", "", call)
				}
				if isCloseDone(call) { // markDone written out
					st.Emit("markDone", "", call)
				}
				return nil
			},
			Instr: func(st *State, ins ssa.Instruction) {
				if isRecvDone(ins) { // wait written out
					st.Emit("wait", "", ins)
				}
			},
			Deferred: func(st *State, d *ssa.Defer) {
				switch callee(d) {
				case "(*desync.request).markDone":
					st.Emit("markDone", "", d)
				case "(*desync.queue).delete":
					st.Emit("delete", "", d)
				}
			},
			Return: func(st *State, ret *ssa.Return, results []Val) {
				leader := false
				for _, v := range st.V {
					if v.Sym == "leader" && v.B == BFalse {
						leader = true
					}
				}
				if !leader {
					return
				}
				leaderPaths++
				word := st.Word()
				up, md, del := st.Count("upstream"), st.Count("markDone"), st.Count("delete")
				switch {
				case up != 1:
					bad = append(bad, fmt.Sprintf("leader path with %d upstream call(s) (events: %s), return at %s", up, word, c.pos(ret.Pos())))
				case md != 1:
					bad = append(bad, fmt.Sprintf("leader path with %d markDone call(s) (events: %s), return at %s: waiters of this request are never woken (lost wake-up) or woken twice", md, word, c.pos(ret.Pos())))
				case del != 1:
					bad = append(bad, fmt.Sprintf("leader path with %d queue.delete call(s) (events: %s), return at %s: the finished request stays in the queue and its result is handed out again", del, word, c.pos(ret.Pos())))
				default:
					// order: upstream first
					if st.Events[0].Kind != "upstream" && !(st.Events[0].Kind == "wait") {
						first := ""
						for _, e := range st.Events {
							if e.Kind == "upstream" || e.Kind == "markDone" || e.Kind == "delete" {
								first = e.Kind
								break
							}
						}
						if first != "upstream" {
							bad = append(bad, fmt.Sprintf("markDone/delete before the upstream call (events: %s)", word))
						}
					}
					// order: the record leaves the queue before the waiters are released.  With
					// markDone first a caller that starts after the upstream request has returned
					// (for instance a waiter that was just woken and asks again) still finds the
					// record and is handed a result produced before its call began.
					mi, di := -1, -1
					for i, e := range st.Events {
						if e.Kind == "markDone" && mi < 0 {
							mi = i
						}
						if e.Kind == "delete" && di < 0 {
							di = i
						}
					}
					if mi >= 0 && di >= 0 && mi < di {
						bad = append(bad, fmt.Sprintf("leader path publishes the result before the request is removed from the queue (events: %s), return at %s: a call that begins after the upstream request has returned can still join it and is handed its result", word, c.pos(ret.Pos())))
					}
				}
			},
		}
		Explore(fn, fn.Blocks[0], 0, nil, NewState(), h)
		c.paths += h.Paths
		// static argument checks
		var idParam, chunkParam *ssa.Parameter
		for _, p := range fn.Params {
			switch typeName(p.Type()) {
			case "desync.ChunkID":
				idParam = p
			case "desync.Chunk":
				chunkParam = p
			}
		}
		ups := callsAll(fn, named(sp.upstream))
		mds := publishSites(fn)
		dels := callsAll(fn, named("(*desync.queue).delete"))
		if len(ups) == 1 && len(mds) == 1 && len(dels) == 1 && mds[0].data != nil && mds[0].err != nil {
			up := ups[0].(*ssa.Call)
			ua := up.Call.Args[len(up.Call.Args)-1]
			if idParam != nil && !isParam(ua, idParam) {
				bad = append(bad, "the upstream call is not made for the requested id")
			}
			if chunkParam != nil && !isParam(ua, chunkParam) {
				bad = append(bad, "the upstream call does not store the given chunk")
			}
			ma := []ssa.Value{nil, mds[0].data, mds[0].err} // recv, data, err
			// "defer req.markDone(data, err)" evaluates data and err where the defer statement
			// stands, not when the function returns: before the upstream call that is (nil, nil)
			if d, isDefer := mds[0].at.(*ssa.Defer); isDefer && !instrDominates(up, d) {
				bad = append(bad, fmt.Sprintf("markDone is deferred at %s with its arguments evaluated before the upstream call at %s: waiters are handed the values the variables had then (a nil error), not the leader's result", c.pos(d.Pos()), c.pos(up.Pos())))
			}
			// err argument: the upstream error
			ei := errResultIndex(up)
			errOK := false
			for _, l := range leaves(ma[2]) {
				if cl, idx := callOf(l); cl == up && idx == ei {
					errOK = true
				}
			}
			if !errOK {
				bad = append(bad, "markDone does not publish the error of the upstream call")
			}
			dataOK := false
			for _, l := range leaves(ma[1]) {
				switch sp.dataFrom {
				case "upstream":
					if cl, idx := callOf(l); cl == up && idx == 0 {
						dataOK = true
					}
				case "param":
					if chunkParam != nil && l == ssa.Value(chunkParam) {
						dataOK = true
					}
				}
			}
			if !dataOK {
				bad = append(bad, fmt.Sprintf("markDone does not publish the %s result (data argument origins %v): waiters would get a different result than the leader", sp.dataFrom, origins(ma[1])))
			}
			// delete on the same queue and id as loadOrStore
			da := dels[0].Common().Args
			if !hasOrigin(da[0], func(o string) bool { return o == "field:"+sp.queue }) {
				bad = append(bad, "queue.delete is called on a different queue than loadOrStore")
			}
			idv := da[1]
			if ls := leaves(idv); len(ls) == 1 {
				idv = ls[0] // through the parameter of a new helper
			}
			if idParam != nil && !isParam(idv, idParam) {
				bad = append(bad, "queue.delete removes a different id than the one requested")
			}
			// returned values are the upstream results
			for _, r := range returnsOf(fn) {
				_ = r
			}
		} else if len(bad) == 0 {
			bad = append(bad, fmt.Sprintf("expected one upstream call, one markDone and one delete site, found %d/%d/%d", len(ups), len(mds), len(dels)))
		}
		switch {
		case len(bad) > 0:
			c.bad(sp.key+":leader", fn.Pos(), "%s", bad[0])
		case leaderPaths == 0:
			c.bad(sp.key+":leader", fn.Pos(), "no leader path found")
		default:
			c.ok(sp.key+":leader", fn.Pos(), "%d leader path(s): upstream(id) -> markDone(results) / delete(id) -> return", leaderPaths)
		}
	}
}

func c12Follower(c *Ctx) {
	for _, sp := range c12Leaders {
		fn := c.mustFn(sp.key)
		if fn == nil {
			continue
		}
		var bad []string
		followers := 0
		h := &Hooks{
			Fork: func(st *State, call *ssa.Call) []map[int]Val {
				if callee(call) == "(*desync.queue).loadOrStore" {
					return []map[int]Val{{0: {N: NNon}, 1: {B: BTrue, Sym: "in-flight"}}}
				}
				return nil
			},
			Call: func(st *State, call *ssa.Call) map[int]Val {
				n := callee(call)
				switch {
				case n == "(*desync.request).wait":
					st.Emit("wait", "", call)
				case n == sp.upstream:
					st.Emit("upstream", "", call)
				case n == "(*desync.request).markDone" || n == "(*desync.queue).delete":
					st.Emit("leader-op", "", call)
				}
				if isCloseDone(call) {
					st.Emit("leader-op", "", call)
				}
				return nil
			},
			Instr: func(st *State, ins ssa.Instruction) {
				if isRecvDone(ins) {
					st.Emit("wait", "", ins)
				}
			},
			// a deferred markDone/delete runs on the follower's return just the same
			Deferred: func(st *State, d *ssa.Defer) {
				if n := callee(d); n == "(*desync.request).markDone" || n == "(*desync.queue).delete" {
					st.Emit("leader-op", "", d)
				}
			},
			Return: func(st *State, ret *ssa.Return, results []Val) {
				followers++
				if st.Count("wait") != 1 || st.Has("upstream") || st.Has("leader-op") {
					bad = append(bad, fmt.Sprintf("in-flight branch with events %q: a follower must wait for the request in flight and do nothing else", st.Word()))
				}
			},
		}
		Explore(fn, fn.Blocks[0], 0, nil, NewState(), h)
		c.paths += h.Paths
		// the follower returns what wait() returned
		switch {
		case len(bad) > 0:
			c.bad(sp.key+":follower", fn.Pos(), "%s", bad[0])
		case followers == 0:
			c.bad(sp.key+":follower", fn.Pos(), "no in-flight path found")
		default:
			c.ok(sp.key+":follower", fn.Pos(), "%d in-flight path(s): wait() only", followers)
		}
	}
}

func c12MapLock(c *Ctx) {
	c.guardedBy(guardedField{"queue", "requests", "mu", "in-flight requests"}, nil)
	c.lockPairing("queue", "WriteDedupQueue", "DedupQueue")
	// loadOrStore: lookup and insert in one critical section
	if fn := c.mustFn("queue.loadOrStore"); fn != nil {
		var lookup, update ssa.Instruction
		var unlocks []ssa.Instruction
		instrs(fn, func(_ *ssa.BasicBlock, _ int, ins ssa.Instruction) {
			switch x := ins.(type) {
			case *ssa.Lookup:
				lookup = x
			case *ssa.MapUpdate:
				update = x
			case ssa.CallInstruction:
				if op, ok := lockOpOf(x); ok && !op.acquire {
					unlocks = append(unlocks, ins)
				}
			}
		})
		okA := lookup != nil && update != nil
		for _, u := range unlocks {
			if lookup != nil && update != nil && reachesInstr(lookup, u) && reachesInstr(u, update) {
				okA = false
			}
		}
		c.verdict(okA, "queue.loadOrStore:atomic", fn.Pos(), "lookup and insert happen in one critical section", "the mutex can be released between the lookup and the insert: two callers can both become leaders for the same id")
		// the inserted request is the one returned
	}
}

func c12WriteFirst(c *Ctx) {
	fn := c.mustFn("WriteDedupQueue.GetChunk")
	if fn == nil {
		return
	}
	n := 0
	for _, call := range calls(fn, suffixed("DedupQueue).GetChunk", "(desync.Store).GetChunk", "(desync.WriteStore).GetChunk")) {
		n++
		okG, _ := guarded(fn, call.(ssa.Instruction), func(iff *ssa.If) (bool, bool) {
			// commaok of the lookup in storeChunkQueue.requests
			ok := false
			for _, l := range leaves(stripNot(iff.Cond)) {
				if ex, isEx := l.(*ssa.Extract); isEx && ex.Index == 1 {
					if lk, isLk := ex.Tuple.(*ssa.Lookup); isLk && hasOrigin(lk.X, func(o string) bool { return o == "field:queue.requests" }) {
						ok = true
					}
				}
			}
			if !ok {
				return false, false
			}
			_, truth, _ := cmpOf(iff.Cond)
			return !truth, truth // accepted: not in flight
		})
		c.verdict(okG, "WriteDedupQueue.GetChunk:write-first", call.Pos(), "the read is delegated only when no write of the id is in flight", "the read goes upstream without consulting the in-flight write queue: a read overlapping a write may miss the chunk")
	}
	if n == 0 {
		c.bad("WriteDedupQueue.GetChunk:write-first", fn.Pos(), "no delegation found")
	}
	_ = strings.Contains
}

// Primitives of the request hand-over.  The rules accept them inside the helper methods
// (request.markDone / request.wait) or written out at the call sites.
func isCloseDone(ins ssa.Instruction) bool {
	x, ok := ins.(*ssa.Call)
	return ok && callee(x) == "builtin:close" && hasOrigin(x.Call.Args[0], func(o string) bool { return o == "field:request.done" })
}

func isRecvDone(ins ssa.Instruction) bool {
	u, ok := ins.(*ssa.UnOp)
	return ok && u.Op == token.ARROW && hasOrigin(u.X, func(o string) bool { return o == "field:request.done" })
}

// resultStores: the result fields an instruction writes, with the values written - a store to
// request.data or request.err, or a store of the whole nested struct the two were grouped into
// (request.outcome = requestOutcome{data: d, err: e}).
func resultStores(ins ssa.Instruction) map[string]ssa.Value {
	x, ok := ins.(*ssa.Store)
	if !ok {
		return nil
	}
	fa, ok := x.Addr.(*ssa.FieldAddr)
	if !ok {
		return nil
	}
	f := fieldOf(fa)
	if (f == "request.data" || f == "request.err") && inRequest(fa) {
		return map[string]ssa.Value{f: x.Val}
	}
	members, isGroup := fieldGroups[f]
	if !isGroup {
		return nil
	}
	out := map[string]ssa.Value{}
	for _, m := range members {
		if m == "request.data" || m == "request.err" {
			out[m] = nil
		}
	}
	// the composite literal the struct value is loaded from
	if ld, isLd := x.Val.(*ssa.UnOp); isLd && ld.Op == token.MUL {
		if lit, isAlloc := ld.X.(*ssa.Alloc); isAlloc && lit.Referrers() != nil {
			for _, ref := range *lit.Referrers() {
				if mfa, isFA := ref.(*ssa.FieldAddr); isFA && mfa.Referrers() != nil {
					for _, r2 := range *mfa.Referrers() {
						if st, isSt := r2.(*ssa.Store); isSt && st.Addr == mfa {
							if _, want := out[fieldOf(mfa)]; want {
								out[fieldOf(mfa)] = st.Val
							}
						}
					}
				}
			}
		}
	}
	if len(out) == 0 {
		return nil
	}
	return out
}

// inRequest: the field address lies in a request - directly, or in the nested struct of a
// request that groups the result fields (not in a free-standing value of that nested type, such
// as the composite literal about to be stored).
func inRequest(fa *ssa.FieldAddr) bool {
	pt, ok := fa.X.Type().Underlying().(*types.Pointer)
	if !ok {
		return false
	}
	if tn := typeName(pt.Elem()); tn == "desync.request" || strings.HasSuffix(tn, ".request") {
		return true
	}
	outer, ok := fa.X.(*ssa.FieldAddr)
	return ok && len(fieldGroups[fieldOf(outer)]) > 0
}

func isResultLoad(ins ssa.Instruction) bool {
	u, ok := ins.(*ssa.UnOp)
	if !ok || u.Op != token.MUL {
		return false
	}
	fa, ok := u.X.(*ssa.FieldAddr)
	if !ok {
		return false
	}
	f := fieldOf(fa)
	if f == "request.data" || f == "request.err" {
		return inRequest(fa)
	}
	for _, m := range fieldGroups[f] {
		if m == "request.data" || m == "request.err" {
			return true
		}
	}
	return false
}

// publishSite is one "publish the result and wake the waiters": a call of markDone(data, err) or
// the written-out stores of data and err followed by close(done).
type publishSite struct {
	at        ssa.Instruction
	data, err ssa.Value
}

func publishSites(fn *ssa.Function) []publishSite {
	var out []publishSite
	for _, call := range calls(fn, named("(*desync.request).markDone")) {
		a := call.Common().Args
		if len(a) == 3 {
			out = append(out, publishSite{call, a[1], a[2]})
		}
	}
	// markDone written out - in the function itself or in a new helper it calls ("queue.complete")
	deep := map[*ssa.Function]bool{}
	for _, g := range fnsDeep(fn) {
		deep[g] = true
	}
	instrsAll(fn, func(_ *ssa.BasicBlock, _ int, ins ssa.Instruction) {
		if !isCloseDone(ins) || !deep[ins.Parent()] {
			return
		}
		ps := publishSite{at: ins}
		instrsAll(fn, func(_ *ssa.BasicBlock, _ int, i2 ssa.Instruction) {
			if i2.Parent() != ins.Parent() || !instrDominates(i2, ins) {
				return
			}
			for f, v := range resultStores(i2) {
				if f == "request.data" {
					ps.data = v
				} else {
					ps.err = v
				}
			}
		})
		out = append(out, ps)
	})
	return out
}

// c12WaitReturnsResult: a waiter gets exactly what the leader published - wait() (or whatever
// receives from done and then hands the result on) returns the request's data and err fields as
// they are, on every path.  A "normalised" nil data next to an error breaks the HasChunk waiter,
// which converts the data without looking at the error first.
func c12WaitReturnsResult(c *Ctx) {
	n := 0
	for _, fn := range c.libFuncsAll() {
		if fn.Signature.Results().Len() != 2 {
			continue
		}
		recv := false
		for _, b := range fn.Blocks {
			for _, ins := range b.Instrs {
				if isRecvDone(ins) {
					recv = true
				}
			}
		}
		// only the function that hands the raw result on (interface{}, error)
		if !recv || !types.IsInterface(fn.Signature.Results().At(0).Type()) || !isErrorType(fn.Signature.Results().At(1).Type()) {
			continue
		}
		n++
		for _, r := range returnsOf(fn) {
			okD := onlyOrigins(unspill(r, r.Results[0]), func(o string) bool { return o == "field:request.data" })
			okE := onlyOrigins(unspill(r, r.Results[1]), func(o string) bool { return o == "field:request.err" })
			c.verdict(okD && okE, fnKey(fn)+":returns-published-result", r.Pos(), "the published data and err are returned as they are",
				fmt.Sprintf("the waiter's result is not the published one (data origins %v, err origins %v): waiters see something else than the leader returned", origins(r.Results[0]), origins(r.Results[1])))
		}
	}
	if n == 0 {
		c.info("request.wait", 0, "no function hands the raw (interface{}, error) result of a request on; waiters load the fields themselves (C12.publish-before-close)")
		c.ok("request.wait", 0, "no raw-result wrapper")
	}
}

// c12SharedRequest: de-duplication works because leader and followers hold the *same* request
// object: loadOrStore hands out either the pointer it found in the map or the pointer it has
// just put there.  A copy (a map of request values, "&local") still shares the done channel - so
// waiters wake up - but not the result fields: followers return (nil, nil).
func c12SharedRequest(c *Ctx) {
	fn := c.mustFn("queue.loadOrStore")
	if fn == nil {
		return
	}
	isReqMap := func(v ssa.Value) bool {
		return hasOrigin(v, func(o string) bool { return o == "field:queue.requests" })
	}
	var stored []ssa.Value
	instrsAll(fn, func(_ *ssa.BasicBlock, _ int, ins ssa.Instruction) {
		if mu, ok := ins.(*ssa.MapUpdate); ok && isReqMap(mu.Map) {
			stored = append(stored, mu.Value)
		}
	})
	n := 0
	for _, r := range returnsOf(fn) {
		if len(r.Results) == 0 {
			continue
		}
		n++
		v := unspill(r, r.Results[0])
		okAll := true
		why := ""
		if _, isPtr := v.Type().Underlying().(*types.Pointer); !isPtr {
			okAll, why = false, "the request is returned by value"
		}
		for _, l := range leaves(v) {
			found := false
			// (a) the value looked up in the map
			if ex, ok := l.(*ssa.Extract); ok {
				if lk, ok := ex.Tuple.(*ssa.Lookup); ok && isReqMap(lk.X) && ex.Index == 0 {
					found = true
				}
			}
			if lk, ok := l.(*ssa.Lookup); ok && isReqMap(lk.X) {
				found = true
			}
			// (b) the value put into the map
			for _, sv := range stored {
				for _, sl := range leaves(sv) {
					if sl == l {
						found = true
					}
				}
			}
			if !found {
				okAll = false
				if why == "" {
					why = "the returned request (" + l.String() + ") is neither the one found in the map nor the one stored there"
				}
			}
		}
		c.verdict(okAll, "queue.loadOrStore:same-request", r.Pos(), "leader and followers get the pointer that is in the map",
			why+": leader and followers hold different request objects, the result published by the leader never reaches the waiters (they return nil data and a nil error)")
	}
	if n == 0 {
		c.bad("queue.loadOrStore:same-request", fn.Pos(), "loadOrStore returns nothing")
	}
}
