package main

import (
	"fmt"
	"go/token"
	"sort"
	"strings"

	"golang.org/x/tools/go/ssa"
)

func init() {
	register(&property{
		ID: "C04",
		Explanation: "C04.funnel: every IndexStore.GetIndex (all implementers, enumerated from the type checker) returns the result of IndexFromReader and every IndexWriteStore.StoreIndex writes through Index.WriteTo of the index it was given; local files are created truncating (os.Create / O_TRUNC), so a shorter index never keeps the tail of a longer one. " +
			"C04.codec-agree: the ordered field sequence FormatEncoder.Encode writes for FormatIndex and FormatTable equals the sequence FormatDecoder.Next reads (extracted from the SSA of both); the index header is 6 words = 48 bytes and WriteTo declares Size 48; the table is written and expected with Size MaxUint64; the tail record has 5 words on both sides with the same marker constant, and the decoder rejects a non-zero fill word and a wrong marker. " +
			"C04.rejections: every nil-error return of IndexFromReader passed the digest-flag test matching Digest.Algorithm() and, for every table item, the compare(Size, ChunkSizeMax) on its not-greater edge; decoder errors are returned. " +
			"C04.offsets: IndexFromReader computes Start=lastOffset, Size=Offset-lastOffset (unsigned, unguarded so that a decreasing offset wraps and trips the max-size check), lastOffset=Offset; WriteTo accumulates offset+=Size and writes it with the chunk id. " +
			"C04.upload-body-fresh: the HTTP index store hands the retry loop a body function that builds a new reader from Index.WriteTo on every attempt (a reader created once is drained by the first attempt and a retried upload stores a truncated index).",
		NotDecided: "byte-identical re-encoding of casync-produced files; behaviour of the remote index stores; that ChunkSizeMax itself is sane.",
		Rules: []rule{
			{"C04.funnel", "all index stores decode through IndexFromReader and encode through Index.WriteTo; files are truncated", 12, c04Funnel},
			{"C04.codec-agree", "index header/table written and read as the same field sequence; sizes and tail marker agree", 6, c04Codec},
			{"C04.rejections", "IndexFromReader rejects a wrong digest flag and any chunk larger than the maximum", 3, c04Rejections},
			{"C04.digest-flag", "an index that is written records the digest in use, so that the same configuration reads it back (shared with C02/C05)", 3, c05DigestFlag},
			{"C04.max-size-boundary", "a chunk is rejected iff its size exceeds the declared maximum (partition point of the comparison)", 1, func(c *Ctx) {
				fn := c.mustFn("IndexFromReader")
				if fn == nil {
					return
				}
				// D = ChunkSizeMax - size, where size is the stored Size field or the difference
				// "this end offset - previous end offset" it was computed from
				match := func(atoms map[string]int) int {
					sign := atoms["FormatIndex.ChunkSizeMax"]
					if sign != 1 && sign != -1 {
						return 0
					}
					rest := map[string]int{}
					for a, n := range atoms {
						if a != "FormatIndex.ChunkSizeMax" {
							rest[a] = n * sign // normalised: rest should be -size
						}
					}
					if len(rest) == 1 && rest["[i]IndexChunk.Size"] == -1 {
						return sign
					}
					// the item may be addressed in place or through the range variable's copy
					for _, off := range []string{"[i]FormatTableItem.Offset", "FormatTableItem.Offset"} {
						if len(rest) == 2 && rest[off] == -1 {
							for a, n := range rest {
								if a != off && strings.HasPrefix(a, "phi(") && n == 1 {
									return sign
								}
							}
						}
					}
					return 0
				}
				c.boundaryRuleFn("IndexFromReader", "max-size", fnsDeep(fn), match, -1, 1, "reject iff Size > ChunkSizeMax; a chunk of exactly the maximum is legal")
			}},
			{"C04.offsets", "start/size <-> cumulative offsets are inverse linear maps", 4, c04Offsets},
			{"C04.upload-body-fresh", "an index upload that is retried sends the whole index again", 1, func(c *Ctx) {
				retryBodyFresh(c, func(k string) bool { return strings.Contains(k, "Index") })
			}},
			{"C04.exact-reads", "fixed-size fields are read completely (no direct Read in the decoding primitives; byte counts used)", 1, func(c *Ctx) { c.exactReads() }},
			{"C04.errors-not-dropped", "no error of the operations this property depends on is dropped", 1, func(c *Ctx) { c.errorsNotDropped("C04") }},
			{"C04.index-writes", "StoreIndex of every back end reports success only after its write primitives completed", 6, func(c *Ctx) { c.writePrimitives("C04") }},
			{"C04.outputs-truncated", "output files are created truncating (shared with C13/C05)", 10, func(c *Ctx) { c.outputsTruncated() }},
			{"C04.retried-reader-fresh", "a reader consumed inside a retry cycle is created inside it", 1, func(c *Ctx) { c.retriedReaderFresh() }},
		},
	})
}

func c04Funnel(c *Ctx) {
	getters := c.implementers("IndexStore")
	sort.Slice(getters, func(i, j int) bool { return getters[i].Obj().Name() < getters[j].Obj().Name() })
	seen := map[*ssa.Function]bool{}
	for _, t := range getters {
		fn := c.methodOf(t, "GetIndex")
		if fn == nil || seen[fn] || fn.Pkg != c.LibSSA {
			continue
		}
		seen[fn] = true
		okAll := true
		why := ""
		n := 0
		for _, r := range returnsOf(fn) {
			for _, l := range leaves(r.Results[0]) {
				if al, ok := l.(*ssa.Alloc); ok && isNamedResult(fn, al) && len(storesTo(al)) == 0 {
					continue // the zero-valued named result on error paths
				}
				if k, ok := l.(*ssa.Const); ok && k.Value == nil {
					continue
				}
				if u, ok := l.(*ssa.UnOp); ok {
					if al, isAlloc := u.X.(*ssa.Alloc); isAlloc && isNamedResult(fn, al) {
						continue // unset named result
					}
				}
				call, idx := callOf(l)
				if call != nil && idx == 0 && callee(call) == "desync.IndexFromReader" {
					n++
					continue
				}
				okAll = false
				why = l.String()
			}
		}
		c.verdict(okAll && n > 0, fnKey(fn)+":decodes-via-IndexFromReader", fn.Pos(), "the returned index is the result of IndexFromReader", "GetIndex returns an index that was not decoded (and validated) by IndexFromReader: "+why)
	}
	setters := c.implementers("IndexWriteStore")
	sort.Slice(setters, func(i, j int) bool { return setters[i].Obj().Name() < setters[j].Obj().Name() })
	seen = map[*ssa.Function]bool{}
	for _, t := range setters {
		fn := c.methodOf(t, "StoreIndex")
		if fn == nil || seen[fn] || fn.Pkg != c.LibSSA {
			continue
		}
		seen[fn] = true
		var idxParam *ssa.Parameter
		for _, p := range fn.Params {
			if typeName(p.Type()) == "desync.Index" {
				idxParam = p
			}
		}
		okW := false
		for _, f := range withClosures(fn) {
			for _, w := range calls(f, suffixed("desync.Index).WriteTo")) {
				recv := w.Common().Args[0]
				var cells []ssa.Value
				for _, l := range leaves(recv) {
					if l == ssa.Value(idxParam) {
						okW = true
					}
					cells = append(cells, l)
					work := []ssa.Value{l}
					for d := 0; d < 4 && len(work) > 0; d++ {
						var next []ssa.Value
						for _, x := range work {
							if fv, ok := x.(*ssa.FreeVar); ok {
								cs := captured(fv)
								cells = append(cells, cs...)
								next = append(next, cs...)
							}
						}
						work = next
					}
				}
				for _, l := range cells {
					if al, ok := l.(*ssa.Alloc); ok {
						for _, s := range storesTo(al) {
							if s.Val == ssa.Value(idxParam) {
								okW = true
							}
						}
					}
				}
			}
		}
		if !okW && idxParam != nil {
			okW = c04WritesIndex(fn, idxParam, 0)
		}
		c.verdict(okW, fnKey(fn)+":encodes-via-WriteTo", fn.Pos(), "the given index is written through Index.WriteTo", "StoreIndex does not write the given index through Index.WriteTo")
		// local files: truncating create
		for _, o := range calls(fn, named("os.OpenFile")) {
			flags := o.Common().Args[1]
			k, isK := flags.(*ssa.Const)
			trunc := isK && constInt64(k)&0x200 != 0 // O_TRUNC on linux
			c.verdict(trunc, fnKey(fn)+":truncates", o.Pos(), "the index file is opened with O_TRUNC", "the index file is opened for writing without O_TRUNC: overwriting a longer index leaves stale table items and an old tail record behind the new one")
		}
		for _, o := range calls(fn, named("os.Create")) {
			c.ok(fnKey(fn)+":truncates", o.Pos(), "os.Create truncates")
		}
	}
	// the CLI's index file writer
	if fn := c.fn("cmd.storeCaibxFile"); fn != nil {
		n := len(calls(fn, suffixed("IndexWriteStore).StoreIndex")))
		c.verdict(n > 0, "cmd.storeCaibxFile:store", fn.Pos(), "the CLI stores indexes through an IndexWriteStore", "the CLI writes index files without an IndexWriteStore")
	}
}

func c04Codec(c *Ctx) {
	c.codecAgree([]string{"FormatIndex"})
	t := c.codec()
	// table: loop part equal, 5 tail words written, 4 read after the loop's terminating read
	enc, dec := t.enc["FormatTable"], t.dec["FormatTable"]
	var encLoop, decLoop, encTail, decTail []string
	for _, x := range enc {
		if strings.HasPrefix(x, "loop:") {
			encLoop = append(encLoop, x)
		} else {
			encTail = append(encTail, x)
		}
	}
	for _, x := range dec {
		if strings.HasPrefix(x, "loop:") {
			decLoop = append(decLoop, x)
		} else {
			decTail = append(decTail, x)
		}
	}
	okLoop := strings.Join(encLoop, ",") == strings.Join(decLoop, ",") && len(encLoop) == 2
	c.verdict(okLoop, "FormatTable:items", t.encPos["FormatTable"], fmt.Sprintf("items written %v and read %v", encLoop, decLoop), fmt.Sprintf("table items are written as %v but read as %v", encLoop, decLoop))
	// encTail = Size Type + 5 tail words ; decTail = 4 words (the first zero ends the item loop)
	marker := c.constVal("CaFormatTableTailMarker")
	okTail := len(encTail) == 7 && len(decTail) == 4 && encTail[2] == "const:0" && encTail[3] == "const:0" && encTail[6] == "const:"+marker
	c.verdict(okTail, "FormatTable:tail", t.encPos["FormatTable"], "tail record: 0, 0, index offset, table size, marker - 5 words written, 1+4 read", fmt.Sprintf("the table tail record is written as %v but %d words are read after the terminating zero offset", encTail, len(decTail)))
	// the decoder rejects a non-zero fill and a wrong marker; expects Size MaxUint64
	if fn := c.mustFn("FormatDecoder.Next"); fn != nil {
		checks := map[string]bool{}
		var blocks []*ssa.BasicBlock
		for _, g := range fnsDeep(fn) {
			blocks = append(blocks, g.Blocks...)
		}
		for _, b := range blocks {
			iff := lastIf(b)
			if iff == nil {
				continue
			}
			cm, truth, ok := cmpOf(iff.Cond)
			if !ok || (cm.op != token.NEQ && cm.op != token.EQL) {
				continue
			}
			k, isK := cm.y.(*ssa.Const)
			if !isK || k.Value == nil {
				continue
			}
			neqOnTrue := (cm.op == token.NEQ) == truth
			to := b.Succs[1]
			if neqOnTrue {
				to = b.Succs[0]
			}
			g := b.Parent()
			fails := len(c.edgeMustFail(g, b, to, nil)) == 0
			if fails && g != fn {
				// the check sits in a new helper: its error must fail the decoder at every call site
				for _, cs := range helperSites[g] {
					site, isCall := cs.(*ssa.Call)
					if !isCall {
						fails = false
						continue
					}
					if _, badH := errPropagates(c, site.Parent(), func(_ string, call *ssa.Call) bool { return call == site }, errPropOpts{}); len(badH) > 0 {
						fails = false
					}
				}
			}
			fromRead := hasOrigin(cm.x, func(o string) bool { return o == "call:(desync.reader).ReadUint64#0" })
			switch {
			case k.Value.ExactString() == marker && fromRead && fails:
				checks["marker"] = true
			case k.Value.ExactString() == "18446744073709551615" && strings.HasSuffix(locKey(cm.x), ".Size") && fails:
				checks["maxsize"] = true
			}
		}
		c.verdict(checks["marker"], "FormatDecoder.Next:table-marker", fn.Pos(), "a wrong tail marker is rejected", "the decoder does not reject a table whose tail marker is wrong")
		c.verdict(checks["maxsize"], "FormatDecoder.Next:table-size", fn.Pos(), "a table whose size field is not MaxUint64 is rejected", "the decoder does not check the table's size field")
	}
	// WriteTo declares header size 48 and table size MaxUint64
	if fn := c.mustFn("Index.WriteTo"); fn != nil {
		sizes := map[string]bool{}
		instrs(fn, func(_ *ssa.BasicBlock, _ int, ins ssa.Instruction) {
			if st, ok := ins.(*ssa.Store); ok {
				if fa, ok := st.Addr.(*ssa.FieldAddr); ok && fieldOf(fa) == "FormatHeader.Size" {
					if k, ok := st.Val.(*ssa.Const); ok && k.Value != nil {
						sizes[k.Value.ExactString()] = true
					}
				}
			}
		})
		words := len(t.enc["FormatIndex"])
		c.verdict(sizes["48"] && words*8 == 48 && sizes["18446744073709551615"], "Index.WriteTo:declared-sizes", fn.Pos(), "index header declares 48 = 6 words x 8 bytes; table declares MaxUint64", fmt.Sprintf("declared sizes %v do not match the %d words the encoder writes for the index header / MaxUint64 for the table", keysOf(sizes), words))
	}
}

func c04Rejections(c *Ctx) {
	fn := c.mustFn("IndexFromReader")
	if fn == nil {
		return
	}
	// decoder errors are returned
	sites, bad := errPropagates(c, fn, func(name string, _ *ssa.Call) bool { return name == "(*desync.FormatDecoder).Next" }, errPropOpts{maxVisits: 3})
	if len(bad) > 0 || sites < 2 {
		c.bad("IndexFromReader:decoder-errors", fn.Pos(), "decoder errors are not returned (%d sites): %s", sites, first(bad))
	} else {
		c.ok("IndexFromReader:decoder-errors", fn.Pos(), "%d decoder calls; failures (truncated input) are returned", sites)
	}
	// max-size check in the item loop: every iteration passes the not-greater edge
	header, body, _ := loopOverLen(fn, func(os []string) bool { return len(os) == 1 && hasAll(os, "field:FormatTable.Items") })
	if header == nil {
		c.bad("IndexFromReader:item-loop", fn.Pos(), "no loop over all table items")
	} else {
		pass := edgesWhere(header.Parent(), func(iff *ssa.If) (bool, bool) {
			cm, truth, ok := cmpOf(iff.Cond)
			if !ok {
				return false, false
			}
			isSize := func(v ssa.Value) bool {
				return strings.HasSuffix(locKey(v), ".Size") || hasOrigin(v, func(o string) bool { return o == "binop:-" })
			}
			isMax := originHas("field:FormatIndex.ChunkSizeMax")
			var okOnOp bool
			switch {
			case cm.op == token.GTR && isSize(cm.x) && isMax(cm.y):
				okOnOp = false
			case cm.op == token.LEQ && isSize(cm.x) && isMax(cm.y):
				okOnOp = true
			case cm.op == token.LSS && isMax(cm.x) && isSize(cm.y):
				okOnOp = false
			case cm.op == token.GEQ && isMax(cm.x) && isSize(cm.y):
				okOnOp = true
			default:
				return false, false
			}
			onTrue := okOnOp == truth
			return onTrue, !onTrue
		})
		c.verdict(len(pass) > 0 && bodyMustPass(header, body, pass), "IndexFromReader:max-size", lastIf(header).Pos(), "every table item passes the Size <= ChunkSizeMax edge", "a table item can be accepted without its size having been compared with ChunkSizeMax: oversized chunks and decreasing offsets (which wrap) would be accepted")
		// the greater edge fails
		for e := range pass {
			iff := lastIf(e.from)
			other := e.from.Succs[0]
			if other == e.to {
				other = e.from.Succs[1]
			}
			bad := c.edgeMustFail(fn, e.from, other, nil)
			c.verdict(len(bad) == 0, "IndexFromReader:max-size-fails", iff.Pos(), "an oversized chunk is an error", "an oversized chunk does not make IndexFromReader fail: "+first(bad))
		}
	}
	// digest flag: explore with the algorithm compared against the two constants
	var bad2 []string
	okPaths := 0
	seenAlg := map[int]bool{}
	h := &Hooks{MaxVisits: 2}
	h.Fork = func(st *State, call *ssa.Call) []map[int]Val {
		if callee(call) == "(*desync.FormatDecoder).Next" {
			return []map[int]Val{{0: {N: NNon}, 1: {N: NNil, Class: ClsNil}}}
		}
		return nil
	}
	h.Branch = func(st *State, iff *ssa.If, taken bool) {
		cm, truth, ok := cmpOf(iff.Cond)
		if !ok || (cm.op != token.EQL && cm.op != token.NEQ) {
			return
		}
		equal := ((cm.op == token.EQL) == truth) == taken
		// algorithm tests
		if hasOrigin(cm.x, func(o string) bool { return o == "call:(desync.HashAlgorithm).Algorithm#0" }) {
			if k, ok := cm.y.(*ssa.Const); ok && k.Value != nil && equal {
				st.Flags["alg"] = int(constInt64(k))
			}
		}
		// flag & CaFormatSHA512256 == 0 / != 0
		if bo, ok := cm.x.(*ssa.BinOp); ok && bo.Op == token.AND && hasOrigin(bo.X, func(o string) bool { return o == "field:FormatIndex.FeatureFlags" }) {
			if k, ok := cm.y.(*ssa.Const); ok && k.Value != nil && constInt64(k) == 0 {
				if equal {
					st.Flags["bit"] = 1 // bit clear
				} else {
					st.Flags["bit"] = 2 // bit set
				}
			}
		}
	}
	h.Return = func(st *State, ret *ssa.Return, results []Val) {
		if results[1].N == NNon {
			return
		}
		okPaths++
		alg, bit := st.Flags["alg"], st.Flags["bit"]
		// crypto.SHA512_256 = 15, crypto.SHA256 = 5
		if (alg == 15 && bit == 2) || (alg == 5 && bit == 1) {
			seenAlg[alg] = true
		}
		switch alg {
		case 15:
			if bit != 2 {
				bad2 = append(bad2, "with SHA512/256 configured an index is accepted without its SHA512/256 flag having been found set")
			}
		case 5:
			if bit != 1 {
				bad2 = append(bad2, "with SHA256 configured an index is accepted without its SHA512/256 flag having been found clear")
			}
		}
	}
	Explore(fn, fn.Blocks[0], 0, nil, NewState(), h)
	c.paths += h.Paths
	if okPaths == 0 {
		bad2 = append(bad2, "no success path")
	}
	if !seenAlg[15] {
		bad2 = append(bad2, "no accepted path tests the SHA512/256 flag under the SHA512/256 digest")
	}
	if !seenAlg[5] {
		bad2 = append(bad2, "no accepted path tests the SHA512/256 flag under the SHA256 digest: a SHA512/256 index would be read with the wrong digest")
	}
	c.report("IndexFromReader:digest-flag", fn, bad2, fmt.Sprintf("%d success path(s); the digest flag agrees with Digest.Algorithm() on each", okPaths))
}

func c04Offsets(c *Ctx) {
	if fn := c.mustFn("IndexFromReader"); fn != nil {
		var start, size, last ssa.Value
		var lastPhi *ssa.Phi
		instrs(fn, func(_ *ssa.BasicBlock, _ int, ins ssa.Instruction) {
			if st, ok := ins.(*ssa.Store); ok {
				if fa, ok := st.Addr.(*ssa.FieldAddr); ok {
					switch fieldOf(fa) {
					case "IndexChunk.Start":
						start = st.Val
					case "IndexChunk.Size":
						size = st.Val
					}
				}
			}
		})
		isItemOffset0 := func(v ssa.Value) bool {
			return hasOrigin(v, func(o string) bool { return strings.HasSuffix(o, "field:FormatTableItem.Offset") })
		}
		// the running end offset, by role: the loop-carried value that starts at constant 0 and is
		// advanced to an item's Offset
		instrs(fn, func(_ *ssa.BasicBlock, _ int, ins ssa.Instruction) {
			p, ok := ins.(*ssa.Phi)
			if !ok {
				return
			}
			zero, adv := false, false
			for _, e := range p.Edges {
				if k, isK := e.(*ssa.Const); isK && k.Value != nil && k.Value.ExactString() == "0" {
					zero = true
				} else if isItemOffset0(e) {
					adv = true
				}
			}
			if zero && adv {
				lastPhi = p
			}
		})
		if lastPhi != nil {
			for _, e := range lastPhi.Edges {
				if _, isK := e.(*ssa.Const); !isK {
					last = e
				}
			}
		}
		isItemOffset := func(v ssa.Value) bool {
			return hasOrigin(v, func(o string) bool { return strings.HasSuffix(o, "field:FormatTableItem.Offset") })
		}
		okStart := start != nil && lastPhi != nil && stripSlices(start) == ssa.Value(lastPhi)
		c.verdict(okStart, "IndexFromReader:start", fn.Pos(), "Start = previous end offset", "a chunk's Start is not the previous item's end offset")
		okSize := false
		if bo, ok := size.(*ssa.BinOp); ok && bo.Op == token.SUB && isItemOffset(bo.X) && bo.Y == ssa.Value(lastPhi) {
			okSize = true
			// the subtraction must not be guarded away: its block is reached on every iteration
		}
		c.verdict(okSize, "IndexFromReader:size", fn.Pos(), "Size = Offset - previous end offset (unsigned)", "a chunk's Size is not Offset minus the previous end offset")
		c.verdict(last != nil && isItemOffset(last), "IndexFromReader:advance", fn.Pos(), "previous end offset = this item's Offset", "the running end offset is not advanced to the item's Offset")
		// the size store happens in every iteration (not behind a comparison of the offsets): its block
		// is the loop body entry or dominated only by loop-structure tests
		if size != nil {
			if ins, ok := size.(ssa.Instruction); ok {
				hdr, body, _ := loopOverLen(fn, func(os []string) bool { return hasAll(os, "field:FormatTable.Items") })
				guardedAway := hdr != nil && body != nil && ins.Block() != body && !ins.Block().Dominates(body) && !body.Dominates(ins.Block())
				unconditional := hdr != nil && body != nil && (ins.Block() == body || onlyPathBlock(body, ins.Block()))
				c.verdict(unconditional && !guardedAway, "IndexFromReader:size-unconditional", ins.Pos(), "the size is computed for every item without a guard on the offsets (a decreasing offset wraps and trips the max-size check)",
					"the size computation is conditional on a comparison: a decreasing offset no longer wraps and a malformed table (decreasing offsets) is accepted with zero-size chunks")
			}
		}
	}
	if fn := c.mustFn("Index.WriteTo"); fn != nil {
		var offPhi *ssa.Phi
		instrs(fn, func(_ *ssa.BasicBlock, _ int, ins ssa.Instruction) {
			// the accumulator, by role: a loop-carried value one of whose edges adds a chunk's Size to it
			if p, ok := ins.(*ssa.Phi); ok {
				for _, e := range p.Edges {
					if bo, ok := e.(*ssa.BinOp); ok && bo.Op == token.ADD && bo.X == ssa.Value(p) && hasOrigin(bo.Y, func(o string) bool { return strings.HasSuffix(o, "field:IndexChunk.Size") }) {
						offPhi = p
					}
				}
			}
		})
		okAcc := false
		var acc ssa.Value
		if offPhi != nil {
			for _, e := range offPhi.Edges {
				if bo, ok := e.(*ssa.BinOp); ok && bo.Op == token.ADD && bo.X == ssa.Value(offPhi) && hasOrigin(bo.Y, func(o string) bool { return strings.HasSuffix(o, "field:IndexChunk.Size") }) {
					okAcc = true
					acc = bo
				}
			}
		}
		c.verdict(okAcc, "Index.WriteTo:accumulate", fn.Pos(), "offset += c.Size", "the written end offsets are not the running sum of the chunk sizes")
		okItem := false
		instrs(fn, func(_ *ssa.BasicBlock, _ int, ins ssa.Instruction) {
			if st, ok := ins.(*ssa.Store); ok {
				if fa, ok := st.Addr.(*ssa.FieldAddr); ok && fieldOf(fa) == "FormatTableItem.Offset" && acc != nil && st.Val == acc {
					okItem = true
				}
			}
		})
		c.verdict(okItem, "Index.WriteTo:item-offset", fn.Pos(), "each item carries the accumulated end offset", "table items do not carry the accumulated end offset")
	}
}

// onlyPathBlock: every path from 'from' reaches 'to' before leaving... approximated by dominance of
// 'to' over all successors' continuation: 'to' post-dominates 'from' within a straight chain.
func onlyPathBlock(from, to *ssa.BasicBlock) bool {
	b := from
	for i := 0; i < 8; i++ {
		if b == to {
			return true
		}
		if len(b.Succs) != 1 {
			return false
		}
		b = b.Succs[0]
	}
	return false
}

// isNamedResult reports whether the cell is the spilled named result of fn.
func isNamedResult(fn *ssa.Function, al *ssa.Alloc) bool {
	res := fn.Signature.Results()
	for i := 0; i < res.Len(); i++ {
		if n := res.At(i).Name(); n != "" && n == al.Comment {
			return true
		}
	}
	return false
}

// c04WritesIndex: fn (or a closure of it, or a new helper it hands the index to - also through
// "go helper(idx, w)") calls Index.WriteTo on the index value idx.
func c04WritesIndex(fn *ssa.Function, idx ssa.Value, depth int) bool {
	if depth > 3 {
		return false
	}
	var derives func(v ssa.Value, d int) bool
	derives = func(v ssa.Value, d int) bool {
		if d > 5 {
			return false
		}
		if v == idx {
			return true
		}
		switch x := v.(type) {
		case *ssa.Alloc:
			for _, st := range storesTo(x) {
				if derives(st.Val, d+1) {
					return true
				}
			}
			// a struct built around the index: a store to one of its fields
			if x.Referrers() != nil {
				for _, r := range *x.Referrers() {
					fa, ok := r.(*ssa.FieldAddr)
					if !ok || fa.Referrers() == nil {
						continue
					}
					for _, rr := range *fa.Referrers() {
						if st, ok := rr.(*ssa.Store); ok && st.Addr == ssa.Value(fa) && derives(st.Val, d+1) {
							return true
						}
					}
				}
			}
			return false
		case *ssa.FreeVar:
			for _, cv := range captured(x) {
				if derives(cv, d+1) {
					return true
				}
			}
			return false
		case *ssa.UnOp:
			if x.Op == token.MUL {
				return derives(x.X, d+1)
			}
		case *ssa.FieldAddr:
			return derives(x.X, d+1)
		case *ssa.Field:
			return derives(x.X, d+1)
		}
		for _, l := range leaves(v) {
			if l != v && derives(l, d+1) {
				return true
			}
		}
		return false
	}
	for _, f := range withClosures(fn) {
		for _, b := range f.Blocks {
			for _, ins := range b.Instrs {
				if mc, isMC := ins.(*ssa.MakeClosure); isMC {
					// a method value (or a new named function) bound to something that holds the index
					if h, _ := mc.Fn.(*ssa.Function); h != nil && h.Blocks != nil && h.Parent() == nil {
						for k, bnd := range mc.Bindings {
							if k < len(h.FreeVars) && derives(bnd, 0) && c04WritesIndex(h, h.FreeVars[k], depth+1) {
								return true
							}
						}
					}
					continue
				}
				ci, ok := ins.(ssa.CallInstruction)
				if !ok {
					continue
				}
				args := ci.Common().Args
				if strings.HasSuffix(callee(ci), "desync.Index).WriteTo") && len(args) > 0 && derives(args[0], 0) {
					return true
				}
				if h := directCallee(ci); h != nil && newHelpers[h] && h.Blocks != nil {
					for k, a := range args {
						if k < len(h.Params) && derives(a, 0) && c04WritesIndex(h, h.Params[k], depth+1) {
							return true
						}
					}
				}
			}
		}
	}
	return false
}
