package main

import (
	"fmt"
	"go/token"
	"go/types"
	"strings"

	"golang.org/x/tools/go/ssa"
)

func init() {
	register(&property{
		ID: "C15",
		Explanation: "C15.auth-dominates: in the ServeHTTP of every handler type embedding HTTPHandlerBase, each dispatch to a method of the handler and each call on a store interface is reachable only through the equal edge of the plain string comparison of r.Header.Get(\"Authorization\") with the authorization field, or the edge on which that field is empty (cut-set over the CFG). " +
			"C15.readonly: StoreChunk/StoreIndex and the reading of the request body are reachable only through the nil edge of validateWritable, which returns nil only on the writable edge. C15.put-verifies: the chunk stored is the result of NewChunkFromStorage(id from the path, body, converters, SkipVerifyWrite) and is stored only on that call's nil-error edge. " +
			"C15.confinement: the chunk handler dispatches only with the id returned by idFromPath on its nil-error edge; idFromPath succeeds only behind compare(path, path.Join(\"/\", sID[0:4], sID+ext)) and ChunkIDFromString; nameFromID of the local store builds names from the base directory, id.String() and constants; the index handler passes path.Base(r.URL.Path) and nothing else to the index store.",
		NotDecided: "TLS, header canonicalisation and path cleaning inside net/http, behaviour of the upstream stores.",
		Rules: []rule{
			{"C15.auth-dominates", "every dispatch/store call in ServeHTTP lies behind the exact Authorization comparison (or no value configured)", 6, c15Auth},
			{"C15.ctor-verifies", "the verifying constructor the PUT handler relies on returns a chunk only via skipVerify or hash-computed-and-equal (shared with C03)", 3, c03CtorVerifies},
			{"C15.readonly", "writes and body reads only where the writable switch was found set (inline or through a predicate wrapper)", 4, c15Readonly},
			{"C15.flag-defaults", "servers are read-only unless --writeable is given", 2, func(c *Ctx) {
				c.flagDefaults(map[string]flagSpec{"writeable": {"false", ".writable", 2}})
			}},
			{"C15.plumbing", "the --writeable and authorization options reach the handler fields that are tested", 8, c15Plumbing},
			{"C15.store-location", "the index server opens the slash-terminated store location in both modes", 2, c15StoreLocation},
			{"C15.effective-config-writes", "option fallbacks assigned to by-value parameters are read afterwards (no lost assignment)", 2, c15EffectiveWrites},
			{"C15.put-verifies", "uploaded chunk is built by the verifying constructor and stored only if that succeeded", 3, c15PutVerifies},
			{"C15.index-name-escaped", "an index name reaches the URL resolution of the HTTP index store only path-escaped", 2, c15IndexNameEscaped},
			{"C15.confinement", "only a parsed ChunkID / path.Base name reaches the store; file names are built from the id", 8, c15Confinement},
			{"C15.id-parse-exact", "a path element parses as a chunk id only if it is exactly 64 hex digits (shared with C16/C20)", 1, c20IDParseExact},
			{"C15.flag-owners", "the variables behind --writeable, --authorization and the verify switches are set by those flags only (shared with C03)", 8, func(c *Ctx) { c.flagOwners() }},
		},
	})
}

// handlerTypes returns the named struct types of the library that embed HTTPHandlerBase.
func (c *Ctx) handlerTypes() []*types.Named {
	var out []*types.Named
	sc := c.Lib.Types.Scope()
	for _, n := range sc.Names() {
		tn, ok := sc.Lookup(n).(*types.TypeName)
		if !ok {
			continue
		}
		nt, ok := tn.Type().(*types.Named)
		if !ok {
			continue
		}
		st, ok := nt.Underlying().(*types.Struct)
		if !ok {
			continue
		}
		for i := 0; i < st.NumFields(); i++ {
			f := st.Field(i)
			if f.Embedded() && typeName(f.Type()) == "desync.HTTPHandlerBase" {
				out = append(out, nt)
			}
		}
	}
	return out
}

func isStoreInvoke(ci ssa.CallInstruction) bool {
	cc := ci.Common()
	if !cc.IsInvoke() {
		return false
	}
	switch typeName(cc.Value.Type()) {
	case "desync.Store", "desync.WriteStore", "desync.IndexStore", "desync.IndexWriteStore", "desync.PruneStore":
		return cc.Method.Name() != "String"
	}
	return false
}

func authAccept(fn *ssa.Function) acceptFn {
	isHeader := func(v ssa.Value) bool {
		for _, l := range leaves(v) {
			call, _ := callOf(l)
			if call == nil || callee(call) != "(net/http.Header).Get" {
				return false
			}
			a := call.Call.Args
			if !onlyOrigins(a[len(a)-1], func(o string) bool { return o == `const:"Authorization"` }) {
				return false
			}
		}
		return len(leaves(v)) > 0
	}
	isField := func(v ssa.Value) bool {
		return onlyOrigins(v, func(o string) bool { return o == "field:HTTPHandlerBase.authorization" })
	}
	isEmpty := func(v ssa.Value) bool { return onlyOrigins(v, func(o string) bool { return o == `const:""` }) }
	return func(iff *ssa.If) (bool, bool) {
		if eqOnTrue, ok := equalEdge(iff, isHeader, isField); ok {
			return eqOnTrue, !eqOnTrue
		}
		if eqOnTrue, ok := equalEdge(iff, isField, isEmpty); ok {
			return eqOnTrue, !eqOnTrue
		}
		return false, false
	}
}

// comparesAuth reports whether fn holds the Authorization comparison.
func comparesAuth(fn *ssa.Function) bool {
	acc := authAccept(fn)
	for _, b := range fn.Blocks {
		if iff, ok := b.Instrs[len(b.Instrs)-1].(*ssa.If); ok {
			if t, f := acc(iff); t || f {
				return true
			}
		}
	}
	return false
}

func c15Auth(c *Ctx) {
	hts := c.handlerTypes()
	if len(hts) < 2 {
		c.bad("handlers", token.NoPos, "expected at least two handler types embedding HTTPHandlerBase, found %d", len(hts))
	}
	for _, t := range hts {
		fn := c.methodOf(t, "ServeHTTP")
		if fn == nil {
			c.bad(t.Obj().Name()+".ServeHTTP", token.NoPos, "handler type has no ServeHTTP of its own")
			continue
		}
		acc := authAccept(fn)
		n := 0
		instrs(fn, func(b *ssa.BasicBlock, _ int, ins ssa.Instruction) {
			ci, ok := ins.(ssa.CallInstruction)
			if !ok || ins.Parent() != fn {
				return
			}
			target := ""
			if cal := c.staticFn(ci); cal != nil && newHelpers[cal] && comparesAuth(cal) {
				return // the authorization wrapper itself (looked through by guarded)
			} else if cal != nil && cal.Signature.Recv() != nil && namedOf(cal.Signature.Recv().Type()) == t {
				target = "dispatch " + cal.Name()
			} else if isStoreInvoke(ci) {
				target = "store call " + ci.Common().Method.Name()
			}
			if target == "" {
				return
			}
			n++
			key := fmt.Sprintf("%s:%s", fnKey(fn), strings.ReplaceAll(target, " ", "-"))
			okG, ne := guarded(fn, ins, acc)
			if ne == 0 {
				c.bad(key, ins.Pos(), "%s is reachable without any comparison of the Authorization header with the configured value: the handler never looks at it", target)
				return
			}
			c.verdict(okG, key, ins.Pos(), fmt.Sprintf("%s only behind the exact Authorization comparison or the no-value edge (%d accepting edges)", target, ne),
				fmt.Sprintf("%s is reachable on a path that did not find the Authorization header equal (plain string comparison) to the configured value", target))
		})
		if n == 0 {
			c.bad(fnKey(fn)+":dispatch", fn.Pos(), "ServeHTTP dispatches to no handler method")
		}
	}
}

func c15Readonly(c *Ctx) {
	// The primitive: the writable field of the handler.  A write to the store or a read of the
	// request body lies behind the edge on which h.writable was found true - tested inline or
	// through a predicate wrapper (validateWritable() == nil); guarded() recognises both shapes.
	writableTrue := func(iff *ssa.If) (bool, bool) {
		if !onlyOrigins(stripNot(iff.Cond), func(o string) bool { return o == "field:HTTPHandlerBase.writable" }) {
			return false, false
		}
		if _, isBin := stripNot(iff.Cond).(*ssa.BinOp); isBin {
			return false, false
		}
		_, truth, _ := cmpOf(iff.Cond)
		return truth, !truth
	}
	n := 0
	for _, t := range c.handlerTypes() {
		for _, fn := range c.subjects() {
			if fn.Signature.Recv() == nil || namedOf(fn.Signature.Recv().Type()) != t {
				continue
			}
			instrs(fn, func(_ *ssa.BasicBlock, _ int, ins ssa.Instruction) {
				ci, ok := ins.(ssa.CallInstruction)
				if !ok {
					return
				}
				what := ""
				if ci.Common().IsInvoke() {
					switch ci.Common().Method.Name() {
					case "StoreChunk", "StoreIndex", "RemoveChunk", "Prune":
						what = "write " + ci.Common().Method.Name()
					}
				}
				// reading the request body
				for _, a := range ci.Common().Args {
					if hasOrigin(a, func(o string) bool { return o == "field:Request.Body" }) {
						what = "body read via " + callee(ci)
					}
				}
				if what == "" {
					return
				}
				n++
				key := fmt.Sprintf("%s:%s", fnKey(fn), strings.ReplaceAll(what, " ", "-"))
				okG, _ := guarded(fn, ins, writableTrue)
				c.verdict(okG, key, ins.Pos(), what+" only where the handler was found writable", what+" is reachable although the writable switch of the handler was not found set: a read-only server would modify its store (or read the body)")
			})
		}
	}
	if n < 4 {
		c.bad("readonly", token.NoPos, "found %d store writes / body reads in the handlers, expected at least 4", n)
	}
}

func c15PutVerifies(c *Ctx) {
	fn := c.mustFn("HTTPHandler.put")
	if fn == nil {
		return
	}
	var idParam *ssa.Parameter
	for _, p := range fn.Params {
		if typeName(p.Type()) == "desync.ChunkID" {
			idParam = p
		}
	}
	n := 0
	for _, ci := range calls(fn, suffixed(").StoreChunk")) {
		n++
		arg := ci.Common().Args[len(ci.Common().Args)-1]
		fromCtor := onlyOrigins(arg, func(o string) bool { return o == "call:desync.NewChunkFromStorage#0" })
		c.verdict(fromCtor, "HTTPHandler.put:stored-chunk", ci.Pos(), "the stored chunk is the result of NewChunkFromStorage", fmt.Sprintf("the stored chunk does not come from the verifying constructor (origins %v)", origins(arg)))
		okG, _ := guarded(fn, ci.(ssa.Instruction), nilEdgeOf(func(o string) bool { return o == "call:desync.NewChunkFromStorage#1" }))
		c.verdict(okG, "HTTPHandler.put:store-after-verify", ci.Pos(), "StoreChunk only on the nil-error edge of the verifying constructor", "StoreChunk is reachable although building/verifying the uploaded chunk failed")
	}
	for _, ci := range calls(fn, named("desync.NewChunkFromStorage")) {
		a := ci.Common().Args
		idOK := idParam != nil && isParam(a[0], idParam)
		bodyOK := hasOrigin(a[1], func(o string) bool { return strings.Contains(o, "bytes.Buffer).Bytes#0") })
		c.verdict(idOK && bodyOK, "HTTPHandler.put:ctor-args", ci.Pos(), "NewChunkFromStorage(id from the request path, request body, ...)", "the uploaded chunk is not verified against the id of the request path")
		// the skip argument is the configured switch (or false): with a constant true the
		// constructor records the requested id as already calculated, and any later
		// chunk.ID() != id comparison compares the id with itself
		if len(a) >= 4 {
			skipOK := onlyOrigins(a[3], func(o string) bool {
				return o == "field:HTTPHandler.SkipVerifyWrite" || o == "const:false"
			})
			c.verdict(skipOK, "HTTPHandler.put:ctor-skip", ci.Pos(), "verification is skipped only as configured by SkipVerifyWrite", fmt.Sprintf("the uploaded chunk is built with verification skipped by %v, not by the SkipVerifyWrite setting: content that does not match the id is stored under it", origins(a[3])))
		}
	}
	if n == 0 {
		c.bad("HTTPHandler.put:stored-chunk", fn.Pos(), "put stores nothing")
	}
}

func c15Confinement(c *Ctx) {
	// chunk handler: dispatch only with idFromPath's id on its nil edge
	if fn := c.mustFn("HTTPHandler.ServeHTTP"); fn != nil {
		instrs(fn, func(_ *ssa.BasicBlock, _ int, ins ssa.Instruction) {
			ci, ok := ins.(ssa.CallInstruction)
			if !ok {
				return
			}
			cal := c.staticFn(ci)
			if cal == nil || cal.Signature.Recv() == nil || typeName(cal.Signature.Recv().Type()) != "desync.HTTPHandler" || fnKey(cal) == "HTTPHandler.idFromPath" {
				return
			}
			key := "HTTPHandler.ServeHTTP:" + cal.Name()
			var idArg ssa.Value
			for _, a := range ci.Common().Args {
				if typeName(a.Type()) == "desync.ChunkID" {
					idArg = a
				}
			}
			if idArg == nil {
				c.bad(key, ins.Pos(), "dispatch without a ChunkID")
				return
			}
			idOK := onlyOrigins(idArg, func(o string) bool { return o == "call:(desync.HTTPHandler).idFromPath#0" })
			okG, _ := guarded(fn, ins, nilEdgeOf(func(o string) bool { return o == "call:(desync.HTTPHandler).idFromPath#1" }))
			c.verdict(idOK && okG, key, ins.Pos(), "dispatched with the id parsed by idFromPath, on its nil-error edge", "the handler is dispatched with an id that did not come from a successful idFromPath")
		})
		for _, ci := range calls(fn, named("(desync.HTTPHandler).idFromPath")) {
			a := ci.Common().Args
			// the path argument (the string one, wherever it stands)
			okArg := false
			for _, x := range a {
				if x.Type().String() == "string" && onlyOrigins(x, func(o string) bool { return o == "field:URL.Path" }) {
					okArg = true
				}
			}
			c.verdict(okArg, "HTTPHandler.ServeHTTP:idFromPath-arg", ci.Pos(), "idFromPath(r.URL.Path)", "idFromPath is not given r.URL.Path")
		}
	}
	// idFromPath: success only behind compare(p, path.Join(...)) and through ChunkIDFromString
	if fn := c.mustFn("HTTPHandler.idFromPath"); fn != nil {
		var pParam *ssa.Parameter
		for _, p := range fn.Params {
			if p.Name() == "p" || types.Identical(p.Type(), types.Typ[types.String]) {
				pParam = p
			}
		}
		n := 0
		for _, r := range returnsOf(fn) {
			if len(r.Results) != 2 {
				continue
			}
			// error returns built from errors.New / fmt.Errorf are rejections
			if constructedNonNil(unspill(r, r.Results[1]), r.Block(), 0) {
				continue
			}
			n++
			fromParser := onlyOrigins(r.Results[0], func(o string) bool { return o == "call:desync.ChunkIDFromString#0" })
			okG, _ := guarded(fn, r, func(iff *ssa.If) (bool, bool) {
				eqOnTrue, ok := equalEdge(iff, func(v ssa.Value) bool { return pParam != nil && isParam(v, pParam) }, originHas("call:path.Join#0"))
				if !ok {
					return false, false
				}
				return eqOnTrue, !eqOnTrue
			})
			c.verdict(fromParser && okG, "HTTPHandler.idFromPath:accept", r.Pos(), "an id is returned only from ChunkIDFromString and behind path == path.Join(\"/\", prefix, id+ext)",
				"idFromPath can accept a request path without having compared it with the canonical /<prefix>/<id><ext> form (or returns an id that was not parsed)")
		}
		if n == 0 {
			c.bad("HTTPHandler.idFromPath:accept", fn.Pos(), "no accepting return")
		}
		// the canonical form is built from the parsed string itself
		for _, j := range calls(fn, named("path.Join")) {
			okJ := true
			// variadic args are stored into an array; look at the stores
			if sl, ok := j.Common().Args[0].(*ssa.Slice); ok {
				if al, ok := sl.X.(*ssa.Alloc); ok {
					for _, ref := range *al.Referrers() {
						if ia, ok := ref.(*ssa.IndexAddr); ok {
							for _, r2 := range *ia.Referrers() {
								if st, ok := r2.(*ssa.Store); ok {
									for _, o := range origins(st.Val) {
										if !(strings.HasPrefix(o, "const:") || strings.HasPrefix(o, "binop:") || strings.Contains(o, "strings.TrimSuffix") || o == "subslice") {
											okJ = false
										}
									}
								}
							}
						}
					}
				}
			}
			c.verdict(okJ, "HTTPHandler.idFromPath:canonical", j.Pos(), "the canonical path is built from constants and the id string", "the canonical path contains request-controlled parts other than the id string")
		}
	}
	// LocalStore.nameFromID: name from base + id.String() + constants
	if fn := c.mustFn("LocalStore.nameFromID"); fn != nil {
		okN := true
		why := ""
		for _, j := range calls(fn, named("path/filepath.Join")) {
			if sl, ok := j.Common().Args[0].(*ssa.Slice); ok {
				if al, ok := sl.X.(*ssa.Alloc); ok {
					for _, ref := range *al.Referrers() {
						if ia, ok := ref.(*ssa.IndexAddr); ok {
							for _, r2 := range *ia.Referrers() {
								if st, ok := r2.(*ssa.Store); ok {
									for _, o := range origins(st.Val) {
										if !(strings.HasPrefix(o, "const:") || strings.HasPrefix(o, "binop:") || o == "field:LocalStore.Base" || strings.Contains(o, "desync.ChunkID).String#0") || o == "subslice" || o == "call:path/filepath.Join#0") {
											okN = false
											why = o
										}
									}
								}
							}
						}
					}
				}
			}
		}
		c.verdict(okN, "LocalStore.nameFromID:components", fn.Pos(), "file names are joined from the base directory, id.String() and constants", "a file name component comes from "+why)
	}
	// index handler
	if fn := c.mustFn("HTTPIndexHandler.ServeHTTP"); fn != nil {
		instrs(fn, func(_ *ssa.BasicBlock, _ int, ins ssa.Instruction) {
			ci, ok := ins.(ssa.CallInstruction)
			if !ok {
				return
			}
			cal := c.staticFn(ci)
			if cal == nil || cal.Signature.Recv() == nil || typeName(cal.Signature.Recv().Type()) != "desync.HTTPIndexHandler" {
				return
			}
			for _, a := range ci.Common().Args {
				if !types.Identical(a.Type(), types.Typ[types.String]) {
					continue
				}
				okB := onlyOrigins(a, func(o string) bool { return o == "call:path.Base#0" })
				c.verdict(okB, "HTTPIndexHandler.ServeHTTP:"+cal.Name(), ins.Pos(), "dispatched with path.Base(r.URL.Path)", fmt.Sprintf("the index name handed to %s is not reduced to its base name (origins %v): a crafted path can name files outside the store", cal.Name(), origins(a)))
			}
		})
		for _, b := range calls(fn, named("path.Base")) {
			c.verdict(onlyOrigins(b.Common().Args[0], func(o string) bool { return o == "field:URL.Path" }), "HTTPIndexHandler.ServeHTTP:base-arg", b.Pos(), "path.Base(r.URL.Path)", "path.Base is not applied to r.URL.Path")
		}
	}
	// in the index handler's methods the store is called with the name parameter only
	for _, key := range []string{"HTTPIndexHandler.get", "HTTPIndexHandler.head", "HTTPIndexHandler.put"} {
		fn := c.mustFn(key)
		if fn == nil {
			continue
		}
		instrs(fn, func(_ *ssa.BasicBlock, _ int, ins ssa.Instruction) {
			ci, ok := ins.(ssa.CallInstruction)
			if !ok || !isStoreInvoke(ci) {
				return
			}
			for _, a := range ci.Common().Args {
				if types.Identical(a.Type(), types.Typ[types.String]) {
					c.verdict(onlyOrigins(a, func(o string) bool { return o == "param:indexName" }), key+":store-name", ins.Pos(), "the store is called with the base name it was given", fmt.Sprintf("the store is called with a name of origins %v", origins(a)))
				}
			}
		})
	}
}

// c15Plumbing: the switches reach the handler.  The commands pass opt.writable and opt.auth (and
// nothing else) to the handler constructors, and the constructors store these parameters in
// HTTPHandlerBase.writable / .authorization - the fields the ServeHTTP rules test.
func c15Plumbing(c *Ctx) {
	n := 0
	for _, fn := range c.subjects() {
		for _, call := range calls(fn, named("desync.NewHTTPHandler", "desync.NewHTTPIndexHandler")) {
			n++
			a := call.Common().Args
			w, auth := a[1], a[len(a)-1]
			key := fnKey(fn) + ":" + callee(call)
			okW := onlyOrigins(w, func(o string) bool { return strings.HasPrefix(o, "field:") && strings.HasSuffix(o, ".writable") })
			c.verdict(okW, key+":writable", call.Pos(), "the writable argument is the --writeable option", fmt.Sprintf("the writable argument of the handler does not come from the --writeable option only (origins %v): the server may accept uploads although started read-only", origins(w)))
			if callee(call) == "desync.NewHTTPHandler" && len(a) >= 5 {
				sv := a[2]
				okS := onlyOrigins(sv, func(o string) bool { return strings.HasPrefix(o, "field:") && strings.HasSuffix(o, ".skipVerifyWrite") })
				c.verdict(okS, key+":skip-verify-write", call.Pos(), "the skipVerifyWrite argument is the --skip-verify-write option", fmt.Sprintf("the skipVerifyWrite argument of the chunk handler does not come from --skip-verify-write (origins %v): asking for verified writes has no effect, a damaged upload is stored under the requested id", origins(sv)))
			}
			okA := hasOrigin(auth, func(o string) bool { return strings.HasPrefix(o, "field:") && strings.HasSuffix(o, ".auth") })
			c.verdict(okA, key+":auth", call.Pos(), "the authorization argument is the configured token", fmt.Sprintf("the authorization argument of the handler is not the configured token (origins %v): the server would accept requests without it", origins(auth)))
		}
	}
	for _, key := range []string{"NewHTTPHandler", "NewHTTPIndexHandler"} {
		fn := c.mustFn(key)
		if fn == nil {
			continue
		}
		// by position, as at the call sites: (store, writable, ..., auth)
		var pw, pa *ssa.Parameter
		if len(fn.Params) >= 3 {
			pw, pa = fn.Params[1], fn.Params[len(fn.Params)-1]
		}
		seen := map[string]bool{}
		instrs(fn, func(_ *ssa.BasicBlock, _ int, ins ssa.Instruction) {
			st, ok := ins.(*ssa.Store)
			if !ok {
				return
			}
			fa, ok := st.Addr.(*ssa.FieldAddr)
			if !ok {
				return
			}
			switch fieldOf(fa) {
			case "HTTPHandlerBase.writable":
				seen["writable"] = true
				c.verdict(pw != nil && isParam(st.Val, pw), key+":writable-field", st.Pos(), "HTTPHandlerBase.writable <- parameter writable", "HTTPHandlerBase.writable is not filled from the writable parameter")
			case "HTTPHandlerBase.authorization":
				seen["auth"] = true
				c.verdict(pa != nil && isParam(st.Val, pa), key+":authorization-field", st.Pos(), "HTTPHandlerBase.authorization <- parameter auth", "HTTPHandlerBase.authorization is not filled from the auth parameter")
			}
		})
		if !seen["writable"] || !seen["auth"] {
			c.bad(key+":fields", fn.Pos(), "the constructor does not set HTTPHandlerBase.writable and .authorization (set: %v)", seen)
		}
	}
	if n < 2 {
		c.bad("plumbing", token.NoPos, "found %d handler constructions in the commands, expected 2", n)
	}
}

// c15StoreLocation: the index server opens the store at the normalised location (with the
// trailing "/": without it the location parser takes the last path element for a file name and
// the server serves the parent directory).  Both branches (read-only, writable) get the same value
// and that value is the result of the "append / unless present" normalisation.
func c15StoreLocation(c *Ctx) {
	fn := c.mustFn("cmd.runIndexServer")
	if fn == nil {
		return
	}
	opens := calls(fn, named("cmd.writableIndexStore", "cmd.indexStoreFromLocation"))
	if len(opens) < 2 {
		c.bad("cmd.runIndexServer:store-location", fn.Pos(), "expected the read-only and the writable store constructor, found %d", len(opens))
		return
	}
	var first ssa.Value
	for _, o := range opens {
		a := o.Common().Args[0]
		_ = first
		norm := false
		for _, org := range origins(a) {
			if org == "binop:+" {
				norm = true
			}
		}
		// the concatenation appends the constant "/"
		slash := false
		var walk func(v ssa.Value, d int)
		walk = func(v ssa.Value, d int) {
			if d > 6 {
				return
			}
			switch x := v.(type) {
			case *ssa.Phi:
				for _, e := range x.Edges {
					walk(e, d+1)
				}
			case *ssa.BinOp:
				if k, ok := x.Y.(*ssa.Const); ok && x.Op == token.ADD && k.Value != nil && k.Value.ExactString() == `"/"` {
					slash = true
				}
			}
		}
		walk(a, 0)
		c.verdict(norm && slash, "cmd.runIndexServer:"+callee(o)+":location", o.Pos(), "opened at the location normalised with a trailing slash",
			fmt.Sprintf("the store constructor is not given the slash-terminated location (origins %v): without the trailing slash the last path element is parsed as a file name and the server reads and writes index files in the parent directory of the configured store", origins(a)))
	}
}

// c15EffectiveWrites: an assignment to a field of a by-value receiver or parameter that is not
// read afterwards is lost when the function returns (the caller's copy is unchanged).  In the
// command package this is how a configuration fallback (authorization from DESYNC_HTTP_AUTH)
// silently stops having an effect.
func c15EffectiveWrites(c *Ctx) {
	n := 0
	for _, fn := range c.subjects() {
		if fn.Blocks == nil {
			continue
		}
		// cells holding by-value struct parameters
		cells := map[*ssa.Alloc]*ssa.Parameter{}
		for _, p := range fn.Params {
			if _, isStruct := p.Type().Underlying().(*types.Struct); !isStruct || p.Referrers() == nil {
				continue
			}
			for _, r := range *p.Referrers() {
				if st, ok := r.(*ssa.Store); ok && st.Val == p {
					if al, ok := st.Addr.(*ssa.Alloc); ok {
						cells[al] = p
					}
				}
			}
		}
		if len(cells) == 0 {
			continue
		}
		rootCell := func(v ssa.Value) *ssa.Alloc {
			for {
				switch x := v.(type) {
				case *ssa.FieldAddr:
					v = x.X
				case *ssa.Alloc:
					return x
				default:
					return nil
				}
			}
		}
		instrs(fn, func(b *ssa.BasicBlock, i int, ins ssa.Instruction) {
			st, ok := ins.(*ssa.Store)
			if !ok {
				return
			}
			fa, ok := st.Addr.(*ssa.FieldAddr)
			if !ok {
				return
			}
			cell := rootCell(fa)
			if cell == nil || cells[cell] == nil {
				return
			}
			if cell.Heap && escapesToClosure(cell) {
				return // captured by a closure: read later elsewhere
			}
			n++
			// is the cell (or anything inside it) read after the store?
			read := false
			after := reachableFrom(b, nil)
			instrs(fn, func(b2 *ssa.BasicBlock, j int, in2 ssa.Instruction) {
				if read {
					return
				}
				if b2 == b && j <= i && !after[b] {
					return
				}
				if b2 != b && !after[b2] {
					return
				}
				if b2 == b && j <= i && !inLoop(b) {
					return
				}
				switch x := in2.(type) {
				case *ssa.UnOp:
					if x.Op == token.MUL && rootCell(x.X) == cell {
						read = true
					}
				case ssa.CallInstruction:
					for _, a := range x.Common().Args {
						if rootCell(a) == cell {
							read = true // address handed to a callee
						}
					}
				}
			})
			c.verdict(read, fmt.Sprintf("%s:%s", fnKey(fn), fieldOf(fa)), st.Pos(), "the assigned field of the by-value parameter is read afterwards",
				fmt.Sprintf("the assignment to %s of by-value parameter %s is never read afterwards: the function works on a copy, the caller's value is unchanged and the assignment has no effect (a configuration fallback such as the authorization token from the environment is silently lost)", fieldOf(fa), cells[cell].Name()))
		})
	}
	c.ok("effective-writes", token.NoPos, "%d assignment(s) to fields of by-value parameters in the command package, all read afterwards", n)
}

func escapesToClosure(al *ssa.Alloc) bool {
	if al.Referrers() == nil {
		return false
	}
	for _, r := range *al.Referrers() {
		if _, ok := r.(*ssa.MakeClosure); ok {
			return true
		}
	}
	return false
}

// c15IndexNameEscaped: the HTTP index store resolves object names against the store location
// with url.Parse.  An index name is a single path element chosen by someone else (the base name
// of a request to an index server): handed to Parse as it is, "%2e%2e%2f.." addresses the parent
// of the store on the upstream (with the store's credentials), "a:b" is a scheme, "a?b" a query.
// Every name RemoteHTTPIndex hands to GetObject/StoreObject passed url.PathEscape.
func c15IndexNameEscaped(c *Ctx) {
	n := 0
	for _, fn := range c.libFuncsAll() {
		if !strings.HasPrefix(fnKey(topOf(fn)), "RemoteHTTPIndex.") {
			continue
		}
		for _, cs := range calls(fn, suffixed("RemoteHTTPBase).GetObject", "RemoteHTTPBase).StoreObject")) {
			if cs.Parent() != fn {
				continue
			}
			n++
			a := cs.Common().Args
			name := a[1]
			var escaped func(v ssa.Value, depth int) bool
			escaped = func(v ssa.Value, depth int) bool {
				if depth > 6 {
					return false
				}
				switch x := v.(type) {
				case *ssa.Call:
					if callee(x) == "net/url.PathEscape" {
						return true
					}
					if g := x.Call.StaticCallee(); g != nil && len(g.Blocks) > 0 && g.Pkg == c.LibSSA {
						rs := returnsOf(g)
						for _, r := range rs {
							if len(r.Results) == 0 || !escaped(r.Results[0], depth+1) {
								return false
							}
						}
						return len(rs) > 0
					}
				case *ssa.BinOp:
					// "./" + escaped: a constant part does not undo the escaping
					if x.Op == token.ADD {
						_, kx := x.X.(*ssa.Const)
						_, ky := x.Y.(*ssa.Const)
						return (kx || escaped(x.X, depth+1)) && (ky || escaped(x.Y, depth+1)) && !(kx && ky)
					}
				case *ssa.Phi:
					for _, e := range x.Edges {
						if !escaped(e, depth+1) {
							return false
						}
					}
					return len(x.Edges) > 0
				}
				return false
			}
			okE := escaped(name, 0)
			c.verdict(okE, fnKey(fn)+":"+callee(cs)+":name-escaped", cs.Pos(), "the index name is path-escaped before it is resolved against the store location",
				"the index name is handed to the URL resolution as it is: a name such as %2e%2e%2fprivate%2fx (the base name of a request to an index server in front of this store) is resolved to ../private/x on the upstream, for GET and PUT")
		}
	}
	if n == 0 {
		c.bad("RemoteHTTPIndex:name-escaped", token.NoPos, "RemoteHTTPIndex no longer goes through GetObject/StoreObject")
	}
}
